"""C06 — loops emit the last / all iteration values in iteration order, for any count."""
from __future__ import annotations

import argparse
import asyncio
import itertools
import json
import os
import random
from typing import Any

from streamflow.core.workflow import Status, Token
from streamflow.cwl.step import CWLLoopConditionalStep, CWLLoopOutputAllStep, CWLLoopOutputLastStep
from streamflow.cwl.transformer import ForwardTransformer
from streamflow.workflow.combinator import LoopCombinator, LoopTerminationCombinator
from streamflow.workflow.executor import StreamFlowExecutor
from streamflow.workflow.step import CombinatorStep, LoopCombinatorStep, Transformer
from streamflow.workflow.token import IterationTerminationToken, ListToken, TerminationToken

from sfv.framework import Ctx, Property
from sfv.rt import stepdrive as sd
from sfv.rt.loop_safe import run_controlled
from sfv.rt.sfctx import make_context
from sfv.translate import loopguards, stepguards

COUNTS = [0, 1, 2, 9, 10, 11, 12, 15]
STATUSES = ["COMPLETED", "SKIPPED", "FAILED", "CANCELLED", "RECOVERED"]
PREFIXES = ["0", "0.0", "0.1", "0.2", "0.9", "0.10", "0.11", "0.3.1"]


class _When(CWLLoopConditionalStep):
    """the production loop conditional step (its _on_true / _on_false are the real code); only the evaluation of the
    CWL `when` expression is replaced by the Python predicate counter < limit (no JavaScript engine in the loop)"""

    async def _eval(self, inputs):
        return inputs["counter"].value < inputs["limit"].value


class _Body(Transformer):
    """loop body: counter -> counter + 1, val -> "<instance>:<iteration index>" (tags preserved, as any job step does)"""

    async def transform(self, inputs):
        c = inputs["counter"]
        return {"counter": c.update(c.value + 1), "val": inputs["val"].update(f"{'.'.join(c.tag.split('.')[:-1])}:{c.value}")}


def build_loop(wf, method: str):
    """the loop network as the CWL translator / tests.utils.workflow.RecoveryTranslator wire it:
    input forwarders -> LoopCombinatorStep -> loop-when -> body -> output forwarder -> {loop output step, back-propagation};
    loop-when --skip--> loop output step; loop output -> loop terminator (LoopTerminationCombinator) -> combinator inputs"""
    names = ["counter", "limit", "val"]
    ext_in = {n: wf.create_port() for n in names}
    comb = LoopCombinator(workflow=wf, name="/l-loop-combinator")
    fwd = {}
    for n in names:
        f = wf.create_step(cls=ForwardTransformer, name=f"/l/{n}-input-forward-transformer")
        f.add_input_port(n, ext_in[n])
        fwd[n] = wf.create_port()
        f.add_output_port(n, fwd[n])
        comb.add_item(n)
    cstep = wf.create_step(cls=LoopCombinatorStep, name="/l-loop-combinator", combinator=comb)
    for n in names:
        cstep.add_input_port(n, fwd[n])
        cstep.add_output_port(n, wf.create_port())
    when = wf.create_step(cls=_When, name="/l-loop-when", expression="")
    cond_out = {}
    for n in names:
        when.add_input_port(n, cstep.get_output_port(n))
        cond_out[n] = wf.create_port()
        when.add_output_port(n, cond_out[n])
    body = wf.create_step(cls=_Body, name="/l")
    body.add_input_port("counter", cond_out["counter"])
    body.add_input_port("val", cond_out["val"])
    body.add_output_port("counter", wf.create_port())
    body.add_output_port("val", wf.create_port())
    loop_ports = {"counter": body.get_output_port("counter"), "limit": cond_out["limit"], "val": body.get_output_port("val")}
    term_comb = LoopTerminationCombinator(workflow=wf, name="/l-loop-termination-combinator")
    term_step = wf.create_step(cls=CombinatorStep, name="/l-loop-terminator", combinator=term_comb)
    for n, port in cstep.get_input_ports().items():
        term_step.add_output_port(n, port)
        term_comb.add_output_item(n)
    of = wf.create_step(cls=ForwardTransformer, name="/l/val-output-forward-transformer")
    of.add_input_port("val", loop_ports["val"])
    of.add_output_port("val", wf.create_port())
    internal = dict(loop_ports)
    internal["val"] = of.get_output_port("val")
    out_step = wf.create_step(cls=CWLLoopOutputAllStep if method == "all" else CWLLoopOutputLastStep, name="/l/val-loop-output")
    out_step.add_input_port("val", of.get_output_port("val"))
    when.add_skip_port("val", of.get_output_port("val"))
    out_step.add_output_port("val", wf.create_port())
    term_step.add_input_port("val", out_step.get_output_port("val"))
    term_comb.add_item("val")
    for n in names:
        b = wf.create_step(cls=ForwardTransformer, name=f"/l/{n}-back-propagation-transformer")
        b.add_input_port(n, internal[n])
        b.add_output_port(n, cstep.get_input_port(n))
    return ext_in, cstep, out_step


CWL_LOOP = """#!/usr/bin/env cwl-runner
cwlVersion: v1.2
class: Workflow
$namespaces:
  cwltool: "http://commonwl.org/cwltool#"
requirements:
  InlineJavascriptRequirement: {{}}
  ScatterFeatureRequirement: {{}}
  SubworkflowFeatureRequirement: {{}}
inputs:
  i1: {in_type}
  limit: int
outputs:
  o1:
    type: Any
    outputSource: {source}/o1
steps:
{steps}
"""

CWL_LOOP_STEP = """{ind}subworkflow:
{ind}  run:
{ind}    class: ExpressionTool
{ind}    inputs:
{ind}      i1: int
{ind}      limit: int
{ind}    outputs:
{ind}      o1: int
{ind}    expression: >
{ind}      ${{return {{'o1': inputs.i1 + 1}};}}
{ind}  in:
{ind}    i1: i1
{ind}    limit: limit
{ind}  out: [o1]
{ind}  requirements:
{ind}    cwltool:Loop:
{ind}      loopWhen: $(inputs.i1 < inputs.limit)
{ind}      loop:
{ind}        i1: o1
{ind}      outputMethod: {method}
"""

CWL_SCATTER = """  scatter:
    run:
      class: Workflow
      inputs:
        i1: int
        limit: int
      outputs:
        o1:
          type: Any
          outputSource: subworkflow/o1
      steps:
{inner}
    in:
      i1: i1
      limit: limit
    scatter: i1
    out: [o1]
"""


def cwl_nested_document(kind: str, bound: int) -> str:
    """cwltool's own loop-inside-loop-all.cwl / scatter-inside-loop.cwl with the loop bound replaced (counts >= 10 on both levels)"""
    from cwltool.tests.util import get_data
    if kind == "loop-in-loop":
        return open(get_data("tests/loop-ext/loop-inside-loop-all.cwl")).read().replace("inputs.i2 < 4", f"inputs.i2 < {bound}")
    return open(get_data("tests/loop-ext/scatter-inside-loop.cwl")).read().replace("inputs.i1[0] < 10", f"inputs.i1[0] < {bound}")


def cwl_document(method: str, scattered: bool) -> str:
    """a cwltool:Loop document modelled on cwltool's tests/loop-ext (ExpressionTool body, no container): the loop counts from the
    start value up to `limit`; with `scattered` one loop instance per element of the start array"""
    if scattered:
        inner = CWL_LOOP_STEP.format(ind="        ", method=method)
        return CWL_LOOP.format(in_type="int[]", source="scatter", steps=CWL_SCATTER.format(inner=inner))
    return CWL_LOOP.format(in_type="int", source="subworkflow", steps=CWL_LOOP_STEP.format(ind="  ", method=method))


def events_of(instances: list[dict]) -> list[list]:
    """per instance: data p.i (value) for i < n, then the iteration termination p.n"""
    evs = []
    for inst in instances:
        p, vals = inst["p"], inst["vals"]
        evs += [["d", f"{p}.{i}", v] for i, v in enumerate(vals)]
        if inst.get("iterterm", True):
            evs.append(["i", f"{p}.{len(vals)}"])
    return evs


class C06(Property):
    pid = "C06"
    title = "Loops emit the last/all iteration values in iteration order, for any count"
    lean_targets = ["SFV.Props.C06", "SFV.Model.Proto"]
    props_files = ["SFV/Props/C06.lean"]
    drivers = ["Drivers/C06.lean"]
    translators = [stepguards.generate, loopguards.generate]
    quick_budget_s = 300
    rule = ("REAL CWLLoopOutputAllStep / CWLLoopOutputLastStep wired with real Ports (in-memory context): 1..4 loop instances (scatter "
            "elements 0.0, 0.9, 0.10, … or the plain instance 0) with iteration counts 0..15 (always 0,1,9,10,11,12), body outputs p.i and "
            "IterationTerminationToken p.n of all instances shuffled on the step's input port (also in-order, reversed, termination-first, "
            "all permutations for <=5 tokens), termination token last; incomplete streams (missing iteration termination, FAILED, one-component tags) "
            "for model-vs-code only. REAL LoopCombinator driven through combine() with interleaved causal arrival sequences of several "
            "instances (1 and 2 ports); REAL LoopCombinatorStep: when it stops reading a port (iteration_termination_checklist). "
            "Every run is compared with the Lean model; complete streams against the property (exactly one output per instance, tag p, "
            "all values in iteration order / last value / None-or-[] for 0 iterations, step terminates after every instance emitted).")
    trusted_base = [
        "translator harness/sfv/translate/loopguards.py (numbering constants, emission test and its default, size_of, sort keys, exit test shape "
        "-> SFV/Gen/LoopGuards.lean)",
        "modelled, not verified: one FIFO input port whose termination token comes last (C03); Python's sorted() is stable (List.mergeSort); "
        "all(dict) iterates the keys; dict insertion order",
    ]
    trusted_base = trusted_base + [
        "harness/sfv/rt/loop_safe.py: shuffling event loop whose reordering of ready handles is safe against call_soon_threadsafe "
        "(the shared rt/loop.py drops handles appended by the aiosqlite thread while it shuffles)"]
    technique = ("Lean 4 theorems about executable models of LoopCombinator._product, LoopOutputStep.run + CWL _process_output and the "
                 "LoopCombinatorStep checklist + ast translator of the guards + differential correspondence on the real classes")
    level_text = ("grade A: unbounded theorems — iteration numbering for every interleaving of instances, loop output for any arrival order of "
                  "p.0..p.(n-1) and the iteration termination p.n of any number of concurrent instances (all: index order, last: value n-1, n=0: []/None; "
                  "numeric order for n>=10), no termination before the port's termination token, checklist keeps the combinator step reading while an "
                  "instance iterates, the closed loop of an instance produces exactly these tokens; guards regenerated each run; model compared with "
                  "the real step classes, the whole loop network under the real executor, and generated cwltool:Loop documents through the CWL translator")
    level_note = ("Lean kernel, axioms within {propext, Classical.choice, Quot.sound}; trusts the loopguards extractor and the single-FIFO-port "
                  "abstraction; CWL documents use ExpressionTool bodies (node as JavaScript engine), no cwltool reference run")
    assumptions = ["loop instance tags are non-empty (body outputs have at least two components), instances are pairwise distinct",
                   "the input port of the loop output step is FIFO and its termination token follows every other token (C03)"]

    # --------------------------------------------------------------------------------------------
    def explore(self, ctx: Ctx) -> None:
        import logging
        from streamflow.log_handler import logger as sf_logger
        sf_logger.setLevel(logging.ERROR)                          # the CWL runs log every job at INFO
        logging.getLogger("asyncio").setLevel(logging.CRITICAL)    # cancelled `get` tasks of deliberately hung steps
        seed = ctx.rng.randrange(1 << 30)
        self._lines, self._expect = [], []
        self._network_hung = False

        async def main():
            context = make_context(ctx.scratch)
            try:
                self._n = 0
                for case in self.cases(ctx):
                    if ctx.out_of_time():
                        ctx.extra["incomplete"] = True
                        break
                    await self.run_case(ctx, context, case)
            finally:
                await context.close()

        run_controlled(main, seed, timeout=max(30.0, ctx.time_left() + 900))
        got = ctx.lean("Drivers/C06.lean", self._lines)
        for g, (real, case) in zip(got, self._expect):
            if case.get("stage") == "provenance":      # the order inside a provenance set is not observable in the database
                g = _canon_prov(g)
                real = _canon_prov(real)
            if g != real:
                ctx.disagree(f"model vs {case['op']}", f"code {real!r}, Lean model {g!r}", case)

    def cases(self, ctx: Ctx):
        rng = ctx.rng
        wide = ctx.tier == "thorough" or ctx.mode == "search"
        # ---- loop output: boundary corpus ----
        for method in ("all", "last"):
            for n in COUNTS:
                for how in ("in-order", "reversed", "term-first", "shuffled"):
                    yield {"op": "loopout", "method": method, "instances": [{"p": "0.0", "vals": [10 * i + 1 for i in range(n)]}],
                           "how": how, "oseed": rng.randrange(1 << 30), "status": "COMPLETED"}
        # all permutations of small streams (two instances)
        for method in ("all", "last"):
            for na, nb in ([(0, 0), (1, 0), (1, 1), (2, 0), (2, 1), (3, 0)] + ([(2, 2), (3, 1), (4, 0)] if wide else [])):
                inst = [{"p": "0.9", "vals": list(range(na))}, {"p": "0.10", "vals": list(range(100, 100 + nb))}]
                evs = events_of(inst)
                for perm in itertools.permutations(range(len(evs))):
                    yield {"op": "loopout", "method": method, "instances": inst, "perm": list(perm), "status": "COMPLETED"}
        # random: 1..4 instances with different counts
        for _ in range(400 if wide else 60):
            k = rng.randint(1, 4)
            ps = rng.sample(PREFIXES, k)
            if "0" in ps and k > 1:     # the plain instance 0 and scatter instances 0.i do not coexist
                ps.remove("0")
            inst = [{"p": p, "vals": [rng.choice([rng.randint(0, 999), f"v{rng.randint(0, 99)}", [rng.randint(0, 9)], {"k": rng.randint(0, 9)}, None])
                                      for _ in range(rng.choice(COUNTS + list(range(3, 9)) + [13, 14]))]} for p in ps]
            yield {"op": "loopout", "method": rng.choice(["all", "last"]), "instances": inst, "how": "shuffled",
                   "oseed": rng.randrange(1 << 30), "status": "COMPLETED"}
        # incomplete / odd streams: model vs code only
        for _ in range(120 if wide else 30):
            k = rng.randint(1, 3)
            ps = rng.sample(PREFIXES[1:], k)
            inst = [{"p": p, "vals": list(range(rng.choice([0, 1, 2, 3, 11]))), "iterterm": rng.random() < 0.5} for p in ps]
            yield {"op": "loopout", "method": rng.choice(["all", "last"]), "instances": inst, "how": "shuffled", "oseed": rng.randrange(1 << 30),
                   "status": rng.choice(STATUSES), "partial": True,
                   "extra": rng.choice([None, None, ["i", f"{ps[0]}.1"], ["d", f"{ps[0]}.0", 77], ["i", "0.77.2"]])}
        for method in ("all", "last"):   # one-component tags: `all(termination_map)` meets the empty key -> the step never leaves its loop
            yield {"op": "loopout", "method": method, "instances": [], "raw": [["d", "3", 5]], "status": "COMPLETED", "partial": True, "hang_ok": True}
            yield {"op": "loopout", "method": method, "instances": [], "raw": [["d", "3", 5], ["i", "1"]], "status": "COMPLETED", "partial": True,
                   "hang_ok": True}
        # ---- numbering ----
        for _ in range(200 if wide else 40):
            k = rng.randint(1, 4)
            ps = rng.sample(PREFIXES, k)
            if "0" in ps and k > 1:
                ps.remove("0")
            yield {"op": "number", "instances": [{"p": p, "n": rng.choice([1, 2, 3, 10, 11, 12, 16])} for p in ps], "ports": rng.choice([1, 1, 2]),
                   "oseed": rng.randrange(1 << 30)}
        # ---- numbering after LoopCombinator.restore (recovery resumes instance p at iteration k) ----
        for _ in range(80 if wide else 20):
            k = rng.randint(1, 4)
            ps = rng.sample(PREFIXES[1:], k)
            yield {"op": "numrestore", "instances": [{"p": p, "resume": rng.choice([None, 0, 1, 9, 10, 11]), "n": rng.choice([1, 2, 3, 11])} for p in ps],
                   "restore_at": rng.choice(["start", "start", "middle"]), "oseed": rng.randrange(1 << 30)}
        # ---- the whole loop network run by the real executor (scatter instances around the loop, different counts) ----
        for i in range(36 if wide else 10):
            k = rng.randint(1, 4)
            ps = ["0"] if (k == 1 and rng.random() < 0.5) else rng.sample(PREFIXES[1:7], k)
            pool = [0, 1, 2, 3, 10, 11, 12] if i % 3 == 0 else [0, 1, 2, 3, 4]
            yield {"op": "network", "method": rng.choice(["all", "last"]), "instances": [{"p": p, "n": rng.choice(pool)} for p in ps],
                   "oseed": rng.randrange(1 << 30)}
        # ---- end to end through the CWL front end: generated cwltool:Loop documents, real translator + executor, in-memory db ----
        cwl_cases = [("last", True, [12, 0, 1, 2, 11, 13], 12), ("all", True, [10, 12, 0, 1, 3], 12), ("all", False, 0, 11), ("last", False, 5, 5)]
        if wide:
            cwl_cases += [(rng.choice(["all", "last"]), True, [rng.randint(0, 14) for _ in range(rng.randint(1, 4))], rng.choice([3, 10, 12]))
                          for _ in range(10)] + [(m, False, s0, 12) for m in ("all", "last") for s0 in (0, 1, 12)]
        import shutil
        if shutil.which("node") is None:      # the CWL documents need a JavaScript engine (InlineJavascriptRequirement)
            ctx.notes.append("node is not on PATH: the end-to-end CWL cases were skipped")
            cwl_cases, wide_cwl = [], False
        else:
            wide_cwl = wide
        for method, scattered, start, limit in cwl_cases:
            yield {"op": "cwl", "method": method, "scattered": scattered, "start": start, "limit": limit}
        if wide_cwl:   # loops inside loops / scatter inside a loop, more than 10 iterations on both levels
            yield {"op": "cwl", "kind": "loop-in-loop", "bound": 12, "method": "all", "scattered": False, "start": 1, "limit": 1}
            yield {"op": "cwl", "kind": "scatter-in-loop", "bound": 12, "method": "last", "scattered": False, "start": list(range(1, 13)), "limit": 1}
        # ---- LoopCombinatorStep: when does it stop reading a port ----
        for _ in range(120 if wide else 30):
            k = rng.randint(1, 3)
            ps = rng.sample(PREFIXES[1:], k)
            yield {"op": "checklist", "instances": [{"p": p, "n": rng.choice([0, 1, 2, 3, 11])} for p in ps],
                   "term_at": rng.choice(["early", "middle", "late"]), "status": rng.choice(["COMPLETED", "COMPLETED", "FAILED", "CANCELLED"]),
                   "drop_iterterm": rng.random() < 0.2, "oseed": rng.randrange(1 << 30)}

    # --------------------------------------------------------------------------------------------
    async def run_case(self, ctx: Ctx, context, case: dict) -> None:
        try:
            await asyncio.wait_for(getattr(self, "_" + case["op"])(ctx, context, case), 1800)
        except (sd.StepHang, asyncio.TimeoutError) as e:
            ctx.fail(f"{case['op']}:hang", f"the real code did not terminate: {e}", case)
        except Exception as e:  # noqa: BLE001
            ctx.fail(f"crash:{type(e).__name__}", f"the real code raised {e!r}", case)

    def _arrival(self, case: dict) -> list[list]:
        evs = events_of(case["instances"]) + [list(x) for x in case.get("raw", [])]
        if case.get("extra"):
            evs.append(list(case["extra"]))
        rng = random.Random(case.get("oseed", 0))
        if "perm" in case:
            return [evs[i] for i in case["perm"]]
        how = case.get("how", "in-order")
        if how == "reversed":
            evs.reverse()
        elif how == "term-first":
            evs.sort(key=lambda e: e[0] != "i")
        elif how == "shuffled":
            rng.shuffle(evs)
        return evs

    async def _loopout(self, ctx: Ctx, context, case: dict) -> None:
        self._n += 1
        wf = sd.new_workflow(context, f"c06-{self._n}")
        p_in, p_out = wf.create_port(), wf.create_port()
        cls = CWLLoopOutputAllStep if case["method"] == "all" else CWLLoopOutputLastStep
        step = wf.create_step(cls=cls, name="/l/x-loop-output")
        step.add_input_port("x", p_in)
        step.add_output_port("x", p_out)
        await wf.save(context.database)
        arrival = self._arrival(case)
        toks, ids, words = [], {}, []
        for e in arrival:
            if e[0] == "d":
                t = Token(value={"uid": len(ids), "v": e[2]}, tag=e[1])   # uid: lets a retagged copy be traced to its source
                ids[id(t)] = len(ids)
                toks.append(t)
                words.append(f"d:{e[1]}:{ids[id(t)]}")
            else:
                toks.append(IterationTerminationToken(tag=e[1]))
                words.append(f"i:{e[1]}")
        await sd.save_tokens(context, p_in, [t for t in toks if not isinstance(t, IterationTerminationToken)])
        feed = [("x", t) for t in toks] + [("x", TerminationToken(Status[case["status"]]))]
        words.append(f"t:{case['status']}")
        # everything is on the (single, FIFO) port; the step either terminates, or ends up blocked on `get` with an empty queue
        # after having taken its termination token: then nothing can ever wake it up — a hang, detected exactly (no time bound)
        for _, t in feed:
            p_in.put(t)
        task = asyncio.create_task(step.run())
        try:
            await sd.settle(step, task, ["x"], budget_s=300.0)
            hung = not task.done()
            if not hung:
                task.result()
        finally:
            if not task.done():
                task.cancel()
                try:
                    await task
                except BaseException:  # noqa: BLE001
                    pass
        if hung and not case.get("hang_ok"):
            ctx.fail("loopout:hang", "the step took its termination token and is blocked on its input port for ever", case)
        out = list(p_out.token_list)
        exp = (self._render(out, ids, hung), case)
        # provenance recorded in the database for every output: the body outputs collected for the instance
        by_pid = {t.persistent_id: f"{t.tag}:{ids[id(t)]}" for t in toks if id(t) in ids}
        provs = []
        for t in (out if "perm" not in case else []):
            if isinstance(t, TerminationToken):
                continue
            deps = [r["dependee"] for r in await context.database.get_dependees(t.persistent_id)]
            extra = [d for d in deps if d not in by_pid]
            provs.append(f"{t.tag if t.tag != '' else '~'}<-[" + ",".join(sorted(by_pid[d] for d in deps if d in by_pid)) + "]" + (f"+{len(extra)}" if extra else ""))
        pexp = (";".join(provs) or "-", dict(case, stage="provenance"))
        self._lines.append(f"loopout {case['method']} " + " ".join(words))   # appended together (never misaligned by a crash)
        self._expect.append(exp)
        if "perm" not in case:       # the exhaustive permutation corpus is about arrival order; provenance is compared on all other cases
            self._lines.append(f"loopoutprov {case['method']} " + " ".join(words))
            self._expect.append(pexp)
        if not case.get("partial"):
            self._monitor(ctx, case, out)
        nmax = max([len(i["vals"]) for i in case["instances"]], default=0)
        ctx.case({"case": case, "out": [sd.untoken(t) for t in out][:3]},
                 ("loopout", case["method"], tuple(words)) if nmax >= 2 or len(case["instances"]) > 1 else None,
                 f"loopout-{case['method']}" + ("-partial" if case.get("partial") else ""))
        ctx.count("count>=10" if nmax >= 10 else "count<10")

    @staticmethod
    def _render(out: list[Token], ids: dict, hung: bool) -> str:
        parts, term = [], "-"
        for i, t in enumerate(out):
            tag = t.tag if t.tag != "" else "~"
            if isinstance(t, TerminationToken):
                term = t.value.name if i == len(out) - 1 else "MISPLACED"
            elif isinstance(t, ListToken):
                parts.append(f"{tag}[" + ",".join(f"{e.tag}:{ids.get(id(e), '?')}" for e in t.value) + "]")
            else:
                # CWLLoopOutputLastStep retags a copy of the last token: its value carries the uid of the source
                parts.append(f"{tag}=" + ("None" if t.value is None else str(t.value.get("uid", "?")) if isinstance(t.value, dict) else "?"))
        if hung:
            term = "-"
        return (";".join(parts) or "-") + "|term=" + term

    def _monitor(self, ctx: Ctx, case: dict, out: list[Token]) -> None:
        """exactly one output per instance, tagged p; all: values in iteration order; last: value n-1 (None when n=0);
        the termination token comes after every instance's output"""
        if not out or not isinstance(out[-1], TerminationToken) or sum(isinstance(t, TerminationToken) for t in out) != 1:
            ctx.fail("loopout:termination", f"output port does not end with exactly one termination token: {[sd.untoken(t) for t in out][-3:]}", case)
            return
        by_tag: dict = {}
        for t in out[:-1]:
            by_tag.setdefault(t.tag, []).append(t)
        for inst in case["instances"]:
            p, vals = inst["p"], inst["vals"]
            got = by_tag.pop(p, [])
            if len(got) != 1:
                ctx.fail("loopout:never-emitted" if not got else "loopout:emitted-more-than-once",
                         f"{len(got)} outputs for instance {p} with {len(vals)} iterations (expected exactly one)", case)
                continue
            g = got[0]
            if case["method"] == "all":
                exp = ["L", p, [["T", f"{p}.{i}", v] for i, v in enumerate(vals)]]
                real = _strip(sd.untoken(g))
                if real != exp:
                    same_set = real[0] == "L" and sorted(map(repr, real[2])) == sorted(map(repr, exp[2]))
                    ctx.fail(("loopout:all:wrong-order" + (":count>=11" if len(vals) >= 11 else "")) if same_set else "loopout:all:wrong-content",
                             f"instance {p}: got {real!r:.300}, expected {exp!r:.300}", case)
            else:
                exp = ["T", p, vals[-1] if vals else None]
                real = _strip(sd.untoken(g)) if vals else sd.untoken(g)
                if real != exp:
                    ctx.fail("loopout:last:wrong-value" + (":count>=11" if len(vals) >= 11 else ""),
                             f"instance {p} ({len(vals)} iterations): got {real!r:.200}, expected {exp!r:.200}", case)
        if by_tag:
            ctx.fail("loopout:unexpected-output", f"outputs with unexpected tags {sorted(by_tag)}", case)
        if out[-1].value != Status.COMPLETED:
            ctx.fail("loopout:status", f"termination status {out[-1].value.name} on a complete stream", case)

    # --------------------------------------------------------------------------------------------
    async def _number(self, ctx: Ctx, context, case: dict) -> None:
        self._n += 1
        rng = random.Random(case["oseed"])
        wf = sd.new_workflow(context, f"c06n-{self._n}")
        comb = LoopCombinator(name="lc", workflow=wf)
        ports = ["x", "y"][: case["ports"]]
        for pn in ports:
            comb.add_item(pn)
        # causal sequences: instance p sends p, then (after the body ran on p.k) p.k
        pending = {i["p"]: [i["p"]] + [None] * (i["n"] - 1) for i in case["instances"]}
        produced = {i["p"]: [] for i in case["instances"]}
        joins, outs = [], []
        while any(pending.values()):
            p = rng.choice([q for q, v in pending.items() if v])
            nxt = pending[p].pop(0)
            tag = nxt if nxt is not None else produced[p][-1]
            order = list(ports)
            rng.shuffle(order)
            emitted = []
            for pn in order:
                async for schema in comb.combine(pn, Token(value=f"{pn}@{tag}", tag=tag)):
                    tags = {t["token"].tag for t in schema.values()}
                    if len(tags) != 1 or set(schema) != set(ports):
                        ctx.fail("number:schema", f"schema {[(k, v['token'].tag) for k, v in schema.items()]}", case)
                    emitted.append(next(iter(tags)))
            if len(emitted) != 1:
                ctx.fail("number:emissions", f"arrival of {tag} on every port produced {len(emitted)} combinations", case)
                return
            joins.append(tag)
            outs.append(emitted[0])
            produced[p].append(emitted[0])
        for i in case["instances"]:
            exp = [f"{i['p']}.{k}" for k in range(i["n"])]
            if produced[i["p"]] != exp:
                ctx.fail("number:wrong-tags", f"instance {i['p']}: iterations tagged {produced[i['p']]}, expected {exp}", case)
        self._lines.append("number " + " ".join(joins))
        self._expect.append((" ".join(outs) or "-", case))
        ctx.case({"case": case, "joins": joins[:8], "outs": outs[:8]}, ("number", tuple(joins)), "number")

    # --------------------------------------------------------------------------------------------
    async def _numrestore(self, ctx: Ctx, context, case: dict) -> None:
        """real LoopCombinator (one port): `restore({port: (p, p.k)})` for the instances that resume at iteration k, then causal
        arrivals: a resumed instance sends the back-edge token p.k, p.(k+1), …; a fresh one sends p, p.0, …"""
        self._n += 1
        rng = random.Random(case["oseed"])
        wf = sd.new_workflow(context, f"c06r-{self._n}")
        comb = LoopCombinator(name="lc", workflow=wf)
        comb.add_item("x")
        pairs = {f"port{i}": (inst["p"], f"{inst['p']}.{inst['resume']}") for i, inst in enumerate(case["instances"]) if inst["resume"] is not None}
        pending = {inst["p"]: ([inst["p"]] if inst["resume"] is None else [f"{inst['p']}.{inst['resume']}"]) + [None] * (inst["n"] - 1)
                   for inst in case["instances"]}
        fresh_first = [inst["p"] for inst in case["instances"] if inst["resume"] is None]
        produced = {inst["p"]: [] for inst in case["instances"]}
        words, outs = [], []
        total = sum(len(v) for v in pending.values())
        at = 0 if case["restore_at"] == "start" or not fresh_first else rng.randint(0, max(0, min(2, total - 1)))
        step_no, restored = 0, False
        while any(pending.values()) or not restored:
            if not restored and step_no >= at:
                if pairs:
                    await comb.restore(dict(pairs))
                    words.append("r:" + ",".join(f"{a}:{b}" for a, b in pairs.values()))
                restored = True
                continue
            # before the restore only fresh instances may move (a resumed instance has nothing in flight yet)
            movable = [q for q, v in pending.items() if v and (restored or q in fresh_first)]
            if not movable:
                at = step_no
                continue
            p = rng.choice(movable)
            nxt = pending[p].pop(0)
            tag = nxt if nxt is not None else produced[p][-1]
            emitted = []
            async for schema in comb.combine("x", Token(value=tag, tag=tag)):
                emitted.append(schema["x"]["token"].tag)
            if len(emitted) != 1:
                ctx.fail("number:emissions", f"arrival of {tag} produced {len(emitted)} combinations", case)
                return
            words.append(tag)
            outs.append(emitted[0])
            produced[p].append(emitted[0])
            step_no += 1
        for inst in case["instances"]:
            first = 0 if inst["resume"] is None else inst["resume"] + 1
            exp = [f"{inst['p']}.{k}" for k in range(first, first + inst["n"])]
            if produced[inst["p"]] != exp:
                ctx.fail("number:after-restore:wrong-tags", f"instance {inst['p']} (resume {inst['resume']}): iterations tagged {produced[inst['p']]}, "
                                                            f"expected {exp}", case)
        exp_line = (" ".join(outs) or "-", case)
        self._lines.append("number " + " ".join(words))
        self._expect.append(exp_line)
        ctx.case({"case": case, "events": words[:10], "outs": outs[:10]}, ("numrestore", tuple(words)), "numrestore")

    # --------------------------------------------------------------------------------------------
    async def _network(self, ctx: Ctx, context, case: dict) -> None:
        """the complete loop (real LoopCombinatorStep, production loop-when, loop output step, loop terminator, forwarders) run by the
        real StreamFlowExecutor under the shuffling event loop; one set of external inputs per instance, tagged like scatter elements"""
        self._n += 1
        rng = random.Random(case["oseed"])
        wf = sd.new_workflow(context, f"c06w-{self._n}")
        ext_in, cstep, out_step = build_loop(wf, case["method"])
        await wf.save(context.database)
        insts = list(case["instances"])
        rng.shuffle(insts)
        for name in ("counter", "limit", "val"):
            order = list(insts)
            rng.shuffle(order)
            for i in order:
                tok = Token(value={"counter": 0, "limit": i["n"], "val": "init"}[name], tag=i["p"])
                await tok.save(context.database, ext_in[name].persistent_id)
                ext_in[name].put(tok)
            ext_in[name].put(TerminationToken())
        if getattr(self, "_network_hung", False):
            return          # one hang is a result; do not spend the watchdog bound on every further network case
        hung, _, live = await sd.run_workflow(wf, StreamFlowExecutor(wf).run(), stall_s=120.0)
        if hung:
            self._network_hung = True
            ctx.fail("network:hang", f"the loop network made no progress for 120 s; steps still running: {live}", case)
            return
        out = list(out_step.get_output_port("val").token_list)
        # the property, end to end
        if not out or not isinstance(out[-1], TerminationToken):
            ctx.fail("network:termination", f"loop output port does not end with a termination token: {[sd.untoken(t) for t in out][-3:]}", case)
            return
        by_tag: dict = {}
        for t in out[:-1]:
            by_tag.setdefault(t.tag, []).append(t)
        for i in case["instances"]:
            p, n = i["p"], i["n"]
            got = by_tag.pop(p, [])
            vals = [f"{p}:{k}" for k in range(n)]
            exp = ["L", p, [["T", f"{p}.{k}", v] for k, v in enumerate(vals)]] if case["method"] == "all" else ["T", p, vals[-1] if vals else None]
            if len(got) != 1:
                ctx.fail("network:never-emitted" if not got else "network:emitted-more-than-once",
                         f"{len(got)} loop outputs for instance {p} ({n} iterations)", case)
            elif sd.untoken(got[0]) != exp:
                ctx.fail(f"network:{case['method']}:wrong-output" + (":count>=11" if n >= 11 else ""),
                         f"instance {p} ({n} iterations): got {sd.untoken(got[0])!r:.300}, expected {exp!r:.300}", case)
        if by_tag:
            ctx.fail("network:unexpected-output", f"loop outputs with unexpected tags {sorted(by_tag)}", case)
        # numbering observed on the combinator's output port: instance p's executions are p.0, p.1, … in order
        seen: dict = {}
        for t in cstep.get_output_port("counter").token_list:
            if isinstance(t, TerminationToken):
                continue
            p, k = t.tag.rsplit(".", 1)
            if int(k) != seen.get(p, 0):
                ctx.fail("network:numbering", f"instance {p}: execution tagged {t.tag} after {seen.get(p, 0)} executions", case)
            seen[p] = seen.get(p, 0) + 1
        for i in case["instances"]:
            if seen.get(i["p"], 0) != i["n"] + 1:
                ctx.fail("network:iterations", f"instance {i['p']}: {seen.get(i['p'], 0)} condition evaluations for {i['n']} iterations", case)
        # the arrival order the engine really produced at the loop output step goes to the Lean model
        ids, words = {}, []
        in_port = out_step.get_input_port("val")
        for t in in_port.token_list:
            if isinstance(t, TerminationToken):
                words.append(f"t:{t.value.name}")
                break           # the step stops reading here (later termination tokens of other writers are never taken)
            if isinstance(t, IterationTerminationToken):
                words.append(f"i:{t.tag}")
            else:
                ids[id(t)] = len(ids)
                words.append(f"d:{t.tag}:{ids[id(t)]}")
        parts = []
        for t in out[:-1]:
            if isinstance(t, ListToken):
                parts.append(f"{t.tag}[" + ",".join(f"{e.tag}:{ids.get(id(e), '?')}" for e in t.value) + "]")
            else:
                src = [k for tok, k in ((x, ids[id(x)]) for x in in_port.token_list if id(x) in ids) if tok.value == t.value and t.value is not None]
                parts.append(f"{t.tag}=" + ("None" if t.value is None else str(src[0]) if src else "?"))
        self._lines.append(f"loopout {case['method']} " + " ".join(words))
        self._expect.append(((";".join(parts) or "-") + "|term=" + out[-1].value.name, case))
        ctx.case({"case": case, "arrival": words[:12], "out": [sd.untoken(t) for t in out][:3]},
                 ("network", case["method"], tuple(words)), "network")

    # --------------------------------------------------------------------------------------------
    async def _cwl(self, ctx: Ctx, context, case: dict) -> None:
        """a generated cwltool:Loop document translated by the real CWLTranslator and run by the real executor (in-process, the
        check's own in-memory database); workflow outputs against the property, and the arrival order the engine produced at every
        loop output step against the Lean model"""
        import cwl_utils.parser
        import cwl_utils.parser.utils
        from streamflow.config.config import WorkflowConfig
        from streamflow.cwl.translator import CWLTranslator
        from streamflow.workflow.step import LoopOutputStep

        if getattr(self, "_network_hung", False):
            return          # the loop network already hangs on its own: no need to wait for three more stalls
        self._n += 1
        wdir = os.path.join(ctx.scratch, f"cwl-{self._n}")
        os.makedirs(wdir, exist_ok=True)
        doc, job = os.path.join(wdir, "loop.cwl"), os.path.join(wdir, "job.yml")
        with open(doc, "w") as f:
            f.write(cwl_nested_document(case["kind"], case["bound"]) if case.get("kind") else cwl_document(case["method"], case["scattered"]))
        with open(job, "w") as f:
            json.dump({"i1": case["start"], "i2": case["limit"]} if case.get("kind") else {"i1": case["start"], "limit": case["limit"]}, f)
        cfg = {"version": "v1.0", "workflows": {"w": {"type": "cwl", "config": {"file": doc, "settings": job}}}, "path": wdir}
        cwl_definition = cwl_utils.parser.load_document_by_uri(doc)
        cwl_inputs = cwl_utils.parser.utils.load_inputfile_by_uri(version=cwl_definition.cwlVersion, path=job,
                                                                   loadingOptions=cwl_definition.loadingOptions)
        # A whole CWL run also involves the scheduler, the job pipeline and the JavaScript engine (node, 20 s time-out in cwl_utils: on a
        # loaded machine an expression can time out, the job FAILS and the executor may then never finish). A stall or failure is
        # charged to the loop only if (a) a step of the loop machinery itself failed, or (b) nothing failed and the stall is
        # reproducible (three runs out of three). Failures of job steps are retried, then noted — never reported as a violation of C06.
        def loop_step(st) -> bool:
            return isinstance(st, (LoopOutputStep, LoopCombinatorStep, CWLLoopConditionalStep)) or "-loop-" in st.name

        verdict = None
        for attempt in range(3):
            translator = CWLTranslator(context=context, name=f"c06cwl-{self._n}-{attempt}", output_directory=wdir, cwl_definition=cwl_definition,
                                       cwl_inputs=cwl_inputs, cwl_inputs_path=job, workflow_config=WorkflowConfig("w", cfg))
            wf = translator.translate()
            await wf.save(context.database)
            err, hung, outputs, live = None, False, None, []
            try:
                hung, outputs, live = await sd.run_workflow(wf, StreamFlowExecutor(wf).run())
            except Exception as e:  # noqa: BLE001
                err = e
            failed = [st for st in wf.steps.values() if st.status == Status.FAILED]
            if not hung and err is None:
                verdict = "ok"
                break
            if failed and not any(loop_step(st) for st in failed):
                verdict = "env"
                ctx.count("cwl-job-failure(not charged)")
                ctx.notes.append(f"CWL run attempt {attempt + 1}: job step(s) {[st.name for st in failed][:4]} FAILED outside the loop machinery "
                                 f"({'stall' if hung else repr(err)[:120]}) on {case}")
                continue
            if err is not None:
                raise err           # a step of the loop machinery failed
            verdict = "hang"
            ctx.count("cwl-stall")
            ctx.notes.append(f"CWL run stalled (attempt {attempt + 1}) on {case}: steps still running {live}\n"
                             + getattr(wf, "_sfv_stall_report", ""))
        if verdict == "env":
            ctx.extra["cwl_cases_not_evaluated"] = ctx.extra.get("cwl_cases_not_evaluated", 0) + 1
            return
        if verdict == "hang":
            ctx.fail("cwl:hang", f"the CWL loop workflow made no progress for 180 s in 3 runs out of 3 (no failed step); steps still running: {live}", case)
            return

        def expected(s0: int):
            vals = list(range(s0 + 1, case["limit"] + 1))
            return vals if case["method"] == "all" else (vals[-1] if vals else None)

        exp = None if case.get("kind") else [expected(s0) for s0 in case["start"]] if case["scattered"] else expected(case["start"])
        counts = [max(0, case["limit"] - s0) for s0 in (case["start"] if case["scattered"] else [case["start"]])] if not case.get("kind") else []
        if case.get("kind") == "loop-in-loop":      # outer: i2 = limit .. bound-1 ; inner: i1 = start .. i2, emitting i1 + 1
            exp = [list(range(case["start"] + 1, i2 + 2)) for i2 in range(case["limit"], case["bound"])]
            counts = [len(x) for x in exp] + [len(exp)]
        elif case.get("kind") == "scatter-in-loop":  # every iteration adds i2 to every element, while the first element < bound
            n = max(0, -(-(case["bound"] - case["start"][0]) // case["limit"]))
            exp, counts = ([x + n * case["limit"] for x in case["start"]] if n else None), [n]
        got = outputs.get("o1")
        if got != exp:
            ctx.fail(f"cwl:{case['method']}:wrong-output" + (":count>=11" if max(counts) >= 11 else ""),
                     f"workflow output o1 = {got!r}, expected {exp!r} (iteration counts {counts})", case)
        # every loop output step of the translated workflow: observed arrival order -> Lean model
        for st in wf.steps.values():
            if not isinstance(st, LoopOutputStep):
                continue
            method = "all" if isinstance(st, CWLLoopOutputAllStep) else "last" if isinstance(st, CWLLoopOutputLastStep) else None
            if method is None:
                continue
            in_port, out = next(iter(st.get_input_ports().values())), list(st.get_output_port().token_list)
            ids, words, src = {}, [], {}
            for t in in_port.token_list:
                if isinstance(t, TerminationToken):
                    words.append(f"t:{t.value.name}")
                    break
                if isinstance(t, IterationTerminationToken):
                    words.append(f"i:{t.tag}")
                else:
                    ids[id(t)] = len(ids)
                    src[(t.tag, repr(t.value))] = ids[id(t)]
                    words.append(f"d:{t.tag}:{ids[id(t)]}")
            parts, term = [], "-"
            data = [x for x in in_port.token_list if id(x) in ids]
            for i, t in enumerate(out):
                if isinstance(t, TerminationToken):
                    term = t.value.name if i == len(out) - 1 else "MISPLACED"
                elif method == "all":
                    parts.append(f"{t.tag}[" + ",".join(f"{e.tag}:{ids.get(id(e), '?')}" for e in t.value) + "]" if isinstance(t, ListToken)
                                 else f"{t.tag}<not-a-list>")
                else:
                    # `last` retags a copy of a data token: the copy holds the very same value object (or an equal scalar)
                    cands = [ids[id(x)] for x in data if x.tag.rsplit(".", 1)[0] == t.tag and (x.value is t.value or
                             (not isinstance(t, ListToken) and repr(x.value) == repr(t.value)))]
                    parts.append(f"{t.tag}=" + ("None" if t.value is None and not cands else str(max(cands)) if cands else "?"))
            exp_line = ((";".join(parts) or "-") + "|term=" + term, dict(case, step=st.name))
            self._lines.append(f"loopout {method} " + " ".join(words))
            self._expect.append(exp_line)
        ctx.case({"case": case, "outputs": outputs}, ("cwl", case["method"], case["scattered"], repr(case["start"]), case["limit"]), "cwl")

    # --------------------------------------------------------------------------------------------
    async def _checklist(self, ctx: Ctx, context, case: dict) -> None:
        """drive a real LoopCombinatorStep (one port): external inputs p, back-edge tokens p.k, IterationTerminationToken p,
        and the port's TerminationToken somewhere in between; after every token: has the step terminated?"""
        self._n += 1
        rng = random.Random(case["oseed"])
        wf = sd.new_workflow(context, f"c06c-{self._n}")
        p_in, p_out = wf.create_port(), wf.create_port()
        comb = LoopCombinator(name="lc", workflow=wf)
        comb.add_item("x")
        step = wf.create_step(cls=LoopCombinatorStep, name="/l-loop-combinator", combinator=comb)
        step.add_input_port("x", p_in)
        step.add_output_port("x", p_out)
        await wf.save(context.database)
        # per instance causal sequence: d:p, d:p.0 … d:p.(n-1) (back edges), i:p
        seqs = {}
        for i in case["instances"]:
            s = [["d", i["p"]]] + [["d", f"{i['p']}.{k}"] for k in range(i["n"])]
            if not (case["drop_iterterm"] and i is case["instances"][0]):
                s.append(["i", i["p"]])
            seqs[i["p"]] = s
        merged = []
        while any(seqs.values()):
            p = rng.choice([q for q, v in seqs.items() if v])
            merged.append(seqs[p].pop(0))
        # the port's termination token follows every external input (FIFO): it can only precede back-edge / iteration-termination tokens
        starts = [k for k, e in enumerate(merged) if e[0] == "d" and e[1] in [i["p"] for i in case["instances"]]]
        lo = (max(starts) + 1) if starts else 0
        pos = {"early": lo, "middle": (lo + len(merged) + 1) // 2, "late": len(merged)}[case["term_at"]]
        merged.insert(pos, ["t", case["status"]])
        task = asyncio.create_task(step.run())
        trace, words = [], []
        try:
            await sd.settle(step, task, ["x"])
            for e in merged:
                if e[0] == "d":
                    tok = Token(value=e[1], tag=e[1])
                    await tok.save(context.database, p_in.persistent_id)
                elif e[0] == "i":
                    tok = IterationTerminationToken(tag=e[1])
                else:
                    tok = TerminationToken(Status[e[1]])
                words.append(":".join(e))
                if task.done():
                    trace.append("x")
                    continue
                p_in.put(tok)
                for _ in range(sd.TERM_SPINS):
                    await asyncio.sleep(0)
                await sd.settle(step, task, ["x"], budget_s=300.0) if not task.done() else None
                for _ in range(200):
                    if task.done():
                        break
                    await asyncio.sleep(0.001 if _ % 20 == 19 else 0)
                    if sd._idle(step, ["x"]):
                        break
                trace.append("x" if task.done() else "r")
            if task.done():
                task.result()
        finally:
            if not task.done():
                task.cancel()
                try:
                    await task
                except BaseException:  # noqa: BLE001
                    pass
        # the property: the step must not terminate while an instance is still iterating (its iteration termination not yet received)
        open_inst: set = set()
        for e, tr in zip(merged, trace):
            if e[0] == "d" and e[1] in [i["p"] for i in case["instances"]]:
                open_inst.add(e[1])
            elif e[0] == "i":
                open_inst.discard(e[1])
            if tr == "x" and open_inst and case["status"] == "COMPLETED" and not case["drop_iterterm"]:
                ctx.fail("checklist:terminated-while-iterating", f"step stopped reading after {e} while instances {sorted(open_inst)} are iterating", case)
                break
        # the step as a whole: what it put on its output port (the combinator's numbering) and how it terminated
        log = list(p_out.token_list)
        outs = [t.tag for t in log if not isinstance(t, TerminationToken)]
        terms = [t for t in log if isinstance(t, TerminationToken)]
        term = "-" if not terms else terms[0].value.name if (len(terms) == 1 and log[-1] is terms[0]) else "MISPLACED"
        exp = (("".join(trace) or "-") + "|out=" + (",".join(outs) or "-") + "|term=" + term, case)
        self._lines.append("checklist " + " ".join(words))
        self._expect.append(exp)
        ctx.case({"case": case, "events": words[:10], "trace": "".join(trace)}, ("checklist", tuple(words)), "checklist")

    # --------------------------------------------------------------------------------------------
    def replay(self, ctx: Ctx, data) -> None:
        case = data.get("replay") or (data.get("no_longer_checks") or [{}])[0].get("case")
        if not isinstance(case, dict) or "op" not in case:
            return super().replay(ctx, data)
        self._lines, self._expect, self._n = [], [], 0
        self._network_hung = False

        async def main():
            context = make_context(ctx.scratch)
            try:
                await self.run_case(ctx, context, case)
            finally:
                await context.close()

        run_controlled(main, data.get("seed", 0), timeout=120)
        got = ctx.lean("Drivers/C06.lean", self._lines)
        for ln, g, (real, c) in zip(self._lines, got, self._expect):
            print(f"{ln[:500]}\n   real : {real[:600]}\n   model: {g[:600]}")
            if c.get("stage") == "provenance":
                g, real = _canon_prov(g), _canon_prov(real)
            if g != real:
                ctx.disagree("model vs code", f"code {real!r}, model {g!r}", c)


def _canon_prov(line: str) -> str:
    if line == "-":
        return line
    parts = []
    for part in line.split(";"):
        head, body = part.split("<-[", 1)
        body, tail = body.split("]", 1)
        parts.append(head + "<-[" + ",".join(sorted(x for x in body.split(",") if x)) + "]" + tail)
    return ";".join(parts)


def _strip(u):
    """remove the uid wrapper the harness puts around every data value"""
    if isinstance(u, list) and len(u) == 3 and u[0] == "L":
        return ["L", u[1], [_strip(x) for x in u[2]]]
    if isinstance(u, list) and len(u) == 3 and isinstance(u[2], dict) and set(u[2]) == {"uid", "v"}:
        return [u[0], u[1], u[2]["v"]]
    return u


PROPERTY = C06()
