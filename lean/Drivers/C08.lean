import SFV.Model.WorkflowStore
import SFV.Model.TokenStore
import SFV.Model.Proto
open SFV SFV.Proto SFV.WfStore

/-! Driver of the whole-workflow record model: the harness replays what it does to a real workflow (create ports / steps, connect,
`Workflow.save`, rewire, save again, `Workflow.load`) and compares the loaded structure. Strings stay hex-encoded. -/

/-! ### token values: `tsave` parses a token (preorder words), saves it with the model of `Token.save` and prints what the rows
hold, walked from the root row (kind, tag, recoverable flag, value / member ids) — the harness prints the same from the real
`token` / `recoverable` tables read with plain SQL. -/

open TokenStore in
mutual
  partial def parseTok : List String → Option (Tok × List String)
    | "P" :: tag :: v :: r :: rest => v.toNat?.map (fun v => (Tok.plain tag v (r = "1"), rest))
    | "L" :: tag :: n :: rest => do
        let n ← n.toNat?
        let (items, rest) ← parseItems n rest
        pure (Tok.list tag items, rest)
    | "O" :: tag :: n :: rest => do
        let n ← n.toNat?
        let (fields, rest) ← parseFields n rest
        pure (Tok.obj tag fields, rest)
    | "J" :: tag :: jv :: r :: n :: rest => do
        let n ← n.toNat?
        let jv ← jv.toNat?
        let (fields, rest) ← parseFields n rest
        pure (Tok.job tag jv (r = "1") fields, rest)
    | _ => none
  partial def parseItems : Nat → List String → Option (Tok × List String)
    | 0, rest => some (Tok.nil, rest)
    | n + 1, ws => do
        let (h, rest) ← parseTok ws
        let (t, rest) ← parseItems n rest
        pure (Tok.cons h t, rest)
  partial def parseFields : Nat → List String → Option (Tok × List String)
    | 0, rest => some (Tok.nil, rest)
    | n + 1, k :: ws => do
        let (h, rest) ← parseTok ws
        let (t, rest) ← parseFields n rest
        pure (Tok.kcons k h t, rest)
    | _, _ => none
end

open TokenStore in
partial def showRow (db : TokenStore.DB) (id : Nat) : String :=
  match db.rows id with
  | none => "?"
  | some r =>
    let b := if r.rcv then "1" else "0"
    match r.kind, r.value with
    | .plain, .json v => s!"P({r.tag},{b},{v})"
    | .list, .ids l => s!"L({r.tag},{b},[{",".intercalate (l.map (showRow db))}])"
    | .obj, .kv l => "O(" ++ r.tag ++ "," ++ b ++ ",{" ++ ",".intercalate (l.map (fun kv => kv.1 ++ "=" ++ showRow db kv.2)) ++ "})"
    | .job, .jobv _ l => "J(" ++ r.tag ++ "," ++ b ++ ",{" ++ ",".intercalate (l.map (fun kv => kv.1 ++ "=" ++ showRow db kv.2)) ++ "})"
    | _, _ => "?"

structure DSt where
  tdb : TokenStore.DB := ⟨fun _ => none, 1⟩
  db : DB := DB.empty
  w : WF := ⟨"", [], [], [], none⟩
  dbOk : Bool := true

def updStep (w : WF) (name : String) (f : StepE → StepE) : WF :=
  { w with steps := w.steps.map (fun s => if s.name = name then f s else s) }

def showConns (cs : List (String × String)) : String :=
  let xs := (cs.map (fun c => c.1 ++ "=" ++ c.2)).mergeSort (· ≤ ·)
  if xs.isEmpty then "-" else ",".intercalate xs

def showWf (w : WF) : String :=
  let ps := (w.ports.map (fun p => p.name ++ ":" ++ p.cls)).mergeSort (· ≤ ·)
  let ss := (w.steps.map (fun s => s.name ++ ":" ++ s.cls ++ ":" ++ toString s.status ++ ":" ++ showConns s.ins ++ ":" ++ showConns s.outs)).mergeSort (· ≤ ·)
  ",".intercalate ps ++ "|" ++ ";".intercalate ss

def step (d : DSt) : List String → DSt × String
  | ["wnew", name] => ({ d with w := ⟨name, [], [], [], none⟩ }, "ok")
  | ["wport", name, cls] => ({ d with w := { d.w with ports := d.w.ports ++ [⟨name, cls, [], none⟩] } }, "ok")
  | ["wstep", name, cls, st] =>
      match st.toNat? with
      | some st => ({ d with w := { d.w with steps := d.w.steps ++ [⟨name, cls, st, [], [], [], none⟩] } }, "ok")
      | none => (d, "bad-op")
  | ["win", s, dep, port] => ({ d with w := updStep d.w s (fun x => { x with ins := x.ins ++ [(dep, port)] }) }, "ok")
  | ["wout", s, dep, port] => ({ d with w := updStep d.w s (fun x => { x with outs := x.outs ++ [(dep, port)] }) }, "ok")
  | ["wsave"] =>
      -- the hypotheses of `load_save_workflow`, measured on this workflow
      let flags := s!"ok={if decide d.db.ok then 1 else 0} fresh={if decide d.w.fresh then 1 else 0} wf={if decide d.w.wf then 1 else 0}"
      let r := saveWf d.db d.w
      ({ d with db := r.1, w := r.2 }, flags)
  | ["wload"] =>
      match d.w.pid.bind (loadWf d.db) with
      | some w => (d, showWf w)
      | none => (d, "none")
  | ["wcopy"] =>
      match d.w.pid.bind (copyWf d.db) with
      | some w => (d, (if w.pid.isNone && w.ports.all (·.pid.isNone) && w.steps.all (·.pid.isNone) then "noids|" else "IDS|") ++ showWf w)
      | none => (d, "none")
  | "tsave" :: ws =>
      match parseTok ws with
      | some (t, []) =>
          let r := TokenStore.save .tok t d.tdb
          match r.2 with
          | [id] => ({ d with tdb := r.1 }, showRow r.1 id)
          | _ => (d, "no-id")
      | _ => (d, "bad-token")
  | _ => (d, "bad-op")

def main : IO Unit := runStateful ({} : DSt) step
