import SFV.Lemmas.Port
/-! # C03 — ports deliver every token exactly once, in order, to every consumer

Property theorems only (helper definitions and lemmas live in `SFV/Lemmas/Port.lean`, the executable
model in `SFV/Model/Port.lean`). -/
namespace SFV.C03
open SFV.Port

/-! ## A. Plain `Port` -/

/-- the queue invariant `Inv` (received ++ still queued = log; a blocked consumer has an empty queue) is
preserved by every operation -/
theorem inv_preserved (p : Port) (h : Inv p) (op : Op) : Inv (p.step op) := inv_step h op

/-- the log is exactly the sequence of `put` payloads -/
theorem port_log_is_puts (ops : List Op) :
    (Port.empty.run ops).log = ops.filterMap Op.payload := by
  rw [Port.run_log, ← puts_eq_filterMap]; rfl

/-- **FIFO, exactly once.** After any history, what consumer `c` received is a prefix of the log, it is the
whole log once it has the same length, and received ++ queued is the whole log (so tokens put before the first
`get` of a late subscriber are included; nothing is lost, duplicated or reordered). -/
theorem port_fifo_exactly_once (ops : List Op) (c : Nat) :
    let p := Port.empty.run ops
    p.recv c <+: p.log ∧ ((p.recv c).length = p.log.length → p.recv c = p.log) ∧
    ∀ q, p.qs c = some q → q.recv ++ q.items = p.log :=
  inv_fifo (inv_run inv_empty ops) c

/-- the same from any state satisfying the invariant -/
theorem port_fifo_from (p0 : Port) (h : Inv p0) (ops : List Op) (c : Nat) :
    let p := p0.run ops
    p.log = p0.log ++ puts ops ∧
    p.recv c <+: p.log ∧ ((p.recv c).length = p.log.length → p.recv c = p.log) ∧
    ∀ q, p.qs c = some q → q.recv ++ q.items = p.log :=
  ⟨Port.run_log p0 ops, inv_fifo (inv_run h ops) c⟩

/-- **`get` returns the next token.** A consumer that is not blocked (or has not subscribed yet) and has
not yet received the whole log receives exactly the next token of the log. -/
theorem get_returns_next (p : Port) (h : Inv p) (c : Nat) (hw : ∀ q, p.qs c = some q → q.wait = none)
    (hl : (p.recv c).length < p.log.length) :
    (p.get c).recv c = p.recv c ++ [p.log[(p.recv c).length]] ∧
    (p.get c).recv c = p.log.take ((p.recv c).length + 1) := by
  have h1 := get_recv_avail h c hw hl
  refine ⟨?_, h1⟩
  rw [h1]
  obtain ⟨r, hr⟩ := (inv_fifo h c).1
  have hl' := hl
  simp only [← hr, List.length_append] at hl' ⊢
  rw [List.take_length_add_append]
  cases r with
  | nil => simp at hl'
  | cons a r => simp

example : Inv (Port.empty.run [.put ⟨false, 1, 1⟩, .get 0, .put ⟨false, 2, 2⟩]) ∧
    (Port.empty.run [.put ⟨false, 1, 1⟩, .get 0, .put ⟨false, 2, 2⟩, .get 0]).recv 0
      = [⟨false, 1, 1⟩, ⟨false, 2, 2⟩] :=
  ⟨inv_run inv_empty _, by decide⟩

/-- the hypotheses of `get_returns_next` hold in a concrete state (one token received, one pending) -/
example :
    let p := Port.empty.run [.put ⟨false, 1, 1⟩, .get 0, .put ⟨false, 2, 2⟩]
    Inv p ∧ (∀ q, p.qs 0 = some q → q.wait = none) ∧ (p.recv 0).length < p.log.length := by
  refine ⟨inv_run inv_empty _, ?_, by decide⟩
  intro q h; cases h; rfl

/-- **A blocked `get` is completed by the next `put`.** If nothing is available the `get` returns nothing
now; after the next `put t` the consumer has received exactly the old tokens followed by `t`, i.e. the whole
new log. -/
theorem blocked_get_completed_by_put (p : Port) (h : Inv p) (c : Nat)
    (hw : ∀ q, p.qs c = some q → q.wait = none) (hl : (p.recv c).length = p.log.length) (t : Tok) :
    (p.get c).recv c = p.recv c ∧
    ((p.get c).put t).recv c = p.recv c ++ [t] ∧
    ((p.get c).put t).recv c = ((p.get c).put t).log := by
  obtain ⟨h1, q, hq, hqw, hqi, hqr⟩ := get_recv_blocked h c hw hl
  have h2 := put_recv_waiting c q t hq hqw hqi
  have h3 := (inv_fifo h c).2.1 hl
  refine ⟨h1, ?_, ?_⟩
  · rw [h2, hqr, h3]
  · rw [h2, hqr]; simp

example : ((Port.empty.run [.put ⟨false, 1, 1⟩, .get 0, .get 0]).recv 0 = [⟨false, 1, 1⟩]) ∧
    ((Port.empty.run [.put ⟨false, 1, 1⟩, .get 0, .get 0, .put ⟨true, 0, 0⟩]).recv 0
      = [⟨false, 1, 1⟩, ⟨true, 0, 0⟩]) := by decide

/-- the hypotheses of `blocked_get_completed_by_put` hold in a concrete state (everything received) -/
example :
    let p := Port.empty.run [.put ⟨false, 1, 1⟩, .get 0]
    Inv p ∧ (∀ q, p.qs 0 = some q → q.wait = none) ∧ (p.recv 0).length = p.log.length := by
  refine ⟨inv_run inv_empty _, ?_, by decide⟩
  intro q h; cases h; rfl

/-- **A termination token is the last thing a disciplined consumer observes.** If no consumer calls `get`
after having received a termination token, every received token except possibly the last is a data token. -/
theorem consumer_stops_at_termination (ops : List Op) (h : Disciplined Port.empty ops) (c : Nat) :
    ∀ t ∈ ((Port.empty.run ops).recv c).dropLast, t.term = false := by
  have := termInv_run termInv_empty ops h c
  unfold Port.recv
  split
  · simp
  · rename_i q hq; exact (this q hq).1

example : Disciplined Port.empty [.get 0, .put ⟨false, 1, 1⟩, .put ⟨true, 0, 0⟩, .get 0, .get 1, .close 0] := by
  decide

/-- **`task_done` never raises.** If every consumer calls `close` at most once, and only after it received
a token (or without ever having subscribed), no queue ever raises `ValueError`. -/
theorem close_counts (ops : List Op) (h : CloseDisc Port.empty ops) (c : Nat) (q : Q)
    (hq : (Port.empty.run ops).qs c = some q) : q.err = false := by
  obtain ⟨ncl, hI⟩ := countInv_run ops Port.empty (fun _ => 0) countInv_empty h (fun _ h => (h rfl).elim)
  exact no_err_of_countInv hI c q hq

example : CloseDisc Port.empty [.put ⟨false, 1, 1⟩, .get 0, .close 1, .get 0, .put ⟨true, 0, 0⟩, .close 0, .get 1] := by
  decide

/-- witness: `close` by a subscribed consumer that has not received anything yet makes `task_done` raise -/
theorem close_before_first_token_raises :
    ((Port.empty.run [.get 0, .close 0]).qs 0).map (·.err) = some true := by decide

/-! ## B. `FilterTokenPort` -/

/-- the log of a filter port is exactly the accepted subsequence of the puts (termination tokens always pass) -/
theorem filter_port_exact (keep : Tok → Bool) (ops : List Op) :
    (filterRun keep Port.empty ops).log = (puts ops).filter (fun t => t.term || keep t) := by
  rw [filterRun_log]; rfl

/-- consumers of a filter port receive the accepted sequence FIFO, exactly once -/
theorem filter_port_fifo (keep : Tok → Bool) (ops : List Op) (c : Nat) :
    let p := filterRun keep Port.empty ops
    p.recv c <+: p.log ∧ ((p.recv c).length = p.log.length → p.recv c = p.log) ∧
    ∀ q, p.qs c = some q → q.recv ++ q.items = p.log :=
  inv_fifo (inv_filterRun inv_empty ops) c

example : (filterRun (fun t => t.val != 2) Port.empty
      [.put ⟨false, 1, 1⟩, .get 0, .put ⟨false, 2, 2⟩, .get 0, .put ⟨true, 0, 2⟩]).recv 0
    = [⟨false, 1, 1⟩, ⟨true, 0, 2⟩] := by decide

/-! ## C. `InterWorkflowPort`

`act r t` is what a satisfied rule puts on its target for token `t`; `fire T ts` are the tokens of the
stream `ts` on which a rule with missing tags `T` fires; `remaining T ts` the tags still missing afterwards. -/

/-- firing over a concatenated stream -/
theorem fire_append (T : List Nat) (a b : List Tok) :
    fire T (a ++ b) = fire T a ++ fire (remaining T a) b := SFV.Port.fire_append T a b

/-- a rule whose tag set is not yet empty has never fired -/
theorem fire_never (T : List Nat) (ts : List Tok) (h : remaining T ts ≠ []) : fire T ts = [] :=
  SFV.Port.fire_never T ts h

/-- a rule fires exactly from the token that empties its tag set onwards -/
theorem fire_at_completion (T : List Nat) (a b : List Tok) (t : Tok) (h1 : remaining T a ≠ [])
    (h2 : remaining T (a ++ [t]) = []) : fire T (a ++ t :: b) = t :: b :=
  SFV.Port.fire_at_completion T a b t h1 h2

example : remaining [1, 2] [⟨false, 1, 0⟩] ≠ [] ∧ remaining [1, 2] ([⟨false, 1, 0⟩] ++ [⟨false, 2, 0⟩]) = [] ∧
    fire [1, 2] [⟨false, 1, 0⟩, ⟨false, 2, 0⟩, ⟨false, 7, 0⟩] = [⟨false, 2, 0⟩, ⟨false, 7, 0⟩] := by decide

/-- **One `put` of a data token**: every rule loses the tag; each boundary port receives the actions of its
satisfied rules, in rule order; the port itself receives the actions of its satisfied self rules, or the token
itself if there is none (`selfOut`). -/
theorem iw_put_data (s : IW) (t : Tok) (ht : t.term = false) :
    (s.put t).rules = s.rules.map (·.removeTag t.tag) ∧
    (∀ k, ((s.put t).ext k).log = (s.ext k).log ++
      ((s.rules.map (·.removeTag t.tag)).filter (fun r => r.satisfied && r.target == .ext k)).flatMap (act · t)) ∧
    (s.put t).own.log = s.own.log ++ selfOut s.rules t ∧
    selfOut s.rules t =
      (let f := (s.rules.map (·.removeTag t.tag)).filter (fun r => r.satisfied && r.target == .self)
       if f.isEmpty then [t] else f.flatMap (act · t)) := by
  obtain ⟨h1, h2, h3, _⟩ := IW.put_data s t ht
  exact ⟨h1, h2, h3, rfl⟩

/-- **One `put` of a termination token**: it goes to the port's own log only -/
theorem iw_put_term (s : IW) (t : Tok) (ht : t.term = true) :
    (s.put t).own.log = s.own.log ++ [t] ∧ (s.put t).rules = s.rules ∧ (s.put t).ext = s.ext := by
  rw [IW.put_term s t ht]; exact ⟨rfl, rfl, rfl⟩

/-- `get` and `close` change neither logs nor rules -/
theorem iw_get_close_unchanged (s : IW) (c : Nat) :
    ((s.step (.get c)).own.log = s.own.log ∧ (s.step (.get c)).rules = s.rules ∧ (s.step (.get c)).ext = s.ext) ∧
    ((s.step (.close c)).own.log = s.own.log ∧ (s.step (.close c)).rules = s.rules ∧
      (s.step (.close c)).ext = s.ext) := by
  simp [IW.step]

/-- **Boundary ports receive exactly the rule's output.** If `r` is the only rule ever targeting boundary
port `k`, then after `add r` and any further history that port has received `act r` of exactly the tokens on
which `r` fires in the stream: data tokens already in the own log when the rule is added (replay), followed
by the data tokens put afterwards. -/
theorem iw_boundary_exact (s : IW) (r : Rule) (k : Nat) (ops : List IWOp) (hr : r.target = .ext k)
    (hothers : ∀ r' ∈ s.rules, r'.target ≠ .ext k) (hadds : ∀ r', IWOp.add r' ∈ ops → r'.target ≠ .ext k) :
    ((s.run (.add r :: ops)).ext k).log =
      (s.ext k).log ++ (fire r.tags (s.own.log.filter (fun t => !t.term) ++ dataPuts ops)).flatMap (act r) :=
  IW.add_run_ext_log k s r ops hr hothers hadds

/-- the same for a rule already installed, from any state -/
theorem iw_boundary_suffix (s : IW) (pre post : List Rule) (r : Rule) (k : Nat) (ops : List IWOp)
    (hrules : s.rules = pre ++ r :: post) (hr : r.target = .ext k)
    (hothers : ∀ r' ∈ pre ++ post, r'.target ≠ .ext k) (hadds : ∀ r', IWOp.add r' ∈ ops → r'.target ≠ .ext k) :
    ((s.run ops).ext k).log = (s.ext k).log ++ (fire r.tags (dataPuts ops)).flatMap (act r) :=
  IW.run_ext_log k ops s pre post r hrules hr hothers hadds

example :
    ((IW.empty.run [.put ⟨false, 1, 1⟩, .put ⟨true, 0, 0⟩, .add ⟨.ext 0, true, true, [1, 2, 3]⟩,
        .add ⟨.self, true, false, [5]⟩, .put ⟨false, 2, 2⟩, .get 0, .put ⟨false, 3, 3⟩, .put ⟨false, 4, 4⟩]).ext 0).log
      = [⟨false, 3, 3⟩, recoveredTok, ⟨false, 4, 4⟩, recoveredTok] := by decide

/-- the hypotheses of `iw_boundary_exact` hold in a concrete state with another rule and a later `add` -/
example :
    let s := IW.empty.run [.put ⟨false, 1, 1⟩, .add ⟨.self, true, false, [9]⟩]
    let ops : List IWOp := [.add ⟨.ext 1, true, false, []⟩, .put ⟨false, 2, 2⟩]
    (∀ r' ∈ s.rules, r'.target ≠ .ext 0) ∧ (∀ r', IWOp.add r' ∈ ops → r'.target ≠ .ext 0) := by
  refine ⟨by decide, ?_⟩
  intro r' h; simp at h; subst h; decide

/-- **The port's own log with one self rule.** If `r` is the only rule targeting the port itself and no rule
is added, the own log grows by `ownSpec`: termination tokens pass, a data token is replaced by `act r` once the
rule is satisfied and passes unchanged before. -/
theorem iw_self (s : IW) (pre post : List Rule) (r : Rule) (ops : List IWOp)
    (hrules : s.rules = pre ++ r :: post) (hr : r.target = .self)
    (hothers : ∀ r' ∈ pre ++ post, r'.target ≠ .self) (hadds : ∀ r', IWOp.add r' ∉ ops) :
    (s.run ops).own.log = s.own.log ++ ownSpec r r.tags (allPuts ops) :=
  IW.run_own_log_self ops s pre post r hrules hr hothers hadds

/-- with a single PROPAGATE self rule every data token put appears in the own log exactly once, in order
(the only additions are injected termination tokens) -/
theorem iw_self_exactly_once (s : IW) (pre post : List Rule) (r : Rule) (ops : List IWOp)
    (hrules : s.rules = pre ++ r :: post) (hr : r.target = .self) (hp : r.propagate = true)
    (hothers : ∀ r' ∈ pre ++ post, r'.target ≠ .self) (hadds : ∀ r', IWOp.add r' ∉ ops) :
    (s.run ops).own.log.filter (fun t => !t.term) = s.own.log.filter (fun t => !t.term) ++ dataPuts ops := by
  rw [IW.run_own_log_self ops s pre post r hrules hr hothers hadds, List.filter_append,
    ownSpec_data r hp, dataPuts_eq_filter]

example :
    let s := IW.empty.run [.add ⟨.ext 0, true, false, [1]⟩, .add ⟨.self, true, true, [1, 2]⟩]
    s.rules = [⟨.ext 0, true, false, [1]⟩] ++ ⟨.self, true, true, [1, 2]⟩ :: [] ∧
    (s.run [.put ⟨false, 1, 1⟩, .get 0, .put ⟨false, 2, 2⟩, .put ⟨true, 0, 0⟩]).own.log
      = [⟨false, 1, 1⟩, ⟨false, 2, 2⟩, recoveredTok, ⟨true, 0, 0⟩] := by decide

/-- the hypotheses of `iw_self` hold for that state and history -/
example :
    let s := IW.empty.run [.add ⟨.ext 0, true, false, [1]⟩, .add ⟨.self, true, true, [1, 2]⟩]
    let ops : List IWOp := [.put ⟨false, 1, 1⟩, .get 0, .put ⟨false, 2, 2⟩, .put ⟨true, 0, 0⟩]
    s.rules = [⟨.ext 0, true, false, [1]⟩] ++ ⟨.self, true, true, [1, 2]⟩ :: [] ∧
    (∀ r' ∈ [(⟨.ext 0, true, false, [1]⟩ : Rule)] ++ [], r'.target ≠ .self) ∧ (∀ r', IWOp.add r' ∉ ops) := by
  refine ⟨by decide, by decide, ?_⟩
  intro r' h; simp at h

/-- without any self rule the own log is exactly the sequence of puts -/
theorem iw_no_self_rule (s : IW) (ops : List IWOp) (hrules : ∀ r' ∈ s.rules, r'.target ≠ .self)
    (hadds : ∀ r', IWOp.add r' ∈ ops → r'.target ≠ .self) :
    (s.run ops).own.log = s.own.log ++ allPuts ops :=
  IW.run_own_log_noself ops s hrules hadds

/-- witness: with two PROPAGATE self rules a data token is duplicated in the own log (hence the hypothesis
"at most one self rule") -/
theorem iw_two_self_rules_duplicate :
    (IW.empty.run [.add ⟨.self, true, false, []⟩, .add ⟨.self, true, false, []⟩, .put ⟨false, 1, 1⟩]).own.log
      = [⟨false, 1, 1⟩, ⟨false, 1, 1⟩] := by decide

/-- consumers of the inter-workflow port itself see its own log FIFO, exactly once -/
theorem iw_own_fifo (ops : List IWOp) (c : Nat) :
    let p := (IW.empty.run ops).own
    Inv p ∧ p.recv c <+: p.log ∧ ((p.recv c).length = p.log.length → p.recv c = p.log) ∧
    ∀ q, p.qs c = some q → q.recv ++ q.items = p.log :=
  have h := IW.run_own_inv IW.empty ops inv_empty
  ⟨h, inv_fifo h c⟩

example : ((IW.empty.run [.get 0, .add ⟨.self, true, true, [1]⟩, .put ⟨false, 1, 1⟩, .get 0]).own.recv 0)
    = [⟨false, 1, 1⟩, recoveredTok] := by decide

end SFV.C03
