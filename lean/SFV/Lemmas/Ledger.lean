import SFV.Model.Ledger
/-! Invariant of the scheduler ledger under the engine protocol (helper lemmas for C10 / C11). -/
namespace SFV.Ledger
open SFV.Gen.Sched

/-! ### facts about the generated status guards (finite checks) -/

/-- the status a notification leaves in the allocation -/
def newStatus (prev new : Status) : Status := if statusStored prev new then new else prev

def protoOk (prev new : Status) : Prop :=
  occupying new = true → (prev = .fireable ∧ new = .running) ∨ prev = new

instance (prev new : Status) : Decidable (protoOk prev new) := by unfold protoOk; exact inferInstance

/-- a releasing notification that respects the protocol takes an occupying job to a non-occupying status -/
theorem release_leaves (prev new : Status) (hp : protoOk prev new) (hr : releases prev new = true) :
    occupying prev = true ∧ occupying (newStatus prev new) = false := by
  revert hp hr; cases prev <;> cases new <;> decide

/-- a non-releasing notification that respects the protocol does not change whether the job occupies -/
theorem no_release_keeps (prev new : Status) (hp : protoOk prev new) (hr : releases prev new = false) :
    occupying (newStatus prev new) = occupying prev := by
  revert hp hr; cases prev <;> cases new <;> decide

/-- the job's locations are cleared only when it ends up in a non-occupying status -/
theorem unlist_not_occupying (prev new : Status) (hp : protoOk prev new) (hu : unlists new = true) :
    occupying (newStatus prev new) = false := by
  revert hp hu; cases prev <;> cases new <;> decide

/-- a repeated status neither stores nor releases -/
theorem same_status (p : Status) : statusStored p p = false ∧ releases p p = false := by
  cases p <;> decide

theorem allocStatus_occupying : occupying allocStatus = true := by decide

/-! ### sums over the job table -/

theorem sumOver_congr {f g : Job → Rat} {l : List Job} (h : ∀ k ∈ l, g k = f k) : sumOver g l = sumOver f l := by
  induction l with
  | nil => rfl
  | cons a l ih =>
    simp only [sumOver]
    rw [h a (List.mem_cons_self ..), ih (fun k hk => h k (List.mem_cons_of_mem _ hk))]

theorem sumOver_update {f g : Job → Rat} {l : List Job} {j : Job} (hnd : l.Nodup) (hj : j ∈ l)
    (h : ∀ k, k ≠ j → g k = f k) : sumOver g l = sumOver f l - f j + g j := by
  induction l with
  | nil => simp at hj
  | cons a l ih =>
    have hnd' := List.nodup_cons.mp hnd
    simp only [sumOver]
    by_cases ha : a = j
    · subst ha
      rw [sumOver_congr (f := f) (g := g) (fun k hk => h k (fun e => hnd'.1 (e ▸ hk)))]
      grind
    · have hj' : j ∈ l := by
        rcases List.mem_cons.mp hj with e | e
        · exact absurd e.symm ha
        · exact e
      rw [ih hnd'.2 hj', h a ha]; grind

theorem sumOver_zero {f : Job → Rat} {l : List Job} (h : ∀ k ∈ l, f k = 0) : sumOver f l = 0 := by
  induction l with
  | nil => rfl
  | cons a l ih =>
    simp only [sumOver]
    rw [h a (List.mem_cons_self ..), ih (fun k hk => h k (List.mem_cons_of_mem _ hk))]; grind

/-! ### entry lists -/

theorem amountAt_of_not_mem {es : List (Loc × Rat)} {ℓ : Loc} (h : ℓ ∉ es.map (·.1)) : amountAt es ℓ = 0 := by
  induction es with
  | nil => rfl
  | cons e es ih =>
    obtain ⟨ℓ', v⟩ := e
    simp only [List.map_cons, List.mem_cons, not_or] at h
    simp only [amountAt, if_neg (fun (e : ℓ' = ℓ) => h.1 e.symm), ih h.2]; grind

theorem amountAt_of_mem_nodup {es : List (Loc × Rat)} (hnd : (es.map (·.1)).Nodup) {e : Loc × Rat} (he : e ∈ es) :
    amountAt es e.1 = e.2 := by
  induction es with
  | nil => simp at he
  | cons a es ih =>
    obtain ⟨ℓ', v⟩ := a
    simp only [List.map_cons, List.nodup_cons] at hnd
    rcases List.mem_cons.mp he with h | h
    · subst h
      simp only [amountAt, if_true, amountAt_of_not_mem hnd.1]; grind
    · have hne : ℓ' ≠ e.1 := fun h' => hnd.1 (h' ▸ List.mem_map_of_mem h)
      simp only [amountAt, if_neg hne, ih hnd.2 h]; grind

theorem amountAt_nonneg {es : List (Loc × Rat)} (h : ∀ e ∈ es, 0 ≤ e.2) (ℓ : Loc) : 0 ≤ amountAt es ℓ := by
  induction es with
  | nil => simp only [amountAt]; grind
  | cons a es ih =>
    obtain ⟨ℓ', v⟩ := a
    have h1 := h (ℓ', v) (List.mem_cons_self ..)
    have h2 := ih (fun e he => h e (List.mem_cons_of_mem _ he))
    simp only [amountAt]; split <;> grind

theorem amountAt_zero {es : List (Loc × Rat)} (h : ∀ e ∈ es, e.2 = 0) (ℓ : Loc) : amountAt es ℓ = 0 := by
  induction es with
  | nil => rfl
  | cons a es ih =>
    obtain ⟨ℓ', v⟩ := a
    have h1 : v = 0 := h (ℓ', v) (List.mem_cons_self ..)
    simp only [amountAt, ih (fun e he => h e (List.mem_cons_of_mem _ he)), h1]; split <;> grind

theorem usageAt_nonneg {entries usage : List (Loc × Rat)} (h : ∀ e ∈ usage, 0 ≤ e.2) (ℓ : Loc) :
    0 ≤ amountAt (usageAt entries usage) ℓ := by
  apply amountAt_nonneg
  intro e he
  simp only [usageAt, List.mem_map] at he
  obtain ⟨x, _, rfl⟩ := he
  exact amountAt_nonneg h _

theorem usageAt_zero {entries usage : List (Loc × Rat)} (h : ∀ e ∈ usage, e.2 = 0) (ℓ : Loc) :
    amountAt (usageAt entries usage) ℓ = 0 := by
  apply amountAt_zero
  intro e he
  simp only [usageAt, List.mem_map] at he
  obtain ⟨x, _, rfl⟩ := he
  exact amountAt_zero h _

/-! ### the invariant -/

structure Inv (cap : Loc → Rat) (s : St) : Prop where
  nodup : s.ids.Nodup
  books : ∀ ℓ, s.reserved ℓ = occSum s ℓ + s.residual ℓ
  resid : ∀ ℓ, 0 ≤ s.residual ℓ
  bound : ∀ ℓ, occSum s ℓ ≤ cap ℓ
  pos : ∀ k, ∀ e ∈ s.alloc k, 0 ≤ e.2

theorem inv_init (cap : Loc → Rat) (hcap : ∀ ℓ, 0 ≤ cap ℓ) : Inv cap init :=
  ⟨by simp [init], fun ℓ => by simp only [init, occSum, sumOver]; grind, fun ℓ => by simp only [init]; grind,
   fun ℓ => by simp only [init, occSum, sumOver]; exact hcap ℓ, fun k e he => by simp [init] at he⟩

theorem contrib_update_ne {status : Job → Status} {alloc : Job → List (Loc × Rat)} {j k : Job} (hk : k ≠ j)
    (st : Status) (es : List (Loc × Rat)) (ℓ : Loc) :
    contrib (update status j st) (update alloc j es) ℓ k = contrib status alloc ℓ k := by
  simp [contrib, update, hk]

theorem contrib_update_status_ne {status : Job → Status} {alloc : Job → List (Loc × Rat)} {j k : Job} (hk : k ≠ j)
    (st : Status) (ℓ : Loc) : contrib (update status j st) alloc ℓ k = contrib status alloc ℓ k := by
  simp [contrib, update, hk]

theorem inv_allocate {cap : Loc → Rat} {s : St} (hI : Inv cap s) (j : Job) (entries : List (Loc × Rat))
    (hok : OpOk s (.allocate j entries)) : Inv cap (step cap s (.allocate j entries)) := by
  obtain ⟨hnocc, hnd, hpos⟩ := hok
  simp only [step]
  split
  · rename_i hg
    simp only [List.all_eq_true, decide_eq_true_eq] at hg
    -- the job's old contribution is 0 everywhere
    have hold : ∀ ℓ, j ∈ s.ids → contrib s.status s.alloc ℓ j = 0 := by
      intro ℓ hj
      have : occupying (s.status j) = false := by
        cases h : occupying (s.status j) with
        | false => rfl
        | true => exact absurd ⟨hj, h⟩ hnocc
      simp [contrib, this]
    have hnew : ∀ ℓ, contrib (update s.status j allocStatus) (update s.alloc j entries) ℓ j = amountAt entries ℓ := by
      intro ℓ; simp [contrib, update, allocStatus_occupying]
    have hsum : ∀ ℓ, sumOver (contrib (update s.status j allocStatus) (update s.alloc j entries) ℓ)
        (if j ∈ s.ids then s.ids else j :: s.ids) = occSum s ℓ + amountAt entries ℓ := by
      intro ℓ
      by_cases hj : j ∈ s.ids
      · rw [if_pos hj, sumOver_update (f := contrib s.status s.alloc ℓ) hI.nodup hj
          (fun k hk => contrib_update_ne hk _ _ ℓ), hold ℓ hj, hnew ℓ]
        simp only [occSum]; grind
      · rw [if_neg hj]
        simp only [sumOver, hnew ℓ]
        rw [sumOver_congr (f := contrib s.status s.alloc ℓ)
          (fun k hk => contrib_update_ne (fun (e : k = j) => hj (e ▸ hk)) _ _ ℓ)]
        simp only [occSum]; grind
    refine ⟨?_, ?_, hI.resid, ?_, ?_⟩
    rotate_right 1
    · intro k e he
      by_cases hk : k = j
      · subst hk; simp only [update, if_true] at he; exact hpos e he
      · simp only [update, hk, if_false] at he; exact hI.pos k e he
    · by_cases hj : j ∈ s.ids
      · simp only [hj, if_true]; exact hI.nodup
      · simp only [hj, if_false]; exact List.nodup_cons.mpr ⟨hj, hI.nodup⟩
    · intro ℓ
      simp only [occSum]
      rw [hsum ℓ, hI.books ℓ]; grind
    · intro ℓ
      simp only [occSum]
      rw [hsum ℓ]
      by_cases hℓ : ℓ ∈ entries.map (·.1)
      · obtain ⟨e, he, rfl⟩ := List.mem_map.mp hℓ
        rw [amountAt_of_mem_nodup hnd he]
        have h1 := hg e he
        have h2 := hI.books e.1
        have h3 := hI.resid e.1
        grind
      · rw [amountAt_of_not_mem hℓ]
        have := hI.bound ℓ
        grind
  · exact hI

theorem inv_notify {cap : Loc → Rat} {s : St} (hI : Inv cap s) (j : Job) (new : Status) (usage : List (Loc × Rat))
    (hok : OpOk s (.notify j new usage)) : Inv cap (step cap s (.notify j new usage)) := by
  obtain ⟨hproto, hupos⟩ := hok
  have hp : protoOk (s.status j) new := hproto
  by_cases hj : j ∈ s.ids
  case neg => simp only [step, hj, if_false]; exact hI
  -- the status table after the notification
  let st' : Job → Status := if statusStored (s.status j) new = true then update s.status j new else s.status
  have hst'j : st' j = newStatus (s.status j) new := by
    simp only [st', newStatus]
    by_cases hs : statusStored (s.status j) new = true <;> simp [hs, update]
  have hst'k : ∀ k, k ≠ j → st' k = s.status k := by
    intro k hk
    simp only [st']
    by_cases hs : statusStored (s.status j) new = true <;> simp [hs, update, hk]
  -- generic: the sum after changing status (and possibly the allocation) of `j` only
  have hsum : ∀ (al : Job → List (Loc × Rat)) ℓ, (∀ k, k ≠ j → al k = s.alloc k) →
      sumOver (contrib st' al ℓ) s.ids = occSum s ℓ - contrib s.status s.alloc ℓ j + contrib st' al ℓ j := by
    intro al ℓ hal
    exact sumOver_update (f := contrib s.status s.alloc ℓ) hI.nodup hj
      (fun k hk => by simp only [contrib, hst'k k hk, hal k hk])
  have hposj : ∀ ℓ, 0 ≤ amountAt (s.alloc j) ℓ := fun ℓ => amountAt_nonneg (hI.pos j) ℓ
  by_cases hr : releases (s.status j) new = true
  · obtain ⟨hocc, hnocc⟩ := release_leaves _ _ hp hr
    have hc0 : ∀ al ℓ, contrib st' al ℓ j = 0 := by intro al ℓ; simp [contrib, hst'j, hnocc]
    have hcj : ∀ ℓ, contrib s.status s.alloc ℓ j = amountAt (s.alloc j) ℓ := by intro ℓ; simp [contrib, hocc]
    have hu := fun ℓ => usageAt_nonneg (entries := s.alloc j) hupos ℓ
    have key : ∀ (al : Job → List (Loc × Rat)), (∀ k, k ≠ j → al k = s.alloc k) → (∀ e ∈ al j, 0 ≤ e.2) →
        Inv cap { reserved := fun ℓ => s.reserved ℓ - amountAt (s.alloc j) ℓ + amountAt (usageAt (s.alloc j) usage) ℓ,
                  ids := s.ids, status := st', alloc := al,
                  residual := fun ℓ => s.residual ℓ + amountAt (usageAt (s.alloc j) usage) ℓ } := by
      intro al hal hpj
      refine ⟨hI.nodup, fun ℓ => ?_, fun ℓ => ?_, fun ℓ => ?_, fun k e he => ?_⟩
      · simp only [occSum]; rw [hsum al ℓ hal, hc0, hcj, hI.books ℓ]; grind
      · have := hI.resid ℓ; have := hu ℓ; simp only; grind
      · simp only [occSum]; rw [hsum al ℓ hal, hc0, hcj]
        have := hI.bound ℓ; have := hposj ℓ; grind
      · by_cases hk : k = j
        · subst hk; exact hpj e he
        · have he' : e ∈ al k := he
          rw [hal k hk] at he'; exact hI.pos k e he'
    by_cases hun : unlists new = true
    · have := key (update s.alloc j []) (fun k hk => by simp [update, hk]) (by simp [update])
      simp only [step, hj, if_true, hr, hun]
      by_cases hs : statusStored (s.status j) new = true
      · simpa [hs, st'] using this
      · simpa [hs, st'] using this
    · have := key s.alloc (fun k _ => rfl) (hI.pos j)
      simp only [step, hj, if_true, hr, hun]
      by_cases hs : statusStored (s.status j) new = true
      · simpa [hs, st'] using this
      · simpa [hs, st'] using this
  · have hr' : releases (s.status j) new = false := by simpa using hr
    have hkeep := no_release_keeps _ _ hp hr'
    have key : ∀ (al : Job → List (Loc × Rat)), (∀ k, k ≠ j → al k = s.alloc k) → (∀ e ∈ al j, 0 ≤ e.2) →
        (occupying (newStatus (s.status j) new) = true → al j = s.alloc j) →
        Inv cap { reserved := s.reserved, ids := s.ids, status := st', alloc := al, residual := s.residual } := by
      intro al hal hpj hsame
      have hcj : ∀ ℓ, contrib st' al ℓ j = contrib s.status s.alloc ℓ j := by
        intro ℓ
        simp only [contrib, hst'j, hkeep]
        cases ho : occupying (s.status j) with
        | false => simp
        | true => simp [hsame (by rw [hkeep]; exact ho)]
      refine ⟨hI.nodup, fun ℓ => ?_, hI.resid, fun ℓ => ?_, fun k e he => ?_⟩
      · have e1 : occSum { reserved := s.reserved, ids := s.ids, status := st', alloc := al, residual := s.residual } ℓ
            = occSum s ℓ := by
          simp only [occSum]; rw [hsum al ℓ hal, hcj]; simp only [occSum]; grind
        rw [e1]; exact hI.books ℓ
      · have e1 : occSum { reserved := s.reserved, ids := s.ids, status := st', alloc := al, residual := s.residual } ℓ
            = occSum s ℓ := by
          simp only [occSum]; rw [hsum al ℓ hal, hcj]; simp only [occSum]; grind
        rw [e1]; exact hI.bound ℓ
      · by_cases hk : k = j
        · subst hk; exact hpj e he
        · have he' : e ∈ al k := he
          rw [hal k hk] at he'; exact hI.pos k e he'
    by_cases hun : unlists new = true
    · have hno := unlist_not_occupying _ _ hp hun
      have := key (update s.alloc j []) (fun k hk => by simp [update, hk]) (by simp [update])
        (fun h => by rw [hno] at h; cases h)
      simp only [step, hj, if_true, hr', hun]
      by_cases hs : statusStored (s.status j) new = true
      · simpa [hs, st'] using this
      · simpa [hs, st'] using this
    · have := key s.alloc (fun k _ => rfl) (hI.pos j) (fun _ => rfl)
      simp only [step, hj, if_true, hr', hun]
      by_cases hs : statusStored (s.status j) new = true
      · simpa [hs, st'] using this
      · simpa [hs, st'] using this

theorem inv_step {cap : Loc → Rat} {s : St} (hI : Inv cap s) (op : Op) (hok : OpOk s op) : Inv cap (step cap s op) := by
  cases op with
  | allocate j entries => exact inv_allocate hI j entries hok
  | notify j new usage => exact inv_notify hI j new usage hok

theorem inv_run {cap : Loc → Rat} (ops : List Op) {s : St} (hI : Inv cap s) (hok : HistoryOk cap s ops) :
    Inv cap (run cap s ops) := by
  induction ops generalizing s with
  | nil => exact hI
  | cons op ops ih => exact ih (inv_step hI op hok.1) hok.2

/-- with no measured usage in the history the ghost residual stays zero -/
theorem residual_zero_step {cap : Loc → Rat} {s : St} (h0 : ∀ ℓ, s.residual ℓ = 0) (op : Op)
    (hz : ZeroUsage [op]) : ∀ ℓ, (step cap s op).residual ℓ = 0 := by
  cases op with
  | allocate j entries => intro ℓ; simp only [step]; split <;> exact h0 ℓ
  | notify j new usage =>
    intro ℓ
    have hz' : ∀ e ∈ usage, e.2 = 0 := hz.1
    simp only [step]
    split
    · by_cases hs : statusStored (s.status j) new = true <;> by_cases hr : releases (s.status j) new = true <;>
        by_cases hu : unlists new = true <;> simp [hs, hr, hu, h0 ℓ, usageAt_zero hz'] <;> grind
    · exact h0 ℓ

theorem residual_zero_run {cap : Loc → Rat} (ops : List Op) {s : St} (h0 : ∀ ℓ, s.residual ℓ = 0)
    (hz : ZeroUsage ops) : ∀ ℓ, (run cap s ops).residual ℓ = 0 := by
  induction ops generalizing s with
  | nil => exact h0
  | cons op ops ih =>
    cases op with
    | allocate j entries => exact ih (residual_zero_step h0 _ (by simp [ZeroUsage])) hz
    | notify j new usage => exact ih (residual_zero_step h0 _ ⟨hz.1, trivial⟩) hz.2

end SFV.Ledger
