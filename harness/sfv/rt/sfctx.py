"""A real StreamFlowContext without docker: in-memory (or file) sqlite database, local deployment only."""
from __future__ import annotations

import os

from streamflow.core.context import StreamFlowContext
from streamflow.main import build_context


def make_context(workdir: str, db_path: str = ":memory:", extra: dict | None = None) -> StreamFlowContext:
    cfg = {"database": {"type": "default", "config": {"connection": db_path}}, "path": workdir}
    if extra:
        cfg.update(extra)
    return build_context(cfg)


async def close_context(context: StreamFlowContext) -> None:
    await context.close()
