"""C02 — dot-product / cartesian-product combinators emit exactly the right combinations, whatever the arrival order."""
from __future__ import annotations

import contextlib
import itertools
import signal

import asyncio

from streamflow.core.workflow import Status, Token, Workflow
from streamflow.workflow.combinator import CartesianProductCombinator, DotProductCombinator
from streamflow.workflow.step import CombinatorStep
from streamflow.workflow.token import TerminationToken

from sfv.framework import Ctx, Inconclusive, Property
from sfv.rt import loop_safe as sfloop   # thread-safe shuffle (see rt/loop_safe.py)
from sfv.rt import sfctx
from sfv.translate import combguards, tagguards

DRIVER = "Drivers/C02.lean"
COMPS = [0, 1, 2, 9, 10, 11]
SLOW_S = 900  # generous wall-clock bound per case (shared, loaded machine)
STEP_S = 300  # bound of one step-level case (normally ~50 ms)
KEY_DESC = "dot:port-with-tag-and-own-descendant:order-dependent"
KEY_MIXED = "cart:ports-with-mixed-tag-depths:order-dependent"
KEY_NEST_D2 = "nest:inner-cartesian-depth>=2:schema-tags-collide:order-dependent"
KEY_NESTC = "nest:cartesian-over-inner-combinator:raises"


# ------------------------------------------------------------------------------------------------
# watchdog for synchronous code (combine() never really suspends, so asyncio time-outs cannot fire)
# ------------------------------------------------------------------------------------------------
class Hang(Exception):
    pass


class InputIdsMismatch(Exception):
    """a yielded schema entry whose `input_ids` is not exactly [id of the token it was made from] (or a retagged
    token that kept a persistent id)"""


@contextlib.contextmanager
def alarm(seconds: int):
    def onalarm(signum, frame):
        raise Hang()

    old = signal.signal(signal.SIGALRM, onalarm)
    signal.alarm(seconds)
    try:
        yield
    finally:
        signal.alarm(0)
        signal.signal(signal.SIGALRM, old)


# ------------------------------------------------------------------------------------------------
# tags
# ------------------------------------------------------------------------------------------------
def comps(tag: str) -> tuple[int, ...]:
    return tuple(int(c) for c in tag.split("."))


def is_prefix(a: str, b: str) -> bool:
    ca, cb = comps(a), comps(b)
    return cb[: len(ca)] == ca


# ------------------------------------------------------------------------------------------------
# the REAL combinators
# ------------------------------------------------------------------------------------------------
def build(wf: Workflow, shape: dict):
    """shape: {"kind": "dot", "P": n} | {"kind": "cart", "depth": d, "P": n} |
    {"kind": "nest", "items": [2, ["d", [0, 1]], ["c", 1, [3, 4]]]} (outer dot product)"""
    if shape["kind"] == "dot":
        c = DotProductCombinator(name="c", workflow=wf)
        for p in range(shape["P"]):
            c.add_item(f"p{p}")
        return c
    if shape["kind"] == "cart":
        c = (CartesianProductCombinator(name="c", workflow=wf) if shape.get("nodepth") else
             CartesianProductCombinator(name="c", workflow=wf, depth=shape["depth"]))
        for p in range(shape["P"]):
            c.add_item(f"p{p}")
        return c
    outer = (DotProductCombinator(name="outer", workflow=wf) if shape["kind"] == "nest" else
             CartesianProductCombinator(name="outer", workflow=wf, depth=shape["depth"]))
    for i, it in enumerate(shape["items"]):
        if isinstance(it, int):
            outer.add_item(f"p{it}")
        else:
            if it[0] == "d":
                inner = DotProductCombinator(name=f"c{1000 + i}", workflow=wf)
                ports = it[1]
            else:
                inner = CartesianProductCombinator(name=f"c{1000 + i}", workflow=wf, depth=it[1])
                ports = it[2]
            for p in ports:
                inner.add_item(f"p{p}")
            outer.add_combinator(inner, {f"p{p}" for p in ports})
    return outer


async def run_real(wf: Workflow, shape: dict, events: list) -> tuple[list, str | None]:
    """feed the events in order; returns (emissions, exception name). An emission is the schema in dict order:
    [(port, tag, value), …]"""
    c = build(wf, shape)
    out = []
    try:
        for p, tag, val in events:
            tok = Token(value=val, tag=tag)
            tok.persistent_id = val  # values are unique per stream: the value doubles as the token's id
            async for schema in c.combine(f"p{p}", tok):
                for k, s in schema.items():
                    if list(s["input_ids"]) != [s["token"].value] or s["token"].persistent_id is not None:
                        raise InputIdsMismatch(f"{k}: input_ids {s['input_ids']} for the token with id {s['token'].value}")
                out.append([(int(k[1:]), s["token"].tag, s["token"].value) for k, s in schema.items()])
    except Hang:
        raise
    except Exception as e:  # noqa: BLE001
        return out, type(e).__name__
    return out, None


async def run_step(sfc, shape: dict, events: list, name: str) -> dict:
    """the same stream through a REAL CombinatorStep with real ports: a feeder task puts the (persisted) tokens on the
    input ports in the given order, yielding after each one, while `step.run()` consumes them; the order in which the
    step sees tokens of different ports is decided by the controlled loop and RECORDED (`arrivals`). Returns the logs of
    the output ports, the recorded arrival order, the final status, and the provenance rows of every output token."""
    wf = Workflow(context=sfc, config={}, name=name)
    comb = build(wf, shape)
    ports = nest_ports(shape) if shape["kind"] == "nest" else list(range(shape["P"]))
    step = wf.create_step(cls=CombinatorStep, name="/comb", combinator=comb)
    ins, outs = {}, {}
    for p in ports:
        ins[p], outs[p] = wf.create_port(), wf.create_port()
        step.add_input_port(f"p{p}", ins[p])
        step.add_output_port(f"p{p}", outs[p])
    await wf.save(sfc.database)
    arrivals: list = []
    real_combine = comb.combine

    def recording_combine(port_name, token):
        arrivals.append((int(port_name[1:]), token.tag, token.value))
        return real_combine(port_name, token)

    comb.combine = recording_combine  # instance attribute: `self.combinator.combine(...)` in run() goes through it
    ids: dict = {}

    async def feeder():
        for p, tag, val in events:
            t = Token(value=val, tag=tag)
            await t.save(sfc.database, port_id=ins[p].persistent_id)
            ids[val] = t.persistent_id
            ins[p].put(t)
            await asyncio.sleep(0)
        for p in ports:
            ins[p].put(TerminationToken(Status.COMPLETED))

    ft, st = asyncio.create_task(feeder()), asyncio.create_task(step.run())
    try:
        await asyncio.gather(ft, st)
    finally:
        # an exception of step.run() must not leave the feeder (or a database call of it) pending when the loop is torn down
        for t in (ft, st):
            if not t.done():
                t.cancel()
        await asyncio.gather(ft, st, return_exceptions=True)
    logs, tails, prov = {}, {}, []
    for p in ports:
        tl = outs[p].token_list
        logs[p] = [(t.tag, t.value) for t in tl if not isinstance(t, TerminationToken)]
        tails[p] = [("T", t.value.name) if isinstance(t, TerminationToken) else ("D",) for t in tl]
    n = {len(v) for v in logs.values()}
    if len(n) == 1:
        for i in range(n.pop()):
            want = sorted(ids[outs[p].token_list[i].value] for p in ports)
            for p in ports:
                t = outs[p].token_list[i]
                rows = await sfc.database.get_dependees(t.persistent_id) if t.persistent_id is not None else None
                got = sorted(r["dependee"] for r in rows) if rows is not None else None
                if got != want:
                    prov.append((p, i, t.tag, got, want))
    return {"ports": ports, "logs": logs, "tails": tails, "arrivals": arrivals, "status": step.status.name, "prov": prov}


def step_render(res: dict) -> str:
    return "|".join(f"{p}=" + (",".join(f"{t}:{v}" for t, v in res["logs"][p]) or "-") for p in res["ports"]) + "|" + res["status"]


def step_schemas(res: dict) -> list:
    logs, ports = res["logs"], res["ports"]
    n = {len(v) for v in logs.values()}
    if len(n) != 1:
        return [[(p, t, v)] for p in ports for t, v in logs[p]]
    return [[(p,) + logs[p][i] for p in ports] for i in range(n.pop())]


def canon(out: list) -> list:
    """multiset of combinations: each sorted by port, the whole sorted"""
    return sorted(tuple(sorted(e)) for e in out)


def render(out: list, err: str | None) -> str:
    body = ";".join(",".join(f"{p}:{t}:{v}" for p, t, v in e) for e in out)
    return (body if (body or err) else "-") + (f"!{err}" if err else "")


def line_of(shape: dict, events: list) -> str:
    evs = " ".join(f"{p}:{t}:{v}" for p, t, v in events)
    if shape["kind"] == "dot":
        return f"dot {shape['P']} {evs}".rstrip()
    if shape["kind"] == "cart":
        return f"cart {shape['depth']} {shape['P']} {evs}".rstrip()
    items = []
    for it in shape["items"]:
        if isinstance(it, int):
            items.append(str(it))
        elif it[0] == "d":
            items.append("d:" + ",".join(map(str, it[1])))
        else:
            items.append(f"c{it[1]}:" + ",".join(map(str, it[2])))
    return f"nest {'/'.join(items)} {evs}".rstrip()


# ------------------------------------------------------------------------------------------------
# the property's own oracle
# ------------------------------------------------------------------------------------------------
def wf_dot(ports: list[int], S: list) -> bool:
    """per port: tags pairwise distinct and a prefix antichain"""
    for q in ports:
        tags = [t for p, t, _ in S if p == q]
        for i, a in enumerate(tags):
            for j, b in enumerate(tags):
                if i != j and is_prefix(a, b):
                    return False
    return True


def has_dup(ports: list[int], S: list) -> bool:
    for q in ports:
        tags = [t for p, t, _ in S if p == q]
        if len(set(tags)) != len(tags):
            return True
    return False


def wf_cart(ports: list[int], S: list) -> bool:
    """per port distinct tags; every token has the same depth"""
    return not has_dup(ports, S) and len({len(comps(t)) for _, t, _ in S}) <= 1


def spec_dot(ports: list[int], S: list) -> list:
    """for every received tag k such that every port has exactly one received token whose tag is a prefix of k:
    those tokens, all retagged k"""
    out = []
    for k in sorted({t for _, t, _ in S}):
        combo = []
        for q in ports:
            cands = [(p, t, v) for p, t, v in S if p == q and is_prefix(t, k)]
            if len(cands) != 1:
                break
            combo.append((q, k, cands[0][2]))
        else:
            out.append(tuple(combo))
    return sorted(out)


def spec_cart(depth: int, ports: list[int], S: list) -> list:
    """per key tag[:-depth]: the full cross product; member t is retagged t.tag[:-1] + [last component of every member]"""
    out = []
    keys = sorted({comps(t)[: len(comps(t)) - depth] for _, t, _ in S})
    for k in keys:
        per_port = [[(p, t, v) for p, t, v in S if p == q and comps(t)[: len(comps(t)) - depth] == k] for q in ports]
        for combo in itertools.product(*per_port):
            suffix = [comps(t)[-1] for _, t, _ in combo]
            out.append(tuple((p, ".".join(map(str, list(comps(t)[:-1]) + suffix)), v) for p, t, v in combo))
    return sorted(out)


def nest_wf_but_depth(shape: dict, S: list) -> bool:
    """a nested stream that is well formed at every level except that an inner cartesian product has depth >= 2"""
    deep = False
    for it in shape["items"]:
        if isinstance(it, int):
            if not wf_dot([it], [e for e in S if e[0] == it]):
                return False
        else:
            ports = list(it[-1])
            sub = [e for e in S if e[0] in ports]
            if it[0] == "d":
                if not wf_dot(ports, sub):
                    return False
            else:
                if not wf_cart(ports, sub):
                    return False
                deep = deep or it[1] >= 2
    return deep


def nest_ports(shape: dict) -> list[int]:
    ps = []
    for it in shape["items"]:
        ps += [it] if isinstance(it, int) else list(it[-1])
    return ps


def spec_nest(shape: dict, S: list):
    """composition: the inner combinators' specified emissions are the streams of virtual ports of the outer dot product.
    Returns None when the stream is outside the well-formedness domain of some level."""
    streams = []  # per outer item: list of (tag, members) where members = tuple of (port, value)
    for it in shape["items"]:
        if isinstance(it, int):
            streams.append([(t, ((p, v),)) for p, t, v in S if p == it])
        else:
            ports = list(it[-1])
            sub = [e for e in S if e[0] in ports]
            if it[0] == "d":
                if not wf_dot(ports, sub):
                    return None
                inner = spec_dot(ports, sub)
            else:
                if not wf_cart(ports, sub) or it[1] != 1:
                    return None  # depth >= 2: the members of a schema carry different tags — correspondence only
                inner = spec_cart(it[1], ports, sub)
            # a schema is filed under get_tag(members) = its deepest tag; every member of a dot schema has the same tag,
            # the members of a cartesian schema have tags of equal length: the first one is taken
            streams.append([(combo[0][1], tuple((p, v) for p, _, v in combo)) for combo in inner])
    flat = [(i, t, m) for i, st in enumerate(streams) for t, m in st]
    idx = list(range(len(streams)))
    if not wf_dot(idx, flat):
        return None
    out = []
    for combo in spec_dot(idx, flat):
        k = combo[0][1]
        out.append(tuple(sorted((p, k, v) for _, _, members in combo for p, v in members)))
    return sorted(out)


# ------------------------------------------------------------------------------------------------
# generators
# ------------------------------------------------------------------------------------------------
def tag_pool(rng, maxdepth: int = 3) -> list[str]:
    """a small random tag tree rooted at 0 (so that prefixes are frequent)"""
    l2 = rng.sample(COMPS, rng.randint(1, 3))
    pool = ["0"] + [f"0.{a}" for a in l2]
    if maxdepth >= 3:
        for a in l2:
            for b in rng.sample(COMPS, rng.randint(0, 2)):
                pool.append(f"0.{a}.{b}")
    return pool


def gen_dot_stream(rng, P: int, wellformed: bool, ports=None) -> list:
    pool = tag_pool(rng)
    ports = list(range(P)) if ports is None else ports
    S, val = [], 1
    for q in ports:
        k = rng.randint(0, 4)
        mine: list[str] = []
        profile = rng.choice(["any", "any", "shallow", "deep"])
        cand = [t for t in pool if profile == "any" or (profile == "shallow") == (t.count(".") <= 1)] or pool
        for _ in range(k):
            t = rng.choice(cand)
            if wellformed and any(is_prefix(t, u) or is_prefix(u, t) for u in mine):
                continue
            mine.append(t)
        for t in mine:
            S.append((q, t, 100 * (q + 1) + val))
            val += 1
    return S


def gen_cart_stream(rng, P: int, depth: int, wellformed: bool, ports=None) -> list:
    ports = list(range(P)) if ports is None else ports
    S, val = [], 1
    L = rng.choice([depth, depth + 1, depth + 1, depth + 2]) if wellformed else None
    heads = [[0], [0, rng.choice(COMPS)], [0, rng.choice(COMPS)]]
    for q in ports:
        k = rng.randint(0, 4 if P == 2 else 3)
        mine: list[str] = []
        for _ in range(k):
            ln = L if wellformed else rng.randint(1, 3)
            base = [0] if ln == 1 else list(rng.choice([h for h in heads if len(h) <= ln]))
            while len(base) < ln:
                base.append(rng.choice(COMPS))
            t = ".".join(map(str, base[:ln]))
            if wellformed and t in mine:
                continue
            mine.append(t)
        for t in mine:
            S.append((q, t, 100 * (q + 1) + val))
            val += 1
    return S


def orders(rng, n: int, limit: int) -> list[tuple[int, ...]]:
    """all permutations when n <= 6 (and they fit the limit), else a sample; the identity always first"""
    ident = tuple(range(n))
    if n <= 6:
        perms = list(itertools.permutations(range(n)))
        if len(perms) <= limit:
            return perms
        rest = rng.sample(perms[1:], limit - 1)
        return [ident] + rest
    out, seen = [ident], {ident}
    while len(out) < limit:
        p = list(range(n))
        rng.shuffle(p)
        if tuple(p) not in seen:
            seen.add(tuple(p))
            out.append(tuple(p))
    return out


import inspect  # noqa: E402

_CART_DEFAULT_DEPTH = inspect.signature(CartesianProductCombinator.__init__).parameters["depth"].default

CORPUS = [
    # built WITHOUT a depth argument, as the CWL translator does: the model runs with the default read from the signature
    ({"kind": "cart", "depth": _CART_DEFAULT_DEPTH, "P": 2, "nodepth": True}, [(0, "0.1.2", 1), (0, "0.1.3", 2), (1, "0.1.5", 3), (1, "0.4.6", 4)]),
    # (shape, stream) — boundary cases that run first
    ({"kind": "dot", "P": 3}, [(0, "0", 100), (1, "0.1", 200), (2, "0.1.0", 300)]),          # the 3-port broadcast example
    ({"kind": "dot", "P": 2}, [(0, "0", 100), (1, "0", 7), (0, "0.0", 5)]),                   # the Lean witness (known finding)
    ({"kind": "dot", "P": 2}, [(0, "0", 1), (1, "0.10", 2), (1, "0.9", 3), (1, "0.1", 4)]),   # component >= 10
    ({"kind": "dot", "P": 2}, [(0, "0.10", 1), (1, "0.10.11", 2), (1, "0.1.0", 3), (0, "0.1", 4)]),
    # regression streams of fix 0672c9b (before it the loop variable `tag` of _product was overwritten: IndexError)
    ({"kind": "dot", "P": 3}, [(0, "0.0.0.0", 0), (2, "0", 1), (0, "0.0.0", 2), (1, "0", 3), (0, "0.0", 4), (1, "0.0", 5), (2, "0.0.0.0", 6)]),
    ({"kind": "dot", "P": 2}, [(1, "0.10", 0), (1, "0.0.0", 1), (1, "0.0", 2), (1, "0.0.0", 3), (1, "0.0", 4), (0, "0", 5), (0, "0.0", 6), (0, "0.0.0", 7), (1, "0", 8), (0, "0.0.0", 9)]),
    ({"kind": "dot", "P": 2}, []),
    ({"kind": "dot", "P": 2}, [(0, "0", 1)]),
    ({"kind": "dot", "P": 2}, [(0, "0", 1), (0, "0", 2), (1, "0", 3), (1, "0", 4)]),          # duplicate tags (outside the quantifier)
    ({"kind": "dot", "P": 2}, [(0, "0.0", 0), (1, "0.10", 1), (0, "0.0", 2), (0, "0.0", 3), (1, "0", 4), (0, "0.10", 5), (1, "0.0.0", 6)]),
    ({"kind": "cart", "depth": 1, "P": 2}, [(0, "0.0", 1), (0, "0.1", 2), (1, "0.0", 3), (1, "0.1", 4)]),
    ({"kind": "cart", "depth": 1, "P": 2}, [(0, "0.10", 1), (0, "0.9", 2), (1, "0.11", 3)]),
    ({"kind": "cart", "depth": 2, "P": 2}, [(0, "0.1.2", 1), (0, "0.3.4", 2), (1, "0.5.6", 3)]),
    ({"kind": "cart", "depth": 1, "P": 2}, [(0, "0", 1), (1, "0", 2)]),                          # key is the empty string
    ({"kind": "cart", "depth": 1, "P": 2}, [(0, "0.0", 1), (1, "0.0", 3), (0, "0.0", 9)]),       # duplicate tag on a port
    ({"kind": "cart", "depth": 1, "P": 2}, [(0, "0.0", 1), (1, "0.0.1", 2), (1, "0.0.2", 3), (0, "0.1", 4)]),  # mixed depths
    ({"kind": "cart", "depth": 1, "P": 3}, [(0, "0.0", 1), (1, "0.1", 2)]),
    ({"kind": "nest", "items": [["c", 1, [0, 1]], 2]}, [(0, "0.0", 1), (0, "0.1", 2), (1, "0.0", 3), (1, "0.1", 4), (2, "0", 5)]),
    ({"kind": "nest", "items": [["d", [0, 1]], 2]}, [(0, "0.0", 1), (0, "0.1", 2), (1, "0.0", 3), (1, "0.1", 4), (2, "0", 5)]),
    # inner cartesian product of depth 2: two inner schemas get the same get_tag (known finding, Lean witness)
    ({"kind": "nest", "items": [["c", 2, [0, 1]], 2]}, [(0, "0.0.2", 1), (1, "0.0.1", 2), (1, "0.1.1", 3), (2, "0", 9)]),
    # two inner combinators in one outer dot product
    ({"kind": "nest", "items": [["c", 1, [0, 1]], ["d", [2, 3]], 4]},
     [(0, "0.0", 1), (0, "0.1", 2), (1, "0.0", 3), (2, "0", 4), (3, "0", 5), (4, "0", 6)]),
]


NESTC_CORPUS = [
    ({"kind": "nestc", "depth": 1, "items": [["d", [0, 1]], 2]}, [(0, "0.0", 1), (1, "0.0", 2), (2, "0.0", 3)]),
    ({"kind": "nestc", "depth": 1, "items": [["d", [0, 1]], 2]}, [(0, "0.0", 1), (1, "0.0", 2), (0, "0.1", 4), (1, "0.1", 5), (2, "0.9", 3)]),
    ({"kind": "nestc", "depth": 1, "items": [["c", 1, [0, 1]], 2]}, [(0, "0.0", 1), (1, "0.0", 2), (2, "0.0.0", 3)]),
    ({"kind": "nestc", "depth": 1, "items": [2, ["d", [0, 1]]]}, [(2, "0.10", 3), (0, "0.1", 1), (1, "0.1", 2)]),
]


class C02(Property):
    pid = "C02"
    title = "Combinators emit exactly the right combinations, whatever the arrival order"
    lean_targets = ["SFV.Props.C02", "SFV.Model.Comb", "SFV.Model.Proto", "SFV.Gen.CombGuards"]
    props_files = ["SFV/Props/C02.lean"]
    drivers = [DRIVER]
    translators = [tagguards.generate, combguards.generate]
    rule = ("streams: 2-3 ports, 0..4 tokens per port, tags of depth 1..3 rooted at 0 with components from {0,1,2,9,10,11} drawn from a "
            "small random tag tree (parent/child mixes across ports); flat dot, flat cartesian (depth 1-2), outer dot over an inner "
            "dot/cartesian plus plain ports; well-formed streams (per port distinct tags forming a prefix antichain; same depth for "
            "cartesian) and non-well-formed streams (tag + own descendant on a port, duplicate tags, mixed depths); plus, exhaustively, every 2-port stream with <= 2 tokens per port over the tags 0, 0.0, 0.1, 0.0.0 (121 streams). Every stream is fed "
            "to the REAL combinator in all permutations when <= 6 tokens (else a sample): the emitted multiset must equal the spec and "
            "be the same for every order (monitor); the emission *sequence* of a subset of the orders is compared with the Lean "
            "loop-faithful model (driver). Nested shapes include two inner combinators in one outer dot product and an inner cartesian "
            "product of depth 2 (order-dependence monitor only). Step level: the stream through a real CombinatorStep (ports, persistence, "
            "controlled interleaving) with the arrival order seen by combine() recorded; output-port logs + final status compared with the "
            "Lean step model on that order; termination tokens, delivery order, provenance rows and input_ids monitored. "
            "Non-trivial = distinct (shape, stream) with at least one emission.")
    trusted_base = [
        "translators harness/sfv/translate/tagguards.py (get_tag comparison) and combguards.py (emission guard, pop side, _is_parent_tag, "
        "cartesian key/suffix slices -> SFV/Gen/CombGuards.lean)",
        "modelled, not verified: dict insertion order, deque append/pop, itertools.product order, `dict |= dict` on disjoint keys, "
        "str.split('.')/join — each exercised by the correspondence check on every run",
        "nested combinators: dot[cart1[p0..],plain ports] and dot[dot[p0..],plain ports] are proved (nested_cart_any_order, "
        "nested_dot_any_order: emitted schemas related to the specification up to the order of their entries); other depth-2 trees "
        "(inner cartesian depth>=2, several inner combinators) only at the outer level (nested_any_order_partial) — there the "
        "correspondence check and the monitor (composition of the two specifications) are the evidence",
    ]
    technique = ("Lean 4 theorems about the loop-faithful executable model (dot product: loop = closed form + order-independence invariant + "
                 "emitted values; cartesian product: product algebra up to permutation + 'emitted so far = all configurations' invariant; "
                 "negative witnesses by kernel evaluation) + ast translator of the guards/slices + differential correspondence of emission "
                 "sequences on all permutations of small streams + step-level monitor through a real CombinatorStep under a controlled loop")
    level_text = ("grade A for flat combinators: for every number of ports, every well-formed stream and every arrival order the dot product "
                  "raises nothing and emits exactly one combination per complete received tag with the unique prefix-tagged token of every "
                  "port (values included); the cartesian product (any depth >= 1) emits exactly the cross product per key with the composite "
                  "tags; both proved about the loop-faithful model the driver runs. The full-strength statements without well-formedness are "
                  "proved false by witnesses that reproduce on the real classes (known findings: order dependence, mixed depths); the dot "
                  "product is proved never to raise on any stream (IndexError defect repaired by 0672c9b). Nested combinators: the two trees the CWL translator builds (outer dot over an inner depth-1 cartesian / inner dot product "
                  "plus plain ports) are proved by composition; other depth-2 trees only at the outer level + correspondence/monitor; a "
                  "cartesian product over an inner combinator crashes on the real class (known finding)")
    level_note = ("Lean kernel, axioms within {propext, Classical.choice, Quot.sound}; theorems are about the Lean models in SFV/Model/Comb.lean "
                  "(loop-faithful) and SFV/Lemmas/Comb*.lean (closed form); the tie to the Python classes is the translator of the guards plus "
                  "the correspondence check of emission sequences; nested theorems relate schemas up to the order of their entries")
    assumptions = ["tags are dotted decimals rooted at 0; per port the tags are distinct and no tag is a prefix of another (dot), all tags have "
                   "the same depth >= the combinator depth (cartesian); ports of different items are disjoint; combinator depth >= 1"]
    quick_budget_s = 600
    thorough_budget_s = 3000
    min_nontrivial = 50

    # ---- one stream: all orders on the real code, monitor, protocol lines --------------------------------------
    def _stream(self, ctx: Ctx, wf, shape: dict, S: list, kcap: int, ocap: int, batch: list) -> None:
        rng = ctx.rng
        ords = orders(rng, len(S), ocap)
        results = []

        async def go():
            for o in ords:
                results.append(await run_real(wf, shape, [S[i] for i in o]))

        try:
            with alarm(SLOW_S):
                sfloop.run_controlled(go, ctx.seed, timeout=None)
        except (Hang, TimeoutError) as e:
            # combine() is synchronous pure-Python code that takes milliseconds; the machine may be heavily loaded, so a
            # wall-clock overrun is reported as inconclusive (exit 2), never as a violation
            raise Inconclusive(f"combine() over {len(ords)} orders of {shape} {S} exceeded {SLOW_S} s (order "
                               f"{list(ords[min(len(results), len(ords) - 1)])})") from e
        kind = shape["kind"]
        ports = list(range(shape["P"])) if kind != "nest" else nest_ports(shape)
        if kind == "dot":
            wfok, spec = wf_dot(ports, S), spec_dot(ports, S)
        elif kind == "cart":
            wfok, spec = wf_cart(ports, S), spec_cart(shape["depth"], ports, S)
        else:
            spec = spec_nest(shape, S)
            wfok = spec is not None
        cans = [canon(out) for out, _ in results]
        errs = [e for _, e in results]
        emitted = any(out for out, _ in results)
        bucket = f"{kind}:{'wf' if wfok else 'nonwf'}"
        ctx.case({"shape": shape, "stream": S, "orders": len(ords), "real_first_order": render(*results[0])},
                 (line_of(shape, S),) if emitted else None, bucket)
        ctx.count(f"{kind}:orders", len(ords))
        replay = lambda o: {"shape": shape, "stream": S, "orders": [list(ords[0]), list(o)]}  # noqa: E731
        if wfok:
            for o, c, e in zip(ords, cans, errs):
                if e is not None:
                    ctx.fail(f"{kind}:wf:exception", f"{shape} stream {S} order {list(o)}: combine() raised {e}", replay(o))
                    break
                if c != spec:
                    missing = [x for x in spec if x not in c]
                    extra = [x for x in c if x not in spec]
                    what = "order-dependent" if c != cans[0] else "not-the-specified-combinations"
                    ctx.fail(f"{kind}:wf:{what}",
                             f"{shape} well-formed stream {S} in arrival order {list(o)}: emitted multiset differs from the specification; "
                             f"missing {missing[:4]}, unexpected {extra[:4]}" + (f"; first order emitted {cans[0][:6]}" if c != cans[0] else ""),
                             replay(o))
                    break
        else:
            dup = has_dup(ports, S)
            exc = next(((o, e) for o, e in zip(ords, errs) if e is not None), None)
            if exc is not None:
                ctx.count(f"{kind}:nonwf:exception:{exc[1]}")
                if kind == "dot":
                    # the dot product never raises, on any stream (Lean: dot_never_raises; defect repaired by 0672c9b)
                    ctx.fail(f"dot:exception:{exc[1]}",
                             f"dot product over {shape['P']} ports, stream {S}, arrival order {list(exc[0])}: combine() raised {exc[1]} "
                             f"after {len(results[ords.index(exc[0])][0])} emissions",
                             {"shape": shape, "stream": S, "orders": [list(exc[0])]})
            dep = next((o for o, c, e in zip(ords, cans, errs) if c != cans[0] or e != errs[0]), None)
            if dep is not None:
                ctx.count(f"{kind}:nonwf:order-dependent")
                if dup:
                    ctx.count(f"{kind}:nonwf:duplicate-tags(outside-quantifier)")
                elif kind == "dot":
                    i = ords.index(dep)
                    ctx.fail(KEY_DESC, f"dot product over {shape['P']} ports, stream {S} (a port carries a tag and a descendant of it): arrival "
                                       f"order {list(ords[0])} emits {cans[0]}, order {list(dep)} emits {cans[i]}", replay(dep))
                elif kind == "nest" and nest_wf_but_depth(shape, S):
                    i = ords.index(dep)
                    ctx.fail(KEY_NEST_D2, f"{shape}, stream {S} (inner cartesian product of depth >= 2): arrival order {list(ords[0])} emits "
                                          f"{cans[0]}, order {list(dep)} emits {cans[i]}", replay(dep))
                elif kind == "cart":
                    i = ords.index(dep)
                    ctx.fail(KEY_MIXED, f"cartesian product depth {shape['depth']} over {shape['P']} ports, stream {S} (tokens of different depths): "
                                        f"arrival order {list(ords[0])} emits {cans[0]}, order {list(dep)} emits {cans[i]}", replay(dep))
        # correspondence: emission sequences of a subset of the orders
        pick = list(range(len(ords))) if len(ords) <= kcap else [0] + rng.sample(range(1, len(ords)), kcap - 1)
        for i in pick:
            evs = [S[j] for j in ords[i]]
            batch.append((line_of(shape, evs), render(*results[i]), shape, S, ords[i]))

    def _nestc(self, ctx: Ctx, wf) -> None:
        """a cartesian product over an inner combinator (a depth-2 tree of the property's quantifier): the composition rule
        specifies at least one combination for these streams; the real class raises instead (monitor only, not modelled)"""
        for shape, S in NESTC_CORPUS:
            ords = orders(ctx.rng, len(S), 24)
            results = []

            async def go():
                for o in ords:
                    results.append(await run_real(wf, shape, [S[i] for i in o]))

            try:
                with alarm(SLOW_S):
                    sfloop.run_controlled(go, ctx.seed, timeout=None)
            except (Hang, TimeoutError) as e:
                raise Inconclusive(f"combine() on {shape} {S} exceeded {SLOW_S} s") from e
            ctx.case({"shape": shape, "stream": S, "orders": len(ords), "real_first_order": render(*results[0])}, None, "nestc")
            bad = next(((o, e) for o, (_, e) in zip(ords, results) if e is not None), None)
            if bad is not None:
                ctx.fail(KEY_NESTC, f"{shape} stream {S} in arrival order {list(bad[0])}: combine() raised {bad[1]} before emitting the "
                                    f"combination(s) the composition rule specifies", {"shape": shape, "stream": S, "orders": [list(bad[0])]})
            elif not any(out for out, _ in results):
                ctx.fail("nest:cartesian-over-inner-combinator:emits-nothing", f"{shape} stream {S}: nothing emitted in any order",
                         {"shape": shape, "stream": S, "orders": [list(ords[0])]})

    def _flush(self, ctx: Ctx, batch: list) -> None:
        if not batch:
            return
        got = ctx.lean(DRIVER, [b[0] for b in batch])
        for g, (line, exp, shape, S, o) in zip(got, batch):
            if g != exp:
                ctx.disagree(f"model vs {shape['kind']} combinator", f"`{line}`: code emits {exp!r}, Lean model {g!r}",
                             {"shape": shape, "stream": S, "orders": [list(o)]})
        batch.clear()

    def explore(self, ctx: Ctx) -> None:
        rng = ctx.rng
        wf = Workflow(context=sfctx.make_context(ctx.scratch), config={}, name="w")
        thorough = ctx.tier == "thorough"
        search = ctx.mode == "search"
        ocap = 720 if (thorough or search) else 120
        ocap_big = 200 if (thorough or search) else 30
        kcap = 24 if thorough else 8
        n = {"dot": 260, "dotn": 140, "cart": 160, "cartn": 60, "nest": 120}
        if thorough or search:
            n = {k: v * 6 for k, v in n.items()}
        batch: list = []

        def cap(S):
            return ocap if len(S) <= 6 else ocap_big

        for shape, S in CORPUS:
            self._stream(ctx, wf, shape, S, kcap, cap(S), batch)
            ctx.corpus_replayed += 1
        # bounded-exhaustive: every 2-port stream with at most two tokens per port over a 4-tag tree (121 streams, well-formed
        # or not), dot product and depth-1 cartesian product, all permutations
        small = ["0", "0.0", "0.1", "0.0.0"]
        per_port = [()] + [(t,) for t in small] + list(itertools.combinations(small, 2))
        for a in per_port:
            for b in per_port:
                S = [(0, t, 10 + i) for i, t in enumerate(a)] + [(1, t, 20 + i) for i, t in enumerate(b)]
                self._stream(ctx, wf, {"kind": "dot", "P": 2}, S, 4, 24, batch)
                if thorough or search or (len(a) + len(b)) % 2 == 0:
                    self._stream(ctx, wf, {"kind": "cart", "depth": 1, "P": 2}, S, 4, 24, batch)
        ctx.count("exhaustive-2-port-streams", len(per_port) ** 2)
        # the Lean driver must reject what it does not understand
        batch.append(("cart 0 2 0:0.0:1", "bad-op", {"kind": "proto"}, [], ()))
        batch.append(("frob 1 2", "bad-op", {"kind": "proto"}, [], ()))
        plan = (["dot"] * n["dot"] + ["dotn"] * n["dotn"] + ["cart"] * n["cart"] + ["cartn"] * n["cartn"] + ["nest"] * n["nest"])
        rng.shuffle(plan)
        for what in plan:
            if ctx.out_of_time():
                ctx.extra["incomplete"] = True
                break
            P = rng.choice([2, 2, 3])
            if what in ("dot", "dotn"):
                shape = {"kind": "dot", "P": P}
                S = gen_dot_stream(rng, P, what == "dot")
            elif what in ("cart", "cartn"):
                shape = {"kind": "cart", "depth": rng.choice([1, 1, 2]), "P": P}
                S = gen_cart_stream(rng, P, shape["depth"], what == "cart")
            else:
                inner_ports = [0, 1]
                others = [2] if rng.random() < 0.7 else [2, 3]
                mode = rng.random()
                two_inner = None
                if mode >= 0.2 and rng.random() < 0.2:
                    # two inner combinators in one outer dot product: cart1[p0,p1] and dot[p2,p3] (+ a plain port)
                    S = gen_cart_stream(rng, 0, 1, True, ports=[0, 1])
                    heads = sorted({".".join(t.split(".")[:k]) for _, t, _ in S for k in range(1, t.count(".") + 1)} | {"0"})
                    for q in (2, 3, 4):
                        mine = []
                        for _ in range(rng.randint(1, 2)):
                            t = rng.choice(heads)
                            if not any(is_prefix(t, u) or is_prefix(u, t) for u in mine):
                                mine.append(t)
                        S += [(q, t, 100 * (q + 1) + 50 + i) for i, t in enumerate(mine)]
                    two_inner = rng.choice([[["c", 1, [0, 1]], ["d", [2, 3]], 4], [["d", [2, 3]], 4, ["c", 1, [0, 1]]],
                                            [4, ["c", 1, [0, 1]], ["d", [2, 3]]]])
                    inner, others = None, []
                elif mode < 0.12:
                    # correspondence only: non-well-formed streams, inner cartesian depth 2, three inner ports
                    inner_ports = [0, 1] if rng.random() < 0.6 else [0, 1, 4]
                    inner = rng.choice([["d", inner_ports], ["c", 1, inner_ports], ["c", 2, inner_ports]])
                    S = gen_dot_stream(rng, 0, False, ports=inner_ports + others)
                elif mode < 0.2:
                    inner = ["c", 2, inner_ports]
                    S = gen_cart_stream(rng, 0, 2, True, ports=inner_ports) + [(q, "0", 900 + q) for q in others]
                elif mode < 0.6:
                    inner = ["d", inner_ports]
                    S = gen_dot_stream(rng, 0, True, ports=inner_ports + others)
                else:
                    inner = ["c", 1, inner_ports]
                    S = gen_cart_stream(rng, 0, 1, True, ports=inner_ports)
                    # outer ports: ancestors of the composite tags (or the composite tags themselves)
                    heads = sorted({".".join(t.split(".")[:k]) for _, t, _ in S for k in range(1, t.count(".") + 1)} | {"0"})
                    for q in others:
                        mine = []
                        for _ in range(rng.randint(0, 2)):
                            t = rng.choice(heads)
                            if not any(is_prefix(t, u) or is_prefix(u, t) for u in mine):
                                mine.append(t)
                        S += [(q, t, 100 * (q + 1) + 50 + i) for i, t in enumerate(mine)]
                items = ([inner] + others) if two_inner is None else two_inner
                if two_inner is not None:
                    pass
                elif rng.random() < 0.3:
                    items = others + [inner]
                elif rng.random() < 0.15 and len(others) == 2:
                    items = [others[0], inner, others[1]]
                shape = {"kind": "nest", "items": items}
                if len(S) > 7:
                    S = S[:7]
            self._stream(ctx, wf, shape, S, kcap, cap(S), batch)
            if len(batch) >= 4000:
                self._flush(ctx, batch)
        self._flush(ctx, batch)
        self._nestc(ctx, wf)
        self._steps(ctx)
        # the replay written for a key is the first failure of that key: put the smallest streams first
        ctx.failures.sort(key=lambda f: len(f.replay.get("stream", [])) if isinstance(f.replay, dict) else 99)

    def _steps(self, ctx: Ctx) -> None:
        """well-formed streams through a real CombinatorStep (ports, persistence, `asyncio.wait` in `run`) under the
        controlled loop: whatever interleaving of the ports the loop picks, the output ports carry the specified schemas"""
        rng = ctx.rng
        n = 40 if ctx.tier == "quick" and ctx.mode == "check" else 300
        sfc = sfctx.make_context(ctx.scratch)
        step_batch: list = []
        try:
            for i in range(n):
                if ctx.out_of_time():
                    ctx.extra["incomplete"] = True
                    break
                P = rng.choice([2, 2, 3])
                r = rng.random()
                if r < 0.5:
                    shape = {"kind": "dot", "P": P}
                    S = gen_dot_stream(rng, P, True)
                elif r < 0.8:
                    shape = {"kind": "cart", "depth": rng.choice([1, 1, 2]), "P": P}
                    S = gen_cart_stream(rng, P, shape["depth"], True)
                else:
                    shape = {"kind": "nest", "items": [["c", 1, [0, 1]], 2] if rng.random() < 0.5 else [["d", [0, 1]], 2]}
                    S = gen_dot_stream(rng, 0, True, ports=[0, 1, 2]) if shape["items"][0][0] == "d" else (
                        gen_cart_stream(rng, 0, 1, True, ports=[0, 1]) + [(2, "0", 777)])
                S = S[:8]
                if shape["kind"] == "dot":
                    spec = spec_dot(list(range(P)), S)
                elif shape["kind"] == "cart":
                    spec = spec_cart(shape["depth"], list(range(P)), S)
                else:
                    spec = spec_nest(shape, S)
                    if spec is None:
                        continue
                order = list(range(len(S)))
                rng.shuffle(order)
                evs = [S[j] for j in order]
                seed = rng.randrange(1 << 30)
                try:
                    with alarm(STEP_S + 60):
                        out = sfloop.run_controlled(lambda: run_step(sfc, shape, evs, f"w{ctx.seed}-{ctx.mode}-{i}"), seed,
                                                    timeout=STEP_S)
                except (Hang, TimeoutError):
                    # a step case normally takes ~50 ms; on a loaded machine an overrun is inconclusive, not a violation
                    ctx.notes.append(f"step-level case {i} exceeded {STEP_S} s: {shape} {evs} (loop seed {seed})")
                    known = {KEY_DESC, KEY_MIXED, KEY_NESTC, KEY_NEST_D2}
                    if ctx.broken or any(f.key not in known for f in ctx.failures):
                        # the earlier stages already have a failing input / a broken tie: report those, skip the rest of this stage
                        break
                    ctx.extra["incomplete"] = True
                    raise Inconclusive(f"CombinatorStep.run case exceeded {STEP_S} s on {shape} {evs} (loop seed {seed})")
                except Exception as e:  # noqa: BLE001
                    ctx.fail(f"{shape['kind']}:step:exception", f"CombinatorStep.run raised {type(e).__name__}: {e} on {shape} {evs}",
                             {"shape": shape, "stream": S, "orders": [order], "step_seed": seed})
                    break  # a crashed step may leave the shared database connection unusable: the failing input is recorded, stop here
                res = out
                out = step_schemas(res)
                rp = {"shape": shape, "stream": S, "orders": [order], "step_seed": seed}
                ctx.case({"shape": shape, "stream": evs, "via": "CombinatorStep.run", "loop_seed": seed, "emitted": len(out),
                          "arrival_order_seen_by_the_step": res["arrivals"], "status": res["status"]},
                         ("step", line_of(shape, evs)) if out else None, f"step:{shape['kind']}")
                if res["arrivals"] != evs:
                    ctx.count("step:arrival-order-differs-from-feed-order")
                if canon(out) != spec:
                    ctx.fail(f"{shape['kind']}:step:wf:not-the-specified-combinations",
                             f"CombinatorStep.run over {shape}, well-formed stream fed in order {evs} (loop seed {seed}): output ports carry "
                             f"{canon(out)[:6]}, specified {spec[:6]}", rp)
                # every input token reached combine() exactly once, per port in feed order
                if sorted(res["arrivals"]) != sorted(evs) or any(
                        [a for a in res["arrivals"] if a[0] == p] != [e for e in evs if e[0] == p] for p in res["ports"]):
                    ctx.fail("step:tokens-not-delivered-once-in-port-order", f"{shape} fed {evs}, combine() saw {res['arrivals']}", rp)
                # every output port: the data tokens, then exactly one termination token carrying the step's final status
                want_status = "COMPLETED" if out else "SKIPPED"
                bad_tail = [p for p in res["ports"] if res["tails"][p] != [("D",)] * len(res["logs"][p]) + [("T", want_status)]]
                if res["status"] != want_status or bad_tail:
                    ctx.fail("step:termination-or-status", f"{shape} fed {evs}: step status {res['status']} (expected {want_status}), output "
                                                           f"port tails {({p: res['tails'][p] for p in bad_tail})}", rp)
                # provenance: every output token depends on exactly the input tokens of its combination
                if res["prov"]:
                    ctx.fail("step:provenance-ids", f"{shape} fed {evs}: output token (port, index, tag, recorded dependees, expected) "
                                                   f"{res['prov'][:3]}", rp)
                # correspondence at the step level: the model on the arrival order the step really saw
                step_batch.append(("step " + line_of(shape, res["arrivals"]), step_render(res), shape, S, order, seed))
        finally:
            try:
                sfloop.run_controlled(lambda: sfctx.close_context(sfc), 0, timeout=300)
            except Exception:  # noqa: BLE001
                pass
        if step_batch:
            got = ctx.lean(DRIVER, [b[0] for b in step_batch])
            for g, (line, exp, shape, S, order, seed) in zip(got, step_batch):
                if g != exp:
                    ctx.disagree("model vs CombinatorStep.run", f"`{line}`: output ports + status of the real step {exp!r}, Lean model {g!r}",
                                 {"shape": shape, "stream": S, "orders": [order], "step_seed": seed})

    def replay(self, ctx: Ctx, data) -> None:
        r = data.get("replay") or data.get("case") or {}
        if not r and data.get("no_longer_checks"):
            r = next((b.get("case") for b in data["no_longer_checks"] if b.get("case")), {}) or {}
        if "shape" not in r:
            return super().replay(ctx, data)
        shape, S = r["shape"], [tuple(e) for e in r["stream"]]
        if "step_seed" in r:
            return self._replay_step(ctx, r, shape, S)
        if shape["kind"] == "nestc":
            wf = Workflow(context=sfctx.make_context(ctx.scratch), config={}, name="w")
            for o in (r.get("orders") or [list(range(len(S)))]):
                res: list = []

                async def go1():
                    res.append(await run_real(wf, shape, [S[i] for i in o]))

                with alarm(SLOW_S):
                    sfloop.run_controlled(go1, 0, timeout=None)
                print(f"{shape}\nstream {S} order {o}\n   real: {render(*res[0])}   (not modelled: cartesian product over an inner combinator)")
                if res[0][1] is not None:
                    ctx.fail(KEY_NESTC, f"combine() raised {res[0][1]}", r)
            return
        wf = Workflow(context=sfctx.make_context(ctx.scratch), config={}, name="w")
        ords = [tuple(o) for o in (r.get("orders") or [list(range(len(S)))])]
        results = []

        async def go():
            for o in ords:
                results.append(await run_real(wf, shape, [S[i] for i in o]))

        with alarm(SLOW_S):
            sfloop.run_controlled(go, 0, timeout=None)
        lines = [line_of(shape, [S[i] for i in o]) for o in ords]
        model = ctx.lean(DRIVER, lines)
        kind = shape["kind"]
        ports = list(range(shape["P"])) if kind != "nest" else nest_ports(shape)
        if kind == "dot":
            wfok, spec = wf_dot(ports, S), spec_dot(ports, S)
        elif kind == "cart":
            wfok, spec = wf_cart(ports, S), spec_cart(shape["depth"], ports, S)
        else:
            spec = spec_nest(shape, S)
            wfok = spec is not None
        print(f"shape {shape}\nstream {S}\nwell-formed: {wfok}" + (f"\nspecified multiset: {spec}" if wfok else ""))
        for o, (out, err), ln, m in zip(ords, results, lines, model):
            print(f"order {list(o)}: `{ln}`\n   real : {render(out, err)}\n   model: {m}")
            if m != render(out, err):
                ctx.disagree(f"model vs {kind} combinator", f"`{ln}`: code {render(out, err)!r}, model {m!r}", r)
            if wfok and (err is not None or canon(out) != spec):
                ctx.fail(f"{kind}:wf:not-the-specified-combinations", f"order {list(o)} emits {canon(out)}, specified {spec}", r)
        cans = [canon(out) for out, _ in results]
        if kind == "dot" and any(e is not None for _, e in results):
            ctx.fail(f"dot:exception:{[e for _, e in results if e][0]}", f"combine() raised {[e for _, e in results if e][0]}", r)
        if not wfok and kind == "nest" and any(c != cans[0] for c in cans) and nest_wf_but_depth(shape, S):
            ctx.fail(KEY_NEST_D2, f"orders emit different multisets: {cans}", r)
        elif not wfok and kind != "nest" and any(c != cans[0] for c in cans) and not has_dup(ports, S):
            ctx.fail(KEY_DESC if kind == "dot" else KEY_MIXED, f"orders emit different multisets: {cans}", r)


    def _replay_step(self, ctx: Ctx, r, shape, S) -> None:
        evs = [S[j] for j in r["orders"][0]]
        ports = list(range(shape["P"])) if shape["kind"] != "nest" else nest_ports(shape)
        spec = (spec_dot(ports, S) if shape["kind"] == "dot" else
                spec_cart(shape["depth"], ports, S) if shape["kind"] == "cart" else spec_nest(shape, S))
        sfc = sfctx.make_context(ctx.scratch)
        try:
            with alarm(SLOW_S):
                out = sfloop.run_controlled(lambda: run_step(sfc, shape, evs, "replay"), r["step_seed"], timeout=SLOW_S - 60)
            res = out
            out = step_schemas(res)
            model = ctx.lean(DRIVER, ["step " + line_of(shape, res["arrivals"])])[0]
            print(f"CombinatorStep.run over {shape}\nfed in order {evs} (loop seed {r['step_seed']}); combine() saw {res['arrivals']}\n"
                  f"   output ports: {canon(out)}\n   specified   : {spec}\n   real step   : {step_render(res)}\n   model       : {model}\n"
                  f"   provenance mismatches: {res['prov']}")
            if model != step_render(res):
                ctx.disagree("model vs CombinatorStep.run", f"{step_render(res)!r} vs {model!r}", r)
            if res["prov"]:
                ctx.fail("step:provenance-ids", str(res["prov"][:3]), r)
            if canon(out) != spec:
                ctx.fail(f"{shape['kind']}:step:wf:not-the-specified-combinations", "still differs", r)
        except (Hang, TimeoutError):
            ctx.fail(f"{shape['kind']}:step:hang", "still hangs", r)
        finally:
            try:
                sfloop.run_controlled(lambda: sfctx.close_context(sfc), 0, timeout=300)
            except Exception:  # noqa: BLE001
                pass


PROPERTY = C02()
