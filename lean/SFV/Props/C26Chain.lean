import SFV.Model.DeployChain
import SFV.Gen.DeployGuards
/-! # C26, part B — wraps chains (`SFV/Model/DeployChain.lean`)

The chain model is an executable interpreter with a stack of frames per request (the recursion
`deploy → _deploy → _inner_deploy → _deploy …` and `undeploy → undeploy …`). The theorems below are **bounded-exhaustive
over schedules**: `Chain.exploreAll` enumerates *every* interleaving (and every choice of failing deploy call) of the
stated requests on the stated topology and is evaluated by the Lean kernel (`decide +kernel`). They are theorems about
those scenarios — three deployments, up to three concurrent requests, the property's own bound — not about arbitrary ones. -/
namespace SFV.C26.Chains
open SFV SFV.Chain

/-- the chain `V → W → D` (`V` wraps `W` wraps `D`), all eager: names 2, 1, 0 -/
def chainVWD : List Dep := [⟨none, false, false⟩, ⟨some 0, false, true⟩, ⟨some 1, false, true⟩]
/-- the manager BEFORE the repairs 749f708 / 3170d47 / e95b534 (regression guards only) -/
def oldChain : Chain.Cfg := ⟨false, false, false⟩
/-- the manager as it is in the source now (all three repairs) -/
def codeChain : Chain.Cfg := ⟨true, true, true⟩
/-- `deploy(V)` has completed (it deploys `D`, `W`, `V` in turn) -/
def deployedVWD (c : Chain.Cfg) : Chain.St :=
  (Chain.runActs c chainVWD (initWith [.deploy 2]) [.run 0, .callRet 0 true, .callRet 0 true, .callRet 0 true]).getD {}

set_option maxRecDepth 100000

/-- T tie: the source has the three repairs (reverting 749f708, 3170d47 or e95b534 makes this fail to build) -/
theorem gen_chain_cfg_is_repaired : Gen.chainCfg = codeChain := rfl

/-- **regression guard — false before fix 749f708** (about the OLD `undeploy`, `oldChain`): `undeploy_all` on the deployed
    chain; the task for `W` stripped `W` from `D`'s dependants although `W` was not undeployed, found them empty and undeployed
    `D` while `W` and `V` were live. The concrete schedule (parent, then the children for `D`, `W`): -/
theorem no_undeploy_under_live_wrapper_false_before_749f708 :
    (match Chain.runActs oldChain chainVWD (spawn (deployedVWD oldChain) .undeployAll) [.run 1, .run 2, .run 3] with
     | some s => underLiveWrapper chainVWD s && liveNames s == [1, 2] &&
         calls s == [.connDeployEnter 0, .connDeployExit 0, .connDeployEnter 1, .connDeployExit 1, .connDeployEnter 2,
                     .connDeployExit 2, .connUndeployEnter 0]
     | none => false) = true := by
  decide +kernel

/-- **no undeploy under a live wrapper** (the code as it is, every schedule of the scenario): in every schedule of
    `undeploy_all` on the deployed chain no wrapped deployment is undeployed under a live wrapper, nothing hangs, and
    every connector is undeployed exactly once (order V, W, D) -/
theorem no_undeploy_under_live_wrapper :
    exploreAll codeChain chainVWD [] (fun s => !underLiveWrapper chainVWD s)
      (fun s => !stuck s && allUndeployedOnce s) 40 (spawn (deployedVWD codeChain) .undeployAll) = true := by
  decide +kernel

/-- … and the same for three concurrent explicit `undeploy(D)`, `undeploy(W)`, `undeploy(V)` requests -/
theorem no_undeploy_under_live_wrapper_explicit :
    exploreAll codeChain chainVWD [] (fun s => !underLiveWrapper chainVWD s) (fun s => !stuck s) 60
      (spawn (spawn (spawn (deployedVWD codeChain) (.undeploy 0)) (.undeploy 1)) (.undeploy 2)) = true := by
  decide +kernel

/-- **undeploy_all exactly once** (the code as it is; it also held before the repairs): in every schedule of `undeploy_all` on the deployed chain every live connector is undeployed exactly once and the calls return -/
theorem undeploy_all_exactly_once :
    exploreAll codeChain chainVWD [] (fun _ => true) (fun s => !stuck s && allUndeployedOnce s) 40
      (spawn (deployedVWD codeChain) .undeployAll) = true := by
  decide +kernel

/-- **regression guard — false before fix 3170d47** (about the OLD `_deploy`, `oldChain`): two concurrent `deploy(W)`; the
    first registers `W` and deploys the wrapped `D`, whose `deploy()` raises inside `_inner_deploy`; `W`'s event was never set
    and the second request waited for ever -/
theorem failed_deploy_wakes_waiters_false_before_3170d47 :
    (match Chain.runActs oldChain chainVWD (initWith [.deploy 1, .deploy 1]) [.run 0, .run 1, .callRet 0 false] with
     | some s => stuck s && (s.tasks.map (·.st)) == [.done false, .blocked 0]
     | none => false) = true := by
  decide +kernel

/-- **a failing wrapped deployment wakes the requests waiting on the wrapper** (the code as it is): two concurrent
    requests `deploy(W)`, `deploy(W)` where `D`'s or `W`'s `deploy()` may fail: in every schedule every request finishes
    (returns or raises) and no deployment ever has two connectors deploying-or-live. (The general clause "a failed
    deployment never leaves a request hanging" is still false: `SFV.C26.failed_deploy_then_undeploy_hangs_false`, open finding.) -/
theorem failed_inner_deploy_wakes_waiters :
    exploreAll codeChain chainVWD [0, 1] atMostOneActive (fun s => !stuck s) 40
      (initWith [.deploy 1, .deploy 1]) = true := by
  decide +kernel

/-- **deploy at most once while live, chains** (the code as it is): concurrent `deploy(V)` and `deploy(W)` with any deploy
    failure: no deployment ever has two connectors deploying-or-live, and no request hangs -/
theorem deploy_at_most_once_while_live_chain :
    exploreAll codeChain chainVWD [0, 1, 2] atMostOneActive (fun s => !stuck s) 40
      (initWith [.deploy 2, .deploy 1]) = true := by
  decide +kernel

/-- `deploy(W)` has completed (it deploys `D`, then `W`) -/
def deployedWD (c : Chain.Cfg) : Chain.St :=
  (Chain.runActs c chainVWD (initWith [.deploy 1]) [.run 0, .callRet 0 true, .callRet 0 true]).getD {}

/-- **open finding — false for the code as it is** (`codeChain`, all four repairs): `W` over `D` deployed; `undeploy(W)` (task 1) and
    `deploy(W)` (task 2) concurrently. The undeploy removes `W` from the maps and awaits the old connector's `undeploy()`; the deploy
    registers `W` again, adds `W` to `D`'s dependants and awaits the new connector's `deploy()`; the undeploy resumes and its clean-up
    loop — which runs AFTER the await — removes `W` from `D`'s dependants (the edge of the NEW `W`), finds them empty and undeploys
    `D`; the new `W` then completes its deploy on top of an undeployed `D`. (When `D` has another dependant the cascade does not fire
    and the next `undeploy(D)` / `undeploy_all` does it — the schedule the thorough tier found on the real manager.) -/
theorem redeploy_edge_stripped_by_finishing_undeploy_false :
    (match Chain.runActs codeChain chainVWD (spawn (spawn (deployedWD codeChain) (.undeploy 1)) (.deploy 1))
        [.run 1, .run 2, .callRet 1 true, .callRet 2 true] with
     | some s => underLiveWrapper chainVWD s && liveNames s == [1] &&
         calls s == [.connDeployEnter 0, .connDeployExit 0, .connDeployEnter 1, .connDeployExit 1, .connUndeployEnter 1,
                     .connDeployEnter 1, .connUndeployExit 1, .connUndeployEnter 0, .connDeployExit 1]
     | none => false) = true := by
  decide +kernel

end SFV.C26.Chains
