/-! `WorkflowConfig` (`streamflow/config/config.py`) and `get_binding_config` / `_get_workdir`
    (`streamflow/deployment/utils.py`).

    The `filesystem` trie is kept as the set of its (non-root) nodes, each identified by its path from the
    root, plus the two attributes `step` / `port` of every node (`none` = key absent, `some none` = key
    present with value `None`, `some (some c)` = a binding). A path is the tuple `PurePosixPath(..).parts`
    (for absolute paths the first part is `"/"`). Core Lean only. -/
namespace SFV.Binding

abbrev Path := List String

inductive Kind where | step | port
deriving DecidableEq, Repr

structure Trie (V : Type) where
  /-- the non-root nodes that exist (`part in current_node["children"]` along the way) -/
  nodes : List Path
  /-- `node.get(name)` with key presence: `attr k p` -/
  attr : Kind → Path → Option (Option V)

def Trie.empty {V} : Trie V := ⟨[], fun _ _ => none⟩

/-- all non-empty prefixes of a path, shortest first -/
def prefixes : Path → List Path
  | [] => []
  | x :: r => [x] :: (prefixes r).map (x :: ·)

/-- `put(path, name, value)`: create the missing nodes on the way, set the attribute on the last one -/
def Trie.put {V} (t : Trie V) (path : Path) (k : Kind) (v : V) : Trie V :=
  { nodes := t.nodes ++ prefixes path
    attr := fun k' p => if k' = k ∧ p = path then some (some v) else t.attr k' p }

/-- `if name in current_node: value = current_node[name]` -/
def pick {V} (o : Option (Option V)) (value : Option V) : Option V :=
  match o with
  | some w => w
  | none => value

/-- the `for part in path.parts` loop of `propagate`; `cur` is the path of `current_node` -/
def propLoop {V} (t : Trie V) (k : Kind) : Path → List String → Option V → Option V
  | _, [], value => value
  | cur, part :: rest, value =>
      if cur ++ [part] ∈ t.nodes then
        propLoop t k (cur ++ [part]) rest (pick (t.attr k (cur ++ [part])) value)
      else value                    -- `if part not in current_node["children"]: return value`

/-- `propagate(path, name, default)` -/
def Trie.propagate {V} (t : Trie V) (path : Path) (k : Kind) (default : Option V := none) : Option V :=
  propLoop t k [] path default

/-- `get(path, name, default)` -/
def Trie.get {V} (t : Trie V) (path : Path) (k : Kind) (default : Option V := none) : Option V :=
  if path = [] then (match t.attr k [] with | some w => w | none => none)
  else if (prefixes path).all (· ∈ t.nodes) then (match t.attr k path with | some w => w | none => none)
  else default

/-! ### bindings -/

structure TargetSpec where
  deployment : String
  workdir : Option String
  /-- opaque identity of the target entry (stands for locations / service) -/
  tag : Nat
deriving DecidableEq, Repr

structure BConfig where
  targets : List TargetSpec
  filters : List String
deriving DecidableEq, Repr

structure Binding where
  kind : Kind
  /-- `PurePosixPath(binding["step" | "port"]).parts` -/
  path : Path
  targets : List TargetSpec
  /-- `isinstance(binding["target"], MutableSequence)` -/
  targetIsList : Bool
  filters : List String

inductive Err where
  | portWithoutWorkdir | filterUndefined | notAbsolute | circular | keyError | outOfFuel
deriving DecidableEq, Repr

/-- `path.is_absolute()` on the parts tuple -/
def isAbsolute (p : Path) : Bool :=
  match p with
  | r :: _ => r.toList.head? = some '/'
  | [] => false

/-- `_process_binding` (the checks in the order of the code) -/
def processBinding (definedFilters : List String) (t : Trie BConfig) (b : Binding) : Except Err (Trie BConfig) :=
  -- `"workdir" not in binding["target"]`: for a list target this is list membership of a string, never true
  if b.kind = .port ∧ (b.targetIsList ∨ (b.targets.head?.bind (·.workdir)).isNone) then .error .portWithoutWorkdir
  else if b.filters.any (· ∉ definedFilters) then .error .filterUndefined
  else if !isAbsolute b.path then .error .notAbsolute
  else .ok (t.put b.path b.kind ⟨b.targets, b.filters⟩)

/-- the `for binding in bindings` loop of `__init__` -/
def processAll (definedFilters : List String) : Trie BConfig → List Binding → Except Err (Trie BConfig)
  | t, [] => .ok t
  | t, b :: bs =>
      match processBinding definedFilters t b with
      | .ok t' => processAll definedFilters t' bs
      | .error e => .error e

/-! ### `set_targets` -/

/-- `current_node["children"].values()`: the existing nodes one level below `cur` (first occurrence only) -/
def children {V} (t : Trie V) (cur : Path) : List Path :=
  (t.nodes.filter (fun p => p.length = cur.length + 1 ∧ cur.isPrefixOf p)).eraseDups

def Trie.setAttr {V} (t : Trie V) (k : Kind) (p : Path) (v : Option V) : Trie V :=
  { t with attr := fun k' q => if k' = k ∧ q = p then some v else t.attr k' q }

/-- `set_targets(current_node, target)`; `fuel` bounds the depth of the trie -/
def setTargets {V} : Nat → Trie V → Path → Option V → Trie V
  | 0, t, _, _ => t
  | fuel + 1, t, cur, target =>
      (children t cur).foldl (fun t node =>
        if (t.attr .port node).isSome then t                     -- `if "port" in node: continue`
        else
          let t' := if (t.attr .step node).isNone then t.setAttr .step node target else t
          setTargets fuel t' node ((t'.attr .step node).getD none)) t

def maxDepth {V} (t : Trie V) : Nat := t.nodes.foldl (fun m p => max m p.length) 0

/-! ### deployments, `_check_stacked_deployments`, `_get_workdir` -/

structure Deployment where
  name : String
  type : String
  workdir : Option String
  /-- `wraps` (a string or `wraps["deployment"]`) -/
  wraps : Option String
deriving DecidableEq, Repr

def lookup (deps : List Deployment) (n : String) : Option Deployment := deps.find? (·.name = n)

/-- the `while (wraps := deployment.get("wraps")) is not None` loop of `_check_stacked_deployments` for one
    starting deployment; `visited` is the set `deployments` -/
def checkChain (deps : List Deployment) : Nat → Deployment → List String → Except Err Unit
  | 0, _, _ => .error .outOfFuel
  | fuel + 1, d, visited =>
      match d.wraps with
      | none => .ok ()
      | some w =>
          match lookup deps w with
          | none => .error .keyError
          | some d' =>
              if d'.name ∈ visited then .error .circular
              else checkChain deps fuel d' (d'.name :: visited)

/-- `_check_stacked_deployments`: the outer `for` over all deployments, in order -/
def checkFrom (deps : List Deployment) : List Deployment → Except Err Unit
  | [] => .ok ()
  | d :: ds =>
      match checkChain deps (deps.length + 1) d [d.name] with
      | .ok () => checkFrom deps ds
      | .error e => .error e

def checkStacked (deps : List Deployment) : Except Err Unit := checkFrom deps deps

/-- `_get_workdir`: walk the wraps chain until a deployment has a workdir or wraps nothing -/
def getWorkdir (deps : List Deployment) : Nat → Deployment → Except Err (Option String)
  | 0, _ => .error .outOfFuel
  | fuel + 1, d =>
      match d.workdir with
      | some w => .ok (some w)
      | none =>
          match d.wraps with
          | none => .ok none
          | some w =>
              match lookup deps w with
              | none => .error .keyError
              | some d' => getWorkdir deps fuel d'

/-- Python truthiness of `str | None` (`workdir or …`) -/
def truthy : Option String → Bool
  | some s => s ≠ ""
  | none => false

/-- the last fallback of `Target.__init__`, by deployment type (`<tmp>/streamflow`) -/
def defaultWorkdir (type : String) : String := if type = "local" then "<localtmp>/streamflow" else "/tmp/streamflow"

structure Resolved where
  deployment : String
  /-- `Target.workdir` -/
  workdir : String
  /-- `DeploymentConfig.workdir` -/
  depWorkdir : Option String
  tag : Nat
deriving DecidableEq, Repr

/-- `Target.__init__`: `workdir or deployment.workdir or default` -/
def targetWorkdir (own depWd : Option String) (type : String) : String :=
  if truthy own then own.getD "" else if truthy depWd then depWd.getD "" else defaultWorkdir type

/-- one iteration of the `for target in config["targets"]` loop of `get_binding_config` -/
def resolveTarget (deps : List Deployment) (fuel : Nat) (ts : TargetSpec) : Except Err Resolved :=
  match lookup deps ts.deployment with
  | none => .error .keyError
  | some d =>
      match getWorkdir deps fuel d with
      | .error e => .error e
      | .ok wd => .ok ⟨d.name, targetWorkdir ts.workdir wd d.type, wd, ts.tag⟩

def resolveAll (deps : List Deployment) (fuel : Nat) : List TargetSpec → Except Err (List Resolved)
  | [] => .ok []
  | ts :: r =>
      match resolveTarget deps fuel ts with
      | .error e => .error e
      | .ok x => match resolveAll deps fuel r with
                 | .error e => .error e
                 | .ok xs => .ok (x :: xs)

/-- the `LocalTarget()` of the `else` branch -/
def localTarget : Resolved := ⟨"__LOCAL__", defaultWorkdir "local", none, 1⟩

/-- `get_binding_config(name, target_type, workflow_config)` on the parts of `name` -/
def getBindingConfig (deps : List Deployment) (t : Trie BConfig) (path : Path) (k : Kind) :
    Except Err (List Resolved × List String) :=
  match t.propagate path k with
  | some cfg =>
      match resolveAll deps (deps.length + 1) cfg.targets with
      | .error e => .error e
      | .ok ts => .ok (ts, cfg.filters)
  | none => .ok ([localTarget], [])

/-- `WorkflowConfig.__init__` from the bindings on: process the bindings, `set_targets`, check the stacks -/
def initConfig (definedFilters : List String) (deps : List Deployment) (bs : List Binding) :
    Except Err (Trie BConfig) :=
  match processAll definedFilters Trie.empty bs with
  | .error e => .error e
  | .ok t =>
      let t' := setTargets (maxDepth t + 1) t [] none
      match checkStacked deps with
      | .error e => .error e
      | .ok () => .ok t'

end SFV.Binding
