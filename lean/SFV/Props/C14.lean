import SFV.Lemmas.HW
/-! # C14 — hardware arithmetic is consistent

Theorems about the model `SFV/Model/HW.lean` of `Hardware` / `Storage` (`streamflow/core/scheduling.py`) over exact
rationals. The comparison operators, the size / cores / memory arithmetic and the raise conditions are the
definitions regenerated from the source on every run (`SFV/Gen/SchedGuards.lean`). Aliasing keys (key ≠ mount point,
several keys per mount point) are covered: every statement is about per-mount totals (`mountTotal`).
`ValidMap m` says every size passes the `Storage` constructor (is not negative). -/
namespace SFV.C14
open SFV.HW SFV.Gen.Sched

/-- normalisation never raises on constructor-valid storages and yields the normalised shape
    (`is_normalized()`: every key is its storage's mount point) -/
theorem normalize_ok (h : Hardware) (hv : ValidMap h.storage) :
    ∃ n, h.normalized = .ok n ∧ n.isNormalized = true ∧ (keys n.storage).Nodup := by
  obtain ⟨st, hst⟩ := normalizeStorage_ok h.storage ((ValidMap_iff _).mp hv)
  have hn := mkHardware_normal h.cores h.memory (normalizeStorage_normal hst)
  refine ⟨mkHardware h.cores h.memory st, by simp [Hardware.normalized, hst, bind, Except.bind, pure, Except.pure], ?_, hn.nodup⟩
  simp only [Hardware.isNormalized, List.all_eq_true, beq_iff_eq]
  exact fun kd hkd => hn.keyMount kd hkd

/-- **normalisation is idempotent** -/
theorem normalize_idem (h n : Hardware) (hn : h.normalized = .ok n) : n.normalized = .ok n := by
  simp only [Hardware.normalized, bind_eq_ok] at hn
  obtain ⟨st, hst, e⟩ := hn
  cases e
  have hnorm := mkHardware_normal h.cores h.memory (normalizeStorage_normal hst)
  simp only [Hardware.normalized, normalizeStorage_of_normal hnorm, bind, Except.bind, pure, Except.pure]
  exact congrArg Except.ok (mkHardware_idem _ _ _)

/-- **normalisation preserves cores, memory and every per-mount total** (and the set of mount points,
    except that an empty storage map becomes the default `{os.sep: 0}`) -/
theorem normalize_preserves_mount_totals (h n : Hardware) (hn : h.normalized = .ok n) :
    n.cores = h.cores ∧ n.memory = h.memory ∧ ∀ μ, mountTotal n.storage μ = mountTotal h.storage μ := by
  simp only [Hardware.normalized, bind_eq_ok] at hn
  obtain ⟨st, hst, e⟩ := hn
  cases e
  refine ⟨rfl, rfl, fun μ => ?_⟩
  rw [mkHardware_total, normalizeStorage_total hst]

/-- what `a + b` is: cores and memory add, every mount point gets the sum of the two totals -/
theorem add_totals (a b s : Hardware) (h : a.add b = .ok s) :
    s.cores = a.cores + b.cores ∧ s.memory = a.memory + b.memory ∧
    ∀ μ, mountTotal s.storage μ = mountTotal a.storage μ + mountTotal b.storage μ :=
  add_totals_lem a b s h

/-- `a + b` never raises on constructor-valid operands -/
theorem add_ok (a b : Hardware) (ha : ValidMap a.storage) (hb : ValidMap b.storage) : ∃ s, a.add b = .ok s := by
  obtain ⟨sa, hsa⟩ := normalizeStorage_ok a.storage ((ValidMap_iff _).mp ha)
  obtain ⟨sb, hsb⟩ := normalizeStorage_ok b.storage ((ValidMap_iff _).mp hb)
  have hva := (normalizeStorage_normal hsa).valid
  have hvb := (normalizeStorage_normal hsb).valid
  obtain ⟨st, hst⟩ := reduceFrom_add_ok (values sa ++ values sb) [] Normal.nil (by
    intro d hd
    simp only [values, List.mem_append, List.mem_map] at hd
    rcases hd with ⟨kd, hkd, e⟩ | ⟨kd, hkd, e⟩
    · exact e ▸ hva kd hkd
    · exact e ▸ hvb kd hkd)
  exact ⟨_, by simp only [Hardware.add, bind_eq_ok]; exact ⟨sa, hsa, sb, hsb, st, hst, rfl⟩⟩

/-- **adding then subtracting the same requirement restores the original amounts**: `(a + b) − b` never raises on
    constructor-valid operands and has the cores, the memory and the per-mount totals of `a`
    (mount points that only `b` has come out with total 0, which is also `a`'s total there) -/
theorem add_sub_cancel (a b : Hardware) (ha : ValidMap a.storage) (hb : ValidMap b.storage) :
    ∃ s r, a.add b = .ok s ∧ s.sub b = .ok r ∧ r.cores = a.cores ∧ r.memory = a.memory ∧
      ∀ μ, mountTotal r.storage μ = mountTotal a.storage μ := by
  obtain ⟨s, hs⟩ := add_ok a b ha hb
  obtain ⟨hc, hm, ht⟩ := add_totals a b s hs
  -- the sum is in normal form
  have hsn : Normal s.storage := by
    simp only [Hardware.add, bind_eq_ok] at hs
    obtain ⟨sa, hsa, sb, hsb, st, hst, e⟩ := hs
    cases e
    exact mkHardware_normal _ _ (reduceFrom_normal (f := storageAdd) Normal.nil hst)
  obtain ⟨sb, hsb⟩ := normalizeStorage_ok b.storage ((ValidMap_iff _).mp hb)
  have hbn := normalizeStorage_normal hsb
  have hkeys : ∀ d ∈ values sb, d.mount ∈ keys s.storage := by
    intro d hd
    have hl := mem_values_normal hbn hd
    have hk : d.mount ∈ keys sb := (mem_keys_iff_lookup sb d.mount).mpr ⟨d, hl⟩
    have hmb : d.mount ∈ mounts b.storage := (normalizeStorage_keys hsb _).mp hk
    simp only [Hardware.add, bind_eq_ok] at hs
    obtain ⟨sa, hsa, sb', hsb', st, hst, e⟩ := hs
    cases e
    have hsbeq : sb' = sb := by rw [hsb] at hsb'; cases hsb'; rfl
    subst hsbeq
    have hmem : d.mount ∈ keys st := by
      rw [reduceFrom_keys hst]; right
      simp only [List.map_append, List.mem_append, List.mem_map]
      exact Or.inr ⟨d, hd, rfl⟩
    have hne : st ≠ [] := by intro e; simp [e] at hmem
    rw [mkHardware_storage_of_ne _ _ hne]; exact hmem
  obtain ⟨r, hr, _, _, htr⟩ := reduceFrom_sub (values sb) s.storage hsn (values_nodup_of_normal hbn) (by
    intro d hd
    refine ⟨hkeys d hd, ?_⟩
    have hl := mem_values_normal hbn hd
    rw [ht, ← normalizeStorage_total hsb, hbn.total_of_lookup hl]
    have := mountTotal_nonneg ((ValidMap_iff _).mp ha) d.mount
    grind)
  refine ⟨s, mkHardware (s.cores - b.cores) (s.memory - b.memory) r, hs, ?_, ?_, ?_, fun μ => ?_⟩
  · simp only [Hardware.sub, bind_eq_ok]
    refine ⟨s.storage, normalizeStorage_of_normal hsn, sb, hsb, r, ?_, rfl⟩
    simp only [reduceStorages, reduceFrom_append, bind_eq_ok]
    exact ⟨s.storage, by simpa using reduceFrom_copy (op := Storage.sub) s.storage [] (by simpa using hsn), hr⟩
  · simp only [mkHardware, hc]; grind
  · simp only [mkHardware, hm]; grind
  · rw [mkHardware_total, htr, ht, ← mountTotal_eq_listTotal, normalizeStorage_total hsb]; grind

/-- **what `a − b` is on the mount points `a` has**: cores and memory subtract, and every mount point of `a` gets
    `a`'s total minus `b`'s total there — whatever keys the storages sit under (several keys per mount point on either
    side included) -/
theorem sub_totals (a b r : Hardware) (h : a.sub b = .ok r) :
    r.cores = a.cores - b.cores ∧ r.memory = a.memory - b.memory ∧
    ∀ μ ∈ mounts a.storage, mountTotal r.storage μ = mountTotal a.storage μ - mountTotal b.storage μ :=
  HW.sub_totals h

/-- **subtracting then adding the same requirement restores the original amounts** on every mount point of `a`
    (`(capacity − requirement) + requirement`), aliasing keys on the left operand included -/
theorem sub_add_cancel (a b d r : Hardware) (h1 : a.sub b = .ok d) (h2 : d.add b = .ok r) :
    r.cores = a.cores ∧ r.memory = a.memory ∧
    ∀ μ ∈ mounts a.storage, mountTotal r.storage μ = mountTotal a.storage μ := by
  obtain ⟨c1, m1, t1⟩ := HW.sub_totals h1
  obtain ⟨c2, m2, t2⟩ := add_totals_lem d b r h2
  refine ⟨by rw [c2, c1]; grind, by rw [m2, m1]; grind, fun μ hμ => ?_⟩
  rw [t2 μ, t1 μ hμ]; grind

/-- as written: for a mount point `a` lacks, `a − b` *adds* `b`'s amount (the loop of `_reduce_storages` copies the
    first storage it sees for a mount point) instead of raising or going negative -/
theorem sub_missing_mount_is_add (a b r : Hardware) (h : a.sub b = .ok r) (μ : Name) (hμ : μ ∉ mounts a.storage) :
    mountTotal r.storage μ = mountTotal b.storage μ := by
  simp only [Hardware.sub, bind_eq_ok] at h
  obtain ⟨sa, hsa, sb, hsb, st, hst, e⟩ := h
  cases e
  rw [mkHardware_total]
  simp only [reduceStorages, reduceFrom_append, bind_eq_ok] at hst
  obtain ⟨acc, h1, h2⟩ := hst
  have han := normalizeStorage_normal hsa
  have hacc : acc = sa := by
    have := reduceFrom_copy (op := Storage.sub) sa [] (by simpa using han)
    simp only [List.nil_append] at this
    rw [this] at h1; cases h1; rfl
  subst hacc
  have hμ' : μ ∉ keys acc := fun hk => hμ ((normalizeStorage_keys hsa μ).mp hk)
  have hbn := normalizeStorage_normal hsb
  rw [← normalizeStorage_total hsb]
  -- fold over `values sb`: the first (only) storage of mount μ is appended as is
  have key : ∀ (ds : List Storage) (acc r : StorageMap), (ds.map (·.mount)).Nodup → μ ∉ keys acc →
      (∀ kd ∈ acc, kd.1 = kd.2.mount) →
      reduceFrom Storage.sub acc ds = .ok r → mountTotal r μ = listTotal ds μ := by
    intro ds
    induction ds with
    | nil =>
      intro acc r _ hk hkm h; simp only [reduceFrom] at h; cases h
      simp only [listTotal]; exact mountTotal_of_not_mem hkm hk
    | cons d ds ih =>
      intro acc r hnd hk hkm h
      simp only [reduceFrom, bind_eq_ok] at h
      obtain ⟨acc', h1, h2⟩ := h
      simp only [List.map_cons, List.nodup_cons] at hnd
      have hkm' : ∀ kd ∈ acc', kd.1 = kd.2.mount := by
        intro kd hkd
        rcases upsert_mem h1 kd hkd with e | ⟨e1, e2, _⟩
        · exact hkm kd e
        · rw [e1, e2]
      by_cases hd : d.mount = μ
      · -- appended: from now on μ is present and never touched again
        have htot : mountTotal acc' μ = d.size := by
          rw [upsert_total (-d.size) (by intro x; simp only [storageSub]; grind) h1 μ, if_pos hd,
            if_neg (by rw [hd]; exact hk), mountTotal_of_not_mem hkm hk]; grind
        have hrest : listTotal ds μ = 0 := by
          have : ∀ x ∈ ds, x.mount ≠ μ := fun x hx e => hnd.1 (by rw [hd, ← e]; exact List.mem_map_of_mem hx)
          clear ih h2 hnd
          induction ds with
          | nil => rfl
          | cons y ys ihy =>
            simp only [listTotal, if_neg (this y (List.mem_cons_self ..)),
              ihy (fun x hx => this x (List.mem_cons_of_mem _ hx))]; grind
        have hkeep : ∀ (ys : List Storage) (acc r : StorageMap), (∀ x ∈ ys, x.mount ≠ μ) →
            reduceFrom Storage.sub acc ys = .ok r → mountTotal r μ = mountTotal acc μ := by
          intro ys
          induction ys with
          | nil => intro acc r _ h; simp only [reduceFrom] at h; cases h; rfl
          | cons y ys ihy =>
            intro acc r hne h
            simp only [reduceFrom, bind_eq_ok] at h
            obtain ⟨acc'', h1', h2'⟩ := h
            rw [ihy acc'' r (fun x hx => hne x (List.mem_cons_of_mem _ hx)) h2',
              upsert_total (-y.size) (by intro x; simp only [storageSub]; grind) h1' μ,
              if_neg (hne y (List.mem_cons_self ..))]; grind
        rw [hkeep ds acc' r (fun x hx e => hnd.1 (by rw [hd, ← e]; exact List.mem_map_of_mem hx)) h2, htot]
        simp only [listTotal, if_pos hd, hrest]; grind
      · have hk' : μ ∉ keys acc' := by
          rw [upsert_keys h1]; split
          · exact hk
          · simp only [List.mem_append, List.mem_singleton, not_or]; exact ⟨hk, fun e => hd e.symm⟩
        rw [ih acc' r hnd.2 hk' hkm' h2]
        simp only [listTotal, if_neg hd]; grind
  rw [mountTotal_eq_listTotal sb]
  exact key (values sb) acc st (values_nodup_of_normal hbn) hμ' han.keyMount h2

/-- **`satisfies` returns `True` exactly when the capacity is at least as large** in cores, memory and every mount
    point of the requirement (which must all be present) -/
theorem satisfies_iff (cap req : Hardware) (hc : ValidMap cap.storage) (hr : ValidMap req.storage) :
    cap.satisfies req = .ok true ↔
      req.cores ≤ cap.cores ∧ req.memory ≤ cap.memory ∧
      ∀ μ ∈ mounts req.storage, μ ∈ mounts cap.storage ∧ mountTotal req.storage μ ≤ mountTotal cap.storage μ :=
  satisfies_ok_true_iff cap req hc hr

/-- **the raise branch**: `satisfies` raises exactly when cores and memory suffice and the requirement names a mount
    point the capacity lacks (never in any other case, on constructor-valid operands) -/
theorem satisfies_raises_iff (cap req : Hardware) (hc : ValidMap cap.storage) (hr : ValidMap req.storage) (e : Err) :
    cap.satisfies req = .error e ↔
      e = .missingStorage ∧ req.cores ≤ cap.cores ∧ req.memory ≤ cap.memory ∧
      ∃ μ ∈ mounts req.storage, μ ∉ mounts cap.storage := by
  obtain ⟨on, hon⟩ := normalizeStorage_ok req.storage ((ValidMap_iff _).mp hr)
  obtain ⟨sn, hsn⟩ := normalizeStorage_ok cap.storage ((ValidMap_iff _).mp hc)
  unfold Hardware.satisfies coresMemoryOk
  by_cases hcm : req.cores ≤ cap.cores ∧ req.memory ≤ cap.memory
  · have : (decide (cap.cores ≥ req.cores) && decide (cap.memory ≥ req.memory)) = true := by simpa using hcm
    simp only [this, if_true, hon, hsn, bind, Except.bind, pure, Except.pure]
    by_cases hmiss : ((keys on).any (fun k => !(keys sn).contains k)) = true
    · simp only [hmiss, if_true, Except.error.injEq]
      obtain ⟨μ, h1, h2⟩ := (any_missing_iff _ _).mp hmiss
      constructor
      · intro h
        exact ⟨h.symm, hcm.1, hcm.2, μ, (normalizeStorage_keys hon μ).mp h1,
          fun h => h2 ((normalizeStorage_keys hsn μ).mpr h)⟩
      · rintro ⟨h, _⟩; exact h.symm
    · simp only [hmiss, Bool.false_eq_true, if_false]
      constructor
      · intro h; cases h
      · rintro ⟨_, _, _, μ, h1, h2⟩
        exact absurd ((any_missing_iff _ _).mpr ⟨μ, (normalizeStorage_keys hon μ).mpr h1,
          fun h => h2 ((normalizeStorage_keys hsn μ).mp h)⟩) hmiss
  · have : (decide (cap.cores ≥ req.cores) && decide (cap.memory ≥ req.memory)) = false := by
      simp only [ge_iff_le, Bool.and_eq_false_iff, decide_eq_false_iff_not]
      by_cases h1 : req.cores ≤ cap.cores
      · exact Or.inr (fun h2 => hcm ⟨h1, h2⟩)
      · exact Or.inl h1
    simp only [this, Bool.false_eq_true, if_false, pure, Except.pure]
    constructor
    · intro h; cases h
    · rintro ⟨_, h1, h2, _⟩; exact absurd ⟨h1, h2⟩ hcm

/-- **`|` keeps keys and takes the maximum size per key** (cores and memory are *added*, as written) -/
theorem or_is_max_per_key (a b r : Hardware) (hb : (keys b.storage).Nodup) (h : a.or b = .ok r) :
    r.cores = a.cores + b.cores ∧ r.memory = a.memory + b.memory ∧
    ∀ k, lookup r.storage k =
      match lookup a.storage k, lookup b.storage k with
      | some s, some d => some { s with size := max s.size d.size, paths := unionPaths s.paths d.paths }
      | some s, none => some s
      | none, some d => some d
      | none, none => none := by
  simp only [Hardware.or, bind_eq_ok] at h
  obtain ⟨st, hst, e⟩ := h
  cases e
  refine ⟨rfl, rfl, fun k => ?_⟩
  rw [iorLoop_lookup hb hst k]
  cases lookup a.storage k <;> cases lookup b.storage k <;> simp [storageIor]

/-! ### the hypotheses are satisfiable: three keys over two mount points (aliasing) -/

/-- capacity with keys 5, 6 on mount 1 and key 7 on mount 2 -/
def exA : Hardware := ⟨4, 8, [(5, ⟨1, 3/2, [10], none⟩), (6, ⟨1, 1/2, [11], none⟩), (7, ⟨2, 1, [12], none⟩)]⟩
/-- requirement over mounts 1 and 3 -/
def exB : Hardware := ⟨1, 2, [(8, ⟨1, 1/4, [], none⟩), (9, ⟨3, 5, [], none⟩)]⟩

example : ValidMap exA.storage ∧ ValidMap exB.storage := by
  rw [ValidMap_iff, ValidMap_iff]
  constructor <;> intro kd hkd <;> simp [exA, exB] at hkd
  · rcases hkd with h | h | h <;> subst h <;> decide +kernel
  · rcases hkd with h | h <;> subst h <;> decide +kernel
example : mountTotal exA.storage 1 = 2 ∧ exA.isNormalized = false := by decide +kernel
example : (exA.add exB >>= fun s => s.sub exB) =
    .ok ⟨4, 8, [(1, ⟨1, 2, [10, 11], none⟩), (2, ⟨2, 1, [12], none⟩), (3, ⟨3, 0, [], none⟩)]⟩ := by decide +kernel
example : exA.satisfies exB = .error .missingStorage := by decide +kernel
example : exA.satisfies ⟨1, 2, [(8, ⟨1, 2, [], none⟩)]⟩ = .ok true := by decide +kernel
example : exA.satisfies ⟨1, 2, [(8, ⟨1, 3/2, [], none⟩), (9, ⟨1, 1, [], none⟩)]⟩ = .ok false := by decide +kernel

end SFV.C14
