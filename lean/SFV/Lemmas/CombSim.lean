import SFV.Lemmas.CombDot
/-! The loop-faithful model of `SFV/Model/Comb.lean` computes the closed forms of `SFV/Lemmas/CombDot.lean`.
    `sem tv κ q` reads the deque of item `q` under key `κ` (absent = empty); `tkeys tv` is the dict's key order. -/
namespace SFV.Comb
open SFV

def cget (c : Cell) (q : Nat) : List Elem := (c.lookup q).getD []
def ckeys (c : Cell) : List Nat := c.map (·.1)
def tcell (tv : TV) (κ : Tag) : Cell := (tv.lookup κ).getD []
def sem (tv : TV) (κ : Tag) (q : Nat) : List Elem := cget (tcell tv κ) q
def tkeys (tv : TV) : List Tag := tv.map (·.1)

/-- dict well-formedness: keys are unique, items are below `P` -/
def CellOK (P : Nat) (c : Cell) : Prop := (ckeys c).Nodup ∧ ∀ q ∈ ckeys c, q < P
def Valid (P : Nat) (tv : TV) : Prop := (tkeys tv).Nodup ∧ ∀ x ∈ tv, CellOK P x.2

/-! ### cells -/

theorem cget_nil (q : Nat) : cget [] q = [] := rfl

theorem cget_cons (p : Nat) (d : List Elem) (r : Cell) (q : Nat) :
    cget ((p, d) :: r) q = if q = p then d else cget r q := by
  unfold cget
  by_cases h : q = p
  · subst h; simp [List.lookup]
  · have : (q == p) = false := by simpa using h
    simp [List.lookup, this, h]

theorem cget_of_not_mem {c : Cell} {q : Nat} (h : q ∉ ckeys c) : cget c q = [] := by
  induction c with
  | nil => rfl
  | cons x r ih =>
    obtain ⟨p, d⟩ := x
    simp only [ckeys, List.map_cons, List.mem_cons, not_or] at h
    rw [cget_cons, if_neg h.1]
    exact ih h.2

theorem cget_addToPort (c : Cell) (p : Nat) (e : Elem) (q : Nat) :
    cget (addToPort c p e) q = if q = p then cget c q ++ [e] else cget c q := by
  induction c with
  | nil =>
    simp only [addToPort, cget_cons, cget_nil]
    split <;> simp
  | cons x r ih =>
    obtain ⟨p', d⟩ := x
    simp only [addToPort]
    by_cases hp : p' = p
    · subst hp
      simp only [if_true, cget_cons]
      split <;> rfl
    · simp only [hp, if_false, cget_cons, ih]
      by_cases hq : q = p'
      · subst hq
        have : ¬ q = p := hp
        simp [this]
      · simp [hq]

theorem ckeys_addToPort (c : Cell) (p : Nat) (e : Elem) :
    ckeys (addToPort c p e) = if p ∈ ckeys c then ckeys c else ckeys c ++ [p] := by
  induction c with
  | nil => simp [addToPort, ckeys]
  | cons x r ih =>
    obtain ⟨p', d⟩ := x
    simp only [addToPort]
    by_cases hp : p' = p
    · subst hp; simp [ckeys]
    · have hp' : ¬ p = p' := fun h => hp h.symm
      simp only [hp, if_false]
      simp only [ckeys, List.map_cons, List.mem_cons, hp', false_or] at ih ⊢
      rw [ih]
      by_cases hm : p ∈ List.map (fun x => x.fst) r <;> simp [hm]

theorem cellOK_nil (P : Nat) : CellOK P [] := by simp [CellOK, ckeys]

theorem cellOK_addToPort {P : Nat} {c : Cell} (h : CellOK P c) {p : Nat} (hp : p < P) (e : Elem) :
    CellOK P (addToPort c p e) := by
  unfold CellOK
  rw [ckeys_addToPort]
  split
  · exact h
  · rename_i hn
    refine ⟨List.nodup_append.mpr ⟨h.1, by simp, ?_⟩, ?_⟩
    · intro a ha b hb; simp at hb; subst hb; exact fun e => hn (e ▸ ha)
    · intro q hq
      rcases List.mem_append.mp hq with hq | hq
      · exact h.2 q hq
      · simp at hq; subst hq; exact hp

/-! ### the tag dict -/

theorem lookup_tvUpd (f : Cell → Cell) (tv : TV) (k κ : Tag) :
    (tvUpd f tv k).lookup κ = if κ = k then some (f (tcell tv k)) else tv.lookup κ := by
  induction tv with
  | nil =>
    simp only [tvUpd, tcell, List.lookup, Option.getD]
    by_cases h : κ = k
    · subst h; simp
    · have : (κ == k) = false := by simpa using h
      simp [this, h]
  | cons x r ih =>
    obtain ⟨k', c⟩ := x
    simp only [tvUpd]
    by_cases hk : k' = k
    · subst hk
      simp only [if_true, tcell]
      by_cases h : κ = k'
      · subst h; simp [List.lookup]
      · have : (κ == k') = false := by simpa using h
        simp [List.lookup, this, h]
    · simp only [hk, if_false]
      by_cases h : κ = k'
      · subst h
        have : ¬ κ = k := hk
        simp [List.lookup, this]
      · have hb : (κ == k') = false := by simpa using h
        have hk2 : (k == k') = false := by simpa using (fun e => hk e.symm)
        simp only [List.lookup, hb, ih, tcell, hk2]

theorem tcell_tvUpd (f : Cell → Cell) (tv : TV) (k κ : Tag) :
    tcell (tvUpd f tv k) κ = if κ = k then f (tcell tv k) else tcell tv κ := by
  unfold tcell
  rw [lookup_tvUpd]
  split <;> rfl

theorem tkeys_tvUpd (f : Cell → Cell) (tv : TV) (k : Tag) :
    tkeys (tvUpd f tv k) = if k ∈ tkeys tv then tkeys tv else tkeys tv ++ [k] := by
  induction tv with
  | nil => simp [tvUpd, tkeys]
  | cons x r ih =>
    obtain ⟨k', c⟩ := x
    simp only [tvUpd]
    by_cases hk : k' = k
    · subst hk; simp [tkeys]
    · have hk' : ¬ k = k' := fun h => hk h.symm
      simp only [hk, if_false]
      simp only [tkeys, List.map_cons, List.mem_cons, hk', false_or] at ih ⊢
      rw [ih]
      by_cases hm : k ∈ List.map (fun x => x.fst) r <;> simp [hm]

theorem mem_tv_iff {tv : TV} (hnd : (tkeys tv).Nodup) {κ : Tag} {c : Cell} :
    (κ, c) ∈ tv ↔ tv.lookup κ = some c := by
  induction tv with
  | nil => simp [List.lookup]
  | cons x r ih =>
    obtain ⟨k', c'⟩ := x
    simp only [tkeys, List.map_cons, List.nodup_cons] at hnd
    have ih' := ih hnd.2
    by_cases h : κ = k'
    · subst h
      simp only [List.mem_cons, Prod.mk.injEq, true_and, List.lookup, beq_self_eq_true,
        Option.some.injEq]
      constructor
      · rintro (h | h)
        · exact h.symm
        · exact absurd (List.mem_map.mpr ⟨(κ, c), h, rfl⟩) hnd.1
      · intro h; exact Or.inl h.symm
    · have hb : (κ == k') = false := by simpa using h
      simp only [List.mem_cons, Prod.mk.injEq, h, false_and, false_or, List.lookup, hb]
      exact ih'

theorem valid_nil (P : Nat) : Valid P [] := by simp [Valid, tkeys]

theorem valid_tcell {P : Nat} {tv : TV} (h : Valid P tv) (κ : Tag) : CellOK P (tcell tv κ) := by
  unfold tcell
  cases hl : tv.lookup κ with
  | none => exact cellOK_nil P
  | some c => exact h.2 (κ, c) ((mem_tv_iff h.1).mpr hl)

theorem valid_tvUpd {P : Nat} {f : Cell → Cell} (hf : ∀ c, CellOK P c → CellOK P (f c))
    {tv : TV} (h : Valid P tv) (k : Tag) : Valid P (tvUpd f tv k) := by
  have hnd : (tkeys (tvUpd f tv k)).Nodup := by
    rw [tkeys_tvUpd]
    split
    · exact h.1
    · rename_i hn
      refine List.nodup_append.mpr ⟨h.1, by simp, ?_⟩
      intro a ha b hb; simp at hb; subst hb; exact fun e => hn (e ▸ ha)
  refine ⟨hnd, ?_⟩
  rintro ⟨κ, c⟩ hx
  have := (mem_tv_iff hnd).mp hx
  rw [lookup_tvUpd] at this
  split at this
  · cases this; exact hf _ (valid_tcell h k)
  · exact h.2 (κ, c) ((mem_tv_iff h.1).mpr this)

theorem sem_tvUpd_add (tv : TV) (k κ : Tag) (p q : Nat) (e : Elem) :
    sem (tvUpd (fun c => addToPort c p e) tv k) κ q =
      if κ = k ∧ q = p then sem tv κ q ++ [e] else sem tv κ q := by
  unfold sem
  rw [tcell_tvUpd]
  by_cases h : κ = k
  · subst h
    simp only [if_true, cget_addToPort, true_and]
  · simp [h]

/-! ### `_add_to_list` -/

theorem flatMap_congr' {α β : Type} {f g : α → List β} {l : List α} (h : ∀ a ∈ l, f a = g a) :
    l.flatMap f = l.flatMap g := by
  induction l with
  | nil => rfl
  | cons a l ih =>
    simp only [List.flatMap_cons]
    rw [h a (by simp), ih (fun b hb => h b (List.mem_cons_of_mem _ hb))]

/-- the only key a call of `_add_to_list` for tag `τ` can create is `τ`, at the end of the dict -/
def KeysExt (τ : Tag) (tv tv' : TV) : Prop :=
  tkeys tv' = tkeys tv ∨ (τ ∉ tkeys tv ∧ tkeys tv' = tkeys tv ++ [τ])

theorem KeysExt.refl (τ : Tag) (tv : TV) : KeysExt τ tv tv := Or.inl rfl

theorem KeysExt.trans {τ : Tag} {a b c : TV} (h1 : KeysExt τ a b) (h2 : KeysExt τ b c) : KeysExt τ a c := by
  rcases h1 with h1 | ⟨hn1, h1⟩ <;> rcases h2 with h2 | ⟨hn2, h2⟩
  · exact Or.inl (h2.trans h1)
  · exact Or.inr ⟨h1 ▸ hn2, by rw [h2, h1]⟩
  · exact Or.inr ⟨hn1, by rw [h2, h1]⟩
  · exact absurd (by rw [h1]; simp) hn2

theorem KeysExt.mem {τ : Tag} {a b : TV} (h : KeysExt τ a b) {k : Tag} (hk : k ∈ tkeys a) : k ∈ tkeys b := by
  rcases h with h | ⟨_, h⟩ <;> rw [h]
  · exact hk
  · exact List.mem_append_left _ hk

theorem keysExt_tvUpd (f : Cell → Cell) (tv : TV) (τ : Tag) : KeysExt τ tv (tvUpd f tv τ) := by
  unfold KeysExt
  rw [tkeys_tvUpd]
  by_cases h : τ ∈ tkeys tv <;> simp [h]

theorem tkeys_tvUpd_of_mem (f : Cell → Cell) {tv : TV} {k : Tag} (h : k ∈ tkeys tv) :
    tkeys (tvUpd f tv k) = tkeys tv := by
  rw [tkeys_tvUpd, if_pos h]

theorem copyDeque_spec {P : Nat} (τ : Tag) (p : Nat) (hp : p < P) :
    ∀ (d : List Elem) (tv : TV), Valid P tv →
      Valid P (copyDeque addToPort τ p d tv) ∧ KeysExt τ tv (copyDeque addToPort τ p d tv) ∧
      ∀ κ q, sem (copyDeque addToPort τ p d tv) κ q =
        if κ = τ ∧ q = p then sem tv κ q ++ d else sem tv κ q := by
  intro d
  induction d with
  | nil => intro tv hv; exact ⟨hv, KeysExt.refl _ _, fun κ q => by simp [copyDeque]⟩
  | cons t ts ih =>
    intro tv hv
    simp only [copyDeque]
    have hv1 : Valid P (tvUpd (fun c => addToPort c p t) tv τ) :=
      valid_tvUpd (fun c hc => cellOK_addToPort hc hp t) hv τ
    obtain ⟨h1, h2, h3⟩ := ih _ hv1
    refine ⟨h1, (keysExt_tvUpd _ tv τ).trans h2, ?_⟩
    intro κ q
    rw [h3, sem_tvUpd_add]
    by_cases hc : κ = τ ∧ q = p
    · simp [hc]
    · simp [hc]

theorem copyCell_spec {P : Nat} (τ : Tag) :
    ∀ (c : Cell) (tv : TV), CellOK P c → Valid P tv →
      Valid P (copyCell addToPort τ c tv) ∧ KeysExt τ tv (copyCell addToPort τ c tv) ∧
      ∀ κ q, sem (copyCell addToPort τ c tv) κ q =
        if κ = τ then sem tv κ q ++ cget c q else sem tv κ q := by
  intro c
  induction c with
  | nil => intro tv _ hv; exact ⟨hv, KeysExt.refl _ _, fun κ q => by simp [copyCell, cget_nil]⟩
  | cons x r ih =>
    obtain ⟨p, d⟩ := x
    intro tv hc hv
    simp only [copyCell]
    have hp : p < P := hc.2 p (by simp [ckeys])
    have hcr : CellOK P r := by
      refine ⟨?_, fun q hq => hc.2 q (by simp only [ckeys, List.map_cons, List.mem_cons]; exact Or.inr hq)⟩
      have := hc.1
      simp only [ckeys, List.map_cons, List.nodup_cons] at this
      exact this.2
    have hpr : p ∉ ckeys r := by
      have := hc.1
      simp only [ckeys, List.map_cons, List.nodup_cons] at this
      exact this.1
    obtain ⟨g1, g2, g3⟩ := copyDeque_spec τ p hp d tv hv
    obtain ⟨h1, h2, h3⟩ := ih _ hcr g1
    refine ⟨h1, g2.trans h2, ?_⟩
    intro κ q
    rw [h3, g3, cget_cons]
    by_cases hκ : κ = τ
    · by_cases hq : q = p
      · subst hq; simp [hκ, cget_of_not_mem hpr]
      · simp [hκ, hq]
    · simp [hκ]

theorem addLoop_spec {P : Nat} (τ : Tag) (p : Nat) (hp : p < P) (e : Elem) :
    ∀ (ks : List Tag) (tv : TV), Valid P tv → ks.Nodup → (∀ k ∈ ks, k ∈ tkeys tv) →
      Valid P (addLoop addToPort τ p e ks tv) ∧ KeysExt τ tv (addLoop addToPort τ p e ks tv) ∧
      ∀ κ q, sem (addLoop addToPort τ p e ks tv) κ q =
        if κ = τ then
          sem tv τ q ++ (ks.filter (fun k => k ≠ τ ∧ CF.pre k τ)).flatMap (fun k => sem tv k q)
        else if κ ∈ ks ∧ CF.pre τ κ then sem tv κ q ++ (if q = p then [e] else [])
        else sem tv κ q := by
  intro ks
  induction ks with
  | nil =>
    intro tv hv _ _
    exact ⟨hv, KeysExt.refl _ _, fun κ q => by by_cases h : κ = τ <;> simp [addLoop, h]⟩
  | cons k ks ih =>
    intro tv hv hnd hsub
    simp only [addLoop]
    have hknd : k ∉ ks := (List.nodup_cons.mp hnd).1
    have hnd' : ks.Nodup := (List.nodup_cons.mp hnd).2
    -- one iteration
    have hone : ∃ tv1, tv1 = (if τ = k then tv
          else if isParentTag k τ = true then tvUpd (fun c => addToPort c p e) tv k
          else if isParentTag τ k = true then copyCell addToPort τ ((tvGet tv k).getD []) tv
          else tv) ∧ Valid P tv1 ∧ KeysExt τ tv tv1 ∧
        ∀ κ q, sem tv1 κ q =
          if κ = τ then sem tv τ q ++ (if k ≠ τ ∧ CF.pre k τ then sem tv k q else [])
          else if κ = k ∧ CF.pre τ κ then sem tv κ q ++ (if q = p then [e] else [])
          else sem tv κ q := by
      refine ⟨_, rfl, ?_⟩
      by_cases h1 : τ = k
      · subst h1
        simp only [if_true]
        refine ⟨hv, KeysExt.refl _ _, fun κ q => ?_⟩
        by_cases hκ : κ = τ
        · simp [hκ]
        · simp [hκ]
      · have h1' : k ≠ τ := fun h => h1 h.symm
        simp only [h1, if_false]
        by_cases h2 : isParentTag k τ = true
        · -- `k` is a strict descendant of `τ`
          have hpre : CF.pre τ k := h2
          have hnpre : ¬ CF.pre k τ := fun h => h1 (CF.pre_antisymm hpre h)
          simp only [h2, if_true]
          refine ⟨valid_tvUpd (fun c hc => cellOK_addToPort hc hp e) hv k, Or.inl ?_, fun κ q => ?_⟩
          · exact tkeys_tvUpd_of_mem _ (hsub k (by simp))
          · rw [sem_tvUpd_add]
            by_cases hκ : κ = τ
            · subst hκ
              have : ¬ (κ = k) := h1
              simp [this, hnpre]
            · by_cases hκk : κ = k
              · subst hκk
                by_cases hq : q = p <;> simp [hκ, hq, hpre]
              · simp [hκ, hκk]
        · simp only [h2, Bool.false_eq_true, if_false]
          by_cases h3 : isParentTag τ k = true
          · -- `k` is a strict ancestor of `τ`
            have hpre : CF.pre k τ := h3
            simp only [h3, if_true]
            have hck : CellOK P ((tvGet tv k).getD []) := valid_tcell hv k
            obtain ⟨g1, g2, g3⟩ := copyCell_spec τ _ tv hck hv
            refine ⟨g1, g2, fun κ q => ?_⟩
            rw [g3]
            by_cases hκ : κ = τ
            · subst hκ
              simp only [if_true, h1', hpre, ne_eq, not_false_eq_true, and_self]
              rfl
            · have : ¬ (κ = k ∧ CF.pre τ κ) := fun hh => h2 (hh.1 ▸ hh.2)
              simp [hκ, this]
          · simp only [h3, Bool.false_eq_true, if_false]
            refine ⟨hv, KeysExt.refl _ _, fun κ q => ?_⟩
            have hn3 : ¬ CF.pre k τ := h3
            by_cases hκ : κ = τ
            · simp [hκ, hn3]
            · have : ¬ (κ = k ∧ CF.pre τ κ) := fun hh => h2 (hh.1 ▸ hh.2)
              simp [hκ, this]
    obtain ⟨tv1, htv1, hv1, hk1, hs1⟩ := hone
    rw [← htv1]
    have hsub1 : ∀ k' ∈ ks, k' ∈ tkeys tv1 := fun k' hk' => hk1.mem (hsub k' (List.mem_cons_of_mem _ hk'))
    obtain ⟨r1, r2, r3⟩ := ih tv1 hv1 hnd' hsub1
    refine ⟨r1, hk1.trans r2, fun κ q => ?_⟩
    rw [r3]
    by_cases hκ : κ = τ
    · subst hκ
      simp only [if_true]
      have hflat : (ks.filter (fun k => k ≠ κ ∧ CF.pre k κ)).flatMap (fun k => sem tv1 k q)
          = (ks.filter (fun k => k ≠ κ ∧ CF.pre k κ)).flatMap (fun k => sem tv k q) := by
        apply flatMap_congr'
        intro k' hk'
        obtain ⟨hk'mem, hk'p⟩ := List.mem_filter.mp hk'
        have hk'p' : k' ≠ κ ∧ CF.pre k' κ := by simpa using hk'p
        rw [hs1 k' q, if_neg hk'p'.1]
        have : ¬ (k' = k ∧ CF.pre κ k') := fun hh => hknd (hh.1 ▸ hk'mem)
        rw [if_neg this]
      rw [hflat, hs1 κ q, if_pos rfl, List.filter_cons]
      by_cases hkp : k ≠ κ ∧ CF.pre k κ
      · simp [hkp]
      · simp [hkp]
    · simp only [hκ, if_false]
      by_cases hin : κ ∈ ks ∧ CF.pre τ κ
      · have hne : κ ≠ k := fun h => hknd (h ▸ hin.1)
        have h1 : κ ∈ k :: ks ∧ CF.pre τ κ := ⟨List.mem_cons_of_mem _ hin.1, hin.2⟩
        rw [if_pos hin, if_pos h1, hs1 κ q, if_neg hκ]
        have : ¬ (κ = k ∧ CF.pre τ κ) := fun hh => hne hh.1
        rw [if_neg this]
      · rw [if_neg hin, hs1 κ q, if_neg hκ]
        by_cases hk : κ = k ∧ CF.pre τ κ
        · have h1 : κ ∈ k :: ks ∧ CF.pre τ κ := ⟨hk.1 ▸ List.mem_cons_self .., hk.2⟩
          rw [if_pos hk, if_pos h1]
        · have h1 : ¬ (κ ∈ k :: ks ∧ CF.pre τ κ) := by
            rintro ⟨hm, hp'⟩
            rcases List.mem_cons.mp hm with h | h
            · exact hk ⟨h, hp'⟩
            · exact hin ⟨h, hp'⟩
          rw [if_neg hk, if_neg h1]

/-- the loop-faithful state, read as a closed-form state -/
def absSt (tv : TV) (ot : List Tag) (o : List (Tag × List Elem)) : CF.St := ⟨tkeys tv, sem tv, ot, o⟩

/-- **`_add_to_list`, loop = closed form** (every state with unique dict keys, every element, no
    well-formedness needed) -/
theorem addToList_spec {P : Nat} {tv : TV} (hv : Valid P tv) (p : Nat) (hp : p < P) (e : Elem)
    (ot : List Tag) (o : List (Tag × List Elem)) :
    Valid P (addToList addToPort tv e.tag p e) ∧
    absSt (addToList addToPort tv e.tag p e) ot o = CF.add (absSt tv ot o) p e := by
  have heq : addToList addToPort tv e.tag p e =
      tvUpd (fun c => addToPort c p e) (addLoop addToPort e.tag p e (tkeys tv) tv) e.tag := rfl
  rw [heq]
  obtain ⟨h1, h2, h3⟩ := addLoop_spec (P := P) e.tag p hp e (tkeys tv) tv hv hv.1 (fun k hk => hk)
  refine ⟨valid_tvUpd (fun c hc => cellOK_addToPort hc hp e) h1 _, ?_⟩
  unfold absSt CF.add
  simp only
  congr 1
  · rw [tkeys_tvUpd]
    rcases h2 with h2 | ⟨hn, h2⟩
    · rw [h2]
    · have : e.tag ∈ tkeys tv ++ [e.tag] := by simp
      rw [h2, if_pos this, if_neg hn]
  · funext κ q
    rw [sem_tvUpd_add, h3]
    by_cases hκ : κ = e.tag
    · subst hκ
      by_cases hq : q = p
      · simp [hq, CF.ancCopy, tkeys]
      · simp [hq, CF.ancCopy, tkeys]
    · have : ¬ (κ = e.tag ∧ q = p) := fun h => hκ h.1
      simp only [this, hκ, if_false]
      rfl

/-! ### `_product` -/

def lastD (d : List Elem) : Elem := d.getLast?.getD ⟨[], []⟩

theorem getLast?_lastD {d : List Elem} (h : d ≠ []) : d.getLast? = some (lastD d) := by
  unfold lastD
  cases hl : d.getLast? with
  | none => exact absurd (List.getLast?_eq_none_iff.mp hl) h
  | some x => rfl

theorem popOne_eq {d : List Elem} (h : d ≠ []) : popOne d = some (lastD d, d.dropLast) := by
  simp [popOne, Gen.dotPopsRight, getLast?_lastD h]

theorem popAll_full (c : Cell) (h : ∀ x ∈ c, x.2 ≠ []) :
    popAll c = some (c.map (fun x => lastD x.2), c.map (fun x => (x.1, x.2.dropLast))) := by
  induction c with
  | nil => rfl
  | cons x r ih =>
    obtain ⟨p, d⟩ := x
    have hd : d ≠ [] := h (p, d) (by simp)
    simp only [popAll, popOne_eq hd, ih (fun y hy => h y (List.mem_cons_of_mem _ hy))]
    rfl

theorem minLen_le (c : Cell) : ∀ x ∈ c, minLen c ≤ x.2.length := by
  induction c with
  | nil => intro x hx; cases hx
  | cons y r ih =>
    obtain ⟨p, d⟩ := y
    intro x hx
    cases r with
    | nil =>
      simp only [List.mem_singleton] at hx
      subst hx; simp [minLen]
    | cons z r' =>
      simp only [minLen]
      rcases List.mem_cons.mp hx with h | h
      · subst h; exact Nat.min_le_left _ _
      · exact Nat.le_trans (Nat.min_le_right _ _) (ih x h)

theorem minLen_pos (c : Cell) (hne : c ≠ []) (h : ∀ x ∈ c, x.2 ≠ []) : 0 < minLen c := by
  induction c with
  | nil => exact absurd rfl hne
  | cons y r ih =>
    obtain ⟨p, d⟩ := y
    have hd : 0 < d.length := List.length_pos_iff.mpr (h (p, d) (by simp))
    cases r with
    | nil => simpa [minLen] using hd
    | cons z r' =>
      simp only [minLen]
      have := ih (by simp) (fun x hx => h x (List.mem_cons_of_mem _ hx))
      exact Nat.lt_min.mpr ⟨hd, this⟩

theorem cget_of_mem {c : Cell} (hnd : (ckeys c).Nodup) {x : Nat × List Elem} (hx : x ∈ c) :
    cget c x.1 = x.2 := by
  induction c with
  | nil => cases hx
  | cons y r ih =>
    obtain ⟨p, d⟩ := y
    simp only [ckeys, List.map_cons, List.nodup_cons] at hnd
    rw [cget_cons]
    rcases List.mem_cons.mp hx with h | h
    · subst h; simp
    · have : x.1 ≠ p := fun e => hnd.1 (e ▸ List.mem_map.mpr ⟨x, h, rfl⟩)
      rw [if_neg this]
      exact ih hnd.2 h

theorem mem_ckeys_of_cget_ne {c : Cell} {q : Nat} (h : cget c q ≠ []) : q ∈ ckeys c :=
  Decidable.by_contra (fun hn => h (cget_of_not_mem hn))

theorem cget_dropLast (c : Cell) (q : Nat) :
    cget (c.map (fun x => (x.1, x.2.dropLast))) q = (cget c q).dropLast := by
  induction c with
  | nil => rfl
  | cons y r ih =>
    obtain ⟨p, d⟩ := y
    simp only [List.map_cons, cget_cons, ih]
    split <;> rfl

theorem ckeys_dropLast (c : Cell) : ckeys (c.map (fun x => (x.1, x.2.dropLast))) = ckeys c := by
  simp [ckeys, List.map_map, Function.comp_def]

theorem tkeys_tvSet (tv : TV) (k : Tag) (c : Cell) : tkeys (tvSet tv k c) = tkeys tv := by
  unfold tkeys tvSet
  rw [List.map_map]
  apply List.map_congr_left
  intro x _
  simp only [Function.comp]
  split
  · rename_i h; exact h.symm
  · rfl

theorem lookup_tvSet (tv : TV) (k : Tag) (c : Cell) (κ : Tag) :
    (tvSet tv k c).lookup κ = if κ = k then (tv.lookup k).map (fun _ => c) else tv.lookup κ := by
  induction tv with
  | nil => simp [tvSet, List.lookup]
  | cons x r ih =>
    obtain ⟨k', c'⟩ := x
    unfold tvSet at ih ⊢
    simp only [List.map_cons]
    by_cases hk : k' = k
    · subst hk
      simp only [if_true]
      by_cases h : κ = k'
      · subst h; simp [List.lookup]
      · have hb : (κ == k') = false := by simpa using h
        simp only [List.lookup, hb, ih, h, if_false]
    · simp only [hk, if_false]
      by_cases h : κ = k'
      · subst h
        have : ¬ κ = k := hk
        simp [List.lookup, this]
      · have hb : (κ == k') = false := by simpa using h
        have hk2 : (k == k') = false := by simpa using (fun e => hk e.symm)
        simp only [List.lookup, hb, ih, hk2]

theorem valid_tvSet {P : Nat} {tv : TV} (hv : Valid P tv) (k : Tag) {c : Cell} (hc : CellOK P c) :
    Valid P (tvSet tv k c) := by
  have hnd : (tkeys (tvSet tv k c)).Nodup := by rw [tkeys_tvSet]; exact hv.1
  refine ⟨hnd, ?_⟩
  rintro ⟨κ, c'⟩ hx
  have := (mem_tv_iff hnd).mp hx
  rw [lookup_tvSet] at this
  split at this
  · cases hl : tv.lookup k with
    | none => simp [hl] at this
    | some c0 => simp [hl] at this; subst this; exact hc
  · exact hv.2 (κ, c') ((mem_tv_iff hv.1).mpr this)

theorem sem_tvSet {tv : TV} {k : Tag} {c0 : Cell} (h0 : tv.lookup k = some c0) (c : Cell) (κ : Tag) (q : Nat) :
    sem (tvSet tv k c) κ q = if κ = k then cget c q else sem tv κ q := by
  unfold sem tcell
  rw [lookup_tvSet]
  split
  · simp [h0]
  · rfl

def Full (P : Nat) (tv : TV) (κ : Tag) : Prop := ∀ q, q < P → sem tv κ q ≠ []
instance (P : Nat) (tv : TV) (κ : Tag) : Decidable (Full P tv κ) := by
  unfold Full; exact Nat.decidableBallLT _ _

/-- the schema `_product` yields for a complete cell: the last element of every deque, in dict order,
    every token retagged with `get_tag` of the popped tokens -/
def emitOfCell (c : Cell) : Emit :=
  let s := schemaOf (c.map (fun x => lastD x.2))
  retagAll (schemaTag s) s

/-- one iteration of the `for tag in list(self._token_values)` loop, when at most one combination is available -/
theorem prodLoop_cons {P : Nat} {tv : TV} (hv : Valid P tv) {κ : Tag} {c : Cell} (hc : tv.lookup κ = some c)
    (hmin : ∃ q, q < P ∧ (sem tv κ q).length ≤ 1) (ks : List Tag) (out : List Emit) :
    prodLoop P (κ :: ks) tv out =
      if Full P tv κ then
        prodLoop P ks (tvSet tv κ (c.map (fun x => (x.1, x.2.dropLast)))) (out ++ [emitOfCell c])
      else prodLoop P ks tv out := by
  have hcok : CellOK P c := hv.2 (κ, c) ((mem_tv_iff hv.1).mpr hc)
  have hsem : ∀ q, sem tv κ q = cget c q := fun q => by simp [sem, tcell, hc]
  simp only [prodLoop, tvGet, hc, Gen.dotEmitGuard, beq_iff_eq, Int.natCast_inj]
  by_cases hfull : Full P tv κ
  · rw [if_pos hfull]
    have hall : ∀ q, q < P → q ∈ ckeys c := fun q hq =>
      mem_ckeys_of_cget_ne (by rw [← hsem]; exact hfull q hq)
    have hlen : c.length = P := by
      have hperm : (ckeys c).Perm (List.range P) :=
        (List.perm_ext_iff_of_nodup hcok.1 List.nodup_range).mpr (fun q =>
          ⟨fun h => List.mem_range.mpr (hcok.2 q h), fun h => hall q (List.mem_range.mp h)⟩)
      have := hperm.length_eq
      simpa [ckeys] using this
    have hne : ∀ x ∈ c, x.2 ≠ [] := by
      intro x hx
      have hx1 : x.1 < P := hcok.2 x.1 (List.mem_map.mpr ⟨x, hx, rfl⟩)
      have := hfull x.1 hx1
      rwa [hsem, cget_of_mem hcok.1 hx] at this
    have hcne : c ≠ [] := by
      obtain ⟨q, hq, _⟩ := hmin
      intro h; subst h
      have := hall q hq
      simp [ckeys] at this
    have hmin1 : minLen c = 1 := by
      have h1 := minLen_pos c hcne hne
      obtain ⟨q, hq, hql⟩ := hmin
      obtain ⟨x, hx, hxq⟩ := List.mem_map.mp (hall q hq)
      have h2 := minLen_le c x hx
      have : x.2 = sem tv κ q := by rw [hsem, ← hxq, cget_of_mem hcok.1 hx]
      rw [this] at h2
      omega
    rw [if_pos hlen, hmin1]
    simp only [prodIter, tvGet, hc, popAll_full c hne, emitOfCell]
  · rw [if_neg hfull]
    by_cases hlen : c.length = P
    · rw [if_pos hlen]
      have hmin0 : minLen c = 0 := by
        have : ∃ q, q < P ∧ sem tv κ q = [] := by
          apply Decidable.by_contra
          intro hne
          exact hfull (fun q hq hq0 => hne ⟨q, hq, hq0⟩)
        obtain ⟨q, hq, hqe⟩ := this
        have hqin : q ∈ ckeys c := by
          apply Decidable.by_contra
          intro hn
          have hnd : (q :: ckeys c).Nodup := List.nodup_cons.mpr ⟨hn, hcok.1⟩
          have hsub : q :: ckeys c ⊆ List.range P := by
            intro y hy
            rcases List.mem_cons.mp hy with h | h
            · exact List.mem_range.mpr (h ▸ hq)
            · exact List.mem_range.mpr (hcok.2 y h)
          have := hnd.length_le_of_subset hsub
          simp [ckeys, hlen] at this
          omega
        obtain ⟨x, hx, hxq⟩ := List.mem_map.mp hqin
        have h2 := minLen_le c x hx
        have : x.2 = [] := by rw [← cget_of_mem hcok.1 hx, hxq, ← hsem, hqe]
        rw [this] at h2
        simpa using h2
      rw [hmin0]
      simp only [prodIter]
    · rw [if_neg hlen]

theorem lookup_of_mem_tkeys {tv : TV} {k : Tag} (h : k ∈ tkeys tv) : ∃ c, tv.lookup k = some c := by
  induction tv with
  | nil => simp [tkeys] at h
  | cons x r ih =>
    obtain ⟨k', c'⟩ := x
    by_cases hk : k = k'
    · subst hk; exact ⟨c', by simp [List.lookup]⟩
    · have hb : (k == k') = false := by simpa using hk
      simp only [tkeys, List.map_cons, List.mem_cons, hk, false_or] at h
      obtain ⟨c, hc⟩ := ih h
      exact ⟨c, by simp [List.lookup, hb, hc]⟩

/-- **the `for tag in list(self._token_values)` loop of `_product`, loop = closed form**, for states in which
    every key has an item holding at most one element (then at most one combination per key is available) -/
theorem prodLoop_spec {P : Nat} : ∀ (ks : List Tag) (tv : TV) (out : List Emit), Valid P tv → ks.Nodup →
    (∀ k ∈ ks, k ∈ tkeys tv) → (∀ k ∈ ks, ∃ q, q < P ∧ (sem tv k q).length ≤ 1) →
    (prodLoop P ks tv out).err = none ∧ Valid P (prodLoop P ks tv out).tv ∧
    tkeys (prodLoop P ks tv out).tv = tkeys tv ∧
    (∀ κ q, sem (prodLoop P ks tv out).tv κ q =
        if κ ∈ ks ∧ Full P tv κ then (sem tv κ q).dropLast else sem tv κ q) ∧
    (prodLoop P ks tv out).out =
        out ++ (ks.filter (fun κ => Full P tv κ)).map (fun κ => emitOfCell (tcell tv κ)) := by
  intro ks
  induction ks with
  | nil => intro tv out hv _ _ _; simp [prodLoop, hv]
  | cons κ ks ih =>
    intro tv out hv hnd hsub hmin
    have hκnd : κ ∉ ks := (List.nodup_cons.mp hnd).1
    have hnd' : ks.Nodup := (List.nodup_cons.mp hnd).2
    obtain ⟨c, hc⟩ := lookup_of_mem_tkeys (hsub κ (by simp))
    have hcok : CellOK P c := hv.2 (κ, c) ((mem_tv_iff hv.1).mpr hc)
    have htc : tcell tv κ = c := by simp [tcell, hc]
    rw [prodLoop_cons hv hc (hmin κ (by simp))]
    by_cases hfull : Full P tv κ
    · rw [if_pos hfull]
      have hc'ok : CellOK P (c.map (fun x => (x.1, x.2.dropLast))) := by
        unfold CellOK; rw [ckeys_dropLast]; exact hcok
      have hv1 := valid_tvSet hv κ hc'ok
      have hsem1 : ∀ k' q, k' ≠ κ → sem (tvSet tv κ (c.map (fun x => (x.1, x.2.dropLast)))) k' q = sem tv k' q :=
        fun k' q hne => by rw [sem_tvSet hc, if_neg hne]
      have hfull1 : ∀ k', k' ≠ κ →
          (Full P (tvSet tv κ (c.map (fun x => (x.1, x.2.dropLast)))) k' ↔ Full P tv k') := by
        intro k' hne
        unfold Full
        constructor
        · intro h q hq; rw [← hsem1 k' q hne]; exact h q hq
        · intro h q hq; rw [hsem1 k' q hne]; exact h q hq
      have hcell1 : ∀ k', k' ≠ κ → tcell (tvSet tv κ (c.map (fun x => (x.1, x.2.dropLast)))) k' = tcell tv k' := by
        intro k' hne
        unfold tcell
        rw [lookup_tvSet, if_neg hne]
      have hne_of : ∀ k' ∈ ks, k' ≠ κ := fun k' hk' e => hκnd (e ▸ hk')
      obtain ⟨r1, r2, r3, r4, r5⟩ := ih _ (out ++ [emitOfCell c]) hv1 hnd'
        (fun k hk => by rw [tkeys_tvSet]; exact hsub k (List.mem_cons_of_mem _ hk))
        (fun k hk => by
          obtain ⟨q, hq, hl⟩ := hmin k (List.mem_cons_of_mem _ hk)
          exact ⟨q, hq, by rw [hsem1 k q (hne_of k hk)]; exact hl⟩)
      refine ⟨r1, r2, by rw [r3, tkeys_tvSet], ?_, ?_⟩
      · intro κ' q
        rw [r4]
        by_cases hκ' : κ' = κ
        · subst hκ'
          have h1 : ¬ (κ' ∈ ks ∧ Full P (tvSet tv κ' (c.map (fun x => (x.1, x.2.dropLast)))) κ') :=
            fun h => hκnd h.1
          have h2 : κ' ∈ κ' :: ks ∧ Full P tv κ' := ⟨by simp, hfull⟩
          rw [if_neg h1, if_pos h2, sem_tvSet hc, if_pos rfl, cget_dropLast]
          simp [sem, htc]
        · rw [hsem1 κ' q hκ']
          have : (κ' ∈ ks ∧ Full P (tvSet tv κ (c.map (fun x => (x.1, x.2.dropLast)))) κ') ↔
              (κ' ∈ κ :: ks ∧ Full P tv κ') := by
            rw [hfull1 κ' hκ']
            simp [hκ']
          by_cases hcond : κ' ∈ κ :: ks ∧ Full P tv κ'
          · rw [if_pos hcond, if_pos (this.mpr hcond)]
          · rw [if_neg hcond, if_neg (fun h => hcond (this.mp h))]
      · rw [r5, List.filter_cons, if_pos (by simpa using hfull), List.map_cons, htc]
        have hf : ks.filter (fun κ_1 => decide (Full P (tvSet tv κ (c.map (fun x => (x.1, x.2.dropLast)))) κ_1))
            = ks.filter (fun κ_1 => decide (Full P tv κ_1)) := by
          apply List.filter_congr
          intro k' hk'
          simp only [decide_eq_decide]
          exact hfull1 k' (hne_of k' hk')
        rw [hf]
        have hm : (ks.filter (fun κ_1 => decide (Full P tv κ_1))).map
              (fun κ_1 => emitOfCell (tcell (tvSet tv κ (c.map (fun x => (x.1, x.2.dropLast)))) κ_1))
            = (ks.filter (fun κ_1 => decide (Full P tv κ_1))).map (fun κ_1 => emitOfCell (tcell tv κ_1)) := by
          apply List.map_congr_left
          intro k' hk'
          rw [hcell1 k' (hne_of k' (List.mem_filter.mp hk').1)]
        rw [hm]
        simp
    · rw [if_neg hfull]
      obtain ⟨r1, r2, r3, r4, r5⟩ := ih tv out hv hnd'
        (fun k hk => hsub k (List.mem_cons_of_mem _ hk)) (fun k hk => hmin k (List.mem_cons_of_mem _ hk))
      refine ⟨r1, r2, r3, ?_, ?_⟩
      · intro κ' q
        rw [r4]
        have : (κ' ∈ ks ∧ Full P tv κ') ↔ (κ' ∈ κ :: ks ∧ Full P tv κ') := by
          constructor
          · rintro ⟨h1, h2⟩; exact ⟨List.mem_cons_of_mem _ h1, h2⟩
          · rintro ⟨h1, h2⟩
            rcases List.mem_cons.mp h1 with h | h
            · exact absurd (h ▸ h2) hfull
            · exact ⟨h, h2⟩
        by_cases hcond : κ' ∈ κ :: ks ∧ Full P tv κ'
        · rw [if_pos hcond, if_pos (this.mpr hcond)]
        · rw [if_neg hcond, if_neg (fun h => hcond (this.mp h))]
      · rw [r5, List.filter_cons, if_neg (by simpa using hfull)]

end SFV.Comb
