/-! # Model of `ScheduleStep._set_job_directories` + the registration in `_schedule` (streamflow/workflow/step.py)

A directory is either fixed by the step (`input_directory` / `output_directory` / `tmp_directory` given) or
`join(target.workdir, random_name())` — modelled as `gen workdir n` with `n` drawn from a strictly increasing supply
(`random_name()` = uuid4: freshness is the trusted assumption). For every allocated location the three directories are
created (`mkdir -p`, `exist_ok`) and registered in the data manager. -/
namespace SFV.JobDirs

inductive Dir
  | fixed (d : Nat)
  | gen (workdir : Nat) (n : Nat)
deriving DecidableEq, Repr

structure Req where
  job : Nat
  locs : List Nat
  workdir : Nat
  fixIn : Option Nat := none
  fixOut : Option Nat := none
  fixTmp : Option Nat := none
deriving Repr

structure St where
  fs : List (Nat × Dir) := []       -- (location, directory) that exist
  reg : List (Nat × Dir) := []      -- registered in the data manager
  next : Nat := 0                   -- supply of `random_name()`
  jobs : List (Nat × List Dir) := []
deriving Repr

def pick (fix : Option Nat) (workdir n : Nat) : Dir × Nat :=
  match fix with
  | some d => (.fixed d, n)
  | none => (.gen workdir n, n + 1)

def dirsOf (s : St) (r : Req) : List Dir × Nat :=
  let (i, n1) := pick r.fixIn r.workdir s.next
  let (o, n2) := pick r.fixOut r.workdir n1
  let (t, n3) := pick r.fixTmp r.workdir n2
  ([i, o, t], n3)

def schedule (s : St) (r : Req) : St :=
  let (ds, n) := dirsOf s r
  let cells := r.locs.flatMap (fun l => ds.map (fun d => (l, d)))
  { fs := s.fs ++ cells, reg := s.reg ++ cells, next := n, jobs := s.jobs ++ [(r.job, ds)] }

def run (rs : List Req) : St := rs.foldl schedule {}

end SFV.JobDirs
