/-! Line-protocol helpers shared by the drivers: hex strings, tags, the read-eval-print loop. -/
namespace SFV.Proto

def hexDigit (n : Nat) : Char := if n < 10 then Char.ofNat (48 + n) else Char.ofNat (87 + n)

def hexVal (c : Char) : Option Nat :=
  if '0' ≤ c ∧ c ≤ '9' then some (c.toNat - 48)
  else if 'a' ≤ c ∧ c ≤ 'f' then some (c.toNat - 87)
  else none

/-- bytes → lowercase hex; the empty string is rendered as `-` so that it survives splitting on spaces -/
def hexOfBytes (bs : List UInt8) : String :=
  if bs.isEmpty then "-" else
  String.ofList (bs.flatMap (fun b => [hexDigit (b.toNat / 16), hexDigit (b.toNat % 16)]))

def bytesOfHex (s : String) : Option (List UInt8) :=
  if s = "-" then some [] else
  let rec go : List Char → Option (List UInt8)
    | [] => some []
    | [_] => none
    | a :: b :: r => do
        let x ← hexVal a
        let y ← hexVal b
        let rest ← go r
        pure (UInt8.ofNat (x * 16 + y) :: rest)
  go s.toList

/-- strings cross the protocol as hex of their UTF-8 bytes -/
def hexOfString (s : String) : String := hexOfBytes s.toUTF8.toList
def stringOfHex (s : String) : Option String := do
  let bs ← bytesOfHex s
  String.fromUTF8? ⟨bs.toArray⟩

def parseTag (s : String) : Option (List Nat) :=
  (s.splitOn ".").mapM (fun c => c.toNat?)

def renderTag (t : List Nat) : String := ".".intercalate (t.map toString)

def words (line : String) : List String :=
  (line.trimAscii.toString.splitOn " ").filter (· ≠ "")

/-- stateful loop: one input line → one output line -/
partial def loop {σ : Type} (h : IO.FS.Stream) (step : σ → List String → σ × String) (s : σ) : IO Unit := do
  let line ← h.getLine
  if line.isEmpty then return ()
  let (s', out) := step s (words line)
  IO.println out
  loop h step s'

def runStateful {σ : Type} (init : σ) (step : σ → List String → σ × String) : IO Unit := do
  loop (← IO.getStdin) step init

def runPure (f : List String → String) : IO Unit :=
  runStateful () (fun _ ws => ((), f ws))

end SFV.Proto
