import SFV.Model.ExecCrash
import SFV.Lemmas.Exec
/-! Helper definitions and lemmas for the executor protocol with escaping step exceptions and workflows without
output ports (C04, `SFV/Model/ExecCrash.lean`). -/
namespace SFV.ExecCrash
open SFV.Exec

/-! ## Definitions -/

/-- the part of `ENet.WF` that makes sense for a workflow without output ports: topologically ordered steps, and the
    producers of the workflow outputs (if any) are steps -/
structure WFc (N : ENet) : Prop where
  topo   : ∀ i, i < N.n → ∀ j ∈ N.preds i, j < i
  outsLt : ∀ o ∈ N.outs, o < N.n

theorem WFc.of_wf {N : ENet} (h : N.WF) : WFc N := ⟨h.topo, h.outsLt⟩

/-- once `run()` is not collecting any more, every step of the graph is terminated -/
def Term (N : ENet) (s : St) : Prop := s.pc ≠ .running → ∀ i, i < N.n → (s.st i).isSome = true

/-- the state after a run from the initial state (the initial state if the run is not enabled) -/
def runD (skips : Bool) (N : ENet) (acts : List CAct) : CSt := (runActs skips N CSt.init acts).getD CSt.init

theorem anyBadSt_eq (N : ENet) (s : St) : anyBadSt N s = anyBad N s := rfl

/-! ## What an enabled action does -/

theorem cstep_base_some {skips : Bool} {N : ENet} {s s' : CSt} {a : Act} (h : cstep skips N s (.base a) = some s') :
    ∃ b, step true N s.base a = some b ∧
      s' = { base := b, stuck := if b.pc = .running then s.stuck else none } := by
  simp only [cstep] at h
  split at h
  · cases h
  · rename_i b hb
    cases h
    exact ⟨b, hb, rfl⟩

theorem cstep_base_enabled {skips : Bool} {N : ENet} {s : CSt} {a : Act} {b : St} (h : step true N s.base a = some b) :
    cstep skips N s (.base a) = some { base := b, stuck := if b.pc = .running then s.stuck else none } := by
  simp only [cstep, h]

theorem cstep_crash_some {skips : Bool} {N : ENet} {s s' : CSt} {i : Nat} (h : cstep skips N s (.crash i) = some s') :
    i < N.n ∧ s.base.st i = none ∧ s.base.pc = .running ∧ s.stuck = none ∧
      ((skips = true ∧ s' = { s with base := s.base.closeAll }) ∨
       (skips = false ∧ s' = { base := { s.base.closeAll with pc := .running }, stuck := some i })) := by
  simp only [cstep] at h
  split at h
  · rename_i hc
    refine ⟨hc.1, hc.2.1, hc.2.2.1, hc.2.2.2, ?_⟩
    split at h
    · rename_i hsk
      cases h
      exact Or.inl ⟨hsk, rfl⟩
    · rename_i hsk
      cases h
      refine Or.inr ⟨?_, rfl⟩
      cases skips
      · rfl
      · exact absurd rfl hsk
  · cases h

theorem cstep_fno_some {skips : Bool} {N : ENet} {s s' : CSt} (h : cstep skips N s .finalNoOutputs = some s') :
    N.outs = [] ∧ s.base.pc = .running ∧ s.stuck = none ∧ (∀ i, i < N.n → (s.base.st i).isSome = true) ∧
      s' = { s with base := { s.base with pc := if anyBad N s.base then .raised else .returned } } := by
  simp only [cstep] at h
  split at h
  · rename_i hc
    cases h
    refine ⟨hc.1, hc.2.1, hc.2.2.1, ?_, rfl⟩
    intro i hi
    exact List.all_eq_true.mp hc.2.2.2 i (List.mem_range.mpr hi)
  · cases h

theorem cstep_fno_enabled {skips : Bool} {N : ENet} {s : CSt} (h1 : N.outs = []) (h2 : s.base.pc = .running)
    (h3 : s.stuck = none) (h4 : ∀ i, i < N.n → (s.base.st i).isSome = true) :
    ∃ s', cstep skips N s .finalNoOutputs = some s' := by
  simp only [cstep]
  rw [if_pos ⟨h1, h2, h3, List.all_eq_true.mpr (fun i hi => h4 i (List.mem_range.mp hi))⟩]
  exact ⟨_, rfl⟩

/-! ## Runs -/

theorem reachable_runActs {skips : Bool} {N : ENet} :
    ∀ (acts : List CAct) {s s' : CSt}, Reachable skips N s → runActs skips N s acts = some s' → Reachable skips N s'
  | [], s, s', hr, h => by
    cases h
    exact hr
  | a :: as, s, s', hr, h => by
    simp only [runActs] at h
    split at h
    · cases h
    · rename_i s1 hs1
      exact reachable_runActs as (Reachable.step hr hs1) h

theorem reachable_runD {skips : Bool} {N : ENet} {acts : List CAct}
    (h : (runActs skips N CSt.init acts).isSome = true) : Reachable skips N (runD skips N acts) := by
  unfold runD
  cases hr : runActs skips N CSt.init acts with
  | none => rw [hr] at h; cases h
  | some s => exact reachable_runActs acts Reachable.init hr

/-! ## Invariants of the states reachable when `close()` leaves out the current task -/

theorem term_step {N : ENet} {s s' : St} {a : Act} (hI : Term N s) (hs : step true N s a = some s') : Term N s' := by
  cases a with
  | finish i =>
    obtain ⟨_, _, _, rfl⟩ := step_finish_some hs
    intro hp j hj
    have := hI hp j hj
    simp only [setSt_st]; split <;> simp_all
  | fail i =>
    obtain ⟨_, _, rfl⟩ := step_fail_some hs
    intro hp j hj
    have := hI hp j hj
    simp only [setSt_st]; split <;> simp_all
  | read k =>
    obtain ⟨hp, _, o, x, _, _, h5⟩ := step_read_some hs
    rcases h5 with ⟨_, _, rfl⟩ | ⟨_, hf, rfl⟩ | ⟨_, _, rfl⟩ | ⟨_, _, rfl⟩
    · intro _ j _; exact closeAll_st_isSome _ j
    · cases hf
    · intro _ j _; exact closeAll_st_isSome _ j
    · intro h; exact absurd hp h
  | final =>
    obtain ⟨hp, h5⟩ := step_final_some hs
    have := hI (by rw [hp]; simp)
    rcases h5 with ⟨_, rfl⟩ | ⟨_, rfl⟩ <;> exact fun _ => this

/-- every step terminated once `run()` stopped collecting, and no step task awaits itself -/
def CInv (N : ENet) (s : CSt) : Prop := Term N s.base ∧ s.stuck = none

theorem cinv_init (N : ENet) : CInv N CSt.init :=
  ⟨fun h => absurd rfl h, rfl⟩

theorem cinv_step {N : ENet} {s s' : CSt} {a : CAct} (hI : CInv N s) (hs : cstep true N s a = some s') :
    CInv N s' := by
  cases a with
  | base a =>
    obtain ⟨b, hb, rfl⟩ := cstep_base_some hs
    refine ⟨term_step hI.1 hb, ?_⟩
    show (if b.pc = .running then s.stuck else none) = none
    rw [hI.2]
    split <;> rfl
  | crash i =>
    obtain ⟨_, _, _, hst, h⟩ := cstep_crash_some hs
    rcases h with ⟨_, rfl⟩ | ⟨hf, _⟩
    · exact ⟨fun _ j _ => closeAll_st_isSome _ j, hst⟩
    · cases hf
  | finalNoOutputs =>
    obtain ⟨_, _, hst, hall, rfl⟩ := cstep_fno_some hs
    exact ⟨fun _ => hall, hst⟩

theorem cinv_reachable {N : ENet} {s : CSt} (hr : Reachable true N s) : CInv N s := by
  induction hr with
  | init => exact cinv_init N
  | step _ hs ih => exact cinv_step ih hs

theorem cpending_step {N : ENet} {s s' : CSt} {a : CAct} (hI : Pending N s.base)
    (hs : cstep true N s a = some s') : Pending N s'.base := by
  cases a with
  | base a =>
    obtain ⟨b, hb, rfl⟩ := cstep_base_some hs
    exact pending_step hI hb
  | crash i =>
    obtain ⟨_, _, _, _, h⟩ := cstep_crash_some hs
    rcases h with ⟨_, rfl⟩ | ⟨hf, _⟩
    · intro h
      have h' : s.base.closeAll.pc = .running := h
      rw [closeAll_pc] at h'
      cases h'
    · cases hf
  | finalNoOutputs =>
    obtain ⟨_, _, _, _, rfl⟩ := cstep_fno_some hs
    intro h
    have h' : (if anyBad N s.base then Pc.raised else Pc.returned) = Pc.running := h
    split at h' <;> cases h'

theorem cpending_reachable {N : ENet} {s : CSt} (hne : N.outs ≠ []) (hr : Reachable true N s) :
    Pending N s.base := by
  induction hr with
  | init => exact pending_init hne
  | step _ hs ih => exact cpending_step ih hs

/-! ## Progress -/

/-- `Exec.exists_enabled_finish` from the topological order alone -/
theorem exists_enabled_finish_topo {fx : Bool} {N : ENet} (htopo : ∀ i, i < N.n → ∀ j ∈ N.preds i, j < i) (s : St) :
    ∀ i, i < N.n → s.st i = none →
      ∃ i', step fx N s (.finish i') = some (s.setSt i' (finishStatus N s i')) := by
  intro i
  induction i using Nat.strongRecOn with
  | _ i ih =>
    intro hi hn
    by_cases hall : ∀ j ∈ N.preds i, (s.st j).isSome = true
    · exact ⟨i, step_finish_enabled hi hn hall⟩
    · obtain ⟨j, hj, hjn⟩ := exists_unfinished_pred hall
      have hlt := htopo i hi j hj
      exact ih j hlt (Nat.lt_trans hlt hi) hjn

/-- a non-final state that satisfies the invariants has an enabled action -/
theorem cprogress {N : ENet} (hwf : WFc N) {s : CSt} (hI : CInv N s) (hP : N.outs ≠ [] → Pending N s.base)
    (hnf : s.final = false) : ∃ a s', cstep true N s a = some s' := by
  cases hpc : s.base.pc with
  | running =>
    by_cases hall : ∃ i, i < N.n ∧ s.base.st i = none
    · obtain ⟨i, hi, hn⟩ := hall
      obtain ⟨i', he⟩ := exists_enabled_finish_topo (fx := true) hwf.topo s.base i hi hn
      exact ⟨.base (.finish i'), _, cstep_base_enabled he⟩
    · have hall' : ∀ i, i < N.n → (s.base.st i).isSome = true := by
        intro i hi
        cases hx : s.base.st i with
        | none => exact absurd ⟨i, hi, hx⟩ hall
        | some x => rfl
      by_cases ho : N.outs = []
      · obtain ⟨s', h⟩ := cstep_fno_enabled (skips := true) ho hpc hI.2 hall'
        exact ⟨_, s', h⟩
      · obtain ⟨k, hk, hkr⟩ := hP ho hpc
        have hoo : N.outs[k]? = some N.outs[k] := List.getElem?_eq_getElem hk
        have hlt := hwf.outsLt _ (outs_getElem?_mem hoo)
        cases hx : s.base.st N.outs[k] with
        | none =>
          have := hall' _ hlt
          rw [hx] at this; cases this
        | some x =>
          obtain ⟨b, hb⟩ := step_read_enabled (fx := true) hpc hkr hoo hx
          exact ⟨.base (.read k), _, cstep_base_enabled hb⟩
  | closed =>
    obtain ⟨b, hb⟩ := step_final_enabled (fx := true) (N := N) hpc
    exact ⟨.base .final, _, cstep_base_enabled hb⟩
  | returned => simp [CSt.final, hpc] at hnf
  | raised => simp [CSt.final, hpc] at hnf

/-! ## `deadlocked` looks at enough actions -/

theorem deadlocked_all_disabled {skips : Bool} {N : ENet} {s : CSt} (h : deadlocked skips N s = true) :
    ∀ a, cstep skips N s a = none := by
  have hm : ∀ a ∈ allActs N, cstep skips N s a = none := by
    intro a ha
    exact Option.isNone_iff_eq_none.mp (List.all_eq_true.mp h a ha)
  intro a
  cases a with
  | base a =>
    cases a with
    | finish i =>
      by_cases hi : i < N.n
      · exact hm _ (by simp [allActs, hi])
      · simp [cstep, step, hi]
    | fail i =>
      by_cases hi : i < N.n
      · exact hm _ (by simp [allActs, hi])
      · simp [cstep, step, hi]
    | read k =>
      by_cases hk : k < N.outs.length
      · exact hm _ (by simp [allActs, hk])
      · have ho : N.outs[k]? = none := List.getElem?_eq_none (by omega)
        simp [cstep, step, ho]
    | final => exact hm _ (by simp [allActs])
  | crash i =>
    by_cases hi : i < N.n
    · exact hm _ (by simp [allActs, hi])
    · simp [cstep, hi]
  | finalNoOutputs => exact hm _ (by simp [allActs])

theorem twoNoOut_wfc : WFc twoNoOut where
  topo := by intro i _ j hj; simp [ENet.preds, twoNoOut] at hj
  outsLt := by intro o ho; simp [twoNoOut] at ho

theorem twoOneOut_wfc : WFc twoOneOut where
  topo := by intro i _ j hj; simp [ENet.preds, twoOneOut] at hj
  outsLt := by decide

end SFV.ExecCrash
