import SFV.Model.CwlOps
import SFV.Model.Proto
open SFV SFV.Proto SFV.CwlOps

def parseInts (s : String) : Option (List Nat) :=
  if s = "-" then some [] else (s.splitOn ",").mapM (fun c => c.toNat?)

def showInts (l : List Nat) : String := if l.isEmpty then "-" else ",".intercalate (l.map toString)
def showRows (l : List (List Nat)) : String := if l.isEmpty then "_" else ";".intercalate (l.map showInts)

def parseOpt (s : String) : Option (Option Nat) := if s = "n" then some none else s.toNat?.map some

def showPick : Except PickErr Nat → String
  | .ok v => "ok:" ++ toString v
  | .error .allNull => "err:allNull"
  | .error .multipleNonNull => "err:multipleNonNull"
  | .error .notAList => "err:notAList"

/-- `name=one:5` or `name=many:0.0:10/0.1:11` (`name=many:` for an empty list) -/
def parseSrc (s : String) : Option (String × TSrc Nat) :=
  match s.splitOn "=" with
  | [name, rest] =>
      if rest.startsWith "one:" then (String.ofList (rest.toList.drop 4)).toNat?.map (fun v => (name, TSrc.one v))
      else if rest.startsWith "many:" then
        let body : String := String.ofList (rest.toList.drop 5)
        if body = "" then some (name, TSrc.many []) else
        ((body.splitOn "/").mapM (fun (e : String) => match e.splitOn ":" with
          | [t, v] => do
              let tag ← Proto.parseTag t
              let val ← v.toNat?
              pure (tag, val)
          | _ => none)).map (fun es => (name, TSrc.many es))
      else none
  | _ => none

def f (x y : Nat) : Nat := x * 100 + y

def handle : List String → String
  | ["flat", a, b] =>
      match parseInts a, parseInts b with
      | some xs, some ys => "spec:" ++ showInts (specFlat f xs ys) ++ " sf:" ++ showInts (sfFlat xs ys (cartToks f xs ys).reverse)
      | _, _ => "bad-op"
  | ["nested", a, b] =>
      match parseInts a, parseInts b with
      | some xs, some ys =>
          let rows : List (Tok (List Nat)) := (scatterToks xs).map (fun t => (t.1, gatherSort (rowToks f (t.1.headD 0) t.2 ys).reverse))
          "spec:" ++ showRows (specNested f xs ys) ++ " sf:" ++ showRows (sfNested xs ys rows.reverse)
      | _, _ => "bad-op"
  | ["dot", a, b] =>
      match parseInts a, parseInts b with
      | some xs, some ys =>
          let sp := match specDot f xs ys with | some r => showInts r | none => "error"
          let sf := match sfDot xs ys (dotToks f xs ys).reverse with | some r => showInts r | none => "error"
          "spec:" ++ sp ++ " sf:" ++ sf
      | _, _ => "bad-op"
  | ["single", a] =>
      match parseInts a with
      | some xs => "spec:" ++ showInts (xs.map (· + 1)) ++ " sf:" ++
          showInts (sfScatter1 xs ((scatterToks xs).map (fun t => (t.1, t.2 + 1))).reverse)
      | none => "bad-op"
  | "pick" :: mode :: vs =>
      match vs.mapM parseOpt with
      | some l =>
          match mode with
          | "first" => "spec:" ++ showPick (specFirstNonNull l) ++ " sf:" ++ showPick (sfFirstNonNull l)
          | "only" => "spec:" ++ showPick (specOnlyNonNull l) ++ " sf:" ++ showPick (sfOnlyNonNull l)
          | "all" => "spec:" ++ showInts (specAllNonNull l) ++ " sf:" ++ showInts (sfAllNonNull l)
          | _ => "bad-op"
      | none => "bad-op"
  | "mergef" :: srcs =>
      match srcs.mapM parseSrc with
      | some l =>
          let spec := specMergeFlattened (l.map (fun p => match p.2 with
            | .one v => Src.one v
            | .many es => Src.many (es.map (·.2))))
          "spec:" ++ showInts spec ++ " sf:" ++ showInts (sfMergeFlattened l)
      | none => "bad-op"
  | "mergen" :: srcs =>
      match srcs.mapM (fun s => match s.splitOn "=" with
          | [n, v] => v.toNat?.map (fun x => (n, x))
          | _ => none) with
      | some l => "spec:" ++ showInts (specMergeNested (l.map (·.2))) ++ " sf:" ++ showInts (sfMergeNested l)
      | none => "bad-op"
  | "empty" :: m :: sizes =>
      match sizes.mapM (fun (x : String) => x.toNat?) with
      | some ns =>
          if m == "nested" then
            match (emptyScatterNested ns : Option (List (List Nat))) with
            | some r => "sf:" ++ showRows r
            | none => "sf:run"
          else
            match (emptyScatterFlat ns : Option (List Nat)) with
            | some r => "sf:" ++ showInts r
            | none => "sf:run"
      | none => "bad-op"
  | ["when", c, a] =>
      match parseInts a with
      | some outs =>
          let sh := fun (l : List (Option Nat)) => ",".intercalate (l.map (fun o => match o with | some v => toString v | none => "n"))
          "spec:" ++ sh (specWhen (c == "1") outs) ++ " sf:" ++ sh (sfWhen (c == "1") outs)
      | none => "bad-op"
  | _ => "bad-op"

def main : IO Unit := runPure handle
