/-! # RunCrate — the bookkeeping of `RunCrateProvenanceManager` (`streamflow/provenance/run_crate.py`)

`graph` is a Python dict keyed by `@id` (insertion ordered), `files_map` maps source paths to archive names. The
manager only ever performs three kinds of updates: `self.graph[x["@id"]] = x`, appending `{"@id": …}` references
(`hasPart`, `object`, `result`, `mentions`) to an entity already in the graph, and `self.files_map[src] = dst`.
The final loop writes `@graph = list(self.graph.values())` and copies `files_map` into the zip. -/
namespace SFV.RunCrate

structure Entity where
  id : String
  isFile : Bool := false
  refs : List String := []
deriving Repr, DecidableEq

structure Crate where
  graph : List (String × Entity) := []
  files : List (String × String) := []
deriving Repr

inductive Op where
  | put (e : Entity)                        -- self.graph[e["@id"]] = e
  | addRef (owner target : String)          -- self.graph[owner][…].append({"@id": target})
  | mapFile (src dst : String)              -- self.files_map[src] = dst
deriving Repr

/-- dict assignment: replace the value of an existing key in place, else append -/
def dictSet (l : List (String × β)) (k : String) (v : β) : List (String × β) :=
  match l with
  | [] => [(k, v)]
  | (k', v') :: r => if k' = k then (k', v) :: r else (k', v') :: dictSet r k v

def step (c : Crate) : Op → Crate
  | .put e => { c with graph := dictSet c.graph e.id e }
  | .addRef owner target =>
      { c with graph := c.graph.map (fun p => if p.1 = owner then (p.1, { p.2 with refs := p.2.refs ++ [target] }) else p) }
  | .mapFile src dst => { c with files := dictSet c.files src dst }

def run (ops : List Op) : Crate := ops.foldl step {}

/-- `"@graph": list(self.graph.values())` -/
def emitted (c : Crate) : List Entity := c.graph.map (·.2)

/-- the zip loop: `for src, dst in files_map.items(): if exists(src) and dst not in archive.namelist(): write` -/
def archiveNames (exists_ : String → Bool) : List (String × String) → List String → List String
  | [], acc => acc
  | (src, dst) :: r, acc =>
      if exists_ src && !acc.contains dst then archiveNames exists_ r (acc ++ [dst]) else archiveNames exists_ r acc

/-! ### the invariants, as executable predicates (also evaluated on real archives by the driver) -/

def idsUnique (es : List Entity) : Bool := (es.map (·.id)).eraseDups.length == es.length

def isExternal (r : String) : Bool := r.startsWith "http://" || r.startsWith "https://"

def refsClosed (es : List Entity) : Bool :=
  es.all (fun e => e.refs.all (fun r => isExternal r || es.any (fun e' => e'.id == r)))

def filesPresent (es : List Entity) (names : List String) : Bool :=
  es.all (fun e => !e.isFile || isExternal e.id || names.contains e.id)

end SFV.RunCrate
