import SFV.Lemmas.RunCrateIO
/-! # C34 — exported run provenance is self-contained and consistent (bookkeeping kernel)

Model: `SFV/Model/RunCrate.lean` — the three kinds of updates `RunCrateProvenanceManager` performs on its `graph` dict and
`files_map`, and the final write loop. Proved for **every history of updates**: identifiers in the emitted `@graph` are
unique and each entity sits under its own `@id`; every reference written resolves in the emitted graph provided its target
was put at some point of the history (the manager's pattern: `graph[x["@id"]] = x` next to every `{"@id": x["@id"]}`);
every file registered in `files_map` whose source exists is in the archive. Checksums, zip writing, the JSON-LD
vocabulary and the run itself are validated on real exports by the check (differential / monitor), not proved. -/
namespace SFV.C34
open SFV.RunCrate

/-- identifiers of the emitted `@graph` are unique, for every history of manager updates -/
theorem ids_unique (ops : List Op) : ((emitted (run ops)).map (·.id)).Nodup := by
  obtain ⟨h1, h2⟩ := run_keysOk ops
  have : (emitted (run ops)).map (·.id) = (run ops).graph.map (·.1) := by
    simp only [emitted, List.map_map]
    apply List.map_congr_left
    intro p hp
    exact h2 p hp
  rw [this]; exact h1

/-- every entity is stored under its own `@id` (the dict key) -/
theorem entity_under_own_id (ops : List Op) : ∀ p, p ∈ (run ops).graph → p.2.id = p.1 := (run_keysOk ops).2

/-- **references resolve**: if every reference written by the history targets an identifier that the history also
puts into the graph (or an external URL), no reference of the emitted graph dangles -/
theorem hasPart_closed (ops : List Op)
    (h : ∀ r, Declared ops r → isExternal r = true ∨ ∃ e, Op.put e ∈ ops ∧ e.id = r) :
    ∀ e, e ∈ emitted (run ops) → ∀ r, r ∈ e.refs → isExternal r = true ∨ ∃ e', e' ∈ emitted (run ops) ∧ e'.id = r := by
  intro e he r hr
  simp only [emitted, List.mem_map] at he
  obtain ⟨p, hp, rfl⟩ := he
  have hd : Declared ops r :=
    foldl_declared ops ops {} (fun _ h => h) (by intro p hp; simp at hp) p hp r hr
  rcases h r hd with hx | ⟨e0, he0, rfl⟩
  · exact Or.inl hx
  · right
    have hk : e0.id ∈ keys (run ops) := put_in_keys ops {} e0 he0
    simp only [keys, List.mem_map] at hk
    obtain ⟨q, hq, hqk⟩ := hk
    exact ⟨q.2, by simp only [emitted, List.mem_map]; exact ⟨q, hq, rfl⟩, by rw [(run_keysOk ops).2 q hq, hqk]⟩

/-- a reference to something never put into the graph does dangle (the hypothesis of `hasPart_closed` is needed) -/
theorem hasPart_closed_needs_put :
    refsClosed (emitted (run [.put { id := "./" }, .addRef "./" "ghost"])) = false := by decide

/-- every file registered in `files_map` whose source exists gets an archive entry under its recorded name -/
theorem file_entities_have_archive_entry (ops : List Op) (exists_ : String → Bool) (src dst : String)
    (h : (src, dst) ∈ (run ops).files) (hex : exists_ src = true) :
    dst ∈ archiveNames exists_ (run ops).files [] :=
  archiveNames_has exists_ _ [] src dst h hex

/-- the uuids the manager draws are new: pairwise different, not yet keys of the graph, no File checksum, not the action,
not the root dataset; `S` is the set of File checksums that may occur -/
structure FreshIds (S : List String) (action : String) (c : Crate) (toks : List (String × String × TokVal)) : Prop where
  distinct : toks.Pairwise (fun a b => a.1 ≠ b.1)
  unused : ∀ t, t ∈ toks → t.1 ∉ keys c ∧ t.1 ∉ S ∧ t.1 ≠ action ∧ t.1 ≠ "./"
  shas : ∀ t, t ∈ toks → ∀ s, s ∈ tokShas t.2.2 → s ∈ S

/-- **every input and output value of the run is represented**: for every history of values handed to the manager
(`get_property_value` + `_get_property_values` + `_update_actions`), each non-null value ends up as an entity of the
graph — a File entity under its checksum, or a PropertyValue carrying the port's name and the flattened, stringified
value — and the run's action links to it -/
theorem io_values_represented (S : List String) (action : String) :
    ∀ (toks : List (String × String × TokVal)) (c : Crate),
      action ∈ keys c → action ∉ S → "./" ∉ S → FilesOk S c → FreshIds S action c toks →
      ∀ t, t ∈ toks → t.2.2 ≠ .leaf .null →
        ∃ p, p ∈ (registerAll c action toks).graph ∧ p.1 = repId t.1 t.2.2 ∧ Represents p.2 t.2.1 t.2.2 ∧
          ∃ a, a ∈ (registerAll c action toks).graph ∧ a.1 = action ∧ repId t.1 t.2.2 ∈ a.2.refs
  | [], _, _, _, _, _, _, t, ht, _ => by simp at ht
  | (f, n, v) :: r, c, hact, haS, hroot, hfiles, hfresh, t, ht, hne => by
    obtain ⟨hfk, hfS, hfa, hfr⟩ := hfresh.unused (f, n, v) (by simp)
    obtain ⟨h1, h2, h3⟩ := registerValue_spec S action f n v c hact haS hroot hfiles
      (hfresh.shas (f, n, v) (by simp)) hfk hfS hfa hfr
    have hext := ext_registerAll action r (registerValue c action f n v)
    simp only [registerAll]
    rcases List.mem_cons.mp ht with rfl | ht'
    · obtain ⟨p, hp, hp1, hp2, a, ha, ha1, ha2⟩ := h3 hne
      have hidS : repId f v ≠ action ∧ repId f v ≠ "./" := by
        cases v with
        | leaf l =>
          cases l with
          | file sha path =>
            have hs : sha ∈ S := hfresh.shas (f, n, .leaf (.file sha path)) (by simp) sha (by simp [tokShas, leafShas])
            exact ⟨fun e => haS (e ▸ hs), fun e => hroot (e ▸ hs)⟩
          | _ => exact ⟨hfa, hfr⟩
        | list items => exact ⟨hfa, hfr⟩
      obtain ⟨a', ha', ha1', ha2'⟩ := hext.link _ ⟨a, ha, ha1, ha2⟩
      exact ⟨p, hext.keep p hp (hp1 ▸ hidS.1) (hp1 ▸ hidS.2), hp1, hp2, a', ha', ha1', ha2'⟩
    · have hd := List.pairwise_cons.mp hfresh.distinct
      refine io_values_represented S action r (registerValue c action f n v)
        ((ext_registerValue action f n c v).keys action hact) haS hroot h1 ⟨hd.2, ?_, ?_⟩ t ht' hne
      · intro t' ht''
        obtain ⟨u1, u2, u3, u4⟩ := hfresh.unused t' (by simp [ht''])
        refine ⟨?_, u2, u3, u4⟩
        intro hk
        rcases h2 _ hk with hk | hk | hk
        · exact u1 hk
        · exact hd.1 t' ht'' hk.symm
        · exact u2 hk
      · intro t' ht''; exact hfresh.shas t' (by simp [ht''])

/-- the representation is not injective (known finding): a one-element array and its element are written alike -/
theorem single_element_array_collapses :
    jsonValueIsScalar { id := "#a", name := "x", values := [Leaf.scalar "17"].filterMap leafValue } = true ∧
    jsonValueIsScalar { id := "#b", name := "x", values := ["17"] } = true := by decide

/-! ### non-vacuity: the shape of a real export (root, main entity, configuration file, an action with a result) -/
def exHistory : List Op :=
  [.put { id := "./" }, .put { id := "ro-crate-metadata.json", refs := ["./"] },
   .put { id := "wf.cwl", isFile := true }, .addRef "./" "wf.cwl", .mapFile "/run/wf.cwl" "wf.cwl",
   .mapFile "/run/streamflow.yml" "db96", .addRef "./" "db96", .put { id := "db96", isFile := true },
   .put { id := "#exec", refs := ["wf.cwl"] }, .addRef "./" "#exec", .put { id := "#pv1" }, .addRef "#exec" "#pv1",
   .put { id := "wf.cwl", isFile := true, refs := ["#pv1"] }]

example : idsUnique (emitted (run exHistory)) = true ∧ refsClosed (emitted (run exHistory)) = true ∧
    filesPresent (emitted (run exHistory)) (archiveNames (fun _ => true) (run exHistory).files []) = true := by decide
example : (emitted (run exHistory)).length = 6 := by decide

/-- non-vacuity of `io_values_represented`: a scalar, a File, a list with a null and a File, and a null -/
def exToks : List (String × String × TokVal) :=
  [("#u1", "n", .leaf (.scalar "3")), ("#u2", "f", .leaf (.file "abc" "/in/f.txt")),
   ("#u3", "xs", .list [.scalar "1", .null, .file "def" "/out/g.txt"]), ("#u4", "z", .leaf .null)]

example : (emitted (registerAll (run [.put { id := "./" }, .put { id := "#run" }]) "#run" exToks)).map (fun e => (e.id, e.name, e.values, e.refs)) =
    [("./", "", [], ["abc", "def"]), ("#run", "", [], ["#u1", "abc", "#u3"]), ("#u1", "n", ["3"], []), ("abc", "", [], []),
     ("def", "", [], []), ("#u3", "xs", ["1", "@def"], [])] := by decide

end SFV.C34
