"""C20 — provenance graph operations keep the graph consistent (streamflow/recovery/utils.py)."""
from __future__ import annotations

import random

from streamflow.recovery import utils as ru

from sfv.framework import Ctx, Property

DRIVER = "Drivers/C20.lean"


# ------------------------------------------------------------------------------------------------
# independent reference graph: a node set and an edge set, nothing else
# ------------------------------------------------------------------------------------------------
class RefGraph:
    def __init__(self):
        self.nodes: set[int] = set()
        self.edges: set[tuple[int, int]] = set()

    def add(self, u, v=None):
        self.nodes.add(u)
        if v is not None:
            self.nodes.add(v)
            self.edges.add((u, v))

    def closure(self, targets, prune):
        """least set containing the existing targets and (when pruning) every node that has a successor and
        all of whose successors are in the set"""
        rem = {t for t in targets if t in self.nodes}
        if prune:
            changed = True
            while changed:
                changed = False
                for p in self.nodes - rem:
                    succ = {b for (a, b) in self.edges if a == p}
                    if succ and succ <= rem:
                        rem.add(p)
                        changed = True
        return rem

    def remove(self, targets, prune):
        rem = self.closure(targets, prune)
        self.nodes -= rem
        self.edges = {(a, b) for (a, b) in self.edges if a not in rem and b not in rem}
        return rem

    def replace(self, old, new):
        if old not in self.nodes:
            return "ok"
        if new in self.nodes:
            return "ValueError"
        r = lambda x: new if x == old else x  # noqa: E731
        self.nodes = {r(x) for x in self.nodes}
        self.edges = {(r(a), r(b)) for (a, b) in self.edges}
        return "ok"

    def promote(self, node):
        if node not in self.nodes:
            return set()
        preds = {a for (a, b) in self.edges if b == node}
        self.edges = {(a, b) for (a, b) in self.edges if b != node}
        dead = {p for p in preds if not any(a == p for (a, _) in self.edges)}
        return self.remove(dead, True)

    def dump(self):
        keys = sorted(self.nodes)
        succ = {k: sorted(b for (a, b) in self.edges if a == k) for k in keys}
        pred = {k: sorted(a for (a, b) in self.edges if b == k) for k in keys}
        return keys, succ, pred


def _sl(l):
    return ",".join(map(str, l)) if l else "-"


def _sm(keys, m):
    return ";".join(f"{k}:{_sl(sorted(m[k]))}" for k in sorted(keys)) if keys else "-"


def dump_real(g) -> str:
    sk, pk = list(g._successors.keys()), list(g._predecessors.keys())
    return f"{_sl(sorted(sk))}|{_sl(sorted(pk))}|{_sm(sk, g._successors)}|{_sm(pk, g._predecessors)}"


def dump_ref(r: RefGraph) -> str:
    keys, succ, pred = r.dump()
    return f"{_sl(keys)}|{_sl(keys)}|{_sm(keys, succ)}|{_sm(keys, pred)}"


def op_line(op) -> str:
    k = op[0]
    if k == "add":
        return f"add {op[1]} {'-' if op[2] is None else op[2]}"
    if k == "rm":
        return "rm " + ("1" if op[2] else "0") + "".join(f" {n}" for n in op[1])
    if k == "rep":
        return f"rep {op[1]} {op[2]}"
    if k == "prom":
        return f"prom {op[1]}"
    raise ValueError(op)


def apply_real(g, op) -> str:
    """run one op on the real class; returns the canonical return value"""
    k = op[0]
    try:
        if k == "add":
            g.add(op[1], op[2])
            return "-"
        if k == "rm":
            r = g.remove_nodes(list(op[1]), prune_dead_end=op[2])
            if len(set(r)) != len(r):
                return "DUP:" + _sl(r)
            return _sl(sorted(r))
        if k == "rep":
            try:
                g.replace(op[1], op[2])
                return "ok"
            except ValueError:
                return "ValueError"
        if k == "prom":
            r = g.promote_to_source(op[1])
            if len(set(r)) != len(r):
                return "DUP:" + _sl(r)
            return _sl(sorted(r))
    except Exception as e:  # noqa: BLE001
        return "EXC:" + type(e).__name__
    raise ValueError(op)


def _sorted_ret(ret: str) -> str:
    if ret and (ret[0].isdigit()):
        return _sl(sorted(int(x) for x in ret.split(",")))
    return ret


def apply_ref(r: RefGraph, op) -> str:
    k = op[0]
    if k == "add":
        r.add(op[1], op[2])
        return "-"
    if k == "rm":
        before = set(r.nodes)
        rem = r.remove(op[1], op[2])
        del before
        return _sl(sorted(rem))
    if k == "rep":
        return r.replace(op[1], op[2])
    if k == "prom":
        return _sl(sorted(r.promote(op[1])))
    raise ValueError(op)


def mirror_ok(g) -> str | None:
    s, p = g._successors, g._predecessors
    if set(s.keys()) != set(p.keys()):
        return "key sets differ"
    for u, vs in s.items():
        for v in vs:
            if v not in p or u not in p[v]:
                return f"edge {u}->{v} missing in _predecessors"
    for v, us in p.items():
        for u in us:
            if u not in s or v not in s[u]:
                return f"edge {u}->{v} missing in _successors"
    return None


def gen_history(rng: random.Random, nmax: int, nops: int, dag: bool):
    """a random op sequence over node ids 0..nmax-1 (+ fresh ids for replace)"""
    ops = []
    live = set()
    fresh = 100
    for _ in range(nops):
        x = rng.random()
        if x < 0.5 or len(live) < 2:
            u = rng.randrange(nmax)
            if rng.random() < 0.12:
                v = None
            else:
                v = rng.randrange(nmax)
                if dag:
                    if u == v:
                        v = None
                    elif u > v:
                        u, v = v, u
            ops.append(("add", u, v))
            live.add(u)
            if v is not None:
                live.add(v)
        elif x < 0.72:
            k = rng.choice([1, 1, 1, 2, 3, 0])
            pool = sorted(live) + [rng.randrange(nmax + 3)]
            ns = [rng.choice(pool) for _ in range(k)]
            prune = rng.random() < 0.65
            ops.append(("rm", ns, prune))
        elif x < 0.86:
            old = rng.choice(sorted(live) + [nmax + 5])
            r = rng.random()
            if r < 0.7:
                new = fresh
                fresh += 1
            elif r < 0.85:
                new = rng.choice(sorted(live))
            else:
                new = old
            ops.append(("rep", old, new))
            if new >= 100:
                live.add(new)
        else:
            ops.append(("prom", rng.choice(sorted(live) + [nmax + 7])))
    return ops


CORPUS = [
    # pruning chain, self-loop, early push (a parent whose other child waits on the stack)
    [("add", 0, 1), ("add", 1, 2), ("rm", [2], True)],
    [("add", 0, 1), ("add", 0, 2), ("rm", [1], True), ("rm", [2], True)],
    [("add", 0, 1), ("add", 0, 2), ("rm", [1, 2], True)],
    [("add", 0, 1), ("add", 0, 2), ("rm", [2, 1], True)],
    [("add", 2, 2), ("add", 1, 2), ("rm", [2], True)],
    [("add", 1, 1), ("add", 1, 2), ("rm", [2], True)],
    [("add", 0, 1), ("add", 1, 0), ("add", 1, 2), ("rm", [2], True)],
    [("add", 0, 1), ("add", 1, 0), ("prom", 0)],
    [("add", 0, 0), ("add", 0, 1), ("add", 2, 0), ("rep", 0, 10)],
    [("add", 0, 1), ("rep", 0, 1), ("rep", 5, 1), ("rep", 0, 0)],
    [("add", 0, 3), ("add", 1, 3), ("add", 1, 4), ("add", 2, 0), ("prom", 3)],
    [("add", 0, 1), ("add", 1, 2), ("add", 1, 3), ("rm", [3, 3, 9, 2], False)],
    [("add", 10, 11), ("add", 11, 10), ("add", 9, 10), ("rm", [11, 10], True)],
]


class C20(Property):
    pid = "C20"
    title = "Provenance graph operations keep the graph consistent"
    lean_targets = ["SFV.Props.C20", "SFV.Model.Proto"]
    props_files = ["SFV/Props/C20.lean"]
    drivers = [DRIVER]
    translators = []
    rule = ("random operation histories (add with/without target, remove_nodes with 0..3 targets incl. absent and repeated ones, "
            "with and without prune_dead_end, replace incl. existing/absent/same node, promote_to_source) on graphs of <= 12 nodes, "
            "half of them acyclic (edges low->high) and half with cycles and self-loops, plus a boundary corpus. After every "
            "operation the real DirectedAcyclicGraph's two maps and return value are compared with (1) an independent reference "
            "graph (node set + edge set + least-fixpoint closure) = the property monitor, (2) the Lean model (driver). "
            "Non-trivial = distinct history containing a removal/replace/promote on a graph with at least one edge.")
    trusted_base = [
        "modelled, not verified: Python set/dict semantics (add/discard/remove/del, iteration over a snapshot); set iteration "
        "order is left arbitrary in the model (lists in any order) and never observed by the theorems",
        "DirectedGraph nodes are modelled as natural numbers (the code only uses hashing and equality)",
    ]
    technique = ("Lean 4 theorems over an executable model of the two adjacency maps (well-founded stack algorithm, loop invariant "
                 "against a least-fixpoint closure spec) + differential correspondence on random operation histories")
    level_text = ("grade A: unbounded theorems — representation invariant after every operation sequence (mirror, same keys, closed, "
                  "duplicate free), remove_nodes without pruning removes exactly the targets, with pruning exactly the least closure "
                  "(order independent, each node once, no dead end left), replace renames edges exactly (ValueError iff), "
                  "promote_to_source cuts incoming edges and removes exactly the closure of dead parents; termination of the stack "
                  "loop checked by Lean; model compared with the real classes on random histories (DAG and cyclic)")
    level_note = ("Lean kernel, axioms within {propext, Classical.choice, Quot.sound}; hand-written model tied to the code by the "
                  "correspondence check only (no translator: the code is loops over sets, not a table)")
    assumptions = ["node objects behave like values with equality (ints / strings); single-threaded use (no await inside the methods)"]
    quick_budget_s = 480          # generous: the machine may be heavily loaded
    min_nontrivial = 50

    # -- one history on real code, reference, and (queued) model ---------------------------------
    def _run_history(self, ctx: Ctx, ops, lines, expect, meta, bucket):
        g = ru.DirectedAcyclicGraph("g")
        ref = RefGraph()
        lines.append("new")
        expect.append("ok")
        meta.append((ops, -1))
        nontriv = False
        for i, op in enumerate(ops):
            had_edges = bool(ref.edges)
            ret = apply_real(g, op)
            rret = apply_ref(ref, op)
            real = f"{ret}|{dump_real(g)}"
            want = f"{rret}|{dump_ref(ref)}"
            # the property speaks about the SET of removed nodes: returned lists are compared sorted
            real_set = f"{_sorted_ret(ret)}|{dump_real(g)}"
            ctx.count("op:" + op[0] + (":prune" if op[0] == "rm" and op[2] else ""))
            if op[0] != "add" and had_edges:
                nontriv = True
            m = mirror_ok(g)
            if m is not None:
                ctx.fail("graph:mirror-broken", f"after {op}: {m}; maps: {dump_real(g)}", {"ops": ops[: i + 1]})
                break
            if ret.startswith("EXC:") or ret.startswith("DUP:"):
                ctx.fail("graph:" + ("raises" if ret.startswith("EXC") else "duplicate-in-result") + ":" + op[0],
                         f"{op} -> {ret} after {ops[:i]}", {"ops": ops[: i + 1]})
                break
            if real_set != want:
                ctx.fail("graph:" + op[0] + (":prune" if op[0] == "rm" and op[2] else "") + ":differs-from-plain-graph",
                         f"after {ops[: i + 1]}: code {real}, reference graph {want}", {"ops": ops[: i + 1]})
                break
            lines.append(op_line(op))
            expect.append(real)
            meta.append((ops, i))
        if g._successors:
            lines.append("srcsnk")
            expect.append(f"{_sl(sorted(g.get_sources()))}|{_sl(sorted(g.get_sinks()))}")
            meta.append((ops, len(ops)))
        ctx.case({"ops": [list(o) for o in ops[:12]], "final": dump_real(g)},
                 ("h", repr(ops)) if nontriv else None, bucket)

    def explore(self, ctx: Ctx) -> None:
        rng = ctx.rng
        lines, expect, meta = [], [], []
        for ops in CORPUS:
            self._run_history(ctx, ops, lines, expect, meta, "corpus")
            ctx.corpus_replayed += 1
        n = 1500 if ctx.tier == "quick" else 20000
        if ctx.mode == "search":
            n *= 3
        for k in range(n):
            if ctx.out_of_time():
                ctx.extra["histories_run"] = k
                if k < 300:
                    ctx.extra["incomplete"] = True
                break
            dag = k % 2 == 0
            nmax = rng.choice([2, 3, 4, 5, 6, 8, 12])
            nops = rng.randint(3, 8 if nmax <= 3 else 30)
            ops = gen_history(rng, nmax, nops, dag)
            self._run_history(ctx, ops, lines, expect, meta, "dag" if dag else "cyclic")
        # exhaustive small graphs (thorough): every graph on 3 nodes, every single removal with pruning
        if ctx.tier == "thorough":
            import itertools
            pairs = [(a, b) for a in range(3) for b in range(3)]
            for mask in range(1 << len(pairs)):
                edges = [p for i, p in enumerate(pairs) if mask >> i & 1]
                base = [("add", 0, None), ("add", 1, None), ("add", 2, None)] + [("add", a, b) for a, b in edges]
                for t in range(3):
                    self._run_history(ctx, base + [("rm", [t], True)], lines, expect, meta, "exhaustive3")
                self._run_history(ctx, base + [("prom", 0)], lines, expect, meta, "exhaustive3")
                self._run_history(ctx, base + [("rep", 0, 7)], lines, expect, meta, "exhaustive3")
            del itertools
        got = ctx.lean(DRIVER, lines)
        bad = set()
        for gl, e, (ops, i) in zip(got, expect, meta):
            if gl != e and id(ops) not in bad:
                bad.add(id(ops))
                ctx.disagree("model vs DirectedGraph", f"after {ops[: i + 1]}: code {e!r}, Lean model {gl!r}", {"ops": ops[: i + 1]})

    def replay(self, ctx: Ctx, data) -> None:
        r = data.get("replay") or (data.get("no_longer_checks") or [{}])[0].get("case") or {}
        ops = [tuple(o) for o in r.get("ops", [])]
        if not ops:
            return super().replay(ctx, data)
        g, ref = ru.DirectedAcyclicGraph("g"), RefGraph()
        lines = ["new"] + [op_line(o) for o in ops]
        got = ctx.lean(DRIVER, lines)[1:]
        for op, ml in zip(ops, got):
            ret, rret = apply_real(g, op), apply_ref(ref, op)
            real, want = f"{ret}|{dump_real(g)}", f"{rret}|{dump_ref(ref)}"
            print(f"{op}\n   code : {real}\n   spec : {want}\n   model: {ml}")
            m = mirror_ok(g)
            if m:
                ctx.fail("graph:mirror-broken", m, r)
            if f"{_sorted_ret(ret)}|{dump_real(g)}" != want:
                ctx.fail("graph:differs-from-plain-graph", f"{op}: code {real}, reference {want}", r)
            if real != ml:
                ctx.disagree("model vs DirectedGraph", f"{op}: code {real}, model {ml}", r)


PROPERTY = C20()
