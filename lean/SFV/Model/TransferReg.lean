import SFV.Model.Registry
/-! # Registration of a transferred copy (C22), on the registry model of C21 (`SFV/Model/Registry.lean`)

`DefaultDataManager.transfer_data`, one destination location, no primary copy of the source on it yet, source path
registered: `register_path(dst_location, parent(final))`, a new PRIMARY `DataLocation` for the final destination path stored with
`path_mapper.put(final, obj)`, and — for a read-only transfer — `register_relation(src_obj, dst_obj)`. -/
namespace SFV.TransferReg
open SFV.Registry

/-- a valid `DataLocation` object with path `p` is stored at the node `p` for location `l`:
    `get_data_locations(p, deployment, location)` answers with a copy at that very path -/
def HasCopy (s : St) (p : Path) (l : Nat) : Prop := ∃ o ∈ getLocs s p l, objPath s o = p

/-- the registration steps of `transfer_data` -/
def transferRegister (s : St) (srcObj : Nat) (ldst : Nat) (final : Path) (writable : Bool) : St :=
  let s1 := (register s ldst final.dropLast).1
  let dstObj := s1.heap.length
  let s2 := put { s1 with heap := s1.heap ++ [⟨ldst, final, true⟩] } final dstObj false
  if writable then s2 else relate s2 srcObj dstObj

end SFV.TransferReg
