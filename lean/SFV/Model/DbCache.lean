import SFV.Model.DbCacheSpec
/-! `SqliteDatabase` (`streamflow/persistence/sqlite.py`) as a state machine driven by the generated cache
    discipline (`Spec`): tables of rows, the LRU caches keyed by id (unbounded, as in `CachedDatabase`), the rows
    handed out to callers, and object identities (addresses) so that aliasing between a cached row and a returned
    row is visible. A row is a dict of columns; a column is a scalar or a JSON container (`json.loads` result)
    with its own identity. Core Lean only. -/
namespace SFV.DbCache

/-- a column value as stored: scalar or JSON container -/
inductive PField where
  | atom (n : Nat)
  | box (items : List Nat)
deriving DecidableEq, Repr

/-- a stored row (what an uncached read returns) -/
abbrev PRow := List PField

/-- a column of a Python row object: containers carry their address -/
inductive Field where
  | atom (n : Nat)
  | box (addr : Nat) (items : List Nat)
deriving DecidableEq, Repr

/-- a Python row object (`dict`) with its address -/
structure Row where
  addr : Nat
  fields : List Field
deriving DecidableEq, Repr

def Field.erase : Field → PField
  | .atom n => .atom n
  | .box _ items => .box items

/-- the value of a row, identities forgotten -/
def Row.erase (r : Row) : PRow := r.fields.map Field.erase

def Field.addrs : Field → List Nat
  | .atom _ => []
  | .box a _ => [a]

/-- every object identity reachable from a row -/
def Row.addrs (r : Row) : List Nat := r.addr :: r.fields.flatMap Field.addrs

/-- build new container objects for the columns (`json.loads`, `deepcopy`) starting at address `next` -/
def freshFields : Nat → PRow → List Field × Nat
  | next, [] => ([], next)
  | next, .atom n :: r => ((.atom n) :: (freshFields next r).1, (freshFields next r).2)
  | next, .box items :: r => ((.box next items) :: (freshFields (next + 1) r).1, (freshFields (next + 1) r).2)

/-- a brand-new row object for a stored row -/
def fresh (next : Nat) (p : PRow) : Row × Nat :=
  (⟨next, (freshFields (next + 1) p).1⟩, (freshFields (next + 1) p).2)

/-- `postprocess(result)` of `@cached` -/
def copyRow (c : Copy) (next : Nat) (r : Row) : Row × Nat :=
  match c with
  | .deep => fresh next r.erase
  | .shallow => (⟨next, r.fields⟩, next + 1)
  | .none => (r, next)

/-- caller: `row[col_i] = v` on the dict with address `a` -/
def Row.mutTop (a i v : Nat) (r : Row) : Row :=
  if r.addr = a then { r with fields := r.fields.set i (.atom v) } else r

def Field.mutNested (a k v : Nat) : Field → Field
  | .box b items => if b = a then .box b (items.set k v) else .box b items
  | f => f

/-- caller: `container[k] = v` on the container with address `a` -/
def Row.mutNested (a k v : Nat) (r : Row) : Row := { r with fields := r.fields.map (Field.mutNested a k v) }

structure St where
  /-- table → id → stored row -/
  db : Nat → Nat → Option PRow
  /-- next `lastrowid` of a table -/
  nextId : Nat → Nat
  /-- cache → id → cached row object -/
  cache : Nat → Nat → Option Row
  /-- the row objects returned so far, in order (the caller may mutate them) -/
  out : List Row
  /-- next free address -/
  next : Nat

def St.init : St := ⟨fun _ _ => none, fun _ => 1, fun _ _ => none, [], 0⟩

inductive Op where
  | add (ins : Insert) (row : PRow)
  | update (u : Update) (id : Nat) (row : PRow)
  | get (g : Getter) (id : Nat)
  /-- the caller sets column `i` of the `j`-th returned row to a scalar -/
  | mutTop (j i v : Nat)
  /-- the caller sets item `k` of the container in column `i` of the `j`-th returned row -/
  | mutNested (j i k v : Nat)

def upd2 {α} (f : Nat → Nat → Option α) (a b : Nat) (v : Option α) : Nat → Nat → Option α :=
  fun x y => if x = a ∧ y = b then v else f x y

/-- one call on the database object; the second component is the row a `get_*` returns
    (`none` for the other calls and for the `TypeError` of a missing row). `none` = not a call of this spec. -/
def step (spec : Spec) (s : St) : Op → Option (St × Option Row)
  | .add ins row =>
      if ins ∈ spec.inserts then
        some ({ s with db := upd2 s.db ins.primary (s.nextId ins.primary) (some row),
                       nextId := fun t => if t = ins.primary then s.nextId t + 1 else s.nextId t }, none)
      else none
  | .update u id row =>
      if u ∈ spec.updates then
        some ({ s with db := if (s.db u.table id).isSome then upd2 s.db u.table id (some row) else s.db,
                       cache := fun c i => if c ∈ u.pops ∧ u.popKeyIsId = true ∧ i = id then none else s.cache c i }, none)
      else none
  | .get g id =>
      if g ∈ spec.getters then
        match s.cache g.cache id with
        | some r =>                                            -- hit: postprocess(cached)
            some ({ s with out := s.out ++ [(copyRow g.copy s.next r).1], next := (copyRow g.copy s.next r).2 },
                  some (copyRow g.copy s.next r).1)
        | none =>
            match s.db g.table id with
            | none => some (s, none)                           -- `dict(None)`: TypeError, nothing cached
            | some p =>                                        -- miss: build the row, cache it, postprocess
                let r := (fresh s.next p).1
                let n1 := (fresh s.next p).2
                some ({ s with cache := upd2 s.cache g.cache id (some r),
                               out := s.out ++ [(copyRow g.copy n1 r).1], next := (copyRow g.copy n1 r).2 },
                      some (copyRow g.copy n1 r).1)
      else none
  | .mutTop j i v =>
      match s.out[j]? with
      | some r =>
          some ({ s with cache := fun c x => (s.cache c x).map (Row.mutTop r.addr i v),
                         out := s.out.map (Row.mutTop r.addr i v) }, none)
      | none => none
  | .mutNested j i k v =>
      match s.out[j]? with
      | some r =>
          match r.fields[i]? with
          | some (.box a _) =>
              some ({ s with cache := fun c x => (s.cache c x).map (Row.mutNested a k v),
                             out := s.out.map (Row.mutNested a k v) }, none)
          | _ => none
      | none => none

/-- run a history; the results of the calls, in order (`none` for an ill-formed history) -/
def runFrom (spec : Spec) : St → List Op → Option (St × List (Option Row))
  | s, [] => some (s, [])
  | s, op :: ops =>
      match step spec s op with
      | none => none
      | some (s', r) =>
          match runFrom spec s' ops with
          | none => none
          | some (s'', rs) => some (s'', r :: rs)

inductive Reachable (spec : Spec) : St → Prop
  | init : Reachable spec St.init
  | step {s op s' r} : Reachable spec s → step spec s op = some (s', r) → Reachable spec s'

end SFV.DbCache
