import SFV.Model.CwlOps
/-! Helper lemmas for C29 (`SFV/Props/C29.lean`). -/
namespace SFV.CwlOps

theorem lexLe_refl : ∀ a : List Nat, lexLe a a = true
  | [] => rfl
  | a :: as => by simp [lexLe, lexLe_refl as]

theorem lexLe_total : ∀ a b : List Nat, (lexLe a b || lexLe b a) = true
  | [], _ => by simp [lexLe]
  | _ :: _, [] => by simp [lexLe]
  | a :: as, b :: bs => by
    simp only [lexLe, Bool.or_eq_true, decide_eq_true_eq, Bool.and_eq_true, beq_iff_eq]
    have ih := lexLe_total as bs
    simp only [Bool.or_eq_true] at ih
    by_cases h1 : a < b
    · exact Or.inl (Or.inl h1)
    · by_cases h2 : b < a
      · exact Or.inr (Or.inl h2)
      · have : a = b := by omega
        rcases ih with h | h
        · exact Or.inl (Or.inr ⟨this, h⟩)
        · exact Or.inr (Or.inr ⟨this.symm, h⟩)

theorem lexLe_trans : ∀ a b c : List Nat, lexLe a b = true → lexLe b c = true → lexLe a c = true
  | [], _, _, _, _ => by simp [lexLe]
  | _ :: _, [], _, h, _ => by simp [lexLe] at h
  | _ :: _, _ :: _, [], _, h => by simp [lexLe] at h
  | a :: as, b :: bs, c :: cs, h1, h2 => by
    simp only [lexLe, Bool.or_eq_true, decide_eq_true_eq, Bool.and_eq_true, beq_iff_eq] at h1 h2 ⊢
    rcases h1 with h1 | ⟨e1, h1⟩ <;> rcases h2 with h2 | ⟨e2, h2⟩
    · exact Or.inl (by omega)
    · exact Or.inl (by omega)
    · exact Or.inl (by omega)
    · exact Or.inr ⟨by omega, lexLe_trans as bs cs h1 h2⟩

theorem lexLe_antisymm : ∀ a b : List Nat, lexLe a b = true → lexLe b a = true → a = b
  | [], [], _, _ => rfl
  | [], _ :: _, _, h => by simp [lexLe] at h
  | _ :: _, [], h, _ => by simp [lexLe] at h
  | a :: as, b :: bs, h1, h2 => by
    simp only [lexLe, Bool.or_eq_true, decide_eq_true_eq, Bool.and_eq_true, beq_iff_eq] at h1 h2
    rcases h1 with h1 | ⟨e1, h1⟩ <;> rcases h2 with h2 | ⟨e2, h2⟩
    · omega
    · omega
    · omega
    · rw [e1, lexLe_antisymm as bs h1 h2]

/-- strictly increasing tags -/
def StrictSorted (l : List (Tok γ)) : Prop := l.Pairwise (fun a b => lexLe a.1 b.1 = true ∧ a.1 ≠ b.1)

theorem eq_of_tag_eq {l : List (Tok γ)} (hs : StrictSorted l) :
    ∀ a b, a ∈ l → b ∈ l → a.1 = b.1 → a = b := by
  induction l with
  | nil => intro a b ha; simp at ha
  | cons x r ih =>
    intro a b ha hb hab
    have hs' := List.pairwise_cons.mp hs
    rcases List.mem_cons.mp ha with ea | ha' <;> rcases List.mem_cons.mp hb with eb | hb'
    · rw [ea, eb]
    · rw [ea] at hab; exact absurd hab (hs'.1 b hb').2
    · rw [eb] at hab; exact absurd hab.symm (hs'.1 a ha').2
    · exact ih hs'.2 a b ha' hb' hab

/-- **the gather step is order-insensitive**: whatever the arrival order of a strictly tagged family, sorting by
tag yields the family in tag order -/
theorem gatherSort_perm {canon arrival : List (Tok γ)} (hs : StrictSorted canon) (hp : arrival.Perm canon) :
    gatherSort arrival = canon.map (·.2) := by
  unfold gatherSort
  have hsorted : (arrival.mergeSort (fun a b => lexLe a.1 b.1)).Pairwise (fun a b => lexLe a.1 b.1 = true) :=
    List.pairwise_mergeSort (fun a b c => lexLe_trans a.1 b.1 c.1) (fun a b => lexLe_total a.1 b.1) arrival
  have hperm : (arrival.mergeSort (fun a b => lexLe a.1 b.1)).Perm canon :=
    (List.mergeSort_perm arrival _).trans hp
  have hcanon : canon.Pairwise (fun a b => lexLe a.1 b.1 = true) := hs.imp (fun h => h.1)
  have : arrival.mergeSort (fun a b => lexLe a.1 b.1) = canon := by
    apply List.Perm.eq_of_pairwise (le := fun a b => lexLe a.1 b.1 = true) _ hsorted hcanon hperm
    intro a b ha hb h1 h2
    exact eq_of_tag_eq hs a b (hperm.mem_iff.mp ha) hb (lexLe_antisymm _ _ h1 h2)
  rw [this]

theorem scatterFrom_vals (s : Nat) (xs : List α) : (scatterFrom s xs).map (·.2) = xs := by
  induction xs generalizing s with
  | nil => rfl
  | cons x xs ih => simp [scatterFrom, ih]

theorem scatterFrom_tags (s : Nat) (xs : List α) : ∀ t, t ∈ scatterFrom s xs → ∃ i, s ≤ i ∧ t.1 = [i] := by
  induction xs generalizing s with
  | nil => intro t ht; simp [scatterFrom] at ht
  | cons x xs ih =>
    intro t ht
    simp only [scatterFrom, List.mem_cons] at ht
    rcases ht with rfl | ht
    · exact ⟨s, Nat.le_refl _, rfl⟩
    · obtain ⟨i, hi, e⟩ := ih (s + 1) t ht
      exact ⟨i, by omega, e⟩

theorem scatterFrom_sorted (s : Nat) (xs : List α) : StrictSorted (scatterFrom s xs) := by
  induction xs generalizing s with
  | nil => exact List.Pairwise.nil
  | cons x xs ih =>
    refine List.pairwise_cons.mpr ⟨?_, ih (s + 1)⟩
    intro t ht
    obtain ⟨i, hi, e⟩ := scatterFrom_tags (s + 1) xs t ht
    simp only [e]
    refine ⟨by simp [lexLe]; omega, ?_⟩
    intro h; simp at h; omega

theorem map_sorted {l : List (Tok α)} (hs : StrictSorted l) (g : α → γ) :
    StrictSorted (l.map (fun a => (a.1, g a.2))) := by
  unfold StrictSorted
  rw [List.pairwise_map]
  exact hs

theorem lexLe_cons (i : Nat) (a b : List Nat) : lexLe (i :: a) (i :: b) = lexLe a b := by
  simp [lexLe]

theorem cartToks_sorted (f : α → β → γ) (xs : List α) (ys : List β) : StrictSorted (cartToks f xs ys) := by
  unfold cartToks StrictSorted
  rw [List.pairwise_flatMap]
  refine ⟨?_, ?_⟩
  · intro a ha
    obtain ⟨i, _, e⟩ := scatterFrom_tags 0 xs a ha
    rw [List.pairwise_map]
    have := scatterFrom_sorted 0 ys
    refine this.imp ?_
    intro b c h
    simp only [e, List.singleton_append, lexLe_cons]
    exact ⟨h.1, by intro hh; simp at hh; exact h.2 hh⟩
  · have := scatterFrom_sorted 0 xs
    refine List.Pairwise.imp_of_mem ?_ this
    intro a a' ha ha' h x hx y hy
    simp only [List.mem_map] at hx hy
    obtain ⟨b, hb, rfl⟩ := hx
    obtain ⟨b', hb', rfl⟩ := hy
    obtain ⟨i, _, e⟩ := scatterFrom_tags 0 xs a ha
    obtain ⟨i', _, e'⟩ := scatterFrom_tags 0 xs a' ha'
    have h1 := h.1
    have h2 := h.2
    simp only [e, e'] at h1 h2 ⊢
    have hlt : i < i' := by
      simp only [lexLe, Bool.or_eq_true, decide_eq_true_eq, Bool.and_eq_true, beq_iff_eq] at h1
      rcases h1 with h1 | ⟨h1, _⟩
      · exact h1
      · exact absurd (by rw [h1]) h2
    refine ⟨by simp [lexLe, hlt], ?_⟩
    intro hh
    simp only [List.singleton_append, List.cons.injEq] at hh
    omega

theorem cartToks_vals (f : α → β → γ) (xs : List α) (ys : List β) :
    (cartToks f xs ys).map (·.2) = specFlat f xs ys := by
  unfold cartToks specFlat scatterToks
  rw [List.map_flatMap]
  have hx := scatterFrom_vals 0 xs
  have key : ∀ (l : List (Tok α)),
      l.flatMap (fun a => ((scatterFrom 0 ys).map (fun b => (a.1 ++ b.1, f a.2 b.2))).map (·.2)) =
      (l.map (·.2)).flatMap (fun x => ys.map (f x)) := by
    intro l
    induction l with
    | nil => rfl
    | cons a r ih =>
      simp only [List.flatMap_cons, List.map_cons, ih]
      congr 1
      rw [List.map_map]
      have := scatterFrom_vals 0 ys
      conv => rhs; rw [← this]
      rw [List.map_map]
      rfl
  rw [key, hx]

theorem rowToks_sorted (f : α → β → γ) (i : Nat) (x : α) (ys : List β) : StrictSorted (rowToks f i x ys) := by
  unfold rowToks StrictSorted scatterToks
  rw [List.pairwise_map]
  refine (scatterFrom_sorted 0 ys).imp ?_
  intro b c h
  simp only [List.singleton_append, lexLe_cons]
  exact ⟨h.1, by intro hh; simp at hh; exact h.2 hh⟩

theorem rowToks_vals (f : α → β → γ) (i : Nat) (x : α) (ys : List β) :
    (rowToks f i x ys).map (·.2) = ys.map (f x) := by
  unfold rowToks scatterToks
  rw [List.map_map]
  have := scatterFrom_vals 0 ys
  conv => rhs; rw [← this]
  rw [List.map_map]
  rfl

/-- what the inner gathers of a nested cross product hand to the outer gather (in tag order) -/
def rowsCanon (f : α → β → γ) (xs : List α) (ys : List β) : List (Tok (List γ)) :=
  (scatterToks xs).map (fun a => (a.1, ys.map (f a.2)))

theorem rowsCanon_sorted (f : α → β → γ) (xs : List α) (ys : List β) : StrictSorted (rowsCanon f xs ys) :=
  map_sorted (scatterFrom_sorted 0 xs) (fun x => ys.map (f x))

theorem rowsCanon_vals (f : α → β → γ) (xs : List α) (ys : List β) :
    (rowsCanon f xs ys).map (·.2) = specNested f xs ys := by
  unfold rowsCanon specNested scatterToks
  rw [List.map_map]
  have := scatterFrom_vals 0 xs
  conv => rhs; rw [← this]
  rw [List.map_map]
  rfl

theorem dotFrom_sorted (f : α → β → γ) (s : Nat) (xs : List α) (ys : List β) :
    StrictSorted (List.zipWith (fun a b => (a.1, f a.2 b.2)) (scatterFrom s xs) (scatterFrom s ys)) ∧
    ∀ t, t ∈ List.zipWith (fun (a : Tok α) (b : Tok β) => (a.1, f a.2 b.2)) (scatterFrom s xs) (scatterFrom s ys) →
      ∃ i, s ≤ i ∧ t.1 = [i] := by
  induction xs generalizing s ys with
  | nil => exact ⟨List.Pairwise.nil, by intro t ht; simp [scatterFrom] at ht⟩
  | cons x xs ih =>
    cases ys with
    | nil => exact ⟨List.Pairwise.nil, by intro t ht; simp [scatterFrom] at ht⟩
    | cons y ys =>
      obtain ⟨h1, h2⟩ := ih (s + 1) ys
      simp only [scatterFrom, List.zipWith_cons_cons]
      refine ⟨List.pairwise_cons.mpr ⟨?_, h1⟩, ?_⟩
      · intro t ht
        obtain ⟨i, hi, e⟩ := h2 t ht
        simp only [e]
        exact ⟨by simp [lexLe]; omega, by intro hh; simp at hh; omega⟩
      · intro t ht
        rcases List.mem_cons.mp ht with e | ht'
        · exact ⟨s, Nat.le_refl _, by rw [e]⟩
        · obtain ⟨i, hi, e⟩ := h2 t ht'
          exact ⟨i, by omega, e⟩

theorem dotFrom_vals (f : α → β → γ) (s : Nat) (xs : List α) (ys : List β) :
    (List.zipWith (fun (a : Tok α) (b : Tok β) => (a.1, f a.2 b.2)) (scatterFrom s xs) (scatterFrom s ys)).map (·.2) =
      List.zipWith f xs ys := by
  induction xs generalizing s ys with
  | nil => simp [scatterFrom]
  | cons x xs ih =>
    cases ys with
    | nil => simp [scatterFrom]
    | cons y ys => simp [scatterFrom, ih]

theorem dedupKeys_nodup : ∀ (l : List (String × α)), (l.map (·.1)).Nodup → dedupKeys l = l
  | [], _ => rfl
  | (k, v) :: r, h => by
    have h' := List.nodup_cons.mp h
    simp only [dedupKeys, dedupKeys_nodup r h'.2]
    congr 1
    apply List.filter_eq_self.mpr
    intro p hp
    have : p.1 ≠ k := by
      intro e
      apply h'.1
      rw [← e]
      exact List.mem_map.mpr ⟨p, hp, rfl⟩
    simpa using this

theorem insertByLast_le (t : Tok α) (l : List (Tok α))
    (h : ∀ u, u ∈ l → t.1.getLast?.getD 0 ≤ u.1.getLast?.getD 0) : insertByLast t l = t :: l := by
  cases l with
  | nil => rfl
  | cons u r => simp [insertByLast, h u (by simp)]

theorem sortByLast_sorted : ∀ (l : List (Tok α)),
    l.Pairwise (fun a b => a.1.getLast?.getD 0 ≤ b.1.getLast?.getD 0) → sortByLast l = l
  | [], _ => rfl
  | t :: r, h => by
    have h' := List.pairwise_cons.mp h
    simp only [sortByLast, sortByLast_sorted r h'.2]
    exact insertByLast_le t r h'.1

theorem sfFirst_eq : ∀ (vs : List (Option α)), sfFirstNonNull vs = specFirstNonNull vs
  | [] => rfl
  | some v :: r => rfl
  | none :: r => by simp only [sfFirstNonNull, specFirstNonNull]; exact sfFirst_eq r

theorem sfOnlyLoop_some (w : α) : ∀ (vs : List (Option α)),
    sfOnlyLoop (some w) vs = (match vs.filterMap id with
      | [] => .ok (some w)
      | _ :: _ => .error .multipleNonNull)
  | [] => rfl
  | some v :: r => by simp [sfOnlyLoop]
  | none :: r => by simp only [sfOnlyLoop, List.filterMap_cons, id]; exact sfOnlyLoop_some w r

theorem sfOnlyLoop_none : ∀ (vs : List (Option α)),
    sfOnlyLoop none vs = (match vs.filterMap id with
      | [] => .ok none
      | [v] => .ok (some v)
      | _ :: _ :: _ => .error .multipleNonNull)
  | [] => rfl
  | none :: r => by simp only [sfOnlyLoop, List.filterMap_cons, id]; exact sfOnlyLoop_none r
  | some v :: r => by
    simp only [sfOnlyLoop, List.filterMap_cons, id, sfOnlyLoop_some]
    cases r.filterMap id <;> rfl

theorem sfAll_eq : ∀ (vs : List (Option α)), sfAllNonNull vs = specAllNonNull vs
  | [] => rfl
  | some v :: r => by
    have := sfAll_eq r
    simp only [sfAllNonNull, specAllNonNull] at this ⊢
    simp [this]
  | none :: r => by
    have := sfAll_eq r
    simp only [sfAllNonNull, specAllNonNull] at this ⊢
    simp [this]

theorem flatMap_ext {l : List α} {f g : α → List β} (h : ∀ a, a ∈ l → f a = g a) : l.flatMap f = l.flatMap g := by
  induction l with
  | nil => rfl
  | cons a r ih =>
    simp only [List.flatMap_cons]
    rw [h a (by simp), ih (fun b hb => h b (by simp [hb]))]

/-- the guard the extractor found is the one the theorems are about: the short cut fires iff some input is empty -/
theorem emptyTriggered_eq (sizes : List Nat) : emptyTriggered sizes = sizes.any (· == 0) := rfl

theorem flattenSort_sorted (l : List (Tok α))
    (h : l.Pairwise (fun a b => a.1.getLast?.getD 0 ≤ b.1.getLast?.getD 0)) : flattenSort l = l := by
  unfold flattenSort
  split
  · exact sortByLast_sorted l h
  · rfl

theorem lookup_perm {l1 l2 : List (String × α)} (hp : l1.Perm l2) (hn : (l1.map (·.1)).Nodup) (k : String) :
    l1.lookup k = l2.lookup k := by
  induction hp with
  | nil => rfl
  | cons x _ ih =>
    obtain ⟨a, b⟩ := x
    simp only [List.map_cons, List.nodup_cons] at hn
    simp only [List.lookup]
    split
    · rfl
    · exact ih hn.2
  | swap x y l =>
    obtain ⟨a, b⟩ := x
    obtain ⟨c, d⟩ := y
    simp only [List.map_cons, List.nodup_cons, List.mem_cons, not_or] at hn
    have hca : (c == a) = false := by simpa using hn.1.1
    have hac : (a == c) = false := by simpa using (fun e : a = c => hn.1.1 e.symm)
    simp only [List.lookup]
    by_cases h1 : k = c
    · subst h1; simp [hca]
    · have h1' : (k == c) = false := by simpa using h1
      by_cases h2 : k = a
      · subst h2; simp [hac]
      · have h2' : (k == a) = false := by simpa using h2
        simp [h1', h2']
  | trans h1 _ ih1 ih2 =>
    rw [ih1 hn]
    exact ih2 ((h1.map _).nodup_iff.mp hn)

theorem lookup_zip_self : ∀ (names : List String) (vals : List α), names.length = vals.length → names.Nodup →
    names.map (fun n => (names.zip vals).lookup n) = vals.map some
  | [], [], _, _ => rfl
  | [], _ :: _, h, _ => by simp at h
  | _ :: _, [], h, _ => by simp at h
  | n :: ns, v :: vs, h, hn => by
    have hn' := List.nodup_cons.mp hn
    have ih := lookup_zip_self ns vs (by simpa using h) hn'.2
    simp only [List.zip_cons_cons, List.map_cons, List.lookup, beq_self_eq_true]
    congr 1
    rw [← ih]
    apply List.map_congr_left
    intro m hm
    have : (m == n) = false := by
      have : m ≠ n := fun e => hn'.1 (e ▸ hm)
      simpa using this
    simp [List.lookup, this]

end SFV.CwlOps
