"""Drive REAL streamflow steps through REAL ports with an arrival order chosen by the harness (builder a1: C01, C06).

A step that reads several ports (`asyncio.wait(FIRST_COMPLETED)` over one `port.get` per port) processes tokens in the
order in which they become available. To impose a *global* arrival order across ports the harness puts one token,
waits until the step has consumed it and is idle again (every still-open input queue is empty and has a getter waiting),
then puts the next one. "Free" mode puts everything first and lets the (controlled, shuffling) event loop decide.

Relies on the CPython 3.12 private attribute `asyncio.Queue._getters` (as `sfv.rt.loop` relies on `_ready`)."""
from __future__ import annotations

import asyncio
import posixpath
from typing import Any, Iterable

from streamflow.core.workflow import Port, Step, Token, Workflow
from streamflow.workflow.token import ListToken, ObjectToken, TerminationToken


TERM_SPINS = 12


class StepHang(Exception):
    """the step did not become idle / did not terminate within the bound"""


def consumer_name(step: Step, port_name: str) -> str:
    return posixpath.join(step.name, port_name)


def _idle(step: Step, open_ports: Iterable[str]) -> bool:
    for pn in open_ports:
        port = step.get_input_port(pn)
        q = port.queues.get(consumer_name(step, pn))
        if q is None or not q.empty() or len(q._getters) == 0:
            return False
    return True


async def settle(step: Step, task: asyncio.Task, open_ports: list[str], budget_s: float = 180.0) -> None:
    """wait until `step` (running as `task`) is blocked on every open input port, or has finished"""
    loop = asyncio.get_running_loop()
    t0 = loop.time()
    spins = 0
    while True:
        if task.done():
            return
        if open_ports and _idle(step, open_ports):
            return
        spins += 1
        if spins % 50 == 0:
            if loop.time() - t0 > budget_s:
                raise StepHang(f"step {step.name} neither idle nor terminated after {budget_s}s")
            await asyncio.sleep(0.001)      # the step is waiting for the database thread
        else:
            await asyncio.sleep(0)


async def drive(step: Step, events: list[tuple[str, Token]], imposed: bool = True, budget_s: float = 180.0) -> None:
    """run `step.run()` feeding `events` = [(input port name, token)] (termination tokens included by the caller).
    imposed=True: one token at a time, each consumed before the next is put (the list IS the arrival order);
    imposed=False: everything is put first (per-port FIFO order = list order), the event loop interleaves the ports."""
    open_ports = list(step.input_ports.keys())
    if not imposed:
        for pn, tok in events:
            step.get_input_port(pn).put(tok)
        try:
            await asyncio.wait_for(step.run(), budget_s)
        except asyncio.TimeoutError as e:
            raise StepHang(f"step {step.name} did not terminate within {budget_s}s") from e
        return
    task = asyncio.create_task(step.run())
    try:
        await settle(step, task, open_ports, budget_s)
        for pn, tok in events:
            if task.done():
                break
            step.get_input_port(pn).put(tok)
            if isinstance(tok, TerminationToken) and pn in open_ports:
                open_ports.remove(pn)
                # the step takes no new `get` on this port, so its queue state cannot tell when the termination token
                # has been processed; processing it involves no await: a few loop iterations are enough
                # (getter wake-up -> get task done -> asyncio.wait wakes the step -> the step handles the token)
                for _ in range(TERM_SPINS):
                    await asyncio.sleep(0)
            if not open_ports:
                break
            await settle(step, task, open_ports, budget_s)
        try:
            await asyncio.wait_for(asyncio.shield(task), budget_s)
        except asyncio.TimeoutError as e:
            raise StepHang(f"step {step.name} did not terminate within {budget_s}s after its last input") from e
    finally:
        if not task.done():
            task.cancel()
            try:
                await task
            except BaseException:  # noqa: BLE001
                pass


def workflow_progress(wf: Workflow) -> tuple:
    """a signature that changes whenever anything happens in a running workflow"""
    return (sum(len(p.token_list) for p in wf.ports.values()), sum(1 for st in wf.steps.values() if st.terminated))


def stall_report(wf: Workflow, live: list[str], limit: int = 60) -> str:
    """what every live step of a stalled workflow is waiting for: the tail of each input port's log and what is still queued"""
    lines = []
    for name in live:
        st = wf.steps[name]
        lines.append(f"{name} [{type(st).__name__}, status {st.status.name}]")
        for pn, port in st.get_input_ports().items():
            log = [("TERM:" + t.value.name) if isinstance(t, TerminationToken) else f"{type(t).__name__[0]}:{t.tag}" for t in port.token_list]
            queued = {c.rsplit("/", 2)[-2] + "/" + c.rsplit("/", 1)[-1]: q.qsize() for c, q in port.queues.items() if c.startswith(name + "/")}
            lines.append(f"    in {pn}: {len(log)} tokens, tail {log[-limit:]}, unread {queued}")
        if hasattr(st, "iteration_termination_checklist"):
            lines.append(f"    checklist {dict((k, sorted(v)) for k, v in st.iteration_termination_checklist.items())}")
        comb = getattr(st, "combinator", None)
        if comb is not None:
            tv = {k: {p: len(v) for p, v in d.items()} for k, d in comb._token_values.items() if any(len(v) for v in d.values())}
            lines.append(f"    combinator {type(comb).__name__} pending {tv} iteration_map {getattr(comb, 'iteration_map', None)}")
        for attr in ("token_map", "size_map"):
            if hasattr(st, attr):
                m = getattr(st, attr)
                lines.append(f"    {attr} " + str({k: (len(v) if hasattr(v, '__len__') else getattr(v, 'value', v)) for k, v in m.items()}))
    return "\n".join(lines)


async def run_workflow(wf: Workflow, executor_run, stall_s: float = 180.0, cap_s: float = 1500.0):
    """await `executor_run` (a coroutine running the workflow) under a PROGRESS watchdog: a hang is `stall_s` seconds of wall
    clock without any new token on any port and without any step terminating (so a slow, loaded machine is not a hang).
    Returns (hung, result, live step names)."""
    loop = asyncio.get_running_loop()
    run = asyncio.create_task(executor_run)
    last, t_last, t0 = workflow_progress(wf), loop.time(), loop.time()
    while True:
        done, _ = await asyncio.wait([run], timeout=1.0)
        if done:
            return False, run.result(), []
        now, sig = loop.time(), workflow_progress(wf)
        if sig != last:
            last, t_last = sig, now
        if now - t_last > stall_s or now - t0 > cap_s:
            live = sorted(st.name for st in wf.steps.values() if not st.terminated)
            try:
                wf._sfv_stall_report = stall_report(wf, live)
            except Exception as e:  # noqa: BLE001
                wf._sfv_stall_report = f"(no report: {e!r})"
            run.cancel()
            try:
                await run
            except BaseException:  # noqa: BLE001
                pass
            return True, None, live


async def save_tokens(context, port: Port, tokens: Iterable[Token]) -> None:
    for t in tokens:
        if not isinstance(t, TerminationToken):
            await t.save(context.database, port.persistent_id)


def untoken(tok: Token) -> Any:
    """canonical JSON-able rendering of a token tree: tags and values, no ids"""
    if isinstance(tok, TerminationToken):
        return ["TERM", tok.value.name]
    if isinstance(tok, ListToken):
        return ["L", tok.tag, [untoken(t) for t in tok.value]]
    if isinstance(tok, ObjectToken):
        return ["O", tok.tag, {k: untoken(v) for k, v in sorted(tok.value.items())}]
    return [type(tok).__name__[0], tok.tag, tok.value]


def new_workflow(context, name: str) -> Workflow:
    return Workflow(context=context, name=name, config={})
