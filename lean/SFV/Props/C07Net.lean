import SFV.Lemmas.NetProv
/-! # C07 — recorded provenance is complete and acyclic (the edges each step class records)

`nodeProv e n` (model `SFV/Model/Net.lean`) lists the provenance edges (dependee, depender), between tokens
identified by (port, tag), that the engine records when node `n` runs on the port contents `e`: for every token
it emits, the inputs the step class hands to `_persist_token`. `prov sp` collects the edges of a whole workflow
along the topological order. The theorems say: edges are local to a step (from its input ports to its output
ports), they end at tokens the step really emits and start at tokens present on the input port (with the one
exception of the size token a forced gather creates itself), every emitted token of every step class except the
exec pipeline has an incoming edge, and edges go from ports produced earlier to ports produced later, so the
relation is acyclic. The persistence-log half (ids, `_persist_token` histories) is in `SFV/Props/C07.lean`.

Property theorems only; lemmas and auxiliary definitions (`rank`, `TokPath`, `Emits`, `Present`,
`IsGatherSizeEdge`, `Node.isExec`) in `SFV/Lemmas/NetProv.lean`. -/
namespace SFV.C07
open SFV.Net

/-! `exChain`: **Edges are local to the step.** Every edge recorded when node `n` runs goes from a token on one of its
input ports to a token on one of its output ports. -/
theorem node_edges_local (e : Env) (n : Node) (x : TokId × TokId) (h : x ∈ nodeProv e n) :
    x.1.1 ∈ n.ins ∧ x.2.1 ∈ n.outs :=
  nodeProv_local e n x h

/-! `exChain`: every edge of a workflow is recorded by one of its nodes, between that node's input and output ports -/
theorem prov_edges_local (sp : Spec) (x : TokId × TokId) (h : x ∈ prov sp) :
    ∃ n ∈ sp.nodes, x.1.1 ∈ n.ins ∧ x.2.1 ∈ n.outs :=
  prov_go_local (srcEnv sp) sp.nodes x h

/-! `exChain`: **The depender is a token the step emits**: the edge ends on output port number `j` of the node, at the tag
of a token in component `j` of the node's output. Holds for every step class; for a dot product the node must not
have more output than input ports (the combinator emits one output per input). -/
theorem node_edges_target_emitted (e : Env) (n : Node) (hd : n.isDot = true → n.outs.length ≤ n.ins.length)
    (x : TokId × TokId) (h : x ∈ nodeProv e n) :
    ∃ j : Nat, n.outs[j]? = some x.2.1 ∧ ∃ t ∈ (nodeOut e n)[j]?.getD [], t.tag = x.2.2 :=
  nodeProv_target e n hd x h

/-! `exChain`: **The dependee is a token present on the input port**, with one exception stated explicitly: the edge from
the size port that a gather records for every list it emits. For a forced gather (termination before the size
token of the key arrived) the engine creates and saves that size token itself, so the edge exists although the
size port holds no such token. -/
theorem node_edges_source_present (e : Env) (n : Node) (x : TokId × TokId) (h : x ∈ nodeProv e n) :
    (∃ t ∈ e.get x.1.1, t.tag = x.1.2) ∨
      ∃ inp size out d, n = .gather inp size out d ∧ x = ((size, x.2.2), (out, x.2.2)) :=
  nodeProv_source e n x h

/-! `exChain`: the exception is real: a gather with one element and an empty size port records an edge from the size port -/
theorem node_edges_source_present_false :
    ¬ ∀ (e : Env) (n : Node) (x : TokId × TokId), x ∈ nodeProv e n → ∃ t ∈ e.get x.1.1, t.tag = x.1.2 := by
  intro h
  obtain ⟨t, ht, _⟩ := h ⟨fun p => if p = 0 then [{ tag := [0, 0], val := .int 1 }] else []⟩ (.gather 0 1 2 1)
    ((1, [0]), (2, [0])) (by decide)
  cases ht

/-! `exChain`: **Completeness.** Every token emitted by a node of any class except the exec pipeline (whose internal ports
are not part of the model) has at least one incoming edge. For a transformer or conditional without input ports
nothing is emitted. -/
theorem prov_complete (e : Env) (n : Node) (hn : n.isExec = false) (j o : Nat) (ho : n.outs[j]? = some o)
    (t : Tok) (ht : t ∈ (nodeOut e n)[j]?.getD []) : ∃ x ∈ nodeProv e n, x.2 = (o, t.tag) :=
  nodeProv_complete e n hn j o ho t ht

/-! `exChain`: **Exactly the consumed inputs (transformer).** The dependees of the token tagged `k` on output port `o` are
exactly the tokens tagged `k` on the input ports, and there are any only if such a token is emitted. -/
theorem tf_dependees_exact (e : Env) (fn : Fn) (ins outs : List Nat) (d : TokId) (o : Nat) (k : Tag) :
    (d, (o, k)) ∈ nodeProv e (.tf fn ins outs) ↔
      (∃ q ∈ ins, d = (q, k)) ∧
        ∃ j : Nat, outs[j]? = some o ∧ ∃ t ∈ (nodeOut e (.tf fn ins outs))[j]?.getD [], t.tag = k :=
  groupProv_dependees

/-! `exChain`: the same for a conditional step -/
theorem cond_dependees_exact (e : Env) (m r : Nat) (z : Bool) (ins outs : List Nat) (d : TokId) (o : Nat)
    (k : Tag) :
    (d, (o, k)) ∈ nodeProv e (.cond m r z ins outs) ↔
      (∃ q ∈ ins, d = (q, k)) ∧
        ∃ j : Nat, outs[j]? = some o ∧ ∃ t ∈ (nodeOut e (.cond m r z ins outs))[j]?.getD [], t.tag = k :=
  groupProv_dependees

/-! `exChain`: **Exactly the consumed inputs (gather).** The dependees of the list emitted for key `k` are the size token of
`k` and the elements whose tag has key `k`. -/
theorem gather_dependees_exact (e : Env) (inp size out d : Nat) (x : TokId) (k : Tag) :
    (x, (out, k)) ∈ nodeProv e (.gather inp size out d) ↔
      (∃ g ∈ gatherOut (e.get inp) (e.get size) d, g.tag = k) ∧
      (x = (size, k) ∨ ∃ t ∈ e.get inp, (d < t.tag.length ∧ gatherKey d t.tag = k) ∧ x = (inp, t.tag)) :=
  gather_dependees

/-! `exChain`: **The edges of a workflow** are the edges its nodes record on the final port contents `den sp`. -/
theorem prov_edges_of_nodes (sp : Spec) (hwf : wfStruct sp = true) (x : TokId × TokId) :
    x ∈ prov sp ↔ ∃ n ∈ sp.nodes, x ∈ nodeProv (den sp) n :=
  prov_mem_iff sp hwf x

/-! `exChain`: every edge of a workflow ends at a token of the final state -/
theorem prov_target_in_den (sp : Spec) (hwf : wfStruct sp = true)
    (hd : ∀ n ∈ sp.nodes, n.isDot = true → n.outs.length ≤ n.ins.length) (x : TokId × TokId) (hx : x ∈ prov sp) :
    ∃ t ∈ (den sp).get x.2.1, t.tag = x.2.2 :=
  prov_target_den sp hwf hd x hx

/-! `exChain`: every edge of a workflow starts at a token of the final state, or is the size edge of a gather -/
theorem prov_source_in_den (sp : Spec) (hwf : wfStruct sp = true) (x : TokId × TokId) (hx : x ∈ prov sp) :
    (∃ t ∈ (den sp).get x.1.1, t.tag = x.1.2) ∨ ∃ n ∈ sp.nodes, IsGatherSizeEdge n x :=
  prov_source_den sp hwf x hx

/-! `exChain`: **Completeness for a workflow.** Every token of the final state sits on a source or closed port, or on the
output of an exec pipeline, or has an incoming provenance edge. -/
theorem prov_complete_den (sp : Spec) (hwf : wfStruct sp = true) (p : Nat) (t : Tok) (ht : t ∈ (den sp).get p) :
    p ∈ sp.srcPorts ∨ (∃ n ∈ sp.nodes, n.isExec = true ∧ p ∈ n.outs) ∨ ∃ x ∈ prov sp, x.2 = (p, t.tag) :=
  den_token_has_edge sp hwf p t ht

/-! `exChain`: **Edges follow the topological order of the ports**: `rank sp p` is 0 for ports that no node writes and
`i + 1` for the outputs of node number `i`; the dependee of every edge lives on a port of strictly smaller rank
than the depender. -/
theorem prov_ports_acyclic (sp : Spec) (hwf : wfStruct sp = true) (x : TokId × TokId) (hx : x ∈ prov sp) :
    rank sp x.1.1 < rank sp x.2.1 :=
  prov_go_rank (structOk_of_wfStruct sp hwf) (srcEnv sp) 0 x hx

/-! `exChain`: what `rank` is: it is 0 for ports no node writes, and a positive rank `i + 1` names node number `i`,
which writes the port -/
theorem rank_spec (sp : Spec) (p : Nat) :
    ((∀ n ∈ sp.nodes, p ∉ n.outs) → rank sp p = 0) ∧
      (rank sp p ≠ 0 → ∃ (i : Nat) (n : Node), rank sp p = i + 1 ∧ sp.nodes[i]? = some n ∧ p ∈ n.outs) := by
  refine ⟨rankGo_eq_zero 0 sp.nodes p, fun h => ?_⟩
  obtain ⟨i, n, h1, h2, h3⟩ := rankGo_pos_idx 0 sp.nodes p h
  exact ⟨i, n, by rw [rank, h1]; omega, h2, h3⟩

/-! `exChain`: ranks increase along every path of provenance edges -/
theorem prov_path_rank (sp : Spec) (hwf : wfStruct sp = true) (a b : TokId) (p : TokPath (prov sp) a b) :
    rank sp a.1 < rank sp b.1 :=
  tokPath_rank_lt (rank sp) (prov_ports_acyclic sp hwf) p

/-! `exChain`: **The recorded provenance relation is acyclic**: no token depends, transitively, on itself. -/
theorem prov_tokens_acyclic (sp : Spec) (hwf : wfStruct sp = true) (a : TokId) : ¬ TokPath (prov sp) a a :=
  fun p => Nat.lt_irrefl _ (prov_path_rank sp hwf a a p)

/-! ## Examples (the workflows `exChain`, `exForced`, `exDotProv` are defined in `SFV/Lemmas/NetProv.lean`) -/

/-- `exChain`: source list → scatter → transformer → gather -/
example : wfStruct exChain = true := by decide

/-- all edges of the chain: the scatter links every element and the size token to the list, the transformer
links tag by tag, the gather links the list to the size token and to every element -/
example : prov exChain =
    [((0, [0]), (1, [0, 0])), ((0, [0]), (1, [0, 1])), ((0, [0]), (1, [0, 2])), ((0, [0]), (2, [0])),
     ((1, [0, 0]), (3, [0, 0])), ((1, [0, 1]), (3, [0, 1])), ((1, [0, 2]), (3, [0, 2])),
     ((2, [0]), (4, [0])), ((3, [0, 0]), (4, [0])), ((3, [0, 1]), (4, [0])), ((3, [0, 2]), (4, [0]))] := by
  decide

/-- ranks of the ports 0 … 4 of the chain -/
example : (List.range 5).map (rank exChain) = [0, 1, 1, 2, 3] := by decide

example (a : TokId) : ¬ TokPath (prov exChain) a a := prov_tokens_acyclic exChain (by decide) a

/-- every token on the gather's output port 4 has an incoming edge -/
example (t : Tok) (ht : t ∈ (den exChain).get 4) : ∃ x ∈ prov exChain, x.2 = (4, t.tag) := by
  have hex : ∀ n ∈ exChain.nodes, n.isExec = false := by decide
  rcases prov_complete_den exChain (by decide) 4 t ht with h | ⟨n, hn, he, _⟩ | h
  · exact absurd h (by decide)
  · rw [hex n hn] at he; cases he
  · exact h

/-- `exForced`, a forced gather: the size port 5 is closed and stays empty, the edge from it is recorded all the
same -/
example : wfStruct exForced = true := by decide

example : ((5, [0]), (6, [0])) ∈ prov exForced ∧ (den exForced).get 5 = [] := by decide

/-- `exDotProv`, dot product of two branches: the hypotheses of `prov_target_in_den` hold -/
example : wfStruct exDotProv = true ∧
    ∀ n ∈ exDotProv.nodes, n.isDot = true → n.outs.length ≤ n.ins.length := by decide

/-- every combination is linked to one token per input port, on both outputs -/
example : (prov exDotProv).filter (fun x => x.2.1 == 5 || x.2.1 == 6) =
    [((3, [0, 0]), (5, [0, 0])), ((4, [0, 0]), (5, [0, 0])), ((3, [0, 0]), (6, [0, 0])), ((4, [0, 0]), (6, [0, 0])),
     ((3, [0, 1]), (5, [0, 1])), ((4, [0, 1]), (5, [0, 1])), ((3, [0, 1]), (6, [0, 1])), ((4, [0, 1]), (6, [0, 1]))] := by
  decide

end SFV.C07
