import SFV.Model.Sched
import SFV.Lemmas.HW
import SFV.Lemmas.Ledger
/-! Whole-run link between the Hardware-level scheduler model (`Sched`, the one compared with the real code) and the
per-component bookkeeping (`Ledger`, the subject of the invariant theorems of C10/C11), for the components cores and
memory on *flat* configurations (every available location is a hardware location without inner levels; single- and
multi-location targets): every non-raising step of `Sched` is a step of `Ledger` under the simulation relation `Rel`. -/
namespace SFV.Refine
open SFV.HW SFV.Sched SFV.Gen.Sched

/-! ### association lists -/
theorem get_set_eq {κ β} [DecidableEq κ] (l : List (κ × β)) (k : κ) (v : β) : assocGet (assocSet l k v) k = some v := by
  induction l with
  | nil => simp [assocSet, assocGet]
  | cons a l ih =>
    obtain ⟨k', w⟩ := a
    by_cases h : k' = k
    · simp [assocSet, assocGet, h]
    · simp [assocSet, assocGet, h, ih]

theorem get_set_ne {κ β} [DecidableEq κ] (l : List (κ × β)) (k k' : κ) (v : β) (hne : k' ≠ k) :
    assocGet (assocSet l k v) k' = assocGet l k' := by
  induction l with
  | nil => simp [assocSet, assocGet, Ne.symm hne]
  | cons a l ih =>
    obtain ⟨k0, w⟩ := a
    by_cases h : k0 = k
    · subst h; simp [assocSet, assocGet, Ne.symm hne]
    · by_cases h' : k0 = k'
      · subst h'; simp [assocSet, assocGet, h]
      · simp [assocSet, assocGet, h, h', ih]

/-- a numeric component of `Hardware` that the operators treat additively (cores, memory) -/
structure Comp where
  get : Hardware → Rat
  add : ∀ a b r, a.add b = .ok r → get r = get a + get b
  sub : ∀ a b r, a.sub b = .ok r → get r = get a - get b
  norm : ∀ h n, h.normalized = .ok n → get n = get h
  mk0 : ∀ st, get (mkHardware 0 0 st) = 0
  mkh : ∀ (h : Hardware) st, get (mkHardware h.cores h.memory st) = get h
  sat : ∀ f r, f.satisfies r = .ok true → get r ≤ get f

theorem satisfies_true_guard (f r : Hardware) (h : f.satisfies r = .ok true) :
    r.cores ≤ f.cores ∧ r.memory ≤ f.memory := by
  unfold Hardware.satisfies coresMemoryOk at h
  by_cases hg : (decide (f.cores ≥ r.cores) && decide (f.memory ≥ r.memory)) = true
  · simpa using hg
  · simp only [hg] at h; cases h

def coresComp : Comp where
  get := fun h => h.cores
  add := fun a b r h => (add_totals_lem a b r h).1
  sub := fun a b r h => (HW.sub_totals h).1
  norm := fun h n hn => by
    simp only [Hardware.normalized, bind_eq_ok] at hn
    obtain ⟨st, _, e⟩ := hn; cases e; rfl
  mk0 := fun st => rfl
  mkh := fun h st => rfl
  sat := fun f r h => (satisfies_true_guard f r h).1

def memoryComp : Comp where
  get := fun h => h.memory
  add := fun a b r h => (add_totals_lem a b r h).2.1
  sub := fun a b r h => (HW.sub_totals h).2.1
  norm := fun h n hn => by
    simp only [Hardware.normalized, bind_eq_ok] at hn
    obtain ⟨st, _, e⟩ := hn; cases e; rfl
  mk0 := fun st => rfl
  mkh := fun h st => rfl
  sat := fun f r h => (satisfies_true_guard f r h).2

/-- the entries a flat allocation gives the ledger: one per selected location, the component of the requirement -/
def flatEntries (v : Rat) (sel : List Stack) : List (Nat × Rat) :=
  sel.filterMap (fun st => st.head?.map (fun lvl => (lvl.name, v)))

theorem reservedOf_set_eq (s : St) (name : Nat) (r : Hardware) (lj : List (LocKey × List Nat)) :
    reservedOf { s with locJobs := lj, reserved := assocSet s.reserved name r } name = r := by
  simp [reservedOf, get_set_eq]

theorem reservedOf_set_ne (s : St) (name ℓ : Nat) (r : Hardware) (lj : List (LocKey × List Nat)) (h : ℓ ≠ name) :
    reservedOf { s with locJobs := lj, reserved := assocSet s.reserved name r } ℓ = reservedOf s ℓ := by
  simp [reservedOf, get_set_ne _ _ _ _ h]

/-- effect of `_allocate_job`'s loops on flat selected locations whose requirement has component `v` -/
theorem allocStacks_effect (c : Comp) (reqs : List (LocKey × Hardware)) (job : Nat) (v : Rat) (sel : List Stack) (s s' : St)
    (hflat : ∀ st ∈ sel, ∃ lvl h, st = [lvl] ∧ assocGet reqs (lvl.dep, lvl.name) = some h ∧ c.get h = v)
    (hres : allocStacks reqs job sel s = (s', none)) :
    s'.jobs = s.jobs ∧
    (∀ ℓ, c.get (reservedOf s' ℓ) = c.get (reservedOf s ℓ) + Ledger.amountAt (flatEntries v sel) ℓ) ∧
    (∀ ℓ, (assocGet s.reserved ℓ).isSome → (assocGet s'.reserved ℓ).isSome) ∧
    (∀ st ∈ sel, ∀ lvl, st = [lvl] → (assocGet s'.reserved lvl.name).isSome) := by
  induction sel generalizing s with
  | nil =>
    simp only [allocStacks, Prod.mk.injEq] at hres
    obtain ⟨rfl, _⟩ := hres
    exact ⟨rfl, fun ℓ => by simp [flatEntries, Ledger.amountAt]; grind, fun _ h => h, by simp⟩
  | cons st rest ih =>
    obtain ⟨lvl, h, rfl, hq, hv⟩ := hflat _ (List.mem_cons_self ..)
    simp only [allocStacks] at hres
    -- one level
    have hone : ∃ r, allocLevels reqs job [lvl] s =
        ({ s with locJobs := appendJob s.locJobs (lvl.dep, lvl.name) job, reserved := assocSet s.reserved lvl.name r }, none) ∧
        c.get r = c.get (reservedOf s lvl.name) + v := by
      simp only [allocLevels, hq]
      cases hc : assocGet s.reserved lvl.name with
      | none =>
        simp only []
        cases hn : h.normalized with
        | error e => simp [allocLevels, hq, hc, hn] at hres
        | ok r =>
          refine ⟨r, rfl, ?_⟩
          rw [c.norm h r hn, hv]
          simp only [reservedOf, hc, Option.getD_none, Hardware.empty, c.mk0]; grind
      | some cur =>
        simp only []
        cases ha : cur.add h with
        | error e => simp [allocLevels, hq, hc, ha] at hres
        | ok r =>
          refine ⟨r, rfl, ?_⟩
          rw [c.add cur h r ha, hv]
          simp [reservedOf, hc]
    obtain ⟨r, hal, hr⟩ := hone
    rw [hal] at hres
    simp only at hres
    obtain ⟨hj, hsum, hkeep, hnew⟩ := ih _ (fun st hst => hflat st (List.mem_cons_of_mem _ hst)) hres
    refine ⟨hj, fun ℓ => ?_, fun ℓ hℓ => ?_, fun st hst lvl' e => ?_⟩
    · rw [hsum ℓ]
      simp only [flatEntries, List.filterMap_cons, List.head?_cons, Option.map_some, Ledger.amountAt]
      by_cases e : lvl.name = ℓ
      · subst e; rw [reservedOf_set_eq, hr]; simp; grind
      · rw [reservedOf_set_ne _ _ _ _ _ (fun x => e x.symm)]; simp [e]; grind
    · apply hkeep
      by_cases e : ℓ = lvl.name
      · subst e; simp [get_set_eq]
      · simp only [get_set_ne _ _ _ _ e]; exact hℓ
    · rcases List.mem_cons.mp hst with e' | e'
      · subst e'; cases e
        apply hkeep; simp [get_set_eq]
      · exact hnew st e' lvl' e

/-! ### release -/

def levelEntries (v : Rat) (tops : List Level) : List (Nat × Rat) := tops.map (fun lvl => (lvl.name, v))

theorem freeLevel_effect (c : Comp) (env : Env) (hw : Hardware) (tops : List Level) (s s' : St)
    (hbooks : ∀ lvl ∈ tops, (assocGet s.reserved lvl.name).isSome)
    (hres : freeLevel env hw tops s = (s', none)) :
    s'.jobs = s.jobs ∧ s'.locJobs = s.locJobs ∧
    (∀ ℓ, c.get (reservedOf s' ℓ) = c.get (reservedOf s ℓ) - Ledger.amountAt (levelEntries (c.get hw) tops) ℓ) ∧
    (∀ ℓ, (assocGet s.reserved ℓ).isSome → (assocGet s'.reserved ℓ).isSome) := by
  induction tops generalizing s with
  | nil =>
    simp only [freeLevel, Prod.mk.injEq] at hres
    obtain ⟨rfl, _⟩ := hres
    exact ⟨rfl, rfl, fun ℓ => by simp [levelEntries, Ledger.amountAt]; grind, fun _ h => h⟩
  | cons lvl rest ih =>
    have hb := hbooks lvl (List.mem_cons_self ..)
    cases hc : assocGet s.reserved lvl.name with
    | none => simp [hc] at hb
    | some cur =>
      simp only [freeLevel, hc] at hres
      cases hu : (if probeFails env lvl.dep hw.storage then Except.ok [] else usageDisks env lvl.dep hw.storage) with
      | error e => simp only [hu] at hres; cases hres
      | ok ust =>
        simp only [hu] at hres
        cases hr : (cur.sub hw >>= fun d => d.add (mkHardware 0 0 ust)) with
        | error e => simp only [hr] at hres; cases hres
        | ok r =>
          simp only [hr] at hres
          obtain ⟨d, hd, hadd⟩ := (bind_eq_ok _ _ _).mp hr
          have hrv : c.get r = c.get cur - c.get hw := by
            rw [c.add d _ r hadd, c.sub cur hw d hd, c.mk0]; grind
          have hkeep0 : ∀ ℓ, (assocGet s.reserved ℓ).isSome → (assocGet (assocSet s.reserved lvl.name r) ℓ).isSome := by
            intro ℓ hℓ
            by_cases e : ℓ = lvl.name
            · subst e; simp [get_set_eq]
            · simp only [get_set_ne _ _ _ _ e]; exact hℓ
          obtain ⟨hj, hl, hsum, hkeep⟩ := ih { s with reserved := assocSet s.reserved lvl.name r }
            (fun l hl => hkeep0 _ (hbooks l (List.mem_cons_of_mem _ hl))) hres
          refine ⟨hj, hl, fun ℓ => ?_, fun ℓ hℓ => hkeep ℓ (hkeep0 ℓ hℓ)⟩
          rw [hsum ℓ]
          simp only [levelEntries, List.map_cons, Ledger.amountAt]
          by_cases e : lvl.name = ℓ
          · subst e
            have : reservedOf { s with reserved := assocSet s.reserved lvl.name r } lvl.name = r := by simp [reservedOf, get_set_eq]
            rw [this, hrv]; simp [reservedOf, hc]; grind
          · have : reservedOf { s with reserved := assocSet s.reserved lvl.name r } ℓ = reservedOf s ℓ := by
              simp [reservedOf, get_set_ne _ _ _ _ (fun x : ℓ = lvl.name => e x.symm)]
            rw [this]; simp [e]; grind

/-- `_free_resources` on an allocation whose locations have no inner levels -/
theorem freeResources_flat (c : Comp) (env : Env) (a : JobAlloc) (s s' : St)
    (hflat : ∀ st ∈ a.locations, ∃ lvl, st = [lvl] ∧ (assocGet s.reserved lvl.name).isSome)
    (hres : freeResources env a s = (s', none)) :
    s'.jobs = s.jobs ∧ s'.locJobs = s.locJobs ∧
    (∀ ℓ, c.get (reservedOf s' ℓ) = c.get (reservedOf s ℓ) - Ledger.amountAt (flatEntries (c.get a.hardware) a.locations) ℓ) ∧
    (∀ ℓ, (assocGet s.reserved ℓ).isSome → (assocGet s'.reserved ℓ).isSome) := by
  unfold freeResources at hres
  simp only [freeLoop] at hres
  have htops : ∀ lvl ∈ a.locations.filterMap List.head?, (assocGet s.reserved lvl.name).isSome := by
    intro lvl hl
    simp only [List.mem_filterMap] at hl
    obtain ⟨st, hst, hh⟩ := hl
    obtain ⟨l', rfl, hb⟩ := hflat st hst
    simp at hh; subst hh; exact hb
  have hentries : ∀ v, levelEntries v (a.locations.filterMap List.head?) = flatEntries v a.locations := by
    intro v
    simp only [levelEntries, flatEntries, List.map_filterMap]
  by_cases hemp : (a.locations.filterMap List.head?).isEmpty = true
  · simp only [hemp, if_true, Prod.mk.injEq] at hres
    obtain ⟨rfl, _⟩ := hres
    have : a.locations.filterMap List.head? = [] := by simpa using hemp
    refine ⟨rfl, rfl, fun ℓ => ?_, fun _ h => h⟩
    rw [← hentries, this]; simp [levelEntries, Ledger.amountAt]; grind
  · simp only [hemp] at hres
    cases hn : (if a.hardware.isNormalized then Except.ok a.hardware else a.hardware.normalized) with
    | error e => simp [hn] at hres
    | ok hw =>
      have hv : c.get hw = c.get a.hardware := by
        by_cases hi : a.hardware.isNormalized = true
        · simp only [hi, if_true, Except.ok.injEq] at hn; rw [← hn]
        · simp only [hi] at hn; exact c.norm _ _ hn
      simp only [hn] at hres
      cases hf : freeLevel env hw (a.locations.filterMap List.head?) s with
      | mk s1 err =>
        simp only [hf] at hres
        cases err with
        | some e => simp at hres
        | none =>
          have hbelow : ((a.locations.map List.tail).filter (fun st => !st.isEmpty)) = [] := by
            apply List.filter_eq_nil_iff.mpr
            intro st hst
            simp only [List.mem_map] at hst
            obtain ⟨st0, hst0, rfl⟩ := hst
            obtain ⟨l', rfl, _⟩ := hflat st0 hst0
            simp
          simp only [hbelow, List.isEmpty_nil, if_true, Prod.mk.injEq] at hres
          obtain ⟨rfl, _⟩ := hres
          have := freeLevel_effect c env hw _ s _ htops hf
          rw [hentries, hv] at this
          exact this

/-! ### the simulation relation -/

def entriesOf (c : Comp) (a : JobAlloc) : List (Nat × Rat) := flatEntries (c.get a.hardware) a.locations

structure Rel (c : Comp) (s : St) (L : Ledger.St) : Prop where
  reserved : ∀ ℓ, L.reserved ℓ = c.get (reservedOf s ℓ)
  ids : ∀ j, j ∈ L.ids ↔ (assocGet s.jobs j).isSome
  jobs : ∀ j a, assocGet s.jobs j = some a → L.status j = a.status ∧ L.alloc j = entriesOf c a
  flat : ∀ j a, assocGet s.jobs j = some a →
    ∀ st ∈ a.locations, ∃ lvl, st = [lvl] ∧ (assocGet s.reserved lvl.name).isSome

theorem rel_init (c : Comp) : Rel c {} Ledger.init :=
  ⟨fun ℓ => by simp [Ledger.init, reservedOf, assocGet, Hardware.empty, c.mk0], fun j => by simp [Ledger.init, assocGet],
   fun j a h => by simp [assocGet] at h, fun j a h => by simp [assocGet] at h⟩

theorem isSome_get_set {κ β} [DecidableEq κ] (l : List (κ × β)) (k x : κ) (v : β) :
    (assocGet (assocSet l k v) x).isSome ↔ x = k ∨ (assocGet l x).isSome := by
  by_cases e : x = k
  · subst e; simp [get_set_eq]
  · simp [get_set_ne _ _ _ _ e, e]

/-! #### fields of a ledger notification -/
theorem ledger_notify_ids (cap : Ledger.Loc → Rat) (L : Ledger.St) (j : Nat) (new : Status) (u : List (Nat × Rat)) :
    (Ledger.step cap L (.notify j new u)).ids = L.ids := by
  simp only [Ledger.step]
  by_cases hj : j ∈ L.ids <;> by_cases h1 : statusStored (L.status j) new = true <;>
    by_cases h2 : releases (L.status j) new = true <;> by_cases h3 : unlists new = true <;> simp [hj, h1, h2, h3]

theorem ledger_notify_status (cap : Ledger.Loc → Rat) (L : Ledger.St) (j : Nat) (new : Status) (u : List (Nat × Rat))
    (hj : j ∈ L.ids) :
    (Ledger.step cap L (.notify j new u)).status =
      if statusStored (L.status j) new = true then Ledger.update L.status j new else L.status := by
  simp only [Ledger.step]
  by_cases h1 : statusStored (L.status j) new = true <;>
    by_cases h2 : releases (L.status j) new = true <;> by_cases h3 : unlists new = true <;> simp [hj, h1, h2, h3]

theorem ledger_notify_alloc (cap : Ledger.Loc → Rat) (L : Ledger.St) (j : Nat) (new : Status) (u : List (Nat × Rat))
    (hj : j ∈ L.ids) :
    (Ledger.step cap L (.notify j new u)).alloc = if unlists new = true then Ledger.update L.alloc j [] else L.alloc := by
  simp only [Ledger.step]
  by_cases h1 : statusStored (L.status j) new = true <;>
    by_cases h2 : releases (L.status j) new = true <;> by_cases h3 : unlists new = true <;> simp [hj, h1, h2, h3]

theorem ledger_notify_reserved (cap : Ledger.Loc → Rat) (L : Ledger.St) (j : Nat) (new : Status) (hj : j ∈ L.ids) (ℓ : Nat) :
    (Ledger.step cap L (.notify j new [])).reserved ℓ =
      if releases (L.status j) new = true then L.reserved ℓ - Ledger.amountAt (L.alloc j) ℓ else L.reserved ℓ := by
  have hz : Ledger.amountAt (Ledger.usageAt (L.alloc j) []) ℓ = 0 := Ledger.usageAt_zero (by simp) ℓ
  simp only [Ledger.step]
  by_cases h1 : statusStored (L.status j) new = true <;>
    by_cases h2 : releases (L.status j) new = true <;> by_cases h3 : unlists new = true <;> simp [hj, h1, h2, h3, hz] <;> grind

/-- **a non-raising `notify_status` of the Hardware-level model is the ledger's notification** (component `c`, flat
    allocations) -/
theorem notify_refines (c : Comp) (cap : Ledger.Loc → Rat) (env : Env) (s s' : St) (L : Ledger.St) (j : Nat) (new : Status)
    (b : Bool) (hR : Rel c s L) (h : notify env s j new = (s', .done b)) :
    Rel c s' (Ledger.step cap L (.notify j new [])) := by
  unfold notify at h
  cases ha : assocGet s.jobs j with
  | none => simp [ha] at h
  | some a =>
    simp only [ha] at h
    obtain ⟨hst, hal⟩ := hR.jobs j a ha
    have hjL : j ∈ L.ids := (hR.ids j).mpr (by simp [ha])
    -- name the intermediate objects
    generalize ha1 : (if statusStored a.status new = true then { a with status := new } else a) = a1 at h
    have ha1loc : a1.locations = a.locations ∧ a1.hardware = a.hardware ∧
        a1.status = (if statusStored a.status new = true then new else a.status) := by
      rw [← ha1]; by_cases hs : statusStored a.status new = true <;> simp [hs]
    generalize hs1 : ({ s with jobs := assocSet s.jobs j a1 } : St) = s1 at h
    have hs1r : s1.reserved = s.reserved := by rw [← hs1]
    have hs1j : s1.jobs = assocSet s.jobs j a1 := by rw [← hs1]
    have hres1 : ∀ ℓ, reservedOf s1 ℓ = reservedOf s ℓ := by intro ℓ; simp [reservedOf, hs1r]
    -- the release
    have hrel : ∃ s2, (if releases a.status new = true then freeResources env a1 s1 else (s1, none)) = (s2, none) ∧
        s2.jobs = s1.jobs ∧
        (∀ ℓ, c.get (reservedOf s2 ℓ) = if releases a.status new = true
            then c.get (reservedOf s ℓ) - Ledger.amountAt (entriesOf c a) ℓ else c.get (reservedOf s ℓ)) ∧
        (∀ ℓ, (assocGet s.reserved ℓ).isSome → (assocGet s2.reserved ℓ).isSome) ∧
        s' = (if unlists new = true then
          { s2 with locJobs := unlist j a1.locations s2.locJobs, jobs := assocSet s2.jobs j { a1 with locations := [] } } else s2) := by
      by_cases hr : releases a.status new = true
      · simp only [hr, if_true] at h ⊢
        cases hf : freeResources env a1 s1 with
        | mk s2 err =>
          simp only [hf] at h
          cases err with
          | some e => simp at h
          | none =>
            simp only at h
            have hflat : ∀ st ∈ a1.locations, ∃ lvl, st = [lvl] ∧ (assocGet s1.reserved lvl.name).isSome := by
              rw [ha1loc.1, hs1r]; exact hR.flat j a ha
            obtain ⟨e1, _, e3, e4⟩ := freeResources_flat c env a1 s1 s2 hflat hf
            refine ⟨s2, rfl, e1, fun ℓ => ?_, fun ℓ hℓ => e4 ℓ (by rw [hs1r]; exact hℓ), ?_⟩
            · rw [e3 ℓ, hres1 ℓ]; simp only [entriesOf, ha1loc.1, ha1loc.2.1]
            · by_cases hu : unlists new = true <;> simp only [hu, if_true, Prod.mk.injEq] at h ⊢ <;> exact h.1.symm
      · have hr' : releases a.status new = false := by simpa using hr
        simp only [hr', Bool.false_eq_true, if_false] at h ⊢
        refine ⟨s1, rfl, rfl, fun ℓ => by rw [hres1 ℓ], fun ℓ hℓ => by rw [hs1r]; exact hℓ, ?_⟩
        by_cases hu : unlists new = true <;> simp only [hu, if_true, Prod.mk.injEq] at h ⊢ <;> exact h.1.symm
    obtain ⟨s2, _, hj2, hr2, hk2, hs'⟩ := hrel
    have hjobs2 : s2.jobs = assocSet s.jobs j a1 := by rw [hj2, hs1j]
    have hFr : s'.reserved = s2.reserved := by
      rw [hs']; by_cases hu : unlists new = true <;> simp [hu]
    have hFj : s'.jobs = if unlists new = true then assocSet (assocSet s.jobs j a1) j { a1 with locations := [] }
        else assocSet s.jobs j a1 := by
      rw [hs']; by_cases hu : unlists new = true <;> simp [hu, hjobs2]
    have hresF : ∀ ℓ, reservedOf s' ℓ = reservedOf s2 ℓ := by intro ℓ; simp [reservedOf, hFr]
    have hkF : ∀ ℓ, (assocGet s.reserved ℓ).isSome → (assocGet s'.reserved ℓ).isSome := by
      intro ℓ hℓ; rw [hFr]; exact hk2 ℓ hℓ
    have hsome : (assocGet s.jobs j).isSome := by simp [ha]
    -- what the final job table holds
    have hgetj : assocGet s'.jobs j = some (if unlists new = true then { a1 with locations := [] } else a1) := by
      rw [hFj]; by_cases hu : unlists new = true <;> simp [hu, get_set_eq]
    have hgetk : ∀ k, k ≠ j → assocGet s'.jobs k = assocGet s.jobs k := by
      intro k e; rw [hFj]; by_cases hu : unlists new = true <;> simp [hu, get_set_ne _ _ _ _ e]
    clear hs'
    refine ⟨fun ℓ => ?_, fun k => ?_, fun k ak hk => ?_, fun k ak hk st hst => ?_⟩
    · rw [ledger_notify_reserved cap L j new hjL ℓ, hst, hal, hR.reserved ℓ, hresF ℓ, hr2 ℓ]
    · rw [ledger_notify_ids, hR.ids k]
      by_cases e : k = j
      · subst e; simp [hgetj, hsome]
      · rw [hgetk k e]
    · rw [ledger_notify_status cap L j new [] hjL, ledger_notify_alloc cap L j new [] hjL, hst]
      by_cases e : k = j
      · subst e
        rw [hgetj] at hk
        simp only [Option.some.injEq] at hk
        subst hk
        by_cases hu : unlists new = true
        · refine ⟨?_, by simp [hu, Ledger.update, entriesOf, flatEntries]⟩
          have hs1st := ha1loc.2.2
          by_cases hs : statusStored a.status new = true <;> simp [hu, hs, Ledger.update, hst, hs1st]
        · refine ⟨?_, by simp [hu, hal, entriesOf, ha1loc.1, ha1loc.2.1]⟩
          have hs1st := ha1loc.2.2
          by_cases hs : statusStored a.status new = true <;> simp [hu, hs, Ledger.update, hst, hs1st]
      · rw [hgetk k e] at hk
        obtain ⟨h1, h2⟩ := hR.jobs k ak hk
        refine ⟨?_, ?_⟩
        · by_cases hs : statusStored a.status new = true <;> simp [hs, Ledger.update, e, h1]
        · by_cases hu : unlists new = true <;> simp [hu, Ledger.update, e, h2]
    · by_cases e : k = j
      · subst e
        rw [hgetj] at hk
        simp only [Option.some.injEq] at hk
        subst hk
        by_cases hu : unlists new = true
        · simp [hu] at hst
        · simp [hu] at hst
          rw [ha1loc.1] at hst
          obtain ⟨lvl, e1, e2⟩ := hR.flat k a ha st hst
          exact ⟨lvl, e1, hkF _ e2⟩
      · rw [hgetk k e] at hk
        obtain ⟨lvl, e1, e2⟩ := hR.flat k ak hk st hst
        exact ⟨lvl, e1, hkF _ e2⟩

/-! ### allocation -/

def keyOf : Stack → LocKey
  | [] => (0, 0)
  | lvl :: _ => (lvl.dep, lvl.name)

/-- on flat hardware locations with distinct keys every location gets its own resolved requirement, whose component
    is the job's (no merging happens) -/
theorem resolveAll_flat (c : Comp) (env : Env) (req : Hardware) (avail : List Stack) (acc reqs : List (LocKey × Hardware))
    (hflat : ∀ st ∈ avail, ∃ lvl cp, st = [lvl] ∧ lvl.hardware = some cp)
    (hnd : (avail.map keyOf).Nodup) (hfresh : ∀ st ∈ avail, assocGet acc (keyOf st) = none)
    (h : resolveAll env req avail acc = .ok reqs) :
    (∀ st ∈ avail, ∃ hq, assocGet reqs (keyOf st) = some hq ∧ c.get hq = c.get req) ∧
    (∀ k v, assocGet acc k = some v → assocGet reqs k = some v) := by
  induction avail generalizing acc with
  | nil => simp only [resolveAll] at h; cases h; exact ⟨by simp, fun k v hk => hk⟩
  | cons st rest ih =>
    obtain ⟨lvl, cp, rfl, hcp⟩ := hflat _ (List.mem_cons_self ..)
    simp only [resolveAll, resolve, resolveLevel, hcp, bind_eq_ok] at h
    obtain ⟨r, hr, acc', hm, hrest⟩ := h
    obtain ⟨cur, hcur, e⟩ := hr
    simp only [pure, Except.pure, Except.ok.injEq] at e
    subst e
    obtain ⟨stg, _, e⟩ := hcur
    simp only [pure, Except.pure, Except.ok.injEq] at e
    subst e
    have hnone : assocGet acc (lvl.dep, lvl.name) = none := hfresh [lvl] (List.mem_cons_self ..)
    simp only [mergeReqs, hnone] at hm
    simp only [Except.ok.injEq] at hm
    subst hm
    simp only [List.map_cons, List.nodup_cons] at hnd
    have hfresh' : ∀ st ∈ rest, assocGet (assocSet acc (lvl.dep, lvl.name) (mkHardware req.cores req.memory stg)) (keyOf st) = none := by
      intro st hst
      have hne : keyOf st ≠ (lvl.dep, lvl.name) := fun e => hnd.1 (by
        have : keyOf [lvl] = keyOf st := e.symm
        rw [this]; exact List.mem_map_of_mem hst)
      rw [get_set_ne _ _ _ _ hne]; exact hfresh st (List.mem_cons_of_mem _ hst)
    obtain ⟨h1, h2⟩ := ih _ (fun st hst => hflat st (List.mem_cons_of_mem _ hst)) hnd.2 hfresh' hrest
    refine ⟨fun st hst => ?_, fun k v hk => ?_⟩
    · rcases List.mem_cons.mp hst with e | e
      · subst e
        exact ⟨_, h2 _ _ (get_set_eq _ _ _), c.mkh req stg⟩
      · exact h1 st e
    · apply h2
      by_cases e : k = (lvl.dep, lvl.name)
      · subst e; rw [hnone] at hk; cases hk
      · rw [get_set_ne _ _ _ _ e]; exact hk

theorem validStacks_spec (s : St) (reqs : List (LocKey × Hardware)) (step : Nat) (tag : Tag) (avail valid : List Stack)
    (h : validStacks s reqs step tag avail = .ok valid) :
    ∀ st ∈ valid, st ∈ avail ∧ isValid s reqs step tag st = .ok true := by
  induction avail generalizing valid with
  | nil => simp only [validStacks] at h; cases h; simp
  | cons a rest ih =>
    simp only [validStacks, bind_eq_ok] at h
    obtain ⟨ok, hok, r, hr, e⟩ := h
    simp only [pure, Except.pure, Except.ok.injEq] at e
    subst e
    intro st hst
    cases ok with
    | false =>
      simp only [Bool.false_eq_true, if_false] at hst
      obtain ⟨h1, h2⟩ := ih r hr st hst
      exact ⟨List.mem_cons_of_mem _ h1, h2⟩
    | true =>
      simp only [if_true] at hst
      rcases List.mem_cons.mp hst with e | e
      · subst e; exact ⟨List.mem_cons_self .., hok⟩
      · obtain ⟨h1, h2⟩ := ih r hr st e
        exact ⟨List.mem_cons_of_mem _ h1, h2⟩

theorem validStacks_sublist (s : St) (reqs : List (LocKey × Hardware)) (step : Nat) (tag : Tag) (avail valid : List Stack)
    (h : validStacks s reqs step tag avail = .ok valid) : valid.Sublist avail := by
  induction avail generalizing valid with
  | nil => simp only [validStacks] at h; cases h; exact List.Sublist.refl _
  | cons a rest ih =>
    simp only [validStacks, bind_eq_ok] at h
    obtain ⟨ok, _, r, hr, e⟩ := h
    simp only [pure, Except.pure, Except.ok.injEq] at e
    subst e
    cases ok with
    | false => exact List.Sublist.cons _ (ih r hr)
    | true => exact List.Sublist.cons_cons _ (ih r hr)

/-- `_is_valid` on a flat hardware location bounds the component -/
theorem isValid_flat_bound (c : Comp) (s : St) (reqs : List (LocKey × Hardware)) (step : Nat) (tag : Tag) (lvl : Level)
    (cp hq : Hardware) (hcp : lvl.hardware = some cp) (hreq : assocGet reqs (lvl.dep, lvl.name) = some hq)
    (h : isValid s reqs step tag [lvl] = .ok true) : c.get (reservedOf s lvl.name) + c.get hq ≤ c.get cp := by
  simp only [isValid, hreq, hcp] at h
  cases h1 : cp.sub (reservedOf s lvl.name) with
  | error e => simp [liftHW, h1, bind, Except.bind] at h
  | ok free =>
    cases h2 : free.satisfies hq with
    | error e => simp [liftHW, h1, h2, bind, Except.bind] at h
    | ok b =>
      cases b with
      | false => simp [liftHW, h1, h2, bind, Except.bind, pure, Except.pure] at h
      | true =>
        have := c.sat free hq h2
        rw [c.sub cp _ free h1] at this
        grind

/-- **a successful pass of `_process_target` in the Hardware-level model is the ledger's guarded allocation**
    (component `c`; every available location of the target is a hardware location without inner levels, keys
    distinct; any number of requested locations) -/
theorem tryAllocate_refines (c : Comp) (cap : Ledger.Loc → Rat) (env : Env) (s s' : St) (L : Ledger.St)
    (job step : Nat) (tag : Tag) (req : Hardware) (target wanted : Nat) (avail : List Stack) (names : List Nat)
    (hR : Rel c s L)
    (havail : ∀ st ∈ avail, ∃ lvl cp, st = [lvl] ∧ lvl.hardware = some cp ∧ c.get cp = cap lvl.name)
    (hnd : (avail.map keyOf).Nodup)
    (h : tryAllocate env s job step tag req target wanted avail = (s', .allocated names)) :
    ∃ entries, (entries.all fun e => decide (L.reserved e.1 + e.2 ≤ cap e.1)) = true ∧ (∀ e ∈ entries, e.2 = c.get req) ∧
      ((avail.filterMap (fun st => st.head?.map (·.name))).Nodup → (entries.map (·.1)).Nodup) ∧
      Rel c s' (Ledger.step cap L (.allocate job entries)) := by
  unfold tryAllocate at h
  cases hra : resolveAll env req avail [] with
  | error e => simp [hra] at h
  | ok reqs =>
    simp only [hra] at h
    cases hvs : validStacks s reqs step tag avail with
    | error e => simp [hvs] at h
    | ok valid =>
      simp only [hvs] at h
      by_cases hen : enoughLocations valid.length wanted = true
      case neg => simp [hen] at h
      simp only [hen, if_true] at h
      generalize hsel : (if valid.length = wanted then valid else valid.take wanted) = selected at h
      by_cases hemp : selected.isEmpty = true
      · simp [hemp] at h
      simp only [hemp] at h
      cases haj : allocateJob s reqs job step tag target selected with
      | mk s1 err =>
        simp only [haj] at h
        cases err with
        | some e => simp at h
        | none =>
          simp only [Prod.mk.injEq] at h
          obtain ⟨rfl, _⟩ := h
          -- facts about the selected locations
          obtain ⟨hreqs, _⟩ := resolveAll_flat c env req avail [] reqs
            (fun st hst => by obtain ⟨l, cp, a, b, _⟩ := havail st hst; exact ⟨l, cp, a, b⟩) hnd (fun _ _ => rfl) hra
          have hvalid := validStacks_spec s reqs step tag avail valid hvs
          have hselmem : ∀ st ∈ selected, st ∈ valid := by
            intro st hst
            rw [← hsel] at hst
            by_cases hl : valid.length = wanted
            · simpa [hl] using hst
            · simp only [hl, if_false] at hst; exact List.mem_of_mem_take hst
          have hfacts : ∀ st ∈ selected, ∃ lvl cp hq, st = [lvl] ∧ lvl.hardware = some cp ∧ c.get cp = cap lvl.name ∧
              assocGet reqs (lvl.dep, lvl.name) = some hq ∧ c.get hq = c.get req ∧ isValid s reqs step tag [lvl] = .ok true := by
            intro st hst
            obtain ⟨hav, hiv⟩ := hvalid st (hselmem st hst)
            obtain ⟨lvl, cp, rfl, h1, h2⟩ := havail st hav
            obtain ⟨hq, h3, h4⟩ := hreqs _ hav
            exact ⟨lvl, cp, hq, rfl, h1, h2, h3, h4, hiv⟩
          have hsub : selected.Sublist avail := by
            have h1 : selected.Sublist valid := by
              rw [← hsel]; by_cases hl : valid.length = wanted
              · simp [hl]
              · simp only [hl, if_false]; exact List.take_sublist _ _
            exact h1.trans (validStacks_sublist s reqs step tag avail valid hvs)
          have hguard : ((flatEntries (c.get req) selected).all fun e => decide (L.reserved e.1 + e.2 ≤ cap e.1)) = true := by
            simp only [List.all_eq_true, decide_eq_true_eq]
            intro e he
            simp only [flatEntries, List.mem_filterMap] at he
            obtain ⟨st, hst, hh⟩ := he
            obtain ⟨lvl, cp, hq, rfl, h1, h2, h3, h4, h5⟩ := hfacts st hst
            simp at hh; subst hh
            have := isValid_flat_bound c s reqs step tag lvl cp hq h1 h3 h5
            simp only [hR.reserved, ← h2]; rw [← h4]; exact this
          have hvals : ∀ e ∈ flatEntries (c.get req) selected, e.2 = c.get req := by
            intro e he
            simp only [flatEntries, List.mem_filterMap] at he
            obtain ⟨st, _, hh⟩ := he
            cases hd : st.head? with
            | none => simp [hd] at hh
            | some l => simp [hd] at hh; rw [← hh]
          have hnod : (avail.filterMap (fun st => st.head?.map (·.name))).Nodup →
              ((flatEntries (c.get req) selected).map (·.1)).Nodup := by
            intro hn
            have : (flatEntries (c.get req) selected).map (·.1) = selected.filterMap (fun st => st.head?.map (·.name)) := by
              simp only [flatEntries, List.map_filterMap]
              congr 1
              funext st
              cases st.head? <;> simp
            rw [this]
            exact hn.sublist (hsub.filterMap _)
          refine ⟨flatEntries (c.get req) selected, hguard, hvals, hnod, ?_⟩
          · -- the state after `_allocate_job`
            -- unfold allocateJob on a non-empty flat selection
            cases selected with
            | nil => simp at hemp
            | cons st0 rest0 =>
              obtain ⟨top, cp0, h0, rfl, _, _, hq0, hv0, _⟩ := hfacts st0 (List.mem_cons_self ..)
              simp only [allocateJob, hq0] at haj
              obtain ⟨hj, hsum, hkeep, hnew⟩ := allocStacks_effect c reqs job (c.get req) ([top] :: rest0) _ _
                (fun st hst => by obtain ⟨l, _, hq, e1, _, _, e2, e3, _⟩ := hfacts st hst; exact ⟨l, hq, e1, e2, e3⟩) haj
              simp only at hj hsum hkeep
              simp only [Ledger.step, hguard, if_true]
              refine ⟨fun ℓ => ?_, fun k => ?_, fun k ak hk => ?_, fun k ak hk st hst => ?_⟩
              · simp only []; rw [hsum ℓ, hR.reserved ℓ]; rfl
              · simp only []
                rw [hj, isSome_get_set]
                by_cases hjL : job ∈ L.ids
                · simp only [hjL, if_true, hR.ids k]
                  constructor
                  · exact fun h => Or.inr h
                  · rintro (e | e)
                    · subst e; exact (hR.ids k).mp hjL
                    · exact e
                · simp only [hjL, if_false, List.mem_cons, hR.ids k]
              · rw [hj] at hk
                by_cases e : k = job
                · subst e
                  rw [get_set_eq] at hk
                  simp only [Option.some.injEq] at hk
                  subst hk
                  simp [Ledger.update, entriesOf, hv0]
                · rw [get_set_ne _ _ _ _ e] at hk
                  obtain ⟨h1, h2⟩ := hR.jobs k ak hk
                  simp only [Ledger.update, e, if_false]
                  exact ⟨h1, h2⟩
              · rw [hj] at hk
                by_cases e : k = job
                · subst e
                  rw [get_set_eq] at hk
                  simp only [Option.some.injEq] at hk
                  subst hk
                  obtain ⟨l, _, _, e1, _⟩ := hfacts st hst
                  exact ⟨l, e1, hnew st hst l e1⟩
                · rw [get_set_ne _ _ _ _ e] at hk
                  obtain ⟨l, e1, e2⟩ := hR.flat k ak hk st hst
                  exact ⟨l, e1, hkeep _ e2⟩

/-- a pass that does not allocate leaves the state unchanged -/
theorem tryAllocate_waiting (env : Env) (s s' : St) (job step : Nat) (tag : Tag) (req : Hardware) (target wanted : Nat)
    (avail : List Stack) (h : tryAllocate env s job step tag req target wanted avail = (s', .waiting)) : s' = s := by
  unfold tryAllocate at h
  cases hra : resolveAll env req avail [] with
  | error e => simp [hra] at h
  | ok reqs =>
    simp only [hra] at h
    cases hvs : validStacks s reqs step tag avail with
    | error e => simp [hvs] at h
    | ok valid =>
      simp only [hvs] at h
      by_cases hen : enoughLocations valid.length wanted = true
      · simp only [hen, if_true] at h
        by_cases hemp : (if valid.length = wanted then valid else valid.take wanted).isEmpty = true
        · simp only [hemp, if_true, Prod.mk.injEq] at h; exact h.1.symm
        · simp only [hemp] at h
          cases haj : allocateJob s reqs job step tag target (if valid.length = wanted then valid else valid.take wanted) with
          | mk a b => cases b <;> simp [haj] at h
      · simp only [hen] at h
        simp only [Bool.false_eq_true, if_false, Prod.mk.injEq] at h; exact h.1.symm

/-! ### whole runs -/

/-- the two atomic steps of the Hardware-level scheduler model -/
inductive SOp
  | pass (job step : Nat) (tag : Tag) (req : Hardware) (target wanted : Nat) (avail : List Stack)
  | notify (job : Nat) (new : Status)

/-- one step; `none` when the step raises (then the run is outside this theorem, see the known findings) -/
def stepS (env : Env) (s : St) : SOp → Option St
  | .pass j st tg rq t w av =>
      match tryAllocate env s j st tg rq t w av with
      | (_, .error _) => none
      | (s', _) => some s'
  | .notify j new =>
      match notify env s j new with
      | (s', .done _) => some s'
      | (_, .error _) => none

def runS (env : Env) : St → List SOp → Option St
  | s, [] => some s
  | s, op :: ops =>
      match stepS env s op with
      | none => none
      | some s' => runS env s' ops

/-- a hardware location without inner levels whose capacity (component `c`) is `cap` -/
def flatStackB (c : Comp) (cap : Ledger.Loc → Rat) : Stack → Bool
  | [lvl] =>
      match lvl.hardware with
      | some cp => decide (c.get cp = cap lvl.name)
      | none => false
  | _ => false

theorem flatStackB_spec (c : Comp) (cap : Ledger.Loc → Rat) (st : Stack) (h : flatStackB c cap st = true) :
    ∃ lvl cp, st = [lvl] ∧ lvl.hardware = some cp ∧ c.get cp = cap lvl.name := by
  match st, h with
  | [lvl], h =>
    simp only [flatStackB] at h
    cases hh : lvl.hardware with
    | none => simp [hh] at h
    | some cp => simp only [hh, decide_eq_true_eq] at h; exact ⟨lvl, cp, rfl, hh, h⟩

/-- the target's available locations are hardware locations without inner levels, with distinct keys and names, whose
    capacity (component `c`) is `cap` (decidable) -/
def FlatAvail (c : Comp) (cap : Ledger.Loc → Rat) (av : List Stack) : Prop :=
  av.all (flatStackB c cap) = true ∧
  (av.map keyOf).Nodup ∧ (av.filterMap (fun st => st.head?.map (·.name))).Nodup

instance (c : Comp) (cap : Ledger.Loc → Rat) (av : List Stack) : Decidable (FlatAvail c cap av) := by
  unfold FlatAvail; exact inferInstance

/-- a condition on the allocation of job `j`, if it has one -/
def jobCond (s : St) (j : Nat) (P : JobAlloc → Prop) : Prop :=
  match assocGet s.jobs j with
  | some a => P a
  | none => True

instance (s : St) (j : Nat) (P : JobAlloc → Prop) [DecidablePred P] : Decidable (jobCond s j P) :=
  match h : assocGet s.jobs j with
  | some a => decidable_of_iff (P a) (by simp [jobCond, h])
  | none => isTrue (by simp [jobCond, h])

theorem jobCond_some {s : St} {j : Nat} {P : JobAlloc → Prop} {a : JobAlloc} (h : jobCond s j P)
    (ha : assocGet s.jobs j = some a) : P a := by simpa [jobCond, ha] using h

/-- the engine protocol and the flatness hypothesis, for one step in state `s` (decidable) -/
def OkS (c : Comp) (cap : Ledger.Loc → Rat) (s : St) : SOp → Prop
  | .pass j _ _ rq _ _ av =>
      FlatAvail c cap av ∧ 0 ≤ c.get rq ∧ jobCond s j (fun a => Ledger.occupying a.status = false)
  | .notify j new => jobCond s j (fun a => Ledger.protoOk a.status new)

instance (c : Comp) (cap : Ledger.Loc → Rat) (s : St) (op : SOp) : Decidable (OkS c cap s op) := by
  cases op <;> unfold OkS <;> exact inferInstance

/-- every step of the run satisfies `OkS` in the state it is applied to (decidable: follows the run) -/
def RunOk (c : Comp) (cap : Ledger.Loc → Rat) (env : Env) : St → List SOp → Prop
  | _, [] => True
  | s, op :: ops =>
      OkS c cap s op ∧
      (match stepS env s op with
       | some s' => RunOk c cap env s' ops
       | none => True)

instance decRunOk (c : Comp) (cap : Ledger.Loc → Rat) (env : Env) : (s : St) → (ops : List SOp) → Decidable (RunOk c cap env s ops)
  | _, [] => isTrue trivial
  | s, op :: ops => by
      unfold RunOk
      cases h : stepS env s op with
      | none => simp only []; exact inferInstance
      | some s' => simp only []; exact @instDecidableAnd _ _ _ (decRunOk c cap env s' ops)

theorem step_refines (c : Comp) (cap : Ledger.Loc → Rat) (env : Env) (s s' : St) (L : Ledger.St) (op : SOp)
    (hR : Rel c s L) (hI : Ledger.Inv cap L) (hok : OkS c cap s op) (hs : stepS env s op = some s') :
    ∃ L', Rel c s' L' ∧ Ledger.Inv cap L' := by
  cases op with
  | pass j st tg rq t w av =>
    obtain ⟨⟨hflatB, hnd, hnn⟩, hpos, hnocc'⟩ := hok
    have hflat : ∀ st ∈ av, ∃ lvl cp, st = [lvl] ∧ lvl.hardware = some cp ∧ c.get cp = cap lvl.name :=
      fun st hst => flatStackB_spec c cap st (List.all_eq_true.mp hflatB st hst)
    have hnocc : ∀ a, assocGet s.jobs j = some a → Ledger.occupying a.status = false := by
      intro a ha; exact jobCond_some hnocc' ha
    simp only [stepS] at hs
    cases hta : tryAllocate env s j st tg rq t w av with
    | mk s1 out =>
      simp only [hta] at hs
      cases out with
      | error e => simp at hs
      | waiting =>
        simp only [Option.some.injEq] at hs; subst hs
        rw [tryAllocate_waiting env s s1 j st tg rq t w av hta]
        exact ⟨L, hR, hI⟩
      | allocated names =>
        simp only [Option.some.injEq] at hs; subst hs
        obtain ⟨entries, _, hvals, hnod, hrel⟩ := tryAllocate_refines c cap env s s1 L j st tg rq t w av names hR hflat hnd hta
        refine ⟨_, hrel, Ledger.inv_step hI _ ⟨?_, hnod hnn, fun e he => by rw [hvals e he]; exact hpos⟩⟩
        rintro ⟨hj, hocc⟩
        have := (hR.ids j).mp hj
        cases ha : assocGet s.jobs j with
        | none => simp [ha] at this
        | some a =>
          rw [(hR.jobs j a ha).1, hnocc a ha] at hocc; cases hocc
  | notify j new =>
    simp only [stepS] at hs
    cases hn : notify env s j new with
    | mk s1 out =>
      simp only [hn] at hs
      cases out with
      | error e => simp at hs
      | done b =>
        simp only [Option.some.injEq] at hs; subst hs
        refine ⟨_, notify_refines c cap env s s1 L j new b hR hn, Ledger.inv_step hI _ ⟨?_, by simp⟩⟩
        cases ha : assocGet s.jobs j with
        | none => simp [notify, ha] at hn
        | some a =>
          have : Ledger.protoOk a.status new := jobCond_some hok ha
          rw [(hR.jobs j a ha).1]; exact this

/-- **whole-run refinement**: every non-raising run of the Hardware-level scheduler model on flat configurations that
    follows the engine protocol ends in a state related to a ledger state satisfying the bookkeeping invariant -/
theorem run_refines (c : Comp) (cap : Ledger.Loc → Rat) (env : Env) (ops : List SOp) (s s' : St) (L : Ledger.St)
    (hR : Rel c s L) (hI : Ledger.Inv cap L) (hok : RunOk c cap env s ops) (hrun : runS env s ops = some s') :
    ∃ L', Rel c s' L' ∧ Ledger.Inv cap L' := by
  induction ops generalizing s L with
  | nil => simp only [runS, Option.some.injEq] at hrun; subst hrun; exact ⟨L, hR, hI⟩
  | cons op ops ih =>
    simp only [runS] at hrun
    cases hs : stepS env s op with
    | none => simp [hs] at hrun
    | some s1 =>
      simp only [hs] at hrun
      obtain ⟨L1, hR1, hI1⟩ := step_refines c cap env s s1 L op hR hI hok.1 hs
      have hok2 := hok.2
      simp only [hs] at hok2
      exact ih s1 L1 hR1 hI1 hok2 hrun

end SFV.Refine
