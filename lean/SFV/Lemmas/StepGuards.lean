import SFV.Model.Exec
import SFV.Gen.StepGuards
/-! The hand-written status logic of `SFV/Model/Exec.lean` agrees with the pieces extracted from the source
(`SFV/Gen/StepGuards.lean`, regenerated from /repo on every run). -/
namespace SFV.Exec

/-- the `Status` number of a model status -/
def Status.code : Status → Nat
  | .completed => Gen.statusCompleted
  | .skipped => Gen.statusSkipped
  | .failed => Gen.statusFailed
  | .cancelled => Gen.statusCancelled

/-- `_reduce_statuses` re-assembled from the extracted arms: the loop with its early returns, counter and flag -/
def genReduceLoop (len : Nat) : List Nat → Nat → Bool → Nat
  | [], ns, rec => Gen.reduceFinal rec ns len
  | c :: r, ns, rec =>
      match Gen.reduceRet c with
      | some x => x
      | none => genReduceLoop len r (if Gen.reduceSkips c then ns + 1 else ns) (rec || Gen.reduceRecovers c)

def genReduce (l : List Nat) : Nat := genReduceLoop l.length l 0 false

def skippedCount (l : List Status) : Nat := (l.filter (· == .skipped)).length

theorem genReduceLoop_spec (len : Nat) (r : List Status) (ns : Nat) :
    genReduceLoop len (r.map Status.code) ns false =
      match r.find? Status.bad with
      | some s => s.code
      | none => if ns + skippedCount r = len then Gen.statusSkipped else Gen.statusCompleted := by
  induction r generalizing ns with
  | nil =>
    simp only [List.map_nil, genReduceLoop, Gen.reduceFinal, skippedCount, List.filter_nil, List.length_nil,
      Nat.add_zero, List.find?_nil, Bool.false_eq_true, if_false, Gen.statusSkipped, Gen.statusCompleted]
    by_cases h : ns = len
    · simp [h]
    · simp [h]
  | cons c r ih =>
    cases c with
    | completed =>
      simp only [List.map_cons, genReduceLoop, Status.code, Gen.statusCompleted, Gen.reduceRet, Gen.reduceSkips,
        Gen.reduceRecovers, List.find?_cons, Status.bad]
      simp only [show ((4 : Nat) == 5) = false from rfl, show ((4 : Nat) == 6) = false from rfl,
        show ((4 : Nat) == 3) = false from rfl, show ((4 : Nat) == 9) = false from rfl, Bool.false_eq_true, if_false,
        Bool.or_false]
      rw [ih ns]
      have : skippedCount (Status.completed :: r) = skippedCount r := by simp [skippedCount]
      rw [this]
      cases List.find? Status.bad r <;> rfl
    | skipped =>
      simp only [List.map_cons, genReduceLoop, Status.code, Gen.statusSkipped, Gen.reduceRet, Gen.reduceSkips,
        Gen.reduceRecovers, List.find?_cons, Status.bad]
      simp only [show ((3 : Nat) == 5) = false from rfl, show ((3 : Nat) == 6) = false from rfl,
        show ((3 : Nat) == 3) = true from rfl, show ((3 : Nat) == 9) = false from rfl, Bool.false_eq_true, if_false,
        if_true, Bool.or_false]
      rw [ih (ns + 1)]
      have : skippedCount (Status.skipped :: r) = skippedCount r + 1 := by simp [skippedCount]
      rw [this]
      have h : ns + 1 + skippedCount r = ns + (skippedCount r + 1) := by omega
      rw [h]
      cases List.find? Status.bad r <;> rfl
    | failed =>
      simp [genReduceLoop, Status.code, Gen.statusFailed, Gen.reduceRet, List.find?_cons, Status.bad]
    | cancelled =>
      simp [genReduceLoop, Status.code, Gen.statusCancelled, Gen.reduceRet, List.find?_cons, Status.bad]

theorem skippedCount_eq_length_iff (l : List Status) : skippedCount l = l.length ↔ l.all (· == .skipped) = true := by
  unfold skippedCount
  rw [List.length_filter_eq_length_iff]
  simp [List.all_eq_true]

theorem reduce_code (l : List Status) : (reduce l).code = genReduce (l.map Status.code) := by
  unfold genReduce
  rw [List.length_map, genReduceLoop_spec]
  unfold reduce
  cases h : l.find? Status.bad with
  | some s => rfl
  | none =>
    simp only [Nat.zero_add]
    by_cases hall : l.all (· == .skipped) = true
    · rw [if_pos ((skippedCount_eq_length_iff l).mpr hall), if_pos hall]; rfl
    · rw [if_neg (fun hh => hall ((skippedCount_eq_length_iff l).mp hh)), if_neg hall]; rfl

theorem getStatus_code (s : Status) (e : Bool) : (getStatus s e).code = Gen.getStatusGen s.code e := by
  cases s <;> cases e <;> rfl

theorem bad_code (s : Status) : s.bad = Gen.finalBad s.code ∧ s.bad = Gen.cancelOn s.code := by
  cases s <;> exact ⟨rfl, rfl⟩

end SFV.Exec
