"""C33 — tag ordering and tag selection follow numeric component order."""
from __future__ import annotations

import itertools
import posixpath

from streamflow.core import utils as sfu

from sfv.framework import Ctx, Property
from sfv.rt.hexs import hx, unhx
from sfv.translate import tagguards


class _T:  # the only attribute get_tag reads
    def __init__(self, tag):
        self.tag = tag


def _sign(x: int) -> int:
    return (x > 0) - (x < 0)


def _spec_cmp(a: str, b: str) -> int:
    """the property: depth first, then components numerically"""
    la, lb = [int(c) for c in a.split(".")], [int(c) for c in b.split(".")]
    if len(la) != len(lb):
        return -1 if len(la) < len(lb) else 1
    return -1 if la < lb else (1 if la > lb else 0)


def _chains(rng, tags):
    """prefix chains: every tag with its prefixes, in a random order, possibly with repeats / gaps"""
    for t in tags:
        comps = t.split(".")
        chain = [".".join(comps[: i + 1]) for i in range(len(comps))]
        yield chain
        if len(chain) > 1:
            yield list(reversed(chain))
            sub = [c for c in chain if rng.random() < 0.6] or [chain[-1]]
            rng.shuffle(sub)
            yield sub
            yield chain + [chain[0]]


class C33(Property):
    pid = "C33"
    title = "Tag ordering and tag selection follow numeric component order"
    lean_targets = ["SFV.Props.C33", "SFV.Model.Proto"]
    props_files = ["SFV/Props/C33.lean"]
    drivers = ["Drivers/C33.lean"]
    translators = [tagguards.generate]
    rule = ("compare_tags: pairs of tags (exhaustive depth<=2 comps 0..12 in quick, depth<=3 in thorough, plus random "
            "deep multi-digit tags); sorted(key=cmp_to_key(compare_tags)) on random multisets in two arrival orders; get_tag: prefix chains (ordered, reversed, shuffled sub-chains, repeats); job names: "
            "random step paths x tags. Every case runs on the real function, on the Lean model (driver) and against the "
            "property's own spec. Non-trivial = distinct (operation, arguments) with depth>=2 or a component >=10.")
    trusted_base = [
        "translator harness/sfv/translate/tagguards.py (ast patterns for compare_tags / get_tag -> SFV/Gen/TagGuards.lean)",
        "modelled, not verified: str.split('.'), int(str), len(str) of a dotted tag (strLen), PurePosixPath parsing "
        "(ppParts/ppRoot) and posixpath.join — each compared with CPython on every run",
    ]
    technique = "Lean 4 theorems (total-order laws, exact get_tag characterisation, job-name split) + ast translator of the guards + differential correspondence on exhaustive small tags"
    level_text = ("grade A: unbounded theorems about compare_tags (antisymmetry, zero-iff-equal, transitivity, totality, depth-first, "
                  "numeric component order; sorting by it is arrival-order independent for every multiset of tags), an exact iff-characterisation of get_tag on every prefix chain (full statement proved false by a "
                  "witness, recorded as known finding), and job-name splitting for every normalised step path; guards regenerated from the source "
                  "on every run, model compared with the code on ~40k cases")
    level_note = ("Lean kernel, axioms within {propext, Classical.choice, Quot.sound}; trusts the tagguards extractor, the string<->component-list "
                  "glue (split/int/len, PurePosixPath) which is compared with CPython on every run")
    assumptions = ["tags are dotted decimal strings without signs, spaces or leading '+'; step names are absolute POSIX paths"]

    def _tags(self, ctx: Ctx):
        rng = ctx.rng
        comps = list(range(13))
        maxd = 3 if ctx.tier == "thorough" or ctx.mode == "search" else 2
        tags = []
        for d in range(1, maxd + 1):
            tags += [".".join(map(str, c)) for c in itertools.product(comps, repeat=d)]
        deep = []
        for _ in range(300 if ctx.tier == "quick" else 3000):
            d = rng.randint(1, 6)
            deep.append(".".join(str(rng.choice([0, 1, 9, 10, 11, 99, 100, 101, rng.randint(0, 10 ** rng.randint(1, 6))]))
                                 for _ in range(d)))
        return tags, deep

    def explore(self, ctx: Ctx) -> None:
        rng = ctx.rng
        tags, deep = self._tags(ctx)
        lines, expect, meta = [], [], []

        def nontriv(*ts):
            return any("." in t or len(t) > 1 for t in ts)

        # ---- compare_tags ----
        pairs = []
        if len(tags) <= 200:
            pairs = list(itertools.product(tags, tags))
        else:
            small = tags[:13 + 169]
            pairs = list(itertools.product(small, small))
            pairs += [(rng.choice(tags), rng.choice(tags)) for _ in range(20000 if ctx.tier == "quick" else 200000)]
        pairs += [(rng.choice(deep), rng.choice(deep)) for _ in range(2000)]
        pairs += [(t, t) for t in deep[:200]]
        for t in deep[:300]:  # same depth, one component changed
            c = t.split(".")
            i = rng.randrange(len(c))
            c[i] = str(int(c[i]) + rng.choice([1, 9, 10, 90]))
            pairs.append((t, ".".join(c)))
        for a, b in pairs:
            real = sfu.compare_tags(a, b)
            ctx.case({"op": "compare_tags", "a": a, "b": b, "real": real}, ("cmp", a, b) if nontriv(a, b) else None, "cmp")
            if _sign(real) != _spec_cmp(a, b):
                ctx.fail("compare_tags:order", f"compare_tags({a!r},{b!r}) = {real}, spec sign {_spec_cmp(a, b)}",
                         {"op": "compare_tags", "a": a, "b": b})
            lines.append(f"cmp {a} {b}")
            expect.append(str(real))
            meta.append(("compare_tags", (a, b)))
        # total order laws on the real function (random triples)
        pool = tags[:182] + deep[:100]
        for _ in range(3000 if ctx.tier == "quick" else 30000):
            a, b, c = rng.choice(pool), rng.choice(pool), rng.choice(pool)
            ab, bc, ac, ba = (sfu.compare_tags(a, b), sfu.compare_tags(b, c), sfu.compare_tags(a, c), sfu.compare_tags(b, a))
            ctx.case({"op": "order-laws", "a": a, "b": b, "c": c}, ("laws", a, b, c), "laws")
            if _sign(ab) != -_sign(ba) or (ab == 0) != (a == b) or (ab < 0 and bc < 0 and not ac < 0):
                ctx.fail("compare_tags:not-a-total-order", f"order laws fail on {a!r},{b!r},{c!r}",
                         {"op": "order-laws", "a": a, "b": b, "c": c})
        # ---- sorted(..., key=cmp_to_key(compare_tags)) (step.py: gather, loop outputs, scatter from_tags) ----
        from functools import cmp_to_key
        for _ in range(400 if ctx.tier == "quick" else 4000):
            ms = [rng.choice(pool) for _ in range(rng.randint(0, 14))]
            ms += [rng.choice(ms) for _ in range(rng.randint(0, 3)) if ms]          # duplicates
            rng.shuffle(ms)
            real = sorted(ms, key=cmp_to_key(sfu.compare_tags))
            other = list(ms)
            rng.shuffle(other)
            real2 = sorted(other, key=cmp_to_key(sfu.compare_tags))
            spec = sorted(ms, key=lambda t: (t.count("."), [int(c) for c in t.split(".")]))
            ctx.case({"op": "sort_tags", "tags": ms, "real": real}, ("sort", tuple(ms)) if len(ms) > 1 and nontriv(*ms) else None, "sort")
            if real != spec or real2 != spec:
                ctx.fail("compare_tags:sort-order", f"sorted({ms}) by compare_tags = {real} / {real2} (reshuffled), spec {spec}",
                         {"op": "sort_tags", "tags": ms, "other": other})
            lines.append(("sort " + " ".join(ms)).strip())
            expect.append(" ".join(real))
            meta.append(("sorted-by-compare_tags", ms))
        # ---- get_tag on prefix chains ----
        chain_src = tags if len(tags) <= 2500 else (tags[:182] + rng.sample(tags, 1500))
        for chain in itertools.chain([[]], _chains(rng, chain_src + deep[:200])):
            real = sfu.get_tag([_T(t) for t in chain])
            deepest = max(chain, key=lambda t: t.count("."), default=None)
            ctx.case({"op": "get_tag", "chain": chain, "real": real}, ("gettag", tuple(chain)) if chain and nontriv(*chain) else None, "gettag")
            if deepest is not None and real != deepest:
                single_digit_root = "." not in deepest and len(deepest) == 1 and deepest != "0" and real == "0"
                key = "get_tag:single-nonzero-digit-root" if single_digit_root else "get_tag:not-deepest"
                ctx.fail(key, f"get_tag({chain}) = {real!r}, deepest tag of the chain is {deepest!r}", {"op": "get_tag", "chain": chain})
            lines.append("gettag " + " ".join(chain))
            expect.append(real)
            meta.append(("get_tag", chain))
            for t in chain[:1]:
                lines.append(f"strlen {t}")
                expect.append(str(len(t)))
                meta.append(("len(tag)", t))
        # ---- job names ----
        alphabet = ["a", "b", "step", "wf", "s-1", "x.y", "..", "é", " ", "a b", "0"]
        for _ in range(600 if ctx.tier == "quick" else 6000):
            comps = [rng.choice(alphabet) for _ in range(rng.randint(0, 4))]
            step = "/" + "/".join(comps)
            tag = rng.choice(tags[:182] + deep[:50])
            job = posixpath.join(step, tag)
            rs, rt = sfu.get_job_step_name(job), sfu.get_job_tag(job)
            ctx.case({"op": "job_name", "step": step, "tag": tag, "real": [rs, rt]}, ("job", step, tag), "jobname")
            if rs != step or rt != tag:
                ctx.fail("job_name:split", f"job {job!r} splits into {rs!r},{rt!r}", {"op": "job_name", "step": step, "tag": tag})
            lines += [f"join {hx(step)} {hx(tag)}", f"parent {hx(job)}", f"name {hx(job)}"]
            expect += [hx(job), hx(rs), hx(rt)]
            meta += [("posixpath.join", (step, tag)), ("get_job_step_name", job), ("get_job_tag", job)]
        # model of PurePosixPath on unnormalised strings too (glue around the theorem)
        weird = ["//a/b", "///a", "a//b/./c", "/a/./b/", ".", "", "/", "//", "a/", "./a", "/a/b/..", "a/b/0.1"]
        for _ in range(200):
            weird.append("".join(rng.choice(["/", "/", "a", "b", ".", "0", "1", "é"]) for _ in range(rng.randint(0, 8))))
        for w in weird:
            lines += [f"parent {hx(w)}", f"name {hx(w)}"]
            expect += [hx(sfu.get_job_step_name(w)), hx(sfu.get_job_tag(w))]
            meta += [("get_job_step_name", w), ("get_job_tag", w)]
            ctx.case({"op": "purepath", "s": w}, None, "purepath")
        got = ctx.lean("Drivers/C33.lean", lines)
        for g, e, m in zip(got, expect, meta):
            if g != e:
                ctx.disagree(f"model vs {m[0]}", f"{m[0]}{m[1]!r}: code {e!r}, Lean model {g!r}", {"op": m[0], "args": m[1]})

    def replay(self, ctx: Ctx, data) -> None:
        r = data.get("replay") or {}
        if r.get("op") == "compare_tags":
            print("real:", sfu.compare_tags(r["a"], r["b"]), " model:", ctx.lean("Drivers/C33.lean", [f"cmp {r['a']} {r['b']}"])[0],
                  " spec sign:", _spec_cmp(r["a"], r["b"]))
            if _sign(sfu.compare_tags(r["a"], r["b"])) != _spec_cmp(r["a"], r["b"]):
                ctx.fail("compare_tags:order", "still fails", r)
        elif r.get("op") == "sort_tags":
            from functools import cmp_to_key
            spec = sorted(r["tags"], key=lambda t: (t.count("."), [int(c) for c in t.split(".")]))
            got = [sorted(x, key=cmp_to_key(sfu.compare_tags)) for x in (r["tags"], r.get("other") or r["tags"])]
            print("real:", got, " spec:", spec, " model:", ctx.lean("Drivers/C33.lean", ["sort " + " ".join(r["tags"])])[0])
            if any(g != spec for g in got):
                ctx.fail("compare_tags:sort-order", "still fails", r)
        elif r.get("op") == "get_tag":
            real = sfu.get_tag([_T(t) for t in r["chain"]])
            print("real:", real, " model:", ctx.lean("Drivers/C33.lean", ["gettag " + " ".join(r["chain"])])[0])
            if real != max(r["chain"], key=lambda t: t.count(".")):
                ctx.fail("get_tag", "still fails", r)
        elif r.get("op") == "job_name":
            job = posixpath.join(r["step"], r["tag"])
            print("real:", sfu.get_job_step_name(job), sfu.get_job_tag(job))
            if (sfu.get_job_step_name(job), sfu.get_job_tag(job)) != (r["step"], r["tag"]):
                ctx.fail("job_name:split", "still fails", r)
        else:
            super().replay(ctx, data)


PROPERTY = C33()
