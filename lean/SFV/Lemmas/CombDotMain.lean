import SFV.Lemmas.CombSim
import SFV.Lemmas.Tag
/-! Flat dot product: the loop-faithful run (`runDot`) emits, up to the order of the ports inside a schema,
    exactly what the closed-form run emits. -/
namespace SFV.Comb
open SFV

/-- `get_tag` on a chain of ancestors of a tag rooted at `0` that contains the tag returns the tag -/
theorem getTag_chain {ts : List Tag} {d : Tag} (hd : d ∈ ts) (hne : ∀ t ∈ ts, t ≠ [])
    (hpre : ∀ t ∈ ts, t <+: d) (hroot : d.head? = some 0) : getTag ts = d := by
  have h0 : strLen [0] = 1 := by simp [strLen, nd]
  have hle : ∀ t ∈ ts, strLen t ≤ strLen d := fun t ht => strLen_le_of_prefix (hne t ht) (hpre t ht)
  unfold getTag
  simp only [Gen.getTagDefault]
  have hcase : 1 < strLen d ∨ d = [0] := by
    match d, hroot with
    | [_], hr => right; simpa using hr
    | a :: b :: r, _ =>
      left; simp only [strLen]; have := nd_pos a; have := strLen_pos (t := b :: r) (by simp); omega
  rcases hcase with h1 | rfl
  · obtain ⟨hm, hmax⟩ := getTagLoop_max [0] ts
    have hdmax := hmax d (List.mem_cons_of_mem _ hd)
    rcases List.mem_cons.mp hm with he | hm'
    · rw [he, h0] at hdmax; omega
    · by_cases e : getTagLoop [0] ts = d
      · exact e
      · have := strLen_lt_of_prefix (hne _ hm') (hpre _ hm') e; omega
  · exact getTagLoop_stays _ _ (fun t ht => by have := hle t ht; omega)

/-- a schema with its ports in increasing order (stable) -/
def normEmit (P : Nat) (e : Emit) : Emit := (List.range P).flatMap (fun q => e.filter (fun x => x.1 = q))

/-- how the closed form's emission `(κ, popped elements by item)` reads as a schema -/
def renderCF (κ : Tag) (l : List Elem) : Emit := retagAll κ (schemaOf l)

theorem filter_key {c : Cell} (hnd : (ckeys c).Nodup) {q : Nat} (hq : q ∈ ckeys c) :
    c.filter (fun x => x.1 = q) = [(q, cget c q)] := by
  induction c with
  | nil => simp [ckeys] at hq
  | cons y r ih =>
    obtain ⟨p, d⟩ := y
    simp only [ckeys, List.map_cons, List.nodup_cons] at hnd
    simp only [ckeys, List.map_cons, List.mem_cons] at hq
    rw [cget_cons, List.filter_cons]
    by_cases hp : p = q
    · subst hp
      have : r.filter (fun x => x.1 = p) = [] := by
        apply List.filter_eq_nil_iff.mpr
        intro x hx
        simp only [decide_eq_true_eq]
        exact fun e => hnd.1 (e ▸ List.mem_map.mpr ⟨x, hx, rfl⟩)
      simp [this]
    · have hqp : ¬ q = p := fun e => hp e.symm
      have hq' : q ∈ ckeys r := by
        rcases hq with h | h
        · exact absurd h hqp
        · exact h
      simp only [hp, decide_false, Bool.false_eq_true, if_false, hqp]
      exact ih hnd.2 hq'

theorem filter_flatMap_port (c : Cell) (f : Nat × List Elem → List (Nat × Tok))
    (hf : ∀ x ∈ c, ∀ y ∈ f x, y.1 = x.1) (q : Nat) :
    (c.flatMap f).filter (fun y => y.1 = q) = (c.filter (fun x => x.1 = q)).flatMap f := by
  induction c with
  | nil => rfl
  | cons x r ih =>
    rw [List.flatMap_cons, List.filter_append, ih (fun y hy => hf y (List.mem_cons_of_mem _ hy)),
      List.filter_cons]
    by_cases hx : x.1 = q
    · have : (f x).filter (fun y => y.1 = q) = f x := by
        apply List.filter_eq_self.mpr
        intro y hy
        simp only [decide_eq_true_eq]
        rw [hf x (by simp) y hy, hx]
      simp [hx, this]
    · have : (f x).filter (fun y => y.1 = q) = [] := by
        apply List.filter_eq_nil_iff.mpr
        intro y hy
        simp only [decide_eq_true_eq]
        rw [hf x (by simp) y hy]; exact hx
      simp [hx, this]

theorem retagAll_filter (κ : Tag) (s : List (Nat × Tok)) (q : Nat) :
    (retagAll κ s).filter (fun y => y.1 = q) = retagAll κ (s.filter (fun y => y.1 = q)) := by
  unfold retagAll
  rw [List.filter_map]
  rfl

theorem retagAll_flatMap {α : Type} (κ : Tag) (l : List α) (f : α → List (Nat × Tok)) :
    retagAll κ (l.flatMap f) = l.flatMap (fun a => retagAll κ (f a)) := by
  unfold retagAll
  rw [List.map_flatMap]

/-- **one emission**: for a complete cell whose elements sit on their own port, the schema the loop yields
    is, ports sorted, the closed form's emission — provided `get_tag` of the popped tokens is the key -/
theorem normEmit_emitOfCell {P : Nat} {c : Cell} (hc : CellOK P c) (hall : ∀ q, q < P → q ∈ ckeys c)
    (hne : ∀ q, q < P → cget c q ≠ [])
    (hport : ∀ x ∈ c, ∀ y ∈ (lastD x.2).toks, y.1 = x.1) (κ : Tag)
    (htag : schemaTag (schemaOf (c.map (fun x => lastD x.2))) = κ) :
    normEmit P (emitOfCell c) =
      renderCF κ ((List.range P).filterMap (fun q => (cget c q).getLast?)) := by
  have key : ∀ q, q < P →
      (retagAll κ (c.flatMap (fun x => (lastD x.2).toks))).filter (fun y => y.1 = q)
        = retagAll κ (lastD (cget c q)).toks := by
    intro q hqP
    rw [retagAll_filter, filter_flatMap_port c (fun x => (lastD x.2).toks) hport q,
      filter_key hc.1 (hall q hqP)]
    simp
  have hfm : (List.range P).filterMap (fun q => (cget c q).getLast?)
      = (List.range P).map (fun q => lastD (cget c q)) := by
    rw [← List.filterMap_eq_map]
    apply CF.filterMap_congr'
    intro q hq
    simp only [Function.comp]
    exact getLast?_lastD (hne q (List.mem_range.mp hq))
  unfold emitOfCell
  simp only [htag]
  unfold normEmit renderCF schemaOf
  rw [hfm, List.flatMap_map, List.flatMap_map, retagAll_flatMap κ (List.range P)]
  apply flatMap_congr'
  intro q hq
  exact key q (List.mem_range.mp hq)

/-! ### the run -/

/-- a token that arrived on port `p`, as an event of the closed form -/
def liftEv (e : Ev) : CF.Ev := (e.1, Elem.ofTok e.1 e.2)

/-- engine tags are rooted at `0` -/
def Rooted (S : List Ev) : Prop := ∀ e ∈ S, e.2.tag.head? = some 0

theorem lastD_mem {d : List Elem} (h : d ≠ []) : lastD d ∈ d :=
  List.mem_of_getLast? (getLast?_lastD h)

theorem eq_singleton_of_mem_of_length_le_one {α : Type} {l : List α} {a : α} (h : a ∈ l) (hl : l.length ≤ 1) :
    l = [a] := by
  match l, h, hl with
  | [b], h, _ => simp at h; rw [h]
  | _ :: _ :: _, _, hl => simp at hl

/-- **one arrival**: `DotProductCombinator.combine` (loop-faithful) = closed-form step, on states reached by a
    well-formed rooted stream -/
theorem dotAdd_sim {P : Nat} {R : List Ev} {s : CF.St} {tv : TV} (p : Nat) (t : Tok)
    (hwf : CF.WF P ((R ++ [(p, t)]).map liftEv)) (hroot : Rooted (R ++ [(p, t)]))
    (hI : CF.Inv P (R.map liftEv) s) (hv : Valid P tv) (hk : tkeys tv = s.keys) (hs : sem tv = s.cell) :
    (dotAdd P tv p (Elem.ofTok p t)).err = none ∧ Valid P (dotAdd P tv p (Elem.ofTok p t)).tv ∧
    tkeys (dotAdd P tv p (Elem.ofTok p t)).tv = (CF.step P s (p, Elem.ofTok p t)).keys ∧
    sem (dotAdd P tv p (Elem.ofTok p t)).tv = (CF.step P s (p, Elem.ofTok p t)).cell ∧
    ∃ N, (CF.step P s (p, Elem.ofTok p t)).out = s.out ++ N ∧
      (dotAdd P tv p (Elem.ofTok p t)).out.map (normEmit P) = N.map (fun x => renderCF x.1 x.2) := by
  have hwf' : CF.WF P (R.map liftEv ++ [(p, Elem.ofTok p t)]) := by
    simpa [List.map_append, liftEv] using hwf
  have hp : p < P := hwf'.2.1 (p, Elem.ofTok p t) (by simp)
  have habs0 : absSt tv s.outTags s.out = s := by
    cases s; simp only [absSt] at *; simp [hk, hs]
  obtain ⟨hv1, habs1⟩ := addToList_spec hv p hp (Elem.ofTok p t) s.outTags s.out
  rw [habs0] at habs1
  have hM := CF.inv_add P hwf' hI
  -- name the intermediate states
  generalize hsa : CF.add s p (Elem.ofTok p t) = sa at habs1 hM
  have htag : (Elem.ofTok p t).tag = t.tag := rfl
  generalize htv1 : addToList addToPort tv (Elem.ofTok p t).tag p (Elem.ofTok p t) = tv1 at habs1 hv1
  have hk1 : tkeys tv1 = sa.keys := congrArg CF.St.keys habs1
  have hs1 : sem tv1 = sa.cell := congrArg CF.St.cell habs1
  have hstep : CF.step P s (p, Elem.ofTok p t) = CF.prod P sa := by simp [CF.step, hsa]
  have hdot : dotAdd P tv p (Elem.ofTok p t) = prodLoop P (tkeys tv1) tv1 [] := by
    simp [dotAdd, dotProduct, htv1, tkeys]
  rw [hdot, hstep]
  -- every cell element is a received token, on its own port, with an ancestor tag
  have hflat : ∀ κ q x, x ∈ sa.cell κ q →
      ∃ t', x = Elem.ofTok q t' ∧ (q, t') ∈ R ++ [(p, t)] ∧ CF.pre t'.tag κ := by
    intro κ q x hx
    obtain ⟨_, hR, hpre⟩ := hM.sound κ q x hx
    rw [show R.map liftEv ++ [(p, Elem.ofTok p t)] = (R ++ [(p, t)]).map liftEv by simp [liftEv]] at hR
    obtain ⟨ev, hev, heq⟩ := List.mem_map.mp hR
    simp only [liftEv, Prod.mk.injEq] at heq
    obtain ⟨h1, h2⟩ := heq
    subst h1
    exact ⟨ev.2, h2.symm, hev, by rw [← h2] at hpre; exact hpre⟩
  have hmin : ∀ k ∈ tkeys tv1, ∃ q, q < P ∧ (sem tv1 k q).length ≤ 1 := by
    intro k hk'
    rw [hk1] at hk'
    obtain ⟨e', he', hte⟩ := (hM.keysIff k).mp hk'
    refine ⟨e'.1, hwf'.2.1 e' he', ?_⟩
    rw [hs1, ← hte]
    exact (hM.exact1 e' he').1
  obtain ⟨r1, r2, r3, r4, r5⟩ := prodLoop_spec (tkeys tv1) tv1 [] hv1 hv1.1 (fun k hk => hk) hmin
  have hfulliff : ∀ κ, Full P tv1 κ ↔ CF.full P sa κ := by
    intro κ; unfold Full CF.full; rw [hs1]
  refine ⟨r1, r2, by rw [r3, hk1]; rfl, ?_, ?_⟩
  · funext κ q
    rw [r4]
    simp only [CF.prod]
    by_cases hc1 : κ ∈ tkeys tv1 ∧ Full P tv1 κ
    · rw [if_pos hc1]
      by_cases hq : q < P
      · have : κ ∈ sa.keys ∧ CF.full P sa κ ∧ q < P := ⟨hk1 ▸ hc1.1, (hfulliff κ).mp hc1.2, hq⟩
        rw [if_pos this, hs1]
      · have : ¬ (κ ∈ sa.keys ∧ CF.full P sa κ ∧ q < P) := fun h => hq h.2.2
        rw [if_neg this, ← hs1]
        have hq' : q ∉ ckeys (tcell tv1 κ) := fun h => hq ((valid_tcell hv1 κ).2 q h)
        simp [sem, cget_of_not_mem hq']
    · have : ¬ (κ ∈ sa.keys ∧ CF.full P sa κ ∧ q < P) :=
        fun h => hc1 ⟨hk1 ▸ h.1, (hfulliff κ).mpr h.2.1⟩
      rw [if_neg hc1, if_neg this, hs1]
  · have hsaout : sa.out = s.out := by rw [← hsa]; rfl
    refine ⟨(sa.keys.filter (fun κ => CF.full P sa κ)).map (fun κ => (κ, CF.lasts P sa κ)),
      by simp only [CF.prod, hsaout], ?_⟩
    rw [r5, List.nil_append, List.map_map, List.map_map, hk1]
    have hfilt : sa.keys.filter (fun κ => decide (Full P tv1 κ)) = sa.keys.filter (fun κ => decide (CF.full P sa κ)) := by
      apply List.filter_congr
      intro κ _
      simp only [decide_eq_decide]
      exact hfulliff κ
    rw [hfilt]
    apply List.map_congr_left
    intro κ hκ
    obtain ⟨hκk, hκf⟩ := List.mem_filter.mp hκ
    have hfull : CF.full P sa κ := by simpa using hκf
    simp only [Function.comp]
    have hcg : ∀ q, cget (tcell tv1 κ) q = sa.cell κ q := fun q => by rw [← hs1]; rfl
    have hcok := valid_tcell hv1 κ
    have hlasts : CF.lasts P sa κ = (List.range P).filterMap (fun q => (cget (tcell tv1 κ) q).getLast?) := by
      unfold CF.lasts
      apply CF.filterMap_congr'
      intro q _
      rw [hcg]
    rw [hlasts]
    have hne : ∀ q, q < P → cget (tcell tv1 κ) q ≠ [] := fun q hq => by rw [hcg]; exact hfull q hq
    have hall : ∀ q, q < P → q ∈ ckeys (tcell tv1 κ) := fun q hq => mem_ckeys_of_cget_ne (hne q hq)
    -- what the last element of every deque is
    have hlast : ∀ x ∈ tcell tv1 κ, ∃ t', lastD x.2 = Elem.ofTok x.1 t' ∧ (x.1, t') ∈ R ++ [(p, t)] ∧
        CF.pre t'.tag κ := by
      intro x hx
      have hx1 : x.1 < P := hcok.2 x.1 (List.mem_map.mpr ⟨x, hx, rfl⟩)
      have hx2 : x.2 = sa.cell κ x.1 := by rw [← hcg, cget_of_mem hcok.1 hx]
      have hxne : x.2 ≠ [] := by rw [hx2]; exact hfull x.1 hx1
      have := lastD_mem hxne
      rw [hx2] at this
      rw [hx2]
      exact hflat κ x.1 _ this
    apply normEmit_emitOfCell hcok hall hne
    · intro x hx y hy
      obtain ⟨t', h1, _, _⟩ := hlast x hx
      rw [h1] at hy
      simp only [Elem.ofTok, List.mem_singleton] at hy
      rw [hy]
    · -- `get_tag` of the popped tokens is the key
      unfold schemaTag
      obtain ⟨e', he', hte⟩ := (hM.keysIff κ).mp hκk
      rw [show R.map liftEv ++ [(p, Elem.ofTok p t)] = (R ++ [(p, t)]).map liftEv by simp [liftEv]] at he'
      obtain ⟨ev, hev, heq⟩ := List.mem_map.mp he'
      have hevtag : ev.2.tag = κ := by rw [← hte, ← heq]; rfl
      apply getTag_chain (d := κ)
      · -- the token that created the key is still there
        have he'R : e' ∈ R.map liftEv ++ [(p, Elem.ofTok p t)] := by
          rw [show R.map liftEv ++ [(p, Elem.ofTok p t)] = (R ++ [(p, t)]).map liftEv by simp [liftEv]]
          exact he'
        have hq' : e'.1 < P := hwf'.2.1 e' he'R
        have hnout : κ ∉ sa.outTags := by
          intro hout
          have := (hM.exact1 e' he'R).2 (hte ▸ hout)
          exact hfull e'.1 hq' (hte ▸ this)
        have hmem : e'.2 ∈ sa.cell κ e'.1 := hM.compl κ hκk hnout e' he'R (hte ▸ CF.pre_refl _)
        have hlen : (sa.cell κ e'.1).length ≤ 1 := by
          have := (hM.exact1 e' he'R).1; rwa [hte] at this
        have hcell : sa.cell κ e'.1 = [e'.2] := eq_singleton_of_mem_of_length_le_one hmem hlen
        obtain ⟨x, hx, hxq⟩ := List.mem_map.mp (hall e'.1 hq')
        have hx2 : x.2 = [e'.2] := by rw [← cget_of_mem hcok.1 hx, hxq, hcg, hcell]
        have hl : lastD x.2 = e'.2 := by rw [hx2]; rfl
        simp only [schemaOf, List.map_flatMap, List.flatMap_map, List.mem_flatMap, List.mem_map]
        refine ⟨x, hx, (ev.1, ev.2), ?_, hevtag⟩
        rw [hl, ← heq]
        simp [liftEv, Elem.ofTok]
      · intro τ hτ
        simp only [schemaOf, List.flatMap_map, List.mem_map, List.mem_flatMap] at hτ
        obtain ⟨y, ⟨x, hx, hy⟩, hyt⟩ := hτ
        obtain ⟨t', h1, h2, _⟩ := hlast x hx
        rw [h1] at hy
        simp only [Elem.ofTok, List.mem_singleton] at hy
        have hr : t'.tag.head? = some 0 := hroot (x.1, t') h2
        rw [← hyt, hy]
        show t'.tag ≠ []
        intro h0
        rw [h0] at hr
        simp at hr
      · intro τ hτ
        simp only [schemaOf, List.flatMap_map, List.mem_map, List.mem_flatMap] at hτ
        obtain ⟨y, ⟨x, hx, hy⟩, hyt⟩ := hτ
        obtain ⟨t', h1, _, h3⟩ := hlast x hx
        rw [h1] at hy
        simp only [Elem.ofTok, List.mem_singleton] at hy
        rw [← hyt, hy]
        exact (CF.pre_iff.mp h3).1
      · rw [← hevtag]; exact hroot ev hev

end SFV.Comb
