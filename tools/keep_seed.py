#!/usr/bin/env python3
"""tools/keep_seed.py <src dir> <seed id> <property> <needs> <check-result> [clean-exit patched-exit tests-passing]
— copy a confirmed seeded change into seeded/<id>/ (wave 3 onwards; waves A/B were registered by register_seeds.py).
The three numbers are what tools/validate_seed.sh printed for this seed."""
import json, os, shutil, sys
src, sid, prop, needs, detected = sys.argv[1:6]
clean, patched, tests = (int(x) for x in (sys.argv[6:9] if len(sys.argv) >= 9 else (0, 1, 171)))
root = os.path.join(os.path.dirname(os.path.abspath(__file__)), "..", "seeded", sid)
os.makedirs(root, exist_ok=True)
for fn in os.listdir(src):
    if fn in ("patch.diff", "demo.py", "test_demo.py", "notes.md"):
        shutil.copy(os.path.join(src, fn), os.path.join(root, fn))
meta = {
    "property": prop,
    "needs_to_manifest": needs,
    "confirmed": {"demo_on_clean_tree_exit": clean, "demo_with_patch_exit": patched,
                  "stable_baseline_tests_passing_with_patch": tests,
                  "how": "tools/validate_seed.sh in a scratch worktree of /repo (private HOME; tests/test_cwl_loop.py serially)"},
    "check_result": detected,
    "ran": [f"tools/validate_seed.sh {src}", f"tools/run_seed.sh {src} {prop}"],
    "written_by": "independent sub-agent (wave 3) given only the property text and a scratch worktree of /repo",
}
json.dump(meta, open(os.path.join(root, "meta.json"), "w"), indent=1)
print("kept", sid)
