-- PILOT (round 0): Graph.lean (DirectedGraph.remove_nodes stack algorithm, well-founded on (keys.length, stack.length); 0.6 s). Lesson: keep inner folds as named recursive helpers with a `_keys` lemma each — Lean rewrites `List.foldl` inside a wf-recursive body into an `attach` form that makes `decreasing_by` goals unreadable.
/-! Pilot: DirectedGraph.remove_nodes stack algorithm — definition with termination. -/
namespace PilotGr

structure G where
  keys : List Nat
  succ : Nat → List Nat
  pred : Nat → List Nat

def G.eraseEdgeSucc (g : G) (p c : Nat) : G := { g with succ := fun k => if k = p then (g.succ k).erase c else g.succ k }
def G.eraseEdgePred (g : G) (s c : Nat) : G := { g with pred := fun k => if k = s then (g.pred k).erase c else g.pred k }

/-- inner loop over predecessors of `cur`: discard `cur` from succ[p]; push p if pruning and succ[p] ⊆ stack -/
def predLoop (prune : Bool) (cur : Nat) : List Nat → G → List Nat → G × List Nat
  | [], g, stack => (g, stack)
  | p :: ps, g, stack =>
      let g' := g.eraseEdgeSucc p cur
      let stack' := if prune && (g'.succ p).all (· ∈ stack) then p :: stack else stack
      predLoop prune cur ps g' stack'

theorem predLoop_keys (prune : Bool) (cur : Nat) (ps : List Nat) (g : G) (st : List Nat) :
    (predLoop prune cur ps g st).1.keys = g.keys := by
  induction ps generalizing g st with
  | nil => rfl
  | cons p ps ih => simp [predLoop, ih, G.eraseEdgeSucc]

def dropFromPreds (cur : Nat) : List Nat → G → G
  | [], g => g
  | s :: ss, g => dropFromPreds cur ss (g.eraseEdgePred s cur)

theorem dropFromPreds_keys (cur : Nat) (l : List Nat) (g : G) : (dropFromPreds cur l g).keys = g.keys := by
  induction l generalizing g with
  | nil => rfl
  | cons a l ih => simp [dropFromPreds, ih, G.eraseEdgePred]

def removeLoop (prune : Bool) (g : G) (stack : List Nat) (removed : List Nat) : G × List Nat :=
  match stack with
  | [] => (g, removed)
  | cur :: rest =>
      if h : cur ∈ g.keys then
        let g1 : G := dropFromPreds cur (g.succ cur) g
        let r := predLoop prune cur (g.pred cur) g1 rest
        let g3 : G := { r.1 with keys := r.1.keys.erase cur }
        removeLoop prune g3 r.2 (removed ++ [cur])
      else removeLoop prune g rest removed
termination_by (g.keys.length, stack.length)
decreasing_by
  · apply Prod.Lex.left
    simp only [predLoop_keys, dropFromPreds_keys]
    rw [List.length_erase_of_mem h]
    have : 0 < g.keys.length := List.length_pos_of_mem h
    omega
  · apply Prod.Lex.right
    simp

def removeNodes (g : G) (nodes : List Nat) (prune : Bool := true) : G × List Nat :=
  removeLoop prune g nodes.reverse []   -- python pops from the end

-- smoke test: p→t, p→q, q→t ; remove [t] with pruning removes all three
def ex : G := { keys := [0,1,2], succ := fun k => if k = 0 then [1,2] else if k = 1 then [2] else [],
                pred := fun k => if k = 2 then [0,1] else if k = 1 then [0] else [] }
#eval (removeNodes ex [2]).2
#eval (removeNodes ex [2] false).2
#eval (removeNodes ex [1]).2
end PilotGr
