"""Shell-based fake connectors (no docker/ssh) and small helpers shared by C22..C25.

* `MiniConnector`   : the smallest concrete `BaseConnector` — persistent `sh` (`BaseConnector.run` unchanged), the stream
                      reader/writer commands go through `sh -c` like every real remote connector does (ssh, docker exec):
                      `BaseConnector.get_stream_*` itself `shlex.split`s the joined command and execs it *without* a
                      shell, which no remote connector can do.
* `run_watchdog`    : run a coroutine on a fresh event loop with a wall-clock bound; shells started by the fake
                      connectors are killed afterwards, so a hang (e.g. an unbalanced quote left in a persistent
                      shell) is a *result*, never a stuck run.
"""
from __future__ import annotations

import asyncio
import os
import signal
from collections.abc import MutableMapping, MutableSequence
from typing import Any, AsyncContextManager

from streamflow.core.data import StreamWrapper
from streamflow.core.deployment import ExecutionLocation
from streamflow.core.scheduling import AvailableLocation
from streamflow.deployment.connector.base import (
    BaseConnector,
    SubprocessStreamReaderWrapperContextManager,
    SubprocessStreamWriterWrapperContextManager,
)

_LIVE_PIDS: set[int] = set()


class MiniConnector(BaseConnector):
    """persistent-`sh` connector whose "remote" is this machine; used with paths under a private root directory"""

    def __init__(self, deployment_name: str = "mini", config_dir: str = "/", transferBufferSize: int = 2 ** 16,
                 shell_streams: bool = True, locations: tuple[str, ...] = ("loc0",)):
        super().__init__(deployment_name, config_dir, transferBufferSize)
        self.shell_streams = shell_streams
        self.location_names = locations
        self.commands: list[tuple[str, list[str]]] = []   # every command list seen by run / get_stream_*

    async def deploy(self, external: bool) -> None:
        pass

    async def get_available_locations(self, service: str | None = None) -> MutableMapping[str, AvailableLocation]:
        return {n: AvailableLocation(name=n, deployment=self.deployment_name, hostname="localhost", service=service, slots=1)
                for n in self.location_names}

    @classmethod
    def get_schema(cls) -> str:
        return "{}"

    async def _create_shell(self, command, location):
        shell = await super()._create_shell(command, location)
        _LIVE_PIDS.add(shell._proc.pid)
        return shell

    async def run(self, location, command, environment=None, workdir=None, stdin=None, stdout=asyncio.subprocess.STDOUT,
                  stderr=asyncio.subprocess.STDOUT, capture_output=False, timeout=None, job_name=None):
        self.commands.append(("run", list(command)))
        return await super().run(location, command, environment, workdir, stdin, stdout, stderr, capture_output, timeout, job_name)

    async def get_stream_reader(self, command: MutableSequence[str], location: ExecutionLocation) -> AsyncContextManager[StreamWrapper]:
        self.commands.append(("reader", list(command)))
        if not self.shell_streams:
            return await super().get_stream_reader(command, location)
        return SubprocessStreamReaderWrapperContextManager(
            coro=asyncio.create_subprocess_exec("sh", "-c", " ".join(command), stdin=asyncio.subprocess.DEVNULL,
                                                stdout=asyncio.subprocess.PIPE, stderr=asyncio.subprocess.DEVNULL))

    async def get_stream_writer(self, command: MutableSequence[str], location: ExecutionLocation) -> AsyncContextManager[StreamWrapper]:
        self.commands.append(("writer", list(command)))
        if not self.shell_streams:
            return await super().get_stream_writer(command, location)
        return SubprocessStreamWriterWrapperContextManager(
            coro=asyncio.create_subprocess_exec("sh", "-c", " ".join(command), stdin=asyncio.subprocess.PIPE,
                                                stdout=asyncio.subprocess.DEVNULL, stderr=asyncio.subprocess.DEVNULL))


def mini_location(connector: MiniConnector, name: str = "loc0") -> ExecutionLocation:
    return ExecutionLocation(name=name, deployment=connector.deployment_name, hostname="localhost", local=False)


def kill_leftovers() -> None:
    for pid in list(_LIVE_PIDS):
        try:
            os.kill(pid, signal.SIGKILL)
        except (ProcessLookupError, PermissionError):
            pass
        _LIVE_PIDS.discard(pid)


class Hang(Exception):
    pass


def run_watchdog(coro_fn, timeout: float = 20.0) -> Any:
    """run `await coro_fn()` on a fresh loop; `Hang` when it does not finish within `timeout` seconds of wall clock"""
    loop = asyncio.new_event_loop()
    try:
        asyncio.set_event_loop(loop)

        async def main():
            task = asyncio.ensure_future(coro_fn())
            done, _ = await asyncio.wait({task}, timeout=timeout)
            if not done:
                task.cancel()
                raise Hang(f"no result after {timeout}s")
            return task.result()

        return loop.run_until_complete(main())
    finally:
        kill_leftovers()
        try:
            pending = [t for t in asyncio.all_tasks(loop) if not t.done()]
            for t in pending:
                t.cancel()
            if pending:
                loop.run_until_complete(asyncio.wait(pending, timeout=2))
            loop.run_until_complete(loop.shutdown_asyncgens())
        except Exception:  # noqa: BLE001
            pass
        asyncio.set_event_loop(None)
        loop.close()


def run_forked(fn, timeout: float = 20.0) -> Any:
    """run `fn()` in a forked child process and return its (picklable) result; the child is killed and `Hang` raised when it
    does not answer within `timeout` seconds of wall clock. For code that can spin without ever yielding to the event loop
    (e.g. a copy loop on a stream at EOF), where an in-process asyncio timeout cannot fire."""
    import pickle
    import select
    import time

    r, w = os.pipe()
    pid = os.fork()
    if pid == 0:  # child
        status = 0
        try:
            os.close(r)
            try:
                payload = pickle.dumps(("ok", fn()))
            except BaseException as e:  # noqa: BLE001
                payload = pickle.dumps(("exc", f"{type(e).__name__}: {e}"))
            with os.fdopen(w, "wb") as f:
                f.write(payload)
        except BaseException:  # noqa: BLE001
            status = 1
        finally:
            os._exit(status)
    os.close(w)
    chunks = []
    deadline = time.time() + timeout
    try:
        while True:
            left = deadline - time.time()
            if left <= 0:
                os.kill(pid, signal.SIGKILL)
                os.waitpid(pid, 0)
                raise Hang(f"no result after {timeout}s (child killed)")
            ready, _, _ = select.select([r], [], [], min(left, 1.0))
            if ready:
                b = os.read(r, 1 << 20)
                if not b:
                    break
                chunks.append(b)
    finally:
        os.close(r)
    os.waitpid(pid, 0)
    if not chunks:
        raise RuntimeError("forked case died without a result")
    kind, val = pickle.loads(b"".join(chunks))
    if kind == "exc":
        raise RuntimeError(val)
    return val


def run_alarm(fn, timeout: float = 20.0) -> Any:
    """run `fn()` in this process under a SIGALRM watchdog (main thread only): `Hang` is raised *inside* `fn` when the wall-clock
    bound expires — works for pure-Python busy loops that never yield to an event loop, costs nothing (no fork)."""
    def on_alarm(signum, frame):
        raise Hang(f"no result after {timeout}s")
    old = signal.signal(signal.SIGALRM, on_alarm)
    signal.setitimer(signal.ITIMER_REAL, timeout)
    try:
        return fn()
    finally:
        signal.setitimer(signal.ITIMER_REAL, 0)
        signal.signal(signal.SIGALRM, old)


def limit_failures(ctx, per_key: int = 6) -> None:
    """The framework keeps at most 200 recorded failures per run. Known findings that recur on many generated cases would fill
    that list and hide a *new* kind of failure found later in the same run: record only the first `per_key` failures of every key
    (the rest are counted in the histogram as `more:<key>`)."""
    if getattr(ctx, "_sfv_limited", False):
        return
    orig, seen = ctx.fail, {}

    def fail(key, detail, replay):
        seen[key] = seen.get(key, 0) + 1
        if seen[key] <= per_key:
            orig(key, detail, replay)
        else:
            ctx.count(f"more:{key}")
    ctx.fail = fail
    ctx._sfv_limited = True


def in_scratch_cwd(method):
    """decorator for `explore(self, ctx)` / `replay(self, ctx, data)`: run with the process's current directory inside
    `ctx.scratch/cwd`. The injection witnesses make the real code run mis-parsed shell commands (`mkdir a b`, `cd x; y > dir`, …) whose
    relative paths would otherwise land in the checkout."""
    import functools

    @functools.wraps(method)
    def wrapper(self, ctx, *args, **kwargs):
        old = os.getcwd()
        cwd = os.path.join(ctx.scratch, "cwd")
        os.makedirs(cwd, exist_ok=True)
        os.chdir(cwd)
        try:
            return method(self, ctx, *args, **kwargs)
        finally:
            os.chdir(old)
    return wrapper


VIRT = "/sfvfs"


class MultiRootConnector(MiniConnector):
    """one deployment, several locations, each with its OWN file system: every location has a private root directory and the virtual
    prefix `/sfvfs` in command lines is rewritten to it (and back in captured output), so `/sfvfs/D/x` on loc0 and on loc1 are different
    directories — as on distinct hosts of one deployment. Commands and stream commands run through `sh -c`."""

    def __init__(self, deployment_name: str, root: str, locations: tuple[str, ...] = ("loc0", "loc1"), transferBufferSize: int = 2 ** 16):
        super().__init__(deployment_name, "/", transferBufferSize, locations=locations)
        self.root = os.path.realpath(root)
        for n in locations:
            os.makedirs(self.real_root(n), exist_ok=True)

    def real_root(self, location_name: str) -> str:
        return os.path.join(self.root, location_name)

    def real(self, location_name: str, virtual_path: str) -> str:
        return virtual_path.replace(VIRT, self.real_root(location_name), 1)

    async def run(self, location, command, environment=None, workdir=None, stdin=None, stdout=asyncio.subprocess.STDOUT,
                  stderr=asyncio.subprocess.STDOUT, capture_output=False, timeout=None, job_name=None):
        real = self.real_root(location.name)
        self.commands.append((f"run@{location.name}", list(command)))
        cmd = " ".join(command).replace(VIRT, real)
        proc = await asyncio.create_subprocess_exec("sh", "-c", cmd, stdin=asyncio.subprocess.DEVNULL,
                                                    stdout=asyncio.subprocess.PIPE, stderr=asyncio.subprocess.STDOUT)
        out, _ = await asyncio.wait_for(proc.communicate(), timeout or 120)
        if capture_output:
            return out.decode("utf-8", "replace").strip().replace(real, VIRT), proc.returncode
        return None

    async def get_stream_reader(self, command, location):
        self.commands.append((f"reader@{location.name}", list(command)))
        return SubprocessStreamReaderWrapperContextManager(
            coro=asyncio.create_subprocess_exec("sh", "-c", " ".join(command).replace(VIRT, self.real_root(location.name)),
                                                stdin=asyncio.subprocess.DEVNULL, stdout=asyncio.subprocess.PIPE, stderr=asyncio.subprocess.DEVNULL))

    async def get_stream_writer(self, command, location):
        self.commands.append((f"writer@{location.name}", list(command)))
        return SubprocessStreamWriterWrapperContextManager(
            coro=asyncio.create_subprocess_exec("sh", "-c", " ".join(command).replace(VIRT, self.real_root(location.name)),
                                                stdin=asyncio.subprocess.PIPE, stdout=asyncio.subprocess.DEVNULL, stderr=asyncio.subprocess.DEVNULL))
