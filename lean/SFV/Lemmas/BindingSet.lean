import SFV.Lemmas.Binding
/-! C28: `set_targets` materialises the inherited step target on the nodes it visits and thereby changes
    no answer of `propagate`. -/
namespace SFV.Binding

variable {V : Type}

/-- the value `propagate(…, "step")` carries when it arrives at a node, ignoring node existence -/
def nearLoop (t : Trie V) : Path → List String → Option V → Option V
  | _, [], v => v
  | cur, x :: r, v =>
      nearLoop t (cur ++ [x]) r (pick (t.attr .step (cur ++ [x])) v)

def nearS (t : Trie V) (p : Path) : Option V := nearLoop t [] p none

theorem nearLoop_append (t : Trie V) (cur a b : Path) (v : Option V) :
    nearLoop t cur (a ++ b) v = nearLoop t (cur ++ a) b (nearLoop t cur a v) := by
  induction a generalizing cur v with
  | nil => simp [nearLoop]
  | cons x a ih => simp [nearLoop, ih]

theorem nearS_snoc (t : Trie V) (cur : Path) (x : String) :
    nearS t (cur ++ [x]) = pick (t.attr .step (cur ++ [x])) (nearS t cur) := by
  simp [nearS, nearLoop_append, nearLoop]

/-- `t` is `t0` with the inherited step target written on some nodes that had no `step` key -/
structure Mat (t0 t : Trie V) : Prop where
  nodes : t.nodes = t0.nodes
  port : ∀ p, t.attr .port p = t0.attr .port p
  step : ∀ p, t.attr .step p = t0.attr .step p ∨ (t0.attr .step p = none ∧ t.attr .step p = some (nearS t0 p))

theorem mat_refl (t : Trie V) : Mat t t := ⟨rfl, fun _ => rfl, fun _ => Or.inl rfl⟩

theorem mat_propLoop_step {t0 t : Trie V} (h : Mat t0 t) (cur : Path) (rest : List String) :
    propLoop t .step cur rest (nearS t0 cur) = propLoop t0 .step cur rest (nearS t0 cur) := by
  induction rest generalizing cur with
  | nil => rfl
  | cons x rest ih =>
    simp only [propLoop, h.nodes]
    split
    · have hv0 : pick (t0.attr .step (cur ++ [x])) (nearS t0 cur) = nearS t0 (cur ++ [x]) :=
        (nearS_snoc t0 cur x).symm
      have hv : pick (t.attr .step (cur ++ [x])) (nearS t0 cur) = nearS t0 (cur ++ [x]) := by
        rcases h.step (cur ++ [x]) with e | ⟨e0, e⟩
        · rw [e]; exact hv0
        · rw [e]; rfl
      rw [hv, hv0]; exact ih _
    · rfl

theorem mat_propLoop_port {t0 t : Trie V} (h : Mat t0 t) (cur : Path) (rest : List String) (v : Option V) :
    propLoop t .port cur rest v = propLoop t0 .port cur rest v := by
  induction rest generalizing cur v with
  | nil => rfl
  | cons x rest ih => simp only [propLoop, h.nodes, h.port, ih]

theorem mat_propagate {t0 t : Trie V} (h : Mat t0 t) (path : Path) (k : Kind) :
    t.propagate path k = t0.propagate path k := by
  cases k with
  | step => exact mat_propLoop_step h [] path
  | port => exact mat_propLoop_port h [] path none

theorem mat_setAttr {t0 t : Trie V} (h : Mat t0 t) (c : Path) (hc : t.attr .step c = none) :
    Mat t0 (t.setAttr .step c (nearS t0 c)) := by
  refine ⟨h.nodes, ?_, ?_⟩
  · intro p; simp [Trie.setAttr, h.port]
  · intro p
    simp only [Trie.setAttr]
    by_cases hp : p = c
    · subst hp
      right
      refine ⟨?_, by simp⟩
      rcases h.step p with e | ⟨e0, _⟩
      · rw [← e]; exact hc
      · exact e0
    · simp [hp]; exact h.step p

theorem mem_children {t : Trie V} {cur p : Path} (h : p ∈ children t cur) : ∃ x, p = cur ++ [x] := by
  simp only [children] at h
  have h' := List.mem_eraseDups.mp h
  simp only [List.mem_filter, decide_eq_true_eq, Bool.and_eq_true, List.isPrefixOf_iff_prefix] at h'
  obtain ⟨_, hlen, r, rfl⟩ := h'
  simp at hlen
  match r, hlen with
  | [x], _ => exact ⟨x, rfl⟩

/-- `set_targets` only materialises, provided it is entered with the inherited target of the current node -/
theorem mat_setTargets {t0 : Trie V} (fuel : Nat) (t : Trie V) (cur : Path) (target : Option V)
    (h : Mat t0 t) (ht : target = nearS t0 cur) : Mat t0 (setTargets fuel t cur target) := by
  induction fuel generalizing t cur target with
  | zero => exact h
  | succ fuel ih =>
    simp only [setTargets]
    have key : ∀ (l : List Path) (t : Trie V), (∀ p ∈ l, ∃ x, p = cur ++ [x]) → Mat t0 t →
        Mat t0 (l.foldl (fun t node =>
          if (t.attr .port node).isSome then t
          else
            let t' := if (t.attr .step node).isNone then t.setAttr .step node target else t
            setTargets fuel t' node ((t'.attr .step node).getD none)) t) := by
      intro l
      induction l with
      | nil => intro t _ h; exact h
      | cons node l ihl =>
        intro t hl h
        simp only [List.foldl_cons]
        apply ihl _ (fun p hp => hl p (List.mem_cons_of_mem _ hp))
        obtain ⟨x, rfl⟩ := hl node (by simp)
        split
        · exact h
        · have hnear := nearS_snoc t0 cur x
          by_cases hnone : (t.attr .step (cur ++ [x])).isNone
          · have hn : t.attr .step (cur ++ [x]) = none := by simpa using hnone
            have h0 : t0.attr .step (cur ++ [x]) = none := by
              rcases h.step (cur ++ [x]) with e | ⟨e0, _⟩
              · rw [← e]; exact hn
              · exact e0
            have htn : target = nearS t0 (cur ++ [x]) := by rw [hnear, h0]; exact ht
            simp only [hnone, if_true]
            apply ih
            · rw [htn]; exact mat_setAttr h _ hn
            · simp [Trie.setAttr, htn]
          · simp only [hnone]
            apply ih _ _ _ h
            cases hs : t.attr .step (cur ++ [x]) with
            | none => simp [hs] at hnone
            | some w =>
              simp only [Bool.false_eq_true, if_false, hs, Option.getD_some]
              rcases h.step (cur ++ [x]) with e | ⟨_, e⟩
              · rw [hnear, ← e, hs]; rfl
              · rw [hs] at e; injection e
    exact key _ t (fun p hp => mem_children hp) h

/-- what an accepted `__init__` leaves behind: the trie of the bindings, as far as `propagate` can tell -/
theorem initConfig_propagate {F : List String} {deps : List Deployment} {bs : List Binding} {t : Trie BConfig}
    (h : initConfig F deps bs = .ok t) :
    ∃ t0, processAll F Trie.empty bs = .ok t0 ∧ checkStacked deps = .ok () ∧
      ∀ path k, t.propagate path k = t0.propagate path k := by
  unfold initConfig at h
  split at h
  · cases h
  · rename_i t0 ht0
    simp only at h
    split at h
    · cases h
    · rename_i hc
      injection h with h
      subst h
      exact ⟨t0, ht0, hc, fun path k => mat_propagate (mat_setTargets _ t0 [] none (mat_refl t0) rfl) path k⟩

end SFV.Binding
