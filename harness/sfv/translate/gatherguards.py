"""Extractor: the guards of ScatterStep._scatter / GatherStep.run / GatherStep._gather (streamflow/workflow/step.py)
-> SFV/Gen/GatherGuards.lean.

What is read from the source (by semantic anchor, never by line number):
* `_scatter`: the element tag expression `token.tag + "." + str(i)` inside `for i, t in enumerate(token.value)` and the
  size token `Token(len(token.value), tag=token.tag, …)`;
* `run`: the two `if <test>: await self._gather(k)` of the main loop (size arrival / element arrival), the definition of
  `size_value` (None when the size is unknown), the key expression `".".join(token.tag.split(".")[: -self.depth])`, and the
  guard of the forced gathering `if status != Status.FAILED`;
* `_gather`: the tag of the emitted ListToken and the comparator handed to `sorted(..., key=cmp_to_key(lambda x, y: …))`.
"""
from __future__ import annotations

import ast
import os

from sfv.translate.expr import ExprTranslator, TranslateError, find_nodes, parse_function

TARGET = "SFV/Gen/GatherGuards.lean"
STEP_PY = "streamflow/workflow/step.py"


class _Tr(ExprTranslator):
    """adds calls of `compare_tags(a, b)` (-> `SFV.compareTags a b`)"""

    def tr(self, node: ast.AST) -> str:
        src = ast.unparse(node)
        if src in self.names:
            return self.names[src]
        if isinstance(node, ast.Call) and ast.unparse(node.func) in ("compare_tags", "utils.compare_tags") \
                and len(node.args) == 2 and not node.keywords:
            return f"(SFV.compareTags {self.tr(node.args[0])} {self.tr(node.args[1])})"
        return super().tr(node)


def _nospace(node: ast.AST) -> str:
    return ast.unparse(node).replace(" ", "").replace('"', "'")


def _direct_gather_call(stmts) -> ast.Call | None:
    """the `await self._gather(x)` statement directly inside a statement list"""
    for s in stmts:
        if isinstance(s, ast.Expr) and isinstance(s.value, ast.Await) and isinstance(s.value.value, ast.Call) \
                and ast.unparse(s.value.value.func) == "self._gather":
            return s.value.value
    return None


def _none_compare(test: ast.AST, tr: ExprTranslator, what: str) -> tuple[str, str]:
    """a test in which `size` may be None: only `a == size` / `a != size` have a value for None"""
    if not (isinstance(test, ast.Compare) and len(test.ops) == 1):
        raise TranslateError(f"{what}: the test `{ast.unparse(test)}` is not a single comparison")
    if isinstance(test.ops[0], ast.Eq):
        return tr.tr(test), "false"
    if isinstance(test.ops[0], ast.NotEq):
        return tr.tr(test), "true"
    raise TranslateError(f"{what}: `{ast.unparse(test)}` compares an int with None when the size is unknown (TypeError)")


def key_slice(node: ast.AST, what: str) -> str:
    """`".".join(<tag>.split(".")[: -self.depth])`  ->  lean expression for the number of dropped components"""
    ok = (isinstance(node, ast.Call) and _nospace(node.func) == "'.'.join" and len(node.args) == 1
          and isinstance(node.args[0], ast.Subscript) and isinstance(node.args[0].slice, ast.Slice))
    if not ok:
        raise TranslateError(f"{what}: key is not `'.'.join(tag.split('.')[: -depth])`: `{ast.unparse(node)}`")
    sub = node.args[0]
    if _nospace(sub.value) not in ("token.tag.split('.')",):
        raise TranslateError(f"{what}: key is not computed from token.tag.split('.'): `{ast.unparse(node)}`")
    sl = sub.slice
    if sl.lower is not None or sl.step is not None or not (isinstance(sl.upper, ast.UnaryOp) and isinstance(sl.upper.op, ast.USub)):
        raise TranslateError(f"{what}: the slice is not `[: -k]`: `{ast.unparse(node)}`")
    k = sl.upper.operand
    if ast.unparse(k) == "self.depth":
        return "depth"
    if isinstance(k, ast.Constant) and isinstance(k.value, int) and k.value > 0:
        return str(k.value)
    raise TranslateError(f"{what}: unsupported slice bound `{ast.unparse(sl.upper)}`")


def generate(repo: str) -> tuple[str, str]:
    path = os.path.join(repo, STEP_PY)
    # ---- ScatterStep._scatter ------------------------------------------------------------------
    fn = parse_function(path, "_scatter", cls="ScatterStep")
    loops = find_nodes(fn, ast.For)
    if len(loops) != 1 or _nospace(loops[0].iter) != "enumerate(token.value)" or not isinstance(loops[0].target, ast.Tuple):
        raise TranslateError("_scatter: `for i, t in enumerate(token.value)` not found")
    idx, el = (e.id for e in loops[0].target.elts)
    retags = find_nodes(loops[0], ast.Call, lambda c: isinstance(c.func, ast.Attribute) and c.func.attr == "retag")
    if len(retags) != 1 or ast.unparse(retags[0].func.value) != el or len(retags[0].args) != 1:
        raise TranslateError("_scatter: `t.retag(<tag>)` of the enumerated element not found")
    targ = retags[0].args[0]
    # token.tag + "." + str(<index expr>)
    ok = (isinstance(targ, ast.BinOp) and isinstance(targ.op, ast.Add) and isinstance(targ.left, ast.BinOp)
          and isinstance(targ.left.op, ast.Add) and ast.unparse(targ.left.left) == "token.tag"
          and isinstance(targ.left.right, ast.Constant) and targ.left.right.value == "."
          and isinstance(targ.right, ast.Call) and ast.unparse(targ.right.func) == "str" and len(targ.right.args) == 1)
    if not ok:
        raise TranslateError(f"_scatter: element tag is not `token.tag + '.' + str(i)`: `{ast.unparse(targ)}`")
    scatter_idx = ExprTranslator({idx: "i"}).tr(targ.right.args[0])
    puts = find_nodes(fn, ast.Call, lambda c: ast.unparse(c.func) == "Token")
    if len(puts) != 1 or not puts[0].args:
        raise TranslateError("_scatter: the size `Token(len(token.value), tag=token.tag, …)` not found")
    kw = {k.arg: k.value for k in puts[0].keywords}
    if "tag" not in kw or ast.unparse(kw["tag"]) != "token.tag":
        raise TranslateError("_scatter: the size token is not tagged with token.tag")
    scatter_size = ExprTranslator({"len(token.value)": "n"}).tr(puts[0].args[0])
    # the size token must be emitted outside (after) the element loop, on the size port
    if any(puts[0] is n for n in ast.walk(loops[0])):
        raise TranslateError("_scatter: the size token is created inside the element loop")
    # ---- GatherStep.run ------------------------------------------------------------------------
    run = parse_function(path, "run", cls="GatherStep")
    whiles = [s for s in run.body if isinstance(s, ast.While)]
    if len(whiles) != 1 or ast.unparse(whiles[0].test) != "tasks":
        raise TranslateError("GatherStep.run: main `while tasks:` loop not found")
    guards = [n for n in ast.walk(whiles[0]) if isinstance(n, ast.If) and _direct_gather_call(n.body) is not None]
    if len(guards) != 2 or any(g.orelse for g in guards):
        raise TranslateError(f"GatherStep.run: expected two `if <test>: await self._gather(k)` in the loop, found {len(guards)}")
    by_port = [n for n in ast.walk(whiles[0]) if isinstance(n, ast.If) and _nospace(n.test) == "task_name=='__size__'"]
    if len(by_port) != 1:
        raise TranslateError("GatherStep.run: `if task_name == '__size__'` dispatch not found")
    disp = by_port[0]
    g_size = [g for g in guards if any(g is n for s in disp.body for n in ast.walk(s))]
    g_elem = [g for g in guards if any(g is n for s in disp.orelse for n in ast.walk(s))]
    if len(g_size) != 1 or len(g_elem) != 1:
        raise TranslateError("GatherStep.run: one emission test per branch (size / element) expected")
    g_size, g_elem = g_size[0], g_elem[0]

    def completes(g: ast.If, k: str, what: str):
        call = _direct_gather_call(g.body)
        if len(call.args) != 1 or ast.unparse(call.args[0]) != k:
            raise TranslateError(f"GatherStep.run: {what} branch gathers `{ast.unparse(call)}`, expected key `{k}`")
        if f"keys_completed.add({k})" not in [ast.unparse(s) for s in g.body]:
            raise TranslateError(f"GatherStep.run: {what} branch does not record the key in keys_completed")

    # locals of the element branch may be renamed: `key` is whatever is assigned the sliced tag, `size_value` whatever is
    # assigned the conditional expression reading size_map
    assigns = {ast.unparse(s.targets[0]): s.value for s in disp.orelse if isinstance(s, ast.Assign) and len(s.targets) == 1
               and isinstance(s.targets[0], ast.Name)}
    kv = [n for n, v in assigns.items() if isinstance(v, ast.Call) and _nospace(v.func) == "'.'.join"]
    if len(kv) != 1:
        raise TranslateError("GatherStep.run: `key = '.'.join(token.tag.split('.')[: -self.depth])` not found in the element branch")
    kv = kv[0]
    sv = [n for n, v in assigns.items() if isinstance(v, ast.IfExp)]
    if len(sv) != 1:
        raise TranslateError("GatherStep.run: `size_value = self.size_map[key].value if key in self.size_map else None` not found")
    sv = sv[0]
    completes(g_size, "token.tag", "size")
    completes(g_elem, kv, "element")
    size_stmts = [ast.unparse(s).replace(" ", "") for s in disp.body]
    if "self.size_map[token.tag]=token" not in size_stmts:
        raise TranslateError("GatherStep.run: size branch does not store `self.size_map[token.tag] = token`")
    size_emits = ExprTranslator({"len(self.token_map.setdefault(token.tag, []))": "count", "token.value": "size"}).tr(g_size.test)
    # element branch
    drop = key_slice(assigns[kv], "GatherStep.run")
    if _nospace(assigns[sv]) != f"self.size_map[{kv}].valueif{kv}inself.size_mapelseNone":
        raise TranslateError("GatherStep.run: size_value is not `self.size_map[key].value if key in self.size_map else None`")
    elem_stmts = [ast.unparse(s).replace(" ", "") for s in disp.orelse]
    if f"self.token_map.setdefault({kv},[]).append(token)" not in elem_stmts:
        raise TranslateError("GatherStep.run: element branch does not append the token to token_map[key]")
    if elem_stmts.index(f"self.token_map.setdefault({kv},[]).append(token)") > disp.orelse.index(g_elem):
        raise TranslateError("GatherStep.run: the element is stored after the emission test")
    elem_some, elem_none = _none_compare(
        g_elem.test, ExprTranslator({f"len(self.token_map.setdefault({kv}, []))": "count", sv: "size"}), "GatherStep.run")
    # forced gathering
    forced = [s for s in run.body if isinstance(s, ast.If) and any(
        isinstance(n, ast.Call) and ast.unparse(n.func) == "self._gather" for n in ast.walk(s))]
    if len(forced) != 1 or forced[0].orelse:
        raise TranslateError("GatherStep.run: forced gathering `if <status test>: for key in …: … await self._gather(key)` not found")
    force = ExprTranslator({"status": "status"}, enums={"Status": "SFV.Status"}).tr(forced[0].test)
    floops = [s for s in forced[0].body if isinstance(s, ast.For)]
    if len(floops) != 1 or _nospace(floops[0].iter) != "(kforkinself.token_map.keys()ifknotinkeys_completed)":
        raise TranslateError("GatherStep.run: forced gathering does not iterate over the uncompleted keys of token_map")
    # ---- GatherStep._gather --------------------------------------------------------------------
    g = parse_function(path, "_gather", cls="GatherStep")
    lts = find_nodes(g, ast.Call, lambda c: ast.unparse(c.func) == "ListToken")
    if len(lts) != 1:
        raise TranslateError("_gather: ListToken(...) not found")
    kw = {k.arg: k.value for k in lts[0].keywords}
    if ast.unparse(kw.get("tag", ast.Constant(None))) != "key":
        raise TranslateError("_gather: the list token is not tagged with the key")
    val = kw.get("value")
    if not (isinstance(val, ast.Call) and ast.unparse(val.func) == "sorted" and len(val.args) == 1
            and ast.unparse(val.args[0]) == "self.token_map[key]"):
        raise TranslateError("_gather: value is not `sorted(self.token_map[key], key=…)`")
    skw = {k.arg: k.value for k in val.keywords}
    if set(skw) != {"key"}:
        raise TranslateError("_gather: sorted(...) has unexpected keyword arguments (reverse?)")
    keyf = skw["key"]
    if not (isinstance(keyf, ast.Call) and ast.unparse(keyf.func) == "cmp_to_key" and len(keyf.args) == 1
            and isinstance(keyf.args[0], ast.Lambda) and len(keyf.args[0].args.args) == 2):
        raise TranslateError(f"_gather: sort key is not `cmp_to_key(lambda x, y: …)`: `{ast.unparse(keyf)}`")
    lam = keyf.args[0]
    a, b = (x.arg for x in lam.args.args)
    gather_cmp = _Tr({f"{a}.tag": "x", f"{b}.tag": "y"}).tr(lam.body)
    text = f"""import SFV.Model.Tag
import SFV.Model.StepBase
/-! GENERATED by harness/sfv/translate/gatherguards.py from {STEP_PY} — do not edit. -/
namespace SFV.Gen

/-- index component appended by `ScatterStep._scatter` to element `i` (`token.tag + "." + str(…)`) -/
def scatterIdx (i : Int) : Int := {scatter_idx}
/-- value of the size token emitted by `_scatter` for a list of `n` elements -/
def scatterSize (n : Int) : Int := {scatter_size}
/-- number of trailing components `GatherStep.run` drops from an element tag to obtain its key -/
def gatherDrop (depth : Nat) : Nat := {drop}
/-- emission test on arrival of a size token (`count` = len(token_map[key]), `size` = token.value) -/
def gatherSizeEmits (count size : Int) : Bool := {size_emits}
/-- emission test on arrival of an element when the size of its key is known -/
def gatherElemEmitsSome (count size : Int) : Bool := {elem_some}
/-- the same test when the size is unknown (`size_value is None`) -/
def gatherElemEmitsNone : Bool := {elem_none}
/-- guard of the forced gathering after both ports terminated -/
def gatherForce (status : SFV.Status) : Bool := {force}
/-- comparator handed to `sorted` in `_gather` (over the tags of two tokens) -/
def gatherCmp (x y : SFV.Tag) : Int := {gather_cmp}

end SFV.Gen
"""
    return TARGET, text
