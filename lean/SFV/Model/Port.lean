/-! # Ports (C03): `Port`, `FilterTokenPort`, `InterWorkflowPort`

Executable model of `streamflow/core/workflow.py: Port` and `streamflow/workflow/port.py`.

* A token is `(term, tag, val)`: `term` = `isinstance(token, TerminationToken)`, `tag` an opaque tag
  identity (the port code only compares tags for equality), `val` the payload identity (for
  termination tokens the `Status` number).
* A consumer owns an `asyncio.Queue`; the model keeps its content (`items`), its
  `_unfinished_tasks` counter (`unf`), whether a `get` of that consumer is blocked (`wait`, with the
  flag "this is the consumer's first get", which is the branch of `Port.get` that does not call
  `task_done`) and, as a ghost, everything `get` returned so far (`recv`).
* A blocked `get` is completed by the next `put` (asyncio wakes the only getter of that queue; nothing
  else can pop the queue in between, so the wake-up is modelled as part of the `put`).
-/
namespace SFV.Port

structure Tok where
  term : Bool
  tag  : Nat
  val  : Nat
deriving DecidableEq, Repr, Inhabited

/-- `TerminationToken(Status.RECOVERED)` (Status.RECOVERED = 9) put by a TERMINATE boundary action -/
def recoveredTok : Tok := { term := true, tag := 0, val := 9 }

structure Q where
  items : List Tok
  unf   : Nat
  wait  : Option Bool
  recv  : List Tok
  err   : Bool := false       -- `ValueError: task_done() called too many times` was raised for this queue
deriving Repr

structure Port where
  log : List Tok              -- token_list
  qs  : Nat → Option Q        -- queues (dict consumer -> Queue)

def Port.empty : Port := { log := [], qs := fun _ => none }

/-- `Queue.task_done` -/
def Q.taskDone (q : Q) : Q :=
  if q.unf = 0 then { q with err := true } else { q with unf := q.unf - 1 }

/-- complete a blocked `get` if an item is available -/
def Q.deliver (q : Q) : Q :=
  match q.wait, q.items with
  | some first, h :: r =>
      let q' : Q := { q with items := r, wait := none, recv := q.recv ++ [h] }
      if first then q' else q'.taskDone
  | _, _ => q

/-- `Queue.put_nowait` followed by the wake-up of a blocked getter -/
def Q.push (q : Q) (t : Tok) : Q :=
  ({ q with items := q.items ++ [t], unf := q.unf + 1 } : Q).deliver

def Port.setQ (p : Port) (c : Nat) (q : Q) : Port :=
  { p with qs := fun k => if k = c then some q else p.qs k }

/-- `Port.put`: append to `token_list` and to every consumer queue -/
def Port.put (p : Port) (t : Tok) : Port :=
  { log := p.log ++ [t], qs := fun c => (p.qs c).map (·.push t) }

/-- `Port.get(consumer)`: the first call creates the queue pre-filled with the whole `token_list`
    (`_init_consumer`) and does not call `task_done`; later calls do. A `get` issued while another `get`
    of the same consumer is blocked is ignored (a consumer is a sequential coroutine). -/
def Port.get (p : Port) (c : Nat) : Port :=
  match p.qs c with
  | none =>
      p.setQ c ({ items := p.log, unf := p.log.length, wait := some true, recv := [] } : Q).deliver
  | some q =>
      if q.wait.isSome then p else p.setQ c ({ q with wait := some false } : Q).deliver

/-- `Port.close(consumer)` -/
def Port.close (p : Port) (c : Nat) : Port :=
  match p.qs c with
  | none => p
  | some q => p.setQ c q.taskDone

inductive Op where
  | put (t : Tok)
  | get (c : Nat)
  | close (c : Nat)
deriving Repr

def Port.step (p : Port) : Op → Port
  | .put t => p.put t
  | .get c => p.get c
  | .close c => p.close c

def Port.run (p : Port) (ops : List Op) : Port := ops.foldl Port.step p

/-- tokens received so far by consumer `c` -/
def Port.recv (p : Port) (c : Nat) : List Tok :=
  match p.qs c with
  | none => []
  | some q => q.recv

/-! ## FilterTokenPort -/

/-- `FilterTokenPort.put`: termination tokens and tokens accepted by the filter reach `Port.put` -/
def filterPut (keep : Tok → Bool) (p : Port) (t : Tok) : Port :=
  if t.term || keep t then p.put t else p

def filterStep (keep : Tok → Bool) (p : Port) : Op → Port
  | .put t => filterPut keep p t
  | .get c => p.get c
  | .close c => p.close c

def filterRun (keep : Tok → Bool) (p : Port) (ops : List Op) : Port := ops.foldl (filterStep keep) p

/-! ## InterWorkflowPort -/

inductive Target where
  | self
  | ext (k : Nat)
deriving DecidableEq, Repr

structure Rule where
  target    : Target
  propagate : Bool            -- BoundaryAction.PROPAGATE in action
  terminate : Bool            -- BoundaryAction.TERMINATE in action
  tags      : List Nat        -- tags still missing
deriving DecidableEq, Repr

structure IW where
  own   : Port
  ext   : Nat → Port          -- the boundary ports (plain ports)
  rules : List Rule           -- self.boundaries

def IW.empty : IW := { own := Port.empty, ext := fun _ => Port.empty, rules := [] }

/-- `Port.put` on the target of a rule (`super().put` for the port itself) -/
def IW.putTarget (s : IW) (tg : Target) (t : Tok) : IW :=
  match tg with
  | .self => { s with own := s.own.put t }
  | .ext k => { s with ext := fun j => if j = k then (s.ext k).put t else s.ext j }

/-- `_execute_boundary_action` -/
def IW.exec (s : IW) (r : Rule) (t : Tok) : IW :=
  let s1 := if r.propagate then s.putTarget r.target t else s
  if r.terminate then s1.putTarget r.target recoveredTok else s1

/-- `BoundaryRule.remove_tag`: `list.remove` of the first occurrence, if present -/
def Rule.removeTag (r : Rule) (tag : Nat) : Rule := { r with tags := r.tags.erase tag }

def Rule.satisfied (r : Rule) : Bool := r.tags.isEmpty

/-- the loop of `InterWorkflowPort.put` over `self.boundaries`; `done` are the rules already visited
    (with their updated tag lists); returns the state, the updated rules and `matched_self` -/
def IW.putLoop (t : Tok) : List Rule → IW → List Rule → Bool → IW × List Rule × Bool
  | [], s, done, m => (s, done, m)
  | r :: rs, s, done, m =>
      let r' := r.removeTag t.tag
      if r'.satisfied then
        IW.putLoop t rs (s.exec r' t) (done ++ [r']) (m || r'.target == .self)
      else IW.putLoop t rs s (done ++ [r']) m

/-- `InterWorkflowPort.put` -/
def IW.put (s : IW) (t : Tok) : IW :=
  if t.term then { s with own := s.own.put t }
  else
    let (s1, rules, matched) := IW.putLoop t s.rules s [] false
    let s2 : IW := { s1 with rules := rules }
    if matched then s2 else { s2 with own := s2.own.put t }

/-- the replay loop of `add_inter_port` over the snapshot of non-termination tokens -/
def IW.replay : List Tok → IW → Rule → IW × Rule
  | [], s, r => (s, r)
  | t :: ts, s, r =>
      let r' := r.removeTag t.tag
      if r'.satisfied then IW.replay ts (s.exec r' t) r' else IW.replay ts s r'

/-- `InterWorkflowPort.add_inter_port` -/
def IW.addRule (s : IW) (r : Rule) : IW :=
  let snapshot := s.own.log.filter (fun t => !t.term)
  let (s1, r') := IW.replay snapshot s r
  { s1 with rules := s.rules ++ [r'] }

inductive IWOp where
  | put (t : Tok)
  | add (r : Rule)
  | get (c : Nat)             -- a consumer of the port itself
  | close (c : Nat)
deriving Repr

def IW.step (s : IW) : IWOp → IW
  | .put t => s.put t
  | .add r => s.addRule r
  | .get c => { s with own := s.own.get c }
  | .close c => { s with own := s.own.close c }

def IW.run (s : IW) (ops : List IWOp) : IW := ops.foldl IW.step s

end SFV.Port
