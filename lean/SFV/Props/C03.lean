import SFV.Lemmas.Port
/-! # C03 — ports deliver every token exactly once, in order, to every consumer

Property theorems only (helper definitions and lemmas live in `SFV/Lemmas/Port.lean`, the executable
model in `SFV/Model/Port.lean`). -/
namespace SFV.C03
open SFV.Port

/-! ## A. Plain `Port` -/

/-- the queue invariant `Inv` (received ++ still queued = log; a blocked consumer has an empty queue) is
preserved by every operation -/
theorem inv_preserved (p : Port) (h : Inv p) (op : Op) : Inv (p.step op) := inv_step h op

/-- the log is exactly the sequence of `put` payloads -/
theorem port_log_is_puts (ops : List Op) :
    (Port.empty.run ops).log = ops.filterMap (fun op => match op with | .put t => some t | _ => none) := by
  rw [Port.run_log, ← puts_eq_filterMap]; rfl

/-- **FIFO, exactly once.** After any history, what consumer `c` received is a prefix of the log, it is the
whole log once it has the same length, and received ++ queued is the whole log (so tokens put before the first
`get` of a late subscriber are included; nothing is lost, duplicated or reordered). -/
theorem port_fifo_exactly_once (ops : List Op) (c : Nat) :
    let p := Port.empty.run ops
    p.recv c <+: p.log ∧ ((p.recv c).length = p.log.length → p.recv c = p.log) ∧
    ∀ q, p.qs c = some q → q.recv ++ q.items = p.log :=
  inv_fifo (inv_run inv_empty ops) c

/-- the same from any state satisfying the invariant -/
theorem port_fifo_from (p0 : Port) (h : Inv p0) (ops : List Op) (c : Nat) :
    let p := p0.run ops
    p.log = p0.log ++ puts ops ∧
    p.recv c <+: p.log ∧ ((p.recv c).length = p.log.length → p.recv c = p.log) ∧
    ∀ q, p.qs c = some q → q.recv ++ q.items = p.log :=
  ⟨Port.run_log p0 ops, inv_fifo (inv_run h ops) c⟩

/-- **`get` returns the next token.** A consumer that is not blocked (or has not subscribed yet) and has
not yet received the whole log receives exactly the next token of the log. -/
theorem get_returns_next (p : Port) (h : Inv p) (c : Nat) (hw : ∀ q, p.qs c = some q → q.wait = none)
    (hl : (p.recv c).length < p.log.length) :
    (p.get c).recv c = p.recv c ++ [p.log[(p.recv c).length]] ∧
    (p.get c).recv c = p.log.take ((p.recv c).length + 1) := by
  have h1 := get_recv_avail h c hw hl
  refine ⟨?_, h1⟩
  rw [h1]
  obtain ⟨r, hr⟩ := (inv_fifo h c).1
  have hl' := hl
  simp only [← hr, List.length_append] at hl' ⊢
  rw [List.take_length_add_append]
  cases r with
  | nil => simp at hl'
  | cons a r => simp

example : Inv (Port.empty.run [.put ⟨false, 1, 1⟩, .get 0, .put ⟨false, 2, 2⟩]) ∧
    (Port.empty.run [.put ⟨false, 1, 1⟩, .get 0, .put ⟨false, 2, 2⟩, .get 0]).recv 0
      = [⟨false, 1, 1⟩, ⟨false, 2, 2⟩] :=
  ⟨inv_run inv_empty _, by decide⟩

/-- **A blocked `get` is completed by the next `put`.** If nothing is available the `get` returns nothing
now; after the next `put t` the consumer has received exactly the old tokens followed by `t`, i.e. the whole
new log. -/
theorem blocked_get_completed_by_put (p : Port) (h : Inv p) (c : Nat)
    (hw : ∀ q, p.qs c = some q → q.wait = none) (hl : (p.recv c).length = p.log.length) (t : Tok) :
    (p.get c).recv c = p.recv c ∧
    ((p.get c).put t).recv c = p.recv c ++ [t] ∧
    ((p.get c).put t).recv c = ((p.get c).put t).log := by
  obtain ⟨h1, q, hq, hqw, hqi, hqr⟩ := get_recv_blocked h c hw hl
  have h2 := put_recv_waiting c q t hq hqw hqi
  have h3 := (inv_fifo h c).2.1 hl
  refine ⟨h1, ?_, ?_⟩
  · rw [h2, hqr, h3]
  · rw [h2, hqr]; simp

example : ((Port.empty.run [.put ⟨false, 1, 1⟩, .get 0, .get 0]).recv 0 = [⟨false, 1, 1⟩]) ∧
    ((Port.empty.run [.put ⟨false, 1, 1⟩, .get 0, .get 0, .put ⟨true, 0, 0⟩]).recv 0
      = [⟨false, 1, 1⟩, ⟨true, 0, 0⟩]) := by decide

/-- **A termination token is the last thing a disciplined consumer observes.** If no consumer calls `get`
after having received a termination token, every received token except possibly the last is a data token. -/
theorem consumer_stops_at_termination (ops : List Op) (h : Disciplined Port.empty ops) (c : Nat) :
    ∀ t ∈ ((Port.empty.run ops).recv c).dropLast, t.term = false := by
  have := termInv_run termInv_empty ops h c
  unfold Port.recv
  split
  · simp
  · rename_i q hq; exact (this q hq).1

example : Disciplined Port.empty [.get 0, .put ⟨false, 1, 1⟩, .put ⟨true, 0, 0⟩, .get 0, .get 1, .close 0] := by
  decide

/-- **`task_done` never raises.** If every consumer calls `close` at most once, and only after it received
a token (or without ever having subscribed), no queue ever raises `ValueError`. -/
theorem close_counts (ops : List Op) (h : CloseDisc Port.empty ops) (c : Nat) (q : Q)
    (hq : (Port.empty.run ops).qs c = some q) : q.err = false := by
  obtain ⟨ncl, hI⟩ := countInv_run ops Port.empty (fun _ => 0) countInv_empty h (fun _ h => (h rfl).elim)
  exact no_err_of_countInv hI c q hq

example : CloseDisc Port.empty [.put ⟨false, 1, 1⟩, .get 0, .close 1, .get 0, .put ⟨true, 0, 0⟩, .close 0, .get 1] := by
  decide

/-- witness: `close` by a subscribed consumer that has not received anything yet makes `task_done` raise -/
theorem close_before_first_token_raises :
    ((Port.empty.run [.get 0, .close 0]).qs 0).map (·.err) = some true := by decide

/-! ## B. `FilterTokenPort` -/

/-- the log of a filter port is exactly the admitted subsequence of the puts (termination tokens always pass) -/
theorem filter_port_exact (admits : Tok → Bool) (ops : List Op) :
    (filterRun admits Port.empty ops).log = (puts ops).filter (fun t => t.term || admits t) := by
  rw [filterRun_log]; rfl

/-- consumers of a filter port receive the admitted sequence FIFO, exactly once -/
theorem filter_port_fifo (admits : Tok → Bool) (ops : List Op) (c : Nat) :
    let p := filterRun admits Port.empty ops
    p.recv c <+: p.log ∧ ((p.recv c).length = p.log.length → p.recv c = p.log) ∧
    ∀ q, p.qs c = some q → q.recv ++ q.items = p.log :=
  inv_fifo (inv_filterRun inv_empty ops) c

example : (filterRun (fun t => t.val != 2) Port.empty
      [.put ⟨false, 1, 1⟩, .get 0, .put ⟨false, 2, 2⟩, .get 0, .put ⟨true, 0, 2⟩]).recv 0
    = [⟨false, 1, 1⟩, ⟨true, 0, 2⟩] := by decide

end SFV.C03
