/-! # Workflow networks (C04 / C05 / C07): values, step denotations, `den`

A generated workflow (harness/sfv/rt/wfgen.py) is a list of nodes in topological order over numbered ports.
`den spec p` is the list of data tokens (tag, value) that port `p` holds after any complete run; `prov spec`
are the provenance edges between tokens identified by (port, tag).

Step classes covered (what each `nodeDen` case states about the code):
* `tf`      `Transformer.run`: tokens are grouped by tag (`_group_by_tag`), a tag fires when every input port has
            delivered it, the outputs carry the same tag (`get_tag` of equal tags);
* `cond`    `ConditionalStep.run`: same grouping, `_eval` on the group, `_on_true` forwards, `_on_false` drops or
            forwards the zeroed value;
* `scatter` `ScatterStep._scatter`: element `i` of a list token tagged `t` is retagged `t.i`; the size port gets
            `(t, length)`;
* `gather`  `GatherStep`: key = tag without its last `depth` components; one list per key that has a size token or
            at least one element (forced gather at termination), elements sorted by `compare_tags`;
* `dot`     `DotProductCombinator` with parent-tag propagation: one combination for every received tag `k` such that
            every port holds a token whose tag is a prefix of `k`;
* `cart`    `CartesianProductCombinator(depth = 1)`: tokens `p.i`, `p.j` with equal prefix give tag `p.i.j`;
* `exec`    schedule / transfer / execute pipeline: one job per tag, output tagged `get_tag(job.inputs)`;
* `tf (.loop k)` a whole loop sub-network (LoopCombinatorStep + conditional + body + LoopOutputLast + terminator, built by
            tests/utils/workflow.py) seen as one grouping node: per tag, counter and limit in, last counter value out.
-/
namespace SFV.Net

abbrev Tag := List Nat

inductive Val where
  | int (i : Int)
  | list (l : List Val)
deriving Repr, Inhabited

mutual
def Val.sum : Val → Int
  | .int i => i
  | .list l => Val.sumList l
def Val.sumList : List Val → Int
  | [] => 0
  | v :: vs => v.sum + Val.sumList vs
end

mutual
def Val.map (f : Int → Int) : Val → Val
  | .int i => .int (f i)
  | .list l => .list (Val.mapList f l)
def Val.mapList (f : Int → Int) : List Val → List Val
  | [] => []
  | v :: vs => v.map f :: Val.mapList f vs
end

structure Tok where
  tag : Tag
  val : Val
deriving Repr, Inhabited

/-- the pure functions of the generated transformers (`apply_fn` in wfgen.py) -/
inductive Fn where
  | add (k : Int)
  | sum
  | range (k : Nat)
  | lin (k : Int)
  | pair
  | split
  /-- a loop sub-network (LoopCombinatorStep, conditional step, body `+ k`, LoopOutputLast step) seen from outside:
      inputs counter and limit, output the last counter value -/
  | loop (k : Nat)
deriving Repr

/-- `c := c + k` while `c < l` (at least one iteration is performed in the generated workflows): the last value -/
def loopLast (c l : Int) (k : Nat) : Int :=
  if c < l ∧ 0 < k then c + (k : Int) * ((l - c + (k : Int) - 1) / (k : Int)) else c

def linFold (vals : List Val) : Int := vals.foldl (fun acc v => acc * 31 + v.sum) 0

/-- outputs (one per output port) of a transformation -/
def applyFn (fn : Fn) (vals : List Val) : List Val :=
  match fn, vals with
  | .add k, v :: _ => [v.map (· + k)]
  | .sum, v :: _ => [.int v.sum]
  | .range k, v :: _ =>
      let s := v.sum
      [.list ((List.range (s % (k : Int)).toNat).map (fun (i : Nat) => Val.int (s + (i : Int))))]
  | .lin k, vs => [.int (linFold vs + k)]
  | .pair, a :: b :: _ => [.list [a, b]]
  | .split, v :: _ => [v.map (· + 1), .int v.sum]
  | .loop k, c :: l :: _ => [.int (loopLast c.sum l.sum k)]
  | _, _ => []

def predHolds (m r : Nat) (v : Val) : Bool := v.sum % (m : Int) == (r : Int)

inductive Node where
  | tf (fn : Fn) (ins outs : List Nat)
  | cond (m r : Nat) (zero : Bool) (ins outs : List Nat)
  | exec (k : Int) (ins : List Nat) (out : Nat)
  | scatter (inp out size : Nat)
  | gather (inp size out depth : Nat)
  | dot (ins outs : List Nat)
  | cart (a b oa ob : Nat)
deriving Repr

def Node.ins : Node → List Nat
  | .tf _ i _ | .cond _ _ _ i _ | .exec _ i _ | .dot i _ => i
  | .scatter i _ _ => [i]
  | .gather i s _ _ => [i, s]
  | .cart a b _ _ => [a, b]

def Node.outs : Node → List Nat
  | .tf _ _ o | .cond _ _ _ _ o | .dot _ o => o
  | .exec _ _ o => [o]
  | .scatter _ o s => [o, s]
  | .gather _ _ o _ => [o]
  | .cart _ _ oa ob => [oa, ob]

structure Spec where
  nports  : Nat
  sources : List (Nat × Val)
  closed  : List Nat
  nodes   : List Node
deriving Repr

/-- contents of every port. A structure (not a bare function) so that a node's outputs are computed once,
    when the node is evaluated, and not again at every look-up. -/
structure Env where
  get : Nat → List Tok

def Env.set (e : Env) (p : Nat) (l : List Tok) : Env := ⟨fun q => if q = p then l else e.get q⟩

/-- write `ls[i]` to port `ps[i]` -/
def Env.setMany (e : Env) : List Nat → List (List Tok) → Env
  | p :: ps, l :: ls => Env.setMany (e.set p l) ps ls
  | _, _ => e

def lookupTag (l : List Tok) (t : Tag) : Option Val := (l.find? (fun x => x.tag == t)).map (·.val)

/-- values at tag `t` on every port of `ins` (none if some port lacks the tag) -/
def groupAt (e : Env) (ins : List Nat) (t : Tag) : Option (List Val) := ins.mapM (fun q => lookupTag (e.get q) t)

/-- the tags that fire: tags of the first input port present on all input ports -/
def commonTags (e : Env) (ins : List Nat) : List Tag :=
  match ins with
  | [] => []
  | q :: _ => ((e.get q).map (·.tag)).filter (fun t => (groupAt e ins t).isSome)

/-- generic tag-grouping step: `f vals` gives, per output port, the value emitted (or none) -/
def groupStep (e : Env) (ins : List Nat) (nouts : Nat) (f : List Val → List (Option Val)) : List (List Tok) :=
  (List.range nouts).map (fun j =>
    (commonTags e ins).filterMap (fun t =>
      match groupAt e ins t with
      | some vals => ((f vals)[j]?.join).map (fun v => { tag := t, val := v })
      | none => none))

def condOut (m r : Nat) (zero : Bool) (vals : List Val) : List (Option Val) :=
  match vals with
  | [] => []
  | v :: _ =>
      if predHolds m r v then vals.map some
      else if zero then vals.map (fun x => some (x.map (fun _ => 0)))
      else vals.map (fun _ => none)

/-- tag order of `compare_tags`: length first, then numeric lexicographic -/
def lexLe : List Nat → List Nat → Bool
  | [], _ => true
  | _ :: _, [] => false
  | a :: as, b :: bs => a < b || (a == b && lexLe as bs)

def tagLe (a b : Tag) : Bool := a.length < b.length || (a.length == b.length && lexLe a b)

def dedup (l : List Tag) : List Tag := l.foldl (fun acc t => if acc.contains t then acc else acc ++ [t]) []

def gatherKey (d : Nat) (t : Tag) : Tag := t.take (t.length - d)

def scatterOut (l : List Tok) : List Tok :=
  l.flatMap (fun t => match t.val with
    | .list vs => (List.zipIdx vs).map (fun (v, i) => { tag := t.tag ++ [i], val := v })
    | .int _ => [])

def scatterSize (l : List Tok) : List Tok :=
  l.filterMap (fun t => match t.val with
    | .list vs => some { tag := t.tag, val := .int vs.length }
    | .int _ => none)

def gatherOut (inp size : List Tok) (d : Nat) : List Tok :=
  let keys := dedup (size.map (·.tag) ++ (inp.filter (fun t => d < t.tag.length)).map (fun t => gatherKey d t.tag))
  keys.map (fun k =>
    let elems := (inp.filter (fun t => d < t.tag.length && gatherKey d t.tag == k)).mergeSort (fun a b => tagLe a.tag b.tag)
    { tag := k, val := .list (elems.map (·.val)) })

def isPre (a b : Tag) : Bool := a.isPrefixOf b

/-- the token of a port whose tag is a prefix of `k` -/
def pickPre (l : List Tok) (k : Tag) : Option Val := (l.find? (fun t => isPre t.tag k)).map (·.val)

def dotOut (e : Env) (ins : List Nat) : List (List Tok) :=
  let tags := dedup (ins.flatMap (fun q => (e.get q).map (·.tag)))
  let fired := tags.filterMap (fun k => (ins.mapM (fun q => pickPre (e.get q) k)).map (fun vals => (k, vals)))
  (List.range ins.length).map (fun j => fired.filterMap (fun (k, vals) => vals[j]?.map (fun v => { tag := k, val := v })))

def cartOut (a b : List Tok) : List Tok × List Tok :=
  let pairs := a.flatMap (fun ta => (b.filter (fun tb =>
      2 ≤ ta.tag.length && 2 ≤ tb.tag.length && ta.tag.dropLast == tb.tag.dropLast)).map (fun tb => (ta, tb)))
  (pairs.map (fun (ta, tb) => { tag := ta.tag ++ [tb.tag.getLast?.getD 0], val := ta.val }),
   pairs.map (fun (ta, tb) => { tag := ta.tag ++ [tb.tag.getLast?.getD 0], val := tb.val }))

/-- what a node writes on its output ports, as a function of the input ports' contents -/
def nodeOut (e : Env) : Node → List (List Tok)
  | .tf fn ins outs => groupStep e ins outs.length (fun vals => (applyFn fn vals).map some)
  | .cond m r zero ins outs => groupStep e ins outs.length (condOut m r zero)
  | .exec k ins _ => groupStep e ins 1 (fun vals => [some (.int (linFold vals + k))])
  | .scatter inp _ _ => [scatterOut (e.get inp), scatterSize (e.get inp)]
  | .gather inp size _ d => [gatherOut (e.get inp) (e.get size) d]
  | .dot ins _ => dotOut e ins
  | .cart a b _ _ => [(cartOut (e.get a) (e.get b)).1, (cartOut (e.get a) (e.get b)).2]

def nodeDen (e : Env) (n : Node) : Env := e.setMany n.outs (nodeOut e n)

def srcEnv (s : Spec) : Env := ⟨fun p =>
  match s.sources.find? (fun x => x.1 == p) with
  | some (_, v) => [{ tag := [0], val := v }]
  | none => []⟩

/-- the denotation: contents of every port after a complete run -/
def den (s : Spec) : Env := s.nodes.foldl nodeDen (srcEnv s)

/-! ## well-formedness (checked by the driver on every generated workflow) -/

def allDistinct (l : List Nat) : Bool :=
  match l with
  | [] => true
  | a :: r => !r.contains a && allDistinct r

/-- structural: topological order, one producer per port, ports in range -/
def wfStruct (s : Spec) : Bool :=
  let srcs := s.sources.map (·.1) ++ s.closed
  let rec go (avail : List Nat) : List Node → Bool
    | [] => true
    | n :: ns =>
        n.ins.all (fun q => avail.contains q) && n.outs.all (fun o => !avail.contains o && o < s.nports) &&
        allDistinct n.outs && go (avail ++ n.outs) ns
  allDistinct srcs && srcs.all (· < s.nports) && go srcs s.nodes

def sameTags (a b : List Tok) : Bool :=
  a.all (fun t => b.any (fun u => u.tag == t.tag)) && b.all (fun t => a.any (fun u => u.tag == t.tag))

def distinctTags (l : List Tok) : Bool :=
  match l with
  | [] => true
  | t :: r => !r.any (fun u => u.tag == t.tag) && distinctTags r

def antichain (l : List Tok) : Bool :=
  l.all (fun t => l.all (fun u => t.tag == u.tag || !isPre t.tag u.tag))

/-- dynamic: every multi-input grouping step sees the same tag set on all its inputs, scatter inputs are lists,
    gathers never receive more elements than the declared size, dot inputs are prefix antichains -/
def wfNode (e : Env) : Node → Bool
  | .tf _ ins _ | .cond _ _ _ ins _ =>
      match ins with
      | [] => false
      | q :: r => r.all (fun q' => sameTags (e.get q) (e.get q'))
  | .exec _ ins _ =>
      match ins with
      | [] => false
      | q :: r => r.all (fun q' => sameTags (e.get q) (e.get q')) &&
          ins.all (fun q' => (e.get q').all (fun t => match t.val with | .int _ => true | .list _ => false))
  | .scatter inp _ _ => (e.get inp).all (fun t => match t.val with | .list _ => true | .int _ => false)
  | .gather inp size _ d =>
      (e.get inp).all (fun t => d < t.tag.length) &&
      (e.get size).all (fun sz => match sz.val with
        | .int n => decide (((e.get inp).filter (fun t => gatherKey d t.tag == sz.tag)).length ≤ n.toNat)
        | .list _ => false)
  | .dot ins _ => ins.all (fun q => antichain (e.get q))
  | .cart a b _ _ => (e.get a).all (fun t => 2 ≤ t.tag.length) && (e.get b).all (fun t => 2 ≤ t.tag.length)

def wfDyn (s : Spec) : Bool :=
  let rec go (e : Env) : List Node → Bool
    | [] => true
    | n :: ns => wfNode e n && go (nodeDen e n) ns
  go (srcEnv s) s.nodes && (List.range s.nports).all (fun p => distinctTags ((den s).get p))

/-! ## provenance (C07): edges between tokens identified by (port, tag) -/

abbrev TokId := Nat × Tag

def zipPorts (ps : List Nat) (ls : List (List Tok)) : List (Nat × Tok) :=
  (ps.zip ls).flatMap (fun (p, l) => l.map (fun t => (p, t)))

/-- edges (dependee, depender) recorded when node `n` runs on `e` -/
def nodeProv (e : Env) (n : Node) : List (TokId × TokId) :=
  match n with
  | .tf _ ins outs | .cond _ _ _ ins outs =>
      (zipPorts outs (nodeOut e n)).flatMap (fun (o, t) => ins.map (fun q => ((q, t.tag), (o, t.tag))))
  | .exec _ _ _ => []      -- the pipeline's internal ports are not part of the spec; checked generically
  | .scatter inp out size =>
      ((scatterOut (e.get inp)).map (fun t => ((inp, t.tag.dropLast), (out, t.tag)))) ++
      ((scatterSize (e.get inp)).map (fun t => ((inp, t.tag), (size, t.tag))))
  | .gather inp size out d =>
      (gatherOut (e.get inp) (e.get size) d).flatMap (fun g =>
        ((size, g.tag), (out, g.tag)) ::
        ((e.get inp).filter (fun t => d < t.tag.length && gatherKey d t.tag == g.tag)).map (fun t => ((inp, t.tag), (out, g.tag))))
  | .dot ins outs =>
      let tags := dedup (ins.flatMap (fun q => (e.get q).map (·.tag)))
      tags.flatMap (fun k =>
        match ins.mapM (fun q => ((e.get q).find? (fun t => isPre t.tag k)).map (fun t => (q, t.tag))) with
        | some srcs => outs.flatMap (fun o => srcs.map (fun s => (s, (o, k))))
        | none => [])
  | .cart a b oa ob =>
      (e.get a).flatMap (fun ta => ((e.get b).filter (fun tb =>
          2 ≤ ta.tag.length && 2 ≤ tb.tag.length && ta.tag.dropLast == tb.tag.dropLast)).flatMap (fun tb =>
        let k := ta.tag ++ [tb.tag.getLast?.getD 0]
        [((a, ta.tag), (oa, k)), ((b, tb.tag), (oa, k)), ((a, ta.tag), (ob, k)), ((b, tb.tag), (ob, k))]))

def prov (s : Spec) : List (TokId × TokId) :=
  let rec go (e : Env) : List Node → List (TokId × TokId)
    | [] => []
    | n :: ns => nodeProv e n ++ go (nodeDen e n) ns
  go (srcEnv s) s.nodes

end SFV.Net
