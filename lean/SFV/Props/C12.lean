import SFV.Lemmas.Wait
/-! # C12 — a job that fits is eventually scheduled (no lost wake-ups)

Model: `SFV/Model/Wait.lean` — the waiter tasks of `_process_target`, the condition `wait_queue`, `notify_status`
ending with `notify_all()` (extracted from the source: `Gen.Sched.notifiesAllLast`), the retry timeout. The bookkeeping
is a parameter (`Sys`); `ledgerSys` instantiates it with the model of C10/C11. Trusted, not proved: asyncio's
`Condition` (wait releases the lock atomically and re-acquires it before returning; `notify_all` wakes every waiter). -/
namespace SFV.C12
open SFV.Wait SFV.Gen.Sched

variable {σ W N : Type}

/-- **every state change that can make a request fit is followed, in the same atomic section, by `notify_all`**:
    after `notify_status` no task is left sleeping -/
theorem state_change_implies_notify (S : Sys σ W N) (s : St σ W) (n : N) (i : Nat) :
    (step S s (.notify n)).pc i ≠ .sleeping := by
  simp only [step, notifiesAll, if_true]
  by_cases e : s.pc i = .sleeping <;> simp [e]

/-- a sleeping task is woken by the notification (no lost wake-up), the others keep their state -/
theorem notify_wakes (S : Sys σ W N) (s : St σ W) (n : N) (i : Nat) :
    (step S s (.notify n)).pc i = if s.pc i = .sleeping then .awake else s.pc i := by
  simp only [step, notifiesAll, if_true]

/-- **in every reachable quiescent state no waiting request fits**: for every history of requests, checks (in any
    interleaving), notifications and timeouts -/
theorem quiescent_no_missed_fit (S : Sys σ W N) (s0 : σ) (d : W) (as : List (Act W N))
    (_hq : Quiescent (run S (init s0 d) as)) (i : Nat)
    (hw : (run S (init s0 d) as).pc i = .sleeping)
    (hg : (run S (init s0 d) as).granted (S.rid ((run S (init s0 d) as).desc i)) = false) :
    S.fits (run S (init s0 d) as).sched ((run S (init s0 d) as).desc i) = false :=
  inv_run S as _ (inv_init S s0 d) i hw hg

/-- a task that checks while its request fits (and was not granted through another target) allocates -/
theorem check_grants_if_fits (S : Sys σ W N) (s : St σ W) (i : Nat) (ha : s.pc i = .awake)
    (hg : s.granted (S.rid (s.desc i)) = false) (hf : S.fits s.sched (s.desc i) = true) :
    (step S s (.check i)).granted (S.rid (s.desc i)) = true ∧ (step S s (.check i)).pc i = .done ∧
    (step S s (.check i)).sched = S.alloc s.sched (s.desc i) := by
  simp [step, ha, hg, hf]

/-- **no lost wake-up**: a request that sleeps, and fits after a releasing notification, is granted when its woken
    task re-checks -/
theorem granted_after_release (S : Sys σ W N) (s : St σ W) (n : N) (i : Nat) (hs : s.pc i = .sleeping)
    (hg : s.granted (S.rid (s.desc i)) = false) (hf : S.fits (S.effect s.sched n) (s.desc i) = true) :
    (step S (step S s (.notify n)) (.check i)).granted (S.rid (s.desc i)) = true := by
  have h1 : (step S s (.notify n)).pc i = .awake := by rw [notify_wakes, if_pos hs]
  have h2 : (step S s (.notify n)).desc = s.desc := by simp [step]
  have h3 : (step S s (.notify n)).granted = s.granted := by simp [step]
  have h4 : (step S s (.notify n)).sched = S.effect s.sched n := by simp [step]
  have := check_grants_if_fits S (step S s (.notify n)) i h1 (by rw [h2, h3]; exact hg) (by rw [h2, h4]; exact hf)
  rw [h2] at this; exact this.1

/-- a check never wakes anybody, and the checking task is not awake afterwards -/
theorem check_awake (S : Sys σ W N) (s : St σ W) (i k : Nat) (h : (step S s (.check i)).pc k = .awake) :
    s.pc k = .awake ∧ k ≠ i := by
  simp only [step] at h
  by_cases ha : s.pc i = .awake
  · simp only [ha, if_true] at h
    by_cases e : k = i
    · subst e
      split at h
      · simp at h
      · split at h <;> simp at h
    · refine ⟨?_, e⟩
      split at h
      · simpa [e] using h
      · split at h <;> simpa [e] using h
  · simp only [ha, if_false] at h
    exact ⟨h, fun e => ha (e ▸ h)⟩

/-- **eventually granted / the system settles**: once the woken tasks have re-checked, in ANY order `is`, the state
    is quiescent, and (by the invariant) every request still waiting does not fit — i.e. every request that fitted
    when its task ran was granted. Together with `state_change_implies_notify` (every release wakes every task) this is
    the eventual grant: it only needs each woken task to run once. -/
theorem eventually_granted (S : Sys σ W N) (s0 : σ) (d : W) (as : List (Act W N)) (is : List Nat)
    (hall : ∀ k, (run S (init s0 d) as).pc k = .awake → k ∈ is) :
    let s' := run S (init s0 d) (as ++ is.map .check)
    Quiescent s' ∧ ∀ i, s'.pc i = .sleeping → s'.granted (S.rid (s'.desc i)) = false → S.fits s'.sched (s'.desc i) = false := by
  have hrun : ∀ (xs ys : List (Act W N)) (s : St σ W), run S s (xs ++ ys) = run S (run S s xs) ys := by
    intro xs; induction xs with
    | nil => intro ys s; rfl
    | cons x xs ih => intro ys s; exact ih ys _
  have drain : ∀ (is : List Nat) (s : St σ W), (∀ k, s.pc k = .awake → k ∈ is) → Quiescent (run S s (is.map .check)) := by
    intro is
    induction is with
    | nil => intro s h k hk; exact absurd (h k hk) (by simp)
    | cons i is ih =>
      intro s h
      apply ih
      intro k hk
      obtain ⟨h1, h2⟩ := check_awake S s i k hk
      rcases List.mem_cons.mp (h k h1) with e | e
      · exact absurd e h2
      · exact e
  intro s'
  refine ⟨?_, fun i hw hg => ?_⟩
  · show Quiescent (run S (init s0 d) (as ++ is.map .check))
    rw [hrun]; exact drain is _ hall
  · exact inv_run S _ _ (inv_init S s0 d) i hw hg

/-- the bookkeeping of C10/C11 as an instance: `fits` = `_is_valid` on every level of every selected location -/
def ledgerSys (cap : Ledger.Loc → Rat) : Sys Ledger.St Req (Nat × Status × List (Ledger.Loc × Rat)) where
  fits := ledgerFits cap
  alloc := ledgerAlloc cap
  rid := fun w => w.job
  effect := fun s n => Ledger.step cap s (.notify n.1 n.2.1 n.2.2)
  antitone := ledger_antitone cap

/-- the instance, spelled out: in a quiescent reachable state of the scheduler bookkeeping every still-waiting request
    has some selected level where reserved + requirement exceeds the capacity -/
theorem quiescent_no_missed_fit_ledger (cap : Ledger.Loc → Rat) (as : List (Act Req (Nat × Status × List (Ledger.Loc × Rat))))
    (i : Nat) (d : Req)
    (hw : (run (ledgerSys cap) (init Ledger.init d) as).pc i = .sleeping)
    (hg : (run (ledgerSys cap) (init Ledger.init d) as).granted ((run (ledgerSys cap) (init Ledger.init d) as).desc i).job = false)
    (hpos : ∀ e ∈ ((run (ledgerSys cap) (init Ledger.init d) as).desc i).entries, 0 ≤ e.2) :
    ∃ e ∈ ((run (ledgerSys cap) (init Ledger.init d) as).desc i).entries,
      cap e.1 < (run (ledgerSys cap) (init Ledger.init d) as).sched.reserved e.1 + e.2 := by
  have h := inv_run (ledgerSys cap) as _ (inv_init (ledgerSys cap) Ledger.init d) i hw hg
  generalize run (ledgerSys cap) (init Ledger.init d) as = st at h hpos ⊢
  change ledgerFits cap st.sched (st.desc i) = false at h
  apply Classical.byContradiction
  intro hne
  have hall : ledgerFits cap st.sched (st.desc i) = true := by
    simp only [ledgerFits, List.all_eq_true, Bool.and_eq_true, decide_eq_true_eq]
    intro e he
    refine ⟨hpos e he, ?_⟩
    apply Classical.byContradiction
    intro hle
    exact hne ⟨e, he, by grind⟩
  rw [hall] at h; cases h

/-! ### non-vacuity: two 2-core requests on a 2-core location; the second sleeps, is woken by the release, is granted -/
def exActs : List (Act Req (Nat × Status × List (Ledger.Loc × Rat))) :=
  [.submit 0 ⟨1, [(0, 2)]⟩, .submit 1 ⟨2, [(0, 2)]⟩, .check 0, .check 1, .notify (1, .running, []),
   .check 1, .notify (1, .completed, []), .check 1]

example : (run (ledgerSys (fun _ => 2)) (init Ledger.init ⟨0, []⟩) (exActs.take 4)).pc 1 = .sleeping := by decide +kernel
example : (run (ledgerSys (fun _ => 2)) (init Ledger.init ⟨0, []⟩) (exActs.take 6)).pc 1 = .sleeping := by decide +kernel
example : (run (ledgerSys (fun _ => 2)) (init Ledger.init ⟨0, []⟩) exActs).granted 2 = true ∧
    (run (ledgerSys (fun _ => 2)) (init Ledger.init ⟨0, []⟩) exActs).sched.reserved 0 = 2 := by decide +kernel

end SFV.C12
