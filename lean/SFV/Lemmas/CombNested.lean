import SFV.Lemmas.CombElems
/-! Nested combinators: the outer dot product of `runNested` is `runWithE (dotAdd n)` on the stream of elements
    derived from the arrival sequence (tokens of plain ports, schemas yielded by the inner combinators). -/
namespace SFV.Comb
open SFV

theorem feedSchemas_eq (n i : Nat) : ∀ (ss : List Emit) (tv : TV) (out : List Emit),
    feedSchemas n i ss tv out = runWithE (dotAdd n) (ss.map (fun s => (i, (⟨schemaTag s, s⟩ : Elem)))) tv out := by
  intro ss
  induction ss with
  | nil => intro tv out; rfl
  | cons s ss ih =>
    intro tv out
    simp only [feedSchemas, List.map_cons, runWithE]
    cases h : (dotAdd n tv i ⟨schemaTag s, s⟩).err with
    | some x => rfl
    | none => simp only [ih]

theorem runWithE_append (add : TV → Nat → Elem → Res) : ∀ (a b : List CF.Ev) (tv : TV) (out : List Emit),
    runWithE add (a ++ b) tv out =
      match (runWithE add a tv out).err with
      | some _ => runWithE add a tv out
      | none => runWithE add b (runWithE add a tv out).tv (runWithE add a tv out).out := by
  intro a
  induction a with
  | nil => intro b tv out; rfl
  | cons ev a ih =>
    obtain ⟨p, e⟩ := ev
    intro b tv out
    simp only [List.cons_append, runWithE]
    cases h : (add tv p e).err with
    | some x => rfl
    | none => simp only [ih]

theorem runWithE_shift (add : TV → Nat → Elem → Res) : ∀ (es : List CF.Ev) (tv : TV) (out : List Emit),
    runWithE add es tv out =
      ⟨(runWithE add es tv []).tv, out ++ (runWithE add es tv []).out, (runWithE add es tv []).err⟩ := by
  intro es
  induction es with
  | nil => intro tv out; simp [runWithE]
  | cons ev es ih =>
    obtain ⟨p, e⟩ := ev
    intro tv out
    simp only [runWithE, List.nil_append]
    cases h : (add tv p e).err with
    | some x => rfl
    | none =>
      simp only
      rw [ih _ (out ++ (add tv p e).out), ih _ (add tv p e).out]
      simp [List.append_assoc]

def setI (inn : List (Nat × TV)) (i : Nat) (tv : TV) : List (Nat × TV) :=
  if inn.any (·.1 = i) then inn.map (fun x => if x.1 = i then (i, tv) else x) else inn ++ [(i, tv)]

/-- the element events the outer combinator sees along an arrival sequence (it stops after an exception of
    an inner combinator); `inn` = the states of the inner combinators -/
def derived (items : List Item) : List Ev → List (Nat × TV) → List CF.Ev
  | [], _ => []
  | (p, t) :: es, inn =>
      match findSub p items 0 with
      | some (i, k, ports) =>
          let r := innerAdd k ports ((inn.lookup i).getD []) p t
          let evs := r.out.map (fun s => (i, (⟨schemaTag s, s⟩ : Elem)))
          match r.err with
          | some _ => evs
          | none => evs ++ derived items es (setI inn i r.tv)
      | none => ((findPort p items 0).getD items.length, Elem.ofTok p t) :: derived items es inn

/-- **the nested run is the outer dot product on the derived element stream** (emissions) -/
theorem runNestedAux_out (items : List Item) : ∀ (es : List Ev) (s : NSt) (out : List Emit),
    (runNestedAux items es s out).out =
      (runWithE (dotAdd items.length) (derived items es s.inner) s.outer out).out := by
  intro es
  induction es with
  | nil => intro s out; rfl
  | cons ev es ih =>
    obtain ⟨p, t⟩ := ev
    intro s out
    simp only [runNestedAux, nestedAdd, derived]
    cases hf : findSub p items 0 with
    | none =>
      simp only [runWithE]
      cases h : (dotAdd items.length s.outer ((findPort p items 0).getD items.length) (Elem.ofTok p t)).err with
      | some x => rfl
      | none => simp only [ih]
    | some x =>
      obtain ⟨i, k, ports⟩ := x
      simp only
      simp only [innerGet]
      generalize innerAdd k ports ((s.inner.lookup i).getD []) p t = r
      rw [feedSchemas_eq]
      have hsi : (innerSet s i r.tv).outer = s.outer := rfl
      have hsin : (innerSet s i r.tv).inner = setI s.inner i r.tv := rfl
      rw [hsi]
      generalize hD : r.out.map (fun s => (i, (⟨schemaTag s, s⟩ : Elem))) = D
      cases h2 : (runWithE (dotAdd items.length) D s.outer []).err with
      | some x2 =>
        -- the outer combinator raises while consuming the inner schemas
        simp only
        have hshift := runWithE_shift (dotAdd items.length) D s.outer out
        cases hr : r.err with
        | some xr => simp only [hshift]
        | none =>
          simp only
          rw [runWithE_append, hshift]
          simp only [h2]
      | none =>
        simp only
        have hshift := runWithE_shift (dotAdd items.length) D s.outer out
        cases hr : r.err with
        | some xr => simp only [hshift]
        | none =>
          simp only
          rw [ih, runWithE_append, hshift]
          simp only [h2, hsin]

theorem runNested_out (items : List Item) (es : List Ev) :
    (runNested items es).out = (runWithE (dotAdd items.length) (derived items es []) [] []).out :=
  runNestedAux_out items es ⟨[], []⟩ []

/-- no inner combinator raises along the arrival sequence -/
def InnerOK (items : List Item) : List Ev → List (Nat × TV) → Prop
  | [], _ => True
  | (p, t) :: es, inn =>
      match findSub p items 0 with
      | some (i, k, ports) =>
          (innerAdd k ports ((inn.lookup i).getD []) p t).err = none ∧
            InnerOK items es (setI inn i (innerAdd k ports ((inn.lookup i).getD []) p t).tv)
      | none => InnerOK items es inn

/-- **exceptions of the nested run**: when no inner combinator raises, the nested run raises exactly when the
    outer dot product raises on the derived element stream -/
theorem runNestedAux_err (items : List Item) : ∀ (es : List Ev) (s : NSt) (out : List Emit),
    InnerOK items es s.inner →
    (runNestedAux items es s out).err =
      (runWithE (dotAdd items.length) (derived items es s.inner) s.outer out).err := by
  intro es
  induction es with
  | nil => intro s out _; rfl
  | cons ev es ih =>
    obtain ⟨p, t⟩ := ev
    intro s out hok
    simp only [runNestedAux, nestedAdd, derived]
    simp only [InnerOK] at hok
    cases hf : findSub p items 0 with
    | none =>
      rw [hf] at hok
      simp only at hok
      simp only [runWithE]
      cases h : (dotAdd items.length s.outer ((findPort p items 0).getD items.length) (Elem.ofTok p t)).err with
      | some x => rfl
      | none => exact ih ⟨_, s.inner⟩ _ hok
    | some x =>
      obtain ⟨i, k, ports⟩ := x
      rw [hf] at hok
      simp only at hok
      obtain ⟨hr, hok'⟩ := hok
      simp only [innerGet]
      generalize innerAdd k ports ((s.inner.lookup i).getD []) p t = r at hr hok'
      rw [feedSchemas_eq]
      have hsi : (innerSet s i r.tv).outer = s.outer := rfl
      have hsin : (innerSet s i r.tv).inner = setI s.inner i r.tv := rfl
      rw [hsi]
      generalize hD : r.out.map (fun s => (i, (⟨schemaTag s, s⟩ : Elem))) = D
      have hshift := runWithE_shift (dotAdd items.length) D s.outer out
      simp only [hr]
      cases h2 : (runWithE (dotAdd items.length) D s.outer []).err with
      | some x2 =>
        simp only
        rw [runWithE_append, hshift]
        simp only [h2]
      | none =>
        simp only
        rw [ih _ _ (by rw [hsin]; exact hok'), runWithE_append, hshift]
        simp only [h2, hsin]

theorem runNested_err (items : List Item) (es : List Ev) (h : InnerOK items es []) :
    (runNested items es).err = (runWithE (dotAdd items.length) (derived items es []) [] []).err :=
  runNestedAux_err items es ⟨[], []⟩ [] h

end SFV.Comb
