"""C21 — the data-location registry answers consistently with its history (streamflow/data/manager.py)."""
from __future__ import annotations

import random
import sys
from pathlib import Path

from streamflow.core.data import DataType
from streamflow.core.deployment import ExecutionLocation
from streamflow.data.manager import DefaultDataManager

from sfv.framework import Ctx, Property
from sfv.rt.hexs import hx

DRIVER = "Drivers/C21.lean"


class _Ckpt:
    def register(self, data_location):
        pass


class _Deploy:
    def get_connector(self, name):
        return None


class _Context:
    checkpoint_manager = _Ckpt()
    deployment_manager = _Deploy()


def parts(p: str):
    return list(Path(p).parts)


def pp(p: str) -> str:
    ps = parts(p)
    return ",".join(hx(x) for x in ps) if ps else "~"


def prefixes(p: str):
    ps = parts(p)
    out = []
    for i in range(1, len(ps) + 1):
        out.append("/" + "/".join(ps[1:i]) if i > 1 else "/")
    return out


# ------------------------------------------------------------------------------------------------
# reference: the registry without its valid_paths cache, invalidation = the whole subtree on that location
# ------------------------------------------------------------------------------------------------
class RObj:
    __slots__ = ("loc", "path", "valid")

    def __init__(self, loc, path):
        self.loc, self.path, self.valid = loc, path, True


class Ref:
    def __init__(self):
        self.nodes: dict[str, dict[int, list[RObj]]] = {}

    def _put(self, node_path, obj):
        self.nodes.setdefault(node_path, {})
        ents = self.nodes[node_path].setdefault(obj.loc, [])
        if any(o.valid and o.path == obj.path for o in ents):
            return False
        ents.append(obj)
        return True

    def register(self, loc, path):
        obj = RObj(loc, path)
        for q in reversed(prefixes(path)):
            self.nodes.setdefault(q, {})
        for q in reversed(prefixes(path)):
            if not self._put(q, obj if q == path else RObj(loc, q)):
                break
        return obj

    def relate(self, src, dst):
        for ents in list(self.nodes.get(src.path, {}).values()):
            for d in list(ents):
                self._put(d.path, dst)
                self._put(dst.path, d)

    def invalidate(self, loc, path):
        if path != "" and path not in self.nodes:
            return "KeyError"
        for q, per in self.nodes.items():
            if q == path or path in ("/", "") or q.startswith(path.rstrip("/") + "/"):
                for o in per.get(loc, []):
                    o.valid = False
        return "ok"

    def get(self, path, loc):
        return sorted(o.path for o in self.nodes.get(path, {}).get(loc, []) if o.valid)


def gen_history(rng: random.Random, nloc: int, depth: int, nops: int):
    names = ["a", "b", "e", "f"]
    pool = []
    for _ in range(rng.randint(2, 6)):
        d = rng.randint(1, depth)
        pool.append("/" + "/".join(rng.choice(names) for _ in range(d)))
    ops, nreg, rloc = [], 0, []
    for _ in range(nops):
        r = rng.random()
        if r < 0.45 or nreg < 2:
            p = rng.choice(pool)
            if rng.random() < 0.2:
                p = str(Path(p).parent) if p.count("/") > 1 else p
            ops.append(("reg", rng.randrange(nloc), p))
            rloc.append(ops[-1][1])
            nreg += 1
        elif r < 0.65:
            # relations join copies on DIFFERENT locations (a transfer); what invalidating one of two related paths on the
            # same location should do to the other is not fixed by the property (the code follows the relation)
            a, b = rng.randrange(nreg), rng.randrange(nreg)
            if rloc[a] != rloc[b]:
                ops.append(("rel", a, b))
        else:
            p = rng.choice(pool)
            x = rng.random()
            if x < 0.3 and p.count("/") > 1:
                p = str(Path(p).parent)
            elif x < 0.35:
                p = "/"
            elif x < 0.38:
                p = "/zz/y"
            ops.append(("inv", rng.randrange(nloc), p))
    return ops


CORPUS = [
    # DESIGN §6 #12: relate after invalidate of the related path is ignored
    [("reg", 0, "/a/f"), ("reg", 1, "/b/g"), ("rel", 0, 1), ("inv", 1, "/b/g"), ("reg", 1, "/b/g"), ("rel", 0, 2)],
    # DESIGN §6 #21: unbounded recursion
    [("reg", 0, "/e/f"), ("reg", 0, "/e"), ("rel", 0, 1), ("inv", 0, "/e")],
    [("reg", 0, "/a/b/c"), ("inv", 0, "/a"), ("reg", 0, "/a/b/c"), ("reg", 1, "/a/b"), ("inv", 0, "/a/b/c"), ("inv", 1, "/")],
    [("reg", 0, "/a"), ("reg", 0, "/a"), ("inv", 0, "/a"), ("inv", 0, "/a"), ("reg", 0, "/a"), ("inv", 0, "/zz")],
    [("reg", 0, "/a/f"), ("reg", 0, "/b/g"), ("rel", 0, 1), ("inv", 0, "/a"), ("reg", 0, "/a/f")],
]


class C21(Property):
    pid = "C21"
    title = "The data-location registry answers consistently with its history"
    lean_targets = ["SFV.Props.C21", "SFV.Model.Proto"]
    props_files = ["SFV/Props/C21.lean"]
    drivers = [DRIVER]
    translators = []
    rule = ("random operation histories (register_path, register_relation between earlier registrations, invalidate_location on "
            "registered paths, their ancestors, the root and unknown paths) over path trees of depth 1..4 on 1..3 locations; after "
            "every operation get_data_locations is read for every (node path, location) on the real DefaultDataManager, on the Lean "
            "model of the code as written (driver) and on a reference registry (no valid_paths cache, invalidation = every object of "
            "that location in the subtree) = the property monitor. Non-trivial = distinct history with an invalidation followed by a "
            "registration or relation.")
    trusted_base = [
        "modelled, not verified: pathlib.Path(p).parts and posixpath.join on normalised absolute paths; dict/list/set semantics; "
        "DataLocation objects as heap cells with a mutable validity flag; `available` events are not modelled",
        "wrapped locations (mount points, get_inner_path) are not in the Lean model",
    ]
    technique = ("Lean 4 model of the trie with object identities (heap) and the valid_paths cache; negative witnesses by kernel "
                 "evaluation and induction on the step budget; invariants for relation-free histories; differential correspondence")
    level_text = ("grade B+: the code as written is modelled with object identities; both known defects are proved on witnesses "
                  "(relate-after-invalidate ignored because of stale valid_paths; invalidate_location diverges for every step budget); "
                  "partial theorems for histories without relations; model compared with the real DefaultDataManager after every "
                  "operation of random histories")
    level_note = ("Lean kernel, axioms within {propext, Classical.choice, Quot.sound}; hand-written model tied to the code by the "
                  "correspondence check")
    assumptions = ["paths are normalised absolute POSIX paths; one location name per deployment"]
    min_nontrivial = 30

    def _run(self, ctx: Ctx, ops, nloc, lines, expect, meta, bucket):
        dm = DefaultDataManager(_Context())
        locs = [ExecutionLocation(name="loc", deployment=f"d{i}", local=False) for i in range(nloc)]
        ref = Ref()
        regs, rregs = [], []
        universe = set()
        lines.append("new")
        expect.append("ok")
        meta.append((ops, -1, "new"))
        nontriv, seen_inv = False, False
        for i, op in enumerate(ops):
            if op[0] == "reg":
                _, l, p = op
                regs.append(dm.register_path(locs[l], p))
                rregs.append(ref.register(l, p))
                universe.update(prefixes(p))
                res, rres = "ok", "ok"
                lines.append(f"reg {l} {pp(p)}")
                if seen_inv:
                    nontriv = True
            elif op[0] == "rel":
                _, a, b = op
                dm.register_relation(regs[a], regs[b])
                ref.relate(rregs[a], rregs[b])
                res, rres = "ok", "ok"
                lines.append(f"rel {a} {b}")
                if seen_inv:
                    nontriv = True
            else:
                _, l, p = op
                seen_inv = True
                old = sys.getrecursionlimit()
                try:
                    sys.setrecursionlimit(400)
                    dm.invalidate_location(locs[l], p)
                    res = "ok"
                except KeyError:
                    res = "KeyError"
                except RecursionError:
                    res = "RecursionError"
                finally:
                    sys.setrecursionlimit(old)
                rres = ref.invalidate(l, p)
                lines.append(f"inv {l} {pp(p)}")
            expect.append(res)
            meta.append((ops, i, op[0]))
            ctx.count("op:" + op[0] + ("" if res == "ok" else ":" + res))
            if res == "RecursionError":
                ctx.fail("registry:invalidate-recursion", f"invalidate_location({op[1]}, {op[2]!r}) raises RecursionError after {ops[:i]}",
                         {"ops": ops[: i + 1], "nloc": nloc})
                break
            if res != rres:
                ctx.fail("registry:" + op[0] + ":" + res, f"{op} -> {res}, reference {rres}, after {ops[:i]}", {"ops": ops[: i + 1], "nloc": nloc})
                break
            if res == "KeyError":
                continue
            bad = None
            for q in sorted(universe):
                for l in range(nloc):
                    real = sorted(o.path for o in dm.get_data_locations(q, deployment=f"d{l}", location_name="loc"))
                    want = ref.get(q, l)
                    lines.append(f"get {l} {pp(q)}")
                    expect.append(";".join(pp(x) for x in sorted(real, key=pp)) or "-")
                    meta.append((ops, i, f"get_data_locations({q!r}, d{l})"))
                    if real != want and bad is None:
                        bad = (q, l, real, want)
            if bad is not None:
                q, l, real, want = bad
                # narrow classification: a path is still listed in the node's valid_paths although no valid object carries it
                stale = []

                def walk(node, where):
                    vp = node.valid_paths.get(f"d{l}", {}).get("loc", set())
                    objs = node.locations.get(f"d{l}", {}).get("loc", [])
                    stale.extend((where, x) for x in vp if not any(o.path == x and o.data_type != DataType.INVALID for o in objs))
                    for tok, ch in node.children.items():
                        walk(ch, where + [tok])

                walk(dm.path_mapper._filesystem, [])
                missing = [x for x in want if x not in real]
                extra = [x for x in real if x not in want]
                key = ("registry:stale-valid-paths-hide-new-location" if missing and not extra and stale
                       else "registry:differs-from-reference")
                ctx.fail(key, f"after {ops[: i + 1]}: get_data_locations({q!r}, d{l}) = {real}, reference {want}; stale valid_paths {stale}",
                         {"ops": ops[: i + 1], "nloc": nloc})
                break
        ctx.case({"ops": [list(o) for o in ops[:10]], "nloc": nloc}, ("h", nloc, repr(ops)) if nontriv else None, bucket)

    def explore(self, ctx: Ctx) -> None:
        rng = ctx.rng
        lines, expect, meta = [], [], []
        for ops in CORPUS:
            self._run(ctx, ops, 2, lines, expect, meta, "corpus")
            ctx.corpus_replayed += 1
        n = 400 if ctx.tier == "quick" else 5000
        if ctx.mode == "search":
            n *= 3
        for _ in range(n):
            if ctx.out_of_time():
                ctx.extra["incomplete"] = True
                break
            nloc = rng.randint(1, 3)
            self._run(ctx, gen_history(rng, nloc, rng.randint(1, 4), rng.randint(3, 14)), nloc, lines, expect, meta, "random")
        got = ctx.lean(DRIVER, lines)
        seen = set()
        for gl, e, (ops, i, what) in zip(got, expect, meta):
            if gl != e and id(ops) not in seen:
                seen.add(id(ops))
                ctx.disagree("model vs DefaultDataManager", f"{what} after {ops[: i + 1]}: code {e!r}, Lean model {gl!r}", {"ops": ops[: i + 1]})

    def replay(self, ctx: Ctx, data) -> None:
        r = data.get("replay") or (data.get("no_longer_checks") or [{}])[0].get("case") or {}
        if "ops" not in r:
            return super().replay(ctx, data)
        ops = [tuple(o) for o in r["ops"]]
        lines, expect, meta = [], [], []
        self._run(ctx, ops, r.get("nloc", 3), lines, expect, meta, "replay")
        got = ctx.lean(DRIVER, lines)
        for ln, gl, e in zip(lines, got, expect):
            flag = "" if gl == e else "   <-- model differs"
            print(f"{ln:40s} code {e}   model {gl}{flag}")


PROPERTY = C21()
