"""Extractor: MatchingRule.eval / MatchingBindingFilter.get_targets (streamflow/deployment/filter/matching.py) and the
target loop of DefaultScheduler.schedule -> SFV/Gen/MatchGuards.lean"""
from __future__ import annotations

import ast
import os

from sfv.translate.expr import ExprTranslator, TranslateError, find_nodes, parse_function

TARGET = "SFV/Gen/MatchGuards.lean"


def generate(repo: str) -> tuple[str, str]:
    path = os.path.join(repo, "streamflow/deployment/filter/matching.py")
    # ---- MatchingRule.eval --------------------------------------------------------------------
    fn = parse_function(path, "eval", "MatchingRule")
    body = [s for s in fn.body if not (isinstance(s, ast.Expr) and isinstance(s.value, ast.Constant))]
    if len(body) != 4 or not isinstance(body[0], ast.If) or not isinstance(body[1], ast.If) or not isinstance(body[2], ast.For) \
            or not isinstance(body[3], ast.Return):
        raise TranslateError("MatchingRule.eval: expected `if deployment…; if service…; for predicates…; return True`")

    def returns_false(i: ast.If) -> bool:
        return (not i.orelse and isinstance(i.body[-1], ast.Return) and isinstance(i.body[-1].value, ast.Constant)
                and i.body[-1].value.value is False)

    if not returns_false(body[0]) or not returns_false(body[1]):
        raise TranslateError("MatchingRule.eval: the deployment / service tests do not `return False`")
    tr = ExprTranslator({"deployment": "dep", "self.deployment": "ruleDep", "service": "service", "self.service": "ruleService"})
    dep_mismatch = tr.tr(body[0].test)
    service_mismatch = tr.tr(body[1].test)
    loop = body[2]
    if ast.unparse(loop.iter) != "self.predicates.items()" or loop.orelse:
        raise TranslateError("MatchingRule.eval: loop does not range over self.predicates.items()")
    port, match = (e.id for e in loop.target.elts)
    ifs = [s for s in loop.body if isinstance(s, ast.If)]
    kinds = []
    value_mismatch = None
    for i in ifs:
        src = ast.unparse(i.test)
        raises = [s for s in i.body if isinstance(s, ast.Raise)]
        if raises and src == f"{port} not in job.inputs.keys()":
            kinds.append("missing:" + ast.unparse(raises[0].exc.func))
        elif raises and src.replace(" ", "") == f"isinstance(job.inputs[{port}],(FileToken,ListToken,ObjectToken))":
            kinds.append("unsupported:" + ast.unparse(raises[0].exc.func))
        elif src.startswith("not isinstance(") and not raises and not any(isinstance(s, ast.Return) for s in i.body):
            kinds.append("warn")
        elif returns_false(i):
            value_mismatch = ExprTranslator({match: "m", f"str(job.inputs[{port}].value)": "v"}).tr(i.test)
            kinds.append("compare")
        else:
            raise TranslateError(f"MatchingRule.eval: unexpected test `{src}` in the predicate loop")
    if kinds != ["missing:ValueError", "unsupported:WorkflowDefinitionException", "warn", "compare"] or len(loop.body) != 4:
        raise TranslateError(f"MatchingRule.eval: predicate loop has an unexpected shape {kinds}")
    if not (isinstance(body[3].value, ast.Constant) and body[3].value.value is True):
        raise TranslateError("MatchingRule.eval: does not end with `return True`")
    # ---- MatchingBindingFilter.get_targets ----------------------------------------------------
    fn = parse_function(path, "get_targets", "MatchingBindingFilter")
    inits = [s for s in fn.body if isinstance(s, (ast.Assign, ast.AnnAssign)) and
             ast.unparse(s.targets[0] if isinstance(s, ast.Assign) else s.target) == "filtered_targets"]
    if len(inits) != 1:
        raise TranslateError("get_targets: initialisation of `filtered_targets` not found")
    init_src = ast.unparse(inits[0].value).replace(" ", "")
    container = {"{}": "dict", "dict()": "dict", "[]": "list", "list()": "list", "set()": "set"}.get(init_src)
    if container is None:
        raise TranslateError(f"get_targets: filtered_targets starts as `{init_src}` (expected dict, list or set)")
    loops = [s for s in fn.body if isinstance(s, ast.For)]
    if len(loops) != 1 or ast.unparse(loops[0].iter) != "targets" or ast.unparse(loops[0].target) != "target":
        raise TranslateError("get_targets: `for target in targets` not found")
    lb = loops[0].body
    if len(lb) != 1 or not isinstance(lb[0], ast.If) or lb[0].orelse:
        raise TranslateError("get_targets: loop body is not a single `if`")
    test = lb[0].test
    if not (isinstance(test, ast.Call) and ast.unparse(test.func) in ("any", "all") and len(test.args) == 1
            and isinstance(test.args[0], ast.GeneratorExp)):
        raise TranslateError("get_targets: membership test is not `any(rule.eval(...) for rule in self.matching_rules)`")
    quant = ast.unparse(test.func)
    gen = test.args[0]
    if ast.unparse(gen.generators[0].iter) != "self.matching_rules" or gen.generators[0].ifs:
        raise TranslateError("get_targets: generator does not range over self.matching_rules")
    call = gen.elt
    kws = {k.arg: ast.unparse(k.value) for k in call.keywords} if isinstance(call, ast.Call) else {}
    if not (isinstance(call, ast.Call) and ast.unparse(call.func).endswith(".eval")
            and kws == {"job": "job", "deployment": "target.deployment.name", "service": "target.service"}):
        raise TranslateError("get_targets: rule.eval is not called with (job, target.deployment.name, target.service)")
    add_src = ast.unparse(lb[0].body[0]).replace(" ", "")
    adds = {"dict": "filtered_targets[target]=None", "list": "filtered_targets.append(target)", "set": "filtered_targets.add(target)"}
    if len(lb[0].body) != 1 or add_src != adds[container]:
        raise TranslateError(f"get_targets: surviving target is stored with `{add_src}`")
    raise_ifs = [s for s in fn.body if isinstance(s, ast.If) and any(isinstance(x, ast.Raise) for x in s.body)]
    if len(raise_ifs) != 1 or ast.unparse(raise_ifs[0].test).replace(" ", "") != "len(filtered_targets)==0":
        raise TranslateError("get_targets: `if len(filtered_targets) == 0: raise` not found")
    ret = fn.body[-1]
    ret_src = ast.unparse(ret.value).replace(" ", "") if isinstance(ret, ast.Return) else ""
    if ret_src not in ("list(filtered_targets)", "filtered_targets", "list(filtered_targets.keys())"):
        raise TranslateError(f"get_targets: returns `{ret_src}`")
    ordered = container in ("dict", "list")
    dedups = container in ("dict", "set")
    # ---- DefaultScheduler.schedule ------------------------------------------------------------
    sched = os.path.join(repo, "streamflow/scheduling/scheduler.py")
    fn = parse_function(sched, "schedule", "DefaultScheduler")
    src = ast.unparse(fn).replace(" ", "").replace("\n", "")
    folds = "targets=list(binding_config.targets)" in src and \
        "forfin(self._get_binding_filter(f)forfinbinding_config.filters):targets=awaitf.get_targets(job,targets)" in src
    tasks_in_order = "asyncio.create_task(self._process_target(target=target,job_context=job_context,hardware_requirement=hardware_requirement))fortargetintargets]" in src
    if not folds:
        raise TranslateError("schedule: filters are not folded over list(binding_config.targets) in order")
    if not tasks_in_order:
        raise TranslateError("schedule: one _process_target task per target, created in list order, not found")
    # ---- DefaultScheduler._get_binding_filter -------------------------------------------------
    fn = parse_function(sched, "_get_binding_filter", "DefaultScheduler")
    if len(fn.body) != 2 or not isinstance(fn.body[0], ast.If) or not isinstance(fn.body[1], ast.Return) or fn.body[0].orelse:
        raise TranslateError("_get_binding_filter: expected `if <key> not in self.binding_filter_map: …; return self.binding_filter_map[<key>]`")
    test = fn.body[0].test
    if not (isinstance(test, ast.Compare) and len(test.ops) == 1 and isinstance(test.ops[0], ast.NotIn)
            and ast.unparse(test.comparators[0]) == "self.binding_filter_map"):
        raise TranslateError("_get_binding_filter: membership test on self.binding_filter_map not found")
    key_node = test.left
    key_src = ast.unparse(key_node)
    assign = fn.body[0].body
    if len(assign) != 1 or not isinstance(assign[0], ast.Assign) or ast.unparse(assign[0].targets[0]) != f"self.binding_filter_map[{key_src}]":
        raise TranslateError("_get_binding_filter: the filter is not stored under the key that was tested")
    built = ast.unparse(assign[0].value).replace(" ", "").replace("\n", "")
    if built != "binding_filter_classes[config.type](config.name,**config.config)":
        raise TranslateError(f"_get_binding_filter: filter is built as `{built}`")
    if ast.unparse(fn.body[1].value) != f"self.binding_filter_map[{key_src}]":
        raise TranslateError("_get_binding_filter: returns another entry than the one tested")
    cache_key = ExprTranslator({"config.name": "name", "config.type": "type"}).tr(key_node)
    text = f"""/-! GENERATED by harness/sfv/translate/matchguards.py from streamflow/deployment/filter/matching.py and
    streamflow/scheduling/scheduler.py — do not edit. -/
namespace SFV.Gen.Match

/-- MatchingRule.eval: `if deployment != self.deployment: return False` -/
def depMismatch (dep ruleDep : Nat) : Bool := {dep_mismatch}
/-- MatchingRule.eval: `if self.service is not None and self.service != service: return False` -/
def serviceMismatch (ruleService service : Option Nat) : Bool := {service_mismatch}
/-- MatchingRule.eval: `if match != str(job.inputs[input_name].value): return False` -/
def valueMismatch (m v : Nat) : Bool := {value_mismatch}
/-- get_targets: a target is kept when `any(...)` (true) / `all(...)` (false) of the rules evaluate to True -/
def keepsIfAnyRule : Bool := {"true" if quant == "any" else "false"}
/-- get_targets: the surviving targets are collected in an insertion-ordered container (dict / list), not a set -/
def collectsInOrder : Bool := {"true" if ordered else "false"}
/-- get_targets: the container removes duplicates of the same Target object -/
def dropsDuplicates : Bool := {"true" if dedups else "false"}
/-- schedule(): filters folded in order over list(binding_config.targets); one task per target in list order -/
def tasksInTargetOrder : Bool := true
/-- _get_binding_filter: key of `binding_filter_map` under which a filter object is cached and looked up -/
def filterCacheKey (name type : Nat) : Nat := {cache_key}

end SFV.Gen.Match
"""
    return TARGET, text
