import SFV.Lemmas.CombSim
/-! Since fix 0672c9b (`_product` no longer overwrites its loop variable `tag`) the dot product cannot raise:
    `num_items = min(len …)` elements are popped from every deque of ONE cell. For every stream, well formed or not. -/
namespace SFV.Comb
open SFV

theorem minLen_dropLast (c : Cell) : minLen (c.map (fun x => (x.1, x.2.dropLast))) = minLen c - 1 := by
  induction c with
  | nil => rfl
  | cons y r ih =>
    obtain ⟨p, d⟩ := y
    cases r with
    | nil => simp [minLen]
    | cons z r' =>
      simp only [List.map_cons, minLen, List.length_dropLast] at ih ⊢
      rw [ih]
      omega

theorem prodIter_ok : ∀ (n : Nat) (tag : Tag) (tv : TV) (out : List Emit) (c : Cell),
    tv.lookup tag = some c → n ≤ minLen c →
    (prodIter n tag tv out).err = none ∧ tkeys (prodIter n tag tv out).tv = tkeys tv := by
  intro n
  induction n with
  | zero => intro tag tv out c _ _; exact ⟨rfl, rfl⟩
  | succ n ih =>
    intro tag tv out c hc hn
    have hne : ∀ x ∈ c, x.2 ≠ [] := by
      intro x hx h0
      have := minLen_le c x hx
      rw [h0] at this
      simp at this
      omega
    simp only [prodIter, tvGet, hc, popAll_full c hne]
    have hl : (tvSet tv tag (c.map (fun x => (x.1, x.2.dropLast)))).lookup tag
        = some (c.map (fun x => (x.1, x.2.dropLast))) := by
      rw [lookup_tvSet, if_pos rfl, hc]; rfl
    obtain ⟨h1, h2⟩ := ih tag _ (out ++ [retagAll (schemaTag (schemaOf (c.map (fun x => lastD x.2))))
      (schemaOf (c.map (fun x => lastD x.2)))]) _ hl (by rw [minLen_dropLast]; omega)
    exact ⟨h1, by rw [h2, tkeys_tvSet]⟩

theorem prodLoop_ok (nItems : Nat) : ∀ (ks : List Tag) (tv : TV) (out : List Emit), (∀ k ∈ ks, k ∈ tkeys tv) →
    (prodLoop nItems ks tv out).err = none := by
  intro ks
  induction ks with
  | nil => intro tv out _; rfl
  | cons k ks ih =>
    intro tv out h
    obtain ⟨c, hc⟩ := lookup_of_mem_tkeys (h k (by simp))
    simp only [prodLoop, tvGet, hc]
    split
    · obtain ⟨h1, h2⟩ := prodIter_ok (minLen c) k tv out c hc (Nat.le_refl _)
      simp only [h1]
      exact ih _ _ (fun k' hk' => by rw [h2]; exact h k' (List.mem_cons_of_mem _ hk'))
    · exact ih _ _ (fun k' hk' => h k' (List.mem_cons_of_mem _ hk'))

theorem dotAdd_ok (nItems : Nat) (tv : TV) (item : Nat) (e : Elem) : (dotAdd nItems tv item e).err = none := by
  unfold dotAdd dotProduct
  exact prodLoop_ok nItems _ _ [] (fun k hk => hk)

/-- **the repaired dot product never raises**, whatever the stream (well formed or not) -/
theorem runWith_dot_ok (nItems : Nat) : ∀ (es : List Ev) (tv : TV) (out : List Emit),
    (runWith (dotAdd nItems) es tv out).err = none := by
  intro es
  induction es with
  | nil => intro tv out; rfl
  | cons ev es ih =>
    obtain ⟨p, t⟩ := ev
    intro tv out
    simp only [runWith, dotAdd_ok]
    exact ih _ _

/-! ### regression guard: the definition BEFORE fix 0672c9b (the loop variable `tag` was overwritten by `get_tag`) -/

def prodIterOld : Nat → Tag → TV → List Emit → Res
  | 0, _, tv, out => ⟨tv, out, none⟩
  | n + 1, tag, tv, out =>
      match tvGet tv tag with
      | none => ⟨tv, out, some .keyError⟩
      | some c =>
          match popAll c with
          | none => ⟨tv, out, some .indexError⟩
          | some (es, c') =>
              let s := schemaOf es
              let tag' := schemaTag s
              prodIterOld n tag' (tvSet tv tag c') (out ++ [retagAll tag' s])

def prodLoopOld (nItems : Nat) : List Tag → TV → List Emit → Res
  | [], tv, out => ⟨tv, out, none⟩
  | key :: ks, tv, out =>
      match tvGet tv key with
      | none => ⟨tv, out, some .keyError⟩
      | some c =>
          if Gen.dotEmitGuard c.length nItems then
            let r := prodIterOld (minLen c) key tv out
            match r.err with
            | some _ => r
            | none => prodLoopOld nItems ks r.tv r.out
          else prodLoopOld nItems ks tv out

def dotAddOld (nItems : Nat) (tv : TV) (item : Nat) (e : Elem) : Res :=
  prodLoopOld nItems ((addToList addToPort tv e.tag item e).map (·.1)) (addToList addToPort tv e.tag item e) []

def runDotOld (P : Nat) (es : List Ev) : Res := runWith (dotAddOld P) es [] []

end SFV.Comb
