import SFV.Lemmas.RemapVal
/-! # C32 — remapping CWL file values between directories is lossless

`remap_path` / `remap_token_value` of `streamflow/cwl/utils.py` (model `SFV/Model/Remap.lean`, which includes the
standard-library pieces the function calls: `unquote`, `urlsplit().scheme`, `relpath`, `join`). The full
round-trip statement is FALSE of the code; four witnesses below, the partial statement after them. -/
namespace SFV.C32
open SFV.Remap

/-- any file or directory name (spaces, `%`, `:`, unicode allowed) -/
def Name (w : Str) : Prop := w ≠ [] ∧ w ≠ ['.'] ∧ w ≠ ['.', '.'] ∧ '/' ∉ w

/-- the full-strength path statement of the property: for directories and names of any spelling, remapping a
path below `old` to `new` and back restores it -/
def FullRoundTrip : Prop :=
  ∀ (cwd oc nc comps : List Str), oc ≠ [] → nc ≠ [] → comps ≠ [] →
    (∀ w ∈ oc ++ nc ++ comps, Name w) →
    ∀ s', remapPath cwd (absStr (oc ++ comps)) (absStr oc) (absStr nc) = some s' →
      remapPath cwd s' (absStr nc) (absStr oc) = some (absStr (oc ++ comps))

/-- witness 1 (percent escapes are decoded): `/old/a%41 → /new/aA → /old/aA` -/
theorem remap_witness_percent :
    remapPath [] "/old/a%41".toList "/old".toList "/new".toList = some "/new/aA".toList ∧
    remapPath [] "/new/aA".toList "/new".toList "/old".toList = some "/old/aA".toList := by
  constructor <;> decide +kernel

/-- **the full round trip is false of the code** -/
theorem remap_roundtrip_false : ¬ FullRoundTrip := by
  intro h
  have h1 := h [] ["old".toList] ["new".toList] ["a%41".toList] (by simp) (by simp) (by simp)
    (by intro w hw; simp at hw; rcases hw with rfl | rfl | rfl <;> refine ⟨?_, ?_, ?_, ?_⟩ <;> decide)
    "/new/aA".toList (by decide +kernel)
  revert h1
  decide +kernel

/-- witness 2 (file:// results are not quoted again): `file:///old/a%20b → file:///new/a b → file:///old/a b` -/
theorem remap_roundtrip_file_url_false :
    remapPath [] "file:///old/a%20b".toList "/old".toList "/new".toList = some "file:///new/a b".toList ∧
    remapPath [] "file:///new/a b".toList "/new".toList "/old".toList = some "file:///old/a b".toList := by
  constructor <;> decide +kernel

/-- witness 3 (a new directory named `n:`): the way back takes `/n:/a` for a URL and leaves it alone -/
theorem remap_roundtrip_colon_dir_false :
    remapPath [] "/old/a".toList "/old".toList "/n:".toList = some "/n:/a".toList ∧
    remapPath [] "/n:/a".toList "/n:".toList "/old".toList = some "/n:/a".toList := by
  constructor <;> decide +kernel

/-- witness 4 (a new directory whose name contains an escape): `/old/a → /w%41/a → /old/../wA/a` -/
theorem remap_roundtrip_escaped_dir_false :
    remapPath [] "/old/a".toList "/old".toList "/w%41".toList = some "/w%41/a".toList ∧
    remapPath [] "/w%41/a".toList "/w%41".toList "/old".toList = some "/old/../wA/a".toList := by
  constructor <;> decide +kernel

/-- **partial round trip, paths**: with regular names (no `%`, no `:`; `Reg`) in both directories and below,
a plain path and a `file://` location move below the new directory and come back unchanged -/
theorem remap_path_roundtrip_partial (cwd oc nc comps : List Str) (hoc : oc ≠ []) (hnc : nc ≠ []) (hc : comps ≠ [])
    (ho : ∀ w ∈ oc, Reg w) (hn : ∀ w ∈ nc, Reg w) (hcs : ∀ w ∈ comps, Reg w) :
    remapPath cwd (absStr (oc ++ comps)) (absStr oc) (absStr nc) = some (absStr (nc ++ comps)) ∧
    remapPath cwd (absStr (nc ++ comps)) (absStr nc) (absStr oc) = some (absStr (oc ++ comps)) ∧
    remapPath cwd (fileUrl ++ absStr (oc ++ comps)) (absStr oc) (absStr nc) = some (fileUrl ++ absStr (nc ++ comps)) ∧
    remapPath cwd (fileUrl ++ absStr (nc ++ comps)) (absStr nc) (absStr oc) = some (fileUrl ++ absStr (oc ++ comps)) :=
  ⟨remapPath_plain cwd oc nc comps hoc hnc hc ho hn hcs, remapPath_plain cwd nc oc comps hnc hoc hc hn ho hcs,
   remapPath_fileUrl cwd oc nc comps hoc hnc hc ho hn hcs, remapPath_fileUrl cwd nc oc comps hnc hoc hc hn ho hcs⟩

/-- **partial round trip, values** (`recurses_everywhere`): for every CWL value — arrays, records, File and
Directory objects with `path`, `location`, `secondaryFiles`, `listing` at any depth — whose file strings are
good (`GoodVal`: regular names below the old directory, plain or `file://`, or a URL of another scheme),
`remap_token_value` old→new succeeds and `remap_token_value` new→old gives the original value back -/
theorem remap_roundtrip_partial (cwd oc nc : List Str) (hoc : oc ≠ []) (hnc : nc ≠ []) (ho : ∀ w ∈ oc, Reg w)
    (hn : ∀ w ∈ nc, Reg w) (v : Val) (hv : GoodVal oc .value v) :
    ∃ v', remapValue cwd (absStr oc) (absStr nc) v = some v' ∧ GoodVal nc .value v' ∧
      remapValue cwd (absStr nc) (absStr oc) v' = some v := by
  obtain ⟨v', h1, h2, h3, _, _⟩ := goodVal_remap cwd oc nc hoc hnc ho hn v .value hv
  exact ⟨v', h1, h2, h3⟩

/-- a value without File/Directory objects (in the positions `remap_token_value` visits) -/
def NoFile : Mode → Val → Prop
  | m, .lcons h t => (m = .value ∨ m = .list) → (NoFile .value h ∧ NoFile .list t)
  | m, .ocons k x rest =>
      match m with
      | .value => isFileObj (.ocons k x rest) = false ∧ NoFile .value x ∧ NoFile .objFields rest
      | .objFields => NoFile .value x ∧ NoFile .objFields rest
      | .fileFields => False
      | .list => True
  | _, _ => True

/-- **non-file values are untouched**, whatever the directories are -/
theorem non_file_untouched (cwd : List Str) (old new : Str) (v : Val) :
    ∀ m, NoFile m v → remap cwd old new m v = some v := by
  induction v with
  | null | str _ | num _ | lnil | onil => intro m _; cases m <;> simp [remap]
  | lcons h t ihh iht =>
    intro m hm
    cases m with
    | value => have := hm (Or.inl rfl); simp [remap, ihh .value this.1, iht .list this.2, combL]
    | list => have := hm (Or.inr rfl); simp [remap, ihh .value this.1, iht .list this.2, combL]
    | fileFields | objFields => simp [remap]
  | ocons k x rest ihx ihr =>
    intro m hm
    cases m with
    | value =>
      simp only [NoFile] at hm
      simp [remap, hm.1, ihx .value hm.2.1, ihr .objFields hm.2.2, combO]
    | objFields =>
      simp only [NoFile] at hm
      simp [remap, ihx .value hm.1, ihr .objFields hm.2, combO]
    | fileFields => simp [NoFile] at hm
    | list => simp [remap]

/-- **other URL schemes are untouched** -/
theorem other_schemes_untouched (cwd : List Str) (p old new : Str) (h1 : containsColonSlash p = true)
    (h2 : scheme p ≠ fileScheme) : remapPath cwd p old new = some p :=
  remapPath_other cwd p old new h1 h2

/-! ### non-vacuity -/

/-- `http://x/old/a` is a URL of another scheme -/
example : containsColonSlash "http://x/old/a".toList = true ∧ scheme "http://x/old/a".toList ≠ fileScheme := by
  constructor <;> decide +kernel

/-- a Directory with a listing holding a File with a secondary file, inside a record inside an array: `GoodVal`
holds, so the round-trip theorem applies to it -/
def exFile (p : Str) (extra : Val) : Val :=
  .ocons kClass (.str sFile) (.ocons kPath (.str p) extra)
def exVal : Val :=
  .lcons (.ocons "in".toList
            (.ocons kClass (.str sDirectory)
              (.ocons kLocation (.str (fileUrl ++ absStr ["old".toList, "d 1".toList]))
                (.ocons kListing
                  (.lcons (exFile (absStr ["old".toList, "d 1".toList, "é.txt".toList])
                            (.ocons kSecondary (.lcons (exFile (absStr ["old".toList, "d 1".toList, "é.txt.idx".toList]) .onil) .lnil)
                              .onil))
                    .lnil)
                  .onil)))
            .onil) .lnil

example : Reg "d 1".toList ∧ Reg "é.txt".toList := by
  constructor <;> (refine ⟨?_, ?_, ?_, ?_, ?_, ?_⟩ <;> decide)

/-- the hypothesis of `remap_roundtrip_partial` is satisfiable: a File object with a path below `/old` whose name has a
space in it -/
example : GoodVal ["old".toList] .value (exFile (absStr ["old".toList, "a b".toList]) .onil) := by
  have hf : isFileObj (exFile (absStr ["old".toList, "a b".toList]) .onil) = true := by decide +kernel
  have hg : GoodStr ["old".toList] (absStr ["old".toList, "a b".toList]) :=
    Or.inl ⟨["a b".toList], by simp, fun w hw => by
      simp at hw; subst hw; refine ⟨?_, ?_, ?_, ?_, ?_, ?_⟩ <;> decide, Or.inl rfl⟩
  unfold exFile at hf ⊢
  simp only [GoodVal, hf, if_true]
  refine ⟨?_, ?_, trivial⟩
  · rw [if_neg (by decide), if_neg (by decide)]; trivial
  · rw [if_pos (by decide)]; exact ⟨_, rfl, hg⟩

example : remapValue [] "/old".toList "/new".toList exVal ≠ some exVal ∧
    (remapValue [] "/old".toList "/new".toList exVal).bind (remapValue [] "/new".toList "/old".toList) = some exVal := by
  constructor <;> decide +kernel

end SFV.C32
