import SFV.Lemmas.JsDepsTop
/-! C31: the listener raises no exception — on *every* syntax tree (after fix 254d061 of the code). -/
namespace SFV.JsDeps

theorem bind_ok_intro {α β ε : Type} {x : Except ε α} {f : α → Except ε β} {a : α} {b : β}
    (h1 : x = .ok a) (h2 : f a = .ok b) : (x >>= f) = .ok b := by
  subst h1; exact h2

theorem del_total (n : Names) (x : String) : ∃ n', n.del x = .ok n' := by
  unfold Names.del
  cases n.inner <;> exact ⟨_, rfl⟩

theorem onAssign_total (n : Names) (x : String) (e : Js) : ∃ n0, onAssign n x e = .ok n0 := by
  unfold onAssign
  split
  · cases nameOf e with
    | none => exact ⟨_, rfl⟩
    | some y =>
      simp only
      split
      · exact ⟨_, rfl⟩
      · exact del_total n x
  · cases nameOf e with
    | none => exact ⟨_, rfl⟩
    | some y => simp only; split <;> exact ⟨_, rfl⟩

theorem idxKeys_total (n : Names) (e i : Js) : ∃ ks, idxKeys n e i = .ok ks := by
  unfold idxKeys
  cases nameOf e with
  | none => exact ⟨_, rfl⟩
  | some x =>
    simp only
    split
    · cases i <;> exact ⟨_, rfl⟩
    · exact ⟨_, rfl⟩

/-- **the analysis is total**: `CWLDependencyListener` walks every tree of the modelled syntax without raising -/
theorem listen_total : ∀ (e : Js) (n : Names), ∃ r, listen n e = .ok r := by
  intro e
  induction e with
  | num m => intro n; exact ⟨(n, []), by simp [listen]⟩
  | str m => intro n; exact ⟨(n, []), by simp [listen]⟩
  | ident m => intro n; exact ⟨(n, []), by simp [listen]⟩
  | skip => intro n; exact ⟨(n, []), by simp [listen]⟩
  | varDecl x => intro n; exact ⟨(n, []), by simp [listen]⟩
  | dot e k ih =>
    intro n
    obtain ⟨⟨n1, k1⟩, h1⟩ := ih n
    exact ⟨_, by simp only [listen]; exact bind_ok_intro h1 rfl⟩
  | idx e i ih1 ih2 =>
    intro n
    obtain ⟨k0, h0⟩ := idxKeys_total n e i
    obtain ⟨⟨n1, k1⟩, h1⟩ := ih1 n
    obtain ⟨⟨n2, k2⟩, h2⟩ := ih2 n1
    exact ⟨_, by simp only [listen]; exact bind_ok_intro h0 (bind_ok_intro h1 (bind_ok_intro h2 rfl))⟩
  | paren e ih => intro n; simp only [listen]; exact ih n
  | assign x e ih =>
    intro n
    obtain ⟨n0, h0⟩ := onAssign_total n x e
    obtain ⟨r, h1⟩ := ih n0
    exact ⟨r, by simp only [listen]; exact bind_ok_intro h0 h1⟩
  | bin a b ih1 ih2 =>
    intro n
    obtain ⟨⟨n1, k1⟩, h1⟩ := ih1 n
    obtain ⟨⟨n2, k2⟩, h2⟩ := ih2 n1
    exact ⟨_, by simp only [listen]; exact bind_ok_intro h1 (bind_ok_intro h2 rfl)⟩
  | cond c a b ih1 ih2 ih3 =>
    intro n
    obtain ⟨⟨n1, k1⟩, h1⟩ := ih1 n
    obtain ⟨⟨n2, k2⟩, h2⟩ := ih2 n1
    obtain ⟨⟨n3, k3⟩, h3⟩ := ih3 n2
    exact ⟨_, by simp only [listen]; exact bind_ok_intro h1 (bind_ok_intro h2 (bind_ok_intro h3 rfl))⟩
  | call a b ih1 ih2 =>
    intro n
    obtain ⟨⟨n1, k1⟩, h1⟩ := ih1 n
    obtain ⟨⟨n2, k2⟩, h2⟩ := ih2 n1
    exact ⟨_, by simp only [listen]; exact bind_ok_intro h1 (bind_ok_intro h2 rfl)⟩
  | fexpr ps body ih => intro n; simp only [listen]; exact ih n
  | seq a b ih1 ih2 =>
    intro n
    obtain ⟨⟨n1, k1⟩, h1⟩ := ih1 n
    obtain ⟨⟨n2, k2⟩, h2⟩ := ih2 n1
    exact ⟨_, by simp only [listen]; exact bind_ok_intro h1 (bind_ok_intro h2 rfl)⟩
  | varInit x e ih => intro n; simp only [listen]; exact ih n
  | ret e ih => intro n; simp only [listen]; exact ih n
  | ite c t e ih1 ih2 ih3 =>
    intro n
    obtain ⟨⟨n1, k1⟩, h1⟩ := ih1 n
    obtain ⟨⟨n2, k2⟩, h2⟩ := ih2 n1
    obtain ⟨⟨n3, k3⟩, h3⟩ := ih3 n2
    exact ⟨_, by simp only [listen]; exact bind_ok_intro h1 (bind_ok_intro h2 (bind_ok_intro h3 rfl))⟩
  | fdecl f ps body ih =>
    intro n
    obtain ⟨⟨n1, k1⟩, h1⟩ := ih (shadowParams n.push ps)
    exact ⟨_, by simp only [listen]; exact bind_ok_intro h1 rfl⟩
  | loop i k m body ih => intro n; simp only [listen]; exact ih n

end SFV.JsDeps
