import SFV.Model.Retry
namespace SFV.Retry

theorem foldl_bump_not_mem {l : List Nat} {f : Nat → Nat} {k : Nat} (h : k ∉ l) : (l.foldl bump f) k = f k := by
  induction l generalizing f with
  | nil => rfl
  | cons a l ih =>
    simp only [List.foldl_cons]
    rw [ih (by intro hk; exact h (List.mem_cons_of_mem _ hk))]
    have : k ≠ a := by intro e; exact h (e ▸ List.mem_cons_self ..)
    simp [bump, this]

theorem foldl_bump_mem {l : List Nat} {f : Nat → Nat} {k : Nat} (hn : l.Nodup) (h : k ∈ l) : (l.foldl bump f) k = f k + 1 := by
  induction l generalizing f with
  | nil => cases h
  | cons a l ih =>
    simp only [List.foldl_cons]
    have hn' := List.nodup_cons.mp hn
    rcases List.mem_cons.mp h with rfl | h'
    · rw [foldl_bump_not_mem hn'.1]; simp [bump]
    · rw [ih hn'.2 h']
      have : k ≠ a := by intro e; exact hn'.1 (e ▸ h')
      simp [bump, this]

/-- `updateAll` succeeding: every listed version was allowed and is bumped once; the others are untouched -/
theorem updateAll_ok {max : Option Nat} : ∀ {l : List Nat} {v v' : Nat → Nat}, l.Nodup → updateAll max l v = (v', true) →
    (∀ k, k ∈ l → Gen.retryAllowed max (v k) = true ∧ v' k = v k + 1) ∧ (∀ k, k ∉ l → v' k = v k) := by
  intro l
  induction l with
  | nil => intro v v' _ h; simp [updateAll] at h; subst h; simp
  | cons a l ih =>
    intro v v' hn h
    have hn' := List.nodup_cons.mp hn
    simp only [updateAll] at h
    split at h
    · rename_i hal
      obtain ⟨h1, h2⟩ := ih hn'.2 h
      constructor
      · intro k hk
        rcases List.mem_cons.mp hk with rfl | hk'
        · refine ⟨hal, ?_⟩
          rw [h2 k hn'.1]; simp [bump]
        · have hne : k ≠ a := by intro e; exact hn'.1 (e ▸ hk')
          have := h1 k hk'
          simp only [bump, hne, if_false] at this
          exact this
      · intro k hk
        have hne : k ≠ a := by intro e; exact hk (e ▸ List.mem_cons_self ..)
        rw [h2 k (by intro hk'; exact hk (List.mem_cons_of_mem _ hk'))]
        simp [bump, hne]
    · cases h

/-- `updateAll` failing: versions only grow, each by at most one, and only where the bump was allowed -/
theorem updateAll_le {max : Option Nat} : ∀ {l : List Nat} {v v' : Nat → Nat} {b : Bool}, l.Nodup → updateAll max l v = (v', b) →
    ∀ k, v k ≤ v' k ∧ v' k ≤ v k + 1 ∧ (v' k = v k + 1 → Gen.retryAllowed max (v k) = true) := by
  intro l
  induction l with
  | nil => intro v v' b _ h; simp [updateAll] at h; obtain ⟨rfl, _⟩ := h; intro k; simp
  | cons a l ih =>
    intro v v' b hn h k
    have hn' := List.nodup_cons.mp hn
    simp only [updateAll] at h
    split at h
    · rename_i hal
      have := ih hn'.2 h k
      by_cases hk : k = a
      · subst hk
        have hnot : k ∉ l := hn'.1
        -- k is not bumped again in the tail
        have htail : ∀ {l : List Nat} {w w' : Nat → Nat} {b : Bool}, k ∉ l → updateAll max l w = (w', b) → w' k = w k := by
          intro l
          induction l with
          | nil => intro w w' b _ h; simp [updateAll] at h; obtain ⟨rfl, _⟩ := h; rfl
          | cons c l ih2 =>
            intro w w' b hk h
            simp only [updateAll] at h
            split at h
            · rw [ih2 (by intro hh; exact hk (List.mem_cons_of_mem _ hh)) h]
              have : k ≠ c := by intro e; exact hk (e ▸ List.mem_cons_self ..)
              simp [bump, this]
            · obtain ⟨rfl, _⟩ := Prod.mk.inj h; rfl
        rw [htail hnot h]
        simp [bump, hal]
      · simp only [bump, hk, if_false] at this
        exact this
    · obtain ⟨rfl, _⟩ := Prod.mk.inj h
      simp

end SFV.Retry
