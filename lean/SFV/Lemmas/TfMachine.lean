import SFV.Model.TfMachine
import SFV.Lemmas.NetDefs
/-! # The tag-grouping loop computes the denotation, whatever the arrival order (C05)

`runRounds ls` (the loop of `Transformer.run` / `ConditionalStep.run` / `ScheduleStep.run`) is related to the
denotational `groupStep` by an invariant over the number of rounds already executed.

The invariant `MapInv ls S m o` is parametrised by the set `S q τ` of (port, tag) pairs already delivered:
* the keys of `inputs_map` are distinct and are exactly the tags delivered on some port and not yet fired;
* the entry of key `τ` holds exactly the ports on which `τ` was delivered, each once, with the value that port
  carries at `τ`;
* the fired groups have distinct tags, are complete, and their values are `valsOf ls τ` (port order).
`imapAdd` preserves it (one more pair delivered), `fireAll` re-establishes "every complete tag is fired". -/
namespace SFV.Net

/-! ## generic list facts -/

theorem mapM_option_eq_map {α β : Type} {f : α → Option β} {g : α → β} :
    ∀ (l : List α), (∀ a ∈ l, f a = some (g a)) → l.mapM f = some (l.map g)
  | [], _ => rfl
  | a :: r, h => by
    rw [List.mapM_cons, h a List.mem_cons_self,
      mapM_option_eq_map r (fun x hx => h x (List.mem_cons_of_mem a hx))]
    rfl

theorem filterMap_congr_mem {α β : Type} {f g : α → Option β} :
    ∀ {l : List α}, (∀ a ∈ l, f a = g a) → l.filterMap f = l.filterMap g
  | [], _ => rfl
  | a :: r, h => by
    rw [List.filterMap_cons, List.filterMap_cons, h a List.mem_cons_self,
      filterMap_congr_mem (l := r) (fun x hx => h x (List.mem_cons_of_mem a hx))]

theorem nodup_single {α : Type} (a : α) : [a].Nodup :=
  List.nodup_cons.mpr ⟨List.not_mem_nil, List.nodup_nil⟩

/-- a list of pairs with distinct keys whose second components are a function of the key is determined, up to
order, by its key set -/
theorem perm_map_of_keys {κ α : Type} [DecidableEq κ] {l : List (κ × α)} {ks : List κ} {F : κ → α}
    (hl : (l.map (·.1)).Nodup) (hk : ks.Nodup) (hmem : ∀ t, t ∈ l.map (·.1) ↔ t ∈ ks)
    (hF : ∀ g ∈ l, g.2 = F g.1) : l.Perm (ks.map (fun t => (t, F t))) := by
  have h1 : l = (l.map (·.1)).map (fun t => (t, F t)) := by
    rw [List.map_map]
    conv => lhs; rw [← List.map_id l]
    apply List.map_congr_left
    intro g hg
    show g = (g.1, F g.1)
    rw [← hF g hg]
  rw [h1]
  exact ((List.perm_ext_iff_of_nodup hl hk).mpr hmem).map _

/-- a duplicate-free list of numbers below `P` has length `P` iff it contains all of them -/
theorem length_eq_iff_all_mem {l : List Nat} {P : Nat} {C : Nat → Prop} (hn : l.Nodup)
    (hm : ∀ q, q ∈ l ↔ q < P ∧ C q) : l.length = P ↔ ∀ q < P, C q := by
  classical
  have hp : l.Perm ((List.range P).filter (fun q => decide (C q))) := by
    rw [List.perm_ext_iff_of_nodup hn (List.nodup_range.sublist List.filter_sublist)]
    intro q
    rw [hm q, List.mem_filter, List.mem_range, decide_eq_true_iff]
  rw [hp.length_eq]
  have := List.length_filter_eq_length_iff (p := fun q => decide (C q)) (l := List.range P)
  rw [List.length_range] at this
  rw [this]
  constructor
  · intro h q hq
    exact of_decide_eq_true (h q (List.mem_range.mpr hq))
  · intro h q hq
    exact decide_eq_true (h q (List.mem_range.mp hq))

/-! ## the invariant -/

/-- values carried at tag `t` by the ports, in port order -/
def valsOf (ls : List (List Tok)) (t : Tag) : List Val := ls.filterMap (fun l => lookupTag l t)

/-- the log of port `q` (empty beyond the last port) -/
def portLog (ls : List (List Tok)) (q : Nat) : List Tok := ls[q]?.getD []

theorem valsOf_eq_range (ls : List (List Tok)) (t : Tag) :
    valsOf ls t = (List.range ls.length).filterMap (fun q => lookupTag (portLog ls q) t) := by
  have h : ls = (List.range ls.length).map (portLog ls) := by
    apply List.ext_getElem
    · rw [List.length_map, List.length_range]
    · intro i h1 h2
      rw [List.getElem_map, List.getElem_range]
      unfold portLog
      rw [List.getElem?_eq_getElem h1]
      rfl
  unfold valsOf
  conv => lhs; rw [h]
  rw [List.filterMap_map]
  rfl

structure MapInv (ls : List (List Tok)) (S : Nat → Tag → Prop) (m : IMap) (o : List (Tag × List Val)) : Prop where
  bound : ∀ q τ, S q τ → q < ls.length
  keysNodup : (m.map (·.1)).Nodup
  entNodup : ∀ e ∈ m, (e.2.map (·.1)).Nodup
  entMem : ∀ e ∈ m, ∀ q, q ∈ e.2.map (·.1) ↔ S q e.1
  entVal : ∀ e ∈ m, ∀ x ∈ e.2, lookupTag (portLog ls x.1) e.1 = some x.2
  keyMem : ∀ τ, τ ∈ m.map (·.1) ↔ (∃ q, S q τ) ∧ τ ∉ o.map (·.1)
  outNodup : (o.map (·.1)).Nodup
  outDone : ∀ g ∈ o, ∀ q < ls.length, S q g.1
  outVal : ∀ g ∈ o, g.2 = valsOf ls g.1

/-- the entry update of `imapAdd` -/
def updEntry (q : Nat) (t : Tok) (e : Tag × List (Nat × Val)) : Tag × List (Nat × Val) :=
  if e.1 == t.tag then (e.1, e.2.filter (fun x => x.1 != q) ++ [(q, t.val)]) else e

theorem updEntry_fst (q : Nat) (t : Tok) (e : Tag × List (Nat × Val)) : (updEntry q t e).1 = e.1 := by
  unfold updEntry
  split <;> rfl

theorem map_updEntry_keys (q : Nat) (t : Tok) (m : IMap) : (m.map (updEntry q t)).map (·.1) = m.map (·.1) := by
  rw [List.map_map]
  apply List.map_congr_left
  intro e _
  exact updEntry_fst q t e

theorem imapAdd_eq (m : IMap) (q : Nat) (t : Tok) :
    imapAdd m q t = if t.tag ∈ m.map (·.1) then m.map (updEntry q t) else m ++ [(t.tag, [(q, t.val)])] := by
  unfold imapAdd
  have h : (m.any (fun e => e.1 == t.tag) = true) ↔ t.tag ∈ m.map (·.1) := by
    rw [List.any_eq_true, List.mem_map]
    constructor
    · rintro ⟨e, he, h⟩
      exact ⟨e, he, eq_of_beq h⟩
    · rintro ⟨e, he, h⟩
      exact ⟨e, he, beq_iff_eq.mpr h⟩
  by_cases hc : t.tag ∈ m.map (·.1)
  · rw [if_pos (h.mpr hc), if_pos hc]
    rfl
  · rw [if_neg (fun x => hc (h.mp x)), if_neg hc]

/-! ## `imapAdd` preserves the invariant -/

theorem MapInv.add {ls : List (List Tok)} {S : Nat → Tag → Prop} {m : IMap} {o : List (Tag × List Val)}
    (h : MapInv ls S m o) {q : Nat} {t : Tok} (hq : q < ls.length) (hnew : ¬ S q t.tag)
    (hval : lookupTag (portLog ls q) t.tag = some t.val) :
    MapInv ls (fun q' τ => S q' τ ∨ (q' = q ∧ τ = t.tag)) (imapAdd m q t) o := by
  have hnf : t.tag ∉ o.map (·.1) := by
    intro hc
    obtain ⟨g, hg, hgt⟩ := List.mem_map.mp hc
    have := h.outDone g hg q hq
    rw [hgt] at this
    exact hnew this
  rw [imapAdd_eq]
  by_cases hc : t.tag ∈ m.map (·.1)
  · rw [if_pos hc]
    refine ⟨?_, ?_, ?_, ?_, ?_, ?_, h.outNodup, ?_, h.outVal⟩
    · rintro q' τ (h1 | ⟨rfl, _⟩)
      · exact h.bound q' τ h1
      · exact hq
    · rw [map_updEntry_keys]
      exact h.keysNodup
    · intro e' he'
      obtain ⟨e, he, rfl⟩ := List.mem_map.mp he'
      unfold updEntry
      split
      · rw [List.map_append, List.nodup_append]
        refine ⟨((List.filter_sublist).map _).nodup (h.entNodup e he), nodup_single _, ?_⟩
        intro a ha b hb
        obtain ⟨x, hx, rfl⟩ := List.mem_map.mp ha
        have hx2 := (List.mem_filter.mp hx).2
        simp only [List.map_cons, List.map_nil, List.mem_singleton] at hb
        subst hb
        simpa using hx2
      · exact h.entNodup e he
    · intro e' he' q'
      obtain ⟨e, he, rfl⟩ := List.mem_map.mp he'
      have hm := h.entMem e he
      rw [updEntry_fst]
      unfold updEntry
      split
      · rename_i heq
        have heq' : e.1 = t.tag := eq_of_beq heq
        simp only [List.map_append, List.mem_append, List.map_cons, List.map_nil, List.mem_singleton,
          List.mem_map, List.mem_filter]
        constructor
        · rintro (⟨x, ⟨hx, _⟩, rfl⟩ | rfl)
          · exact Or.inl ((hm x.1).mp (List.mem_map.mpr ⟨x, hx, rfl⟩))
          · exact Or.inr ⟨rfl, heq'⟩
        · rintro (h1 | ⟨rfl, _⟩)
          · obtain ⟨x, hx, rfl⟩ := List.mem_map.mp ((hm q').mpr h1)
            refine Or.inl ⟨x, ⟨hx, ?_⟩, rfl⟩
            have : x.1 ≠ q := by
              rintro rfl
              rw [heq'] at h1
              exact hnew h1
            simpa using this
          · exact Or.inr rfl
      · rename_i hne
        have hne' : e.1 ≠ t.tag := fun hh => hne (beq_iff_eq.mpr hh)
        rw [hm q']
        constructor
        · exact Or.inl
        · rintro (h1 | ⟨_, h2⟩)
          · exact h1
          · exact absurd h2 hne'
    · intro e' he' x hx
      obtain ⟨e, he, rfl⟩ := List.mem_map.mp he'
      rw [updEntry_fst]
      unfold updEntry at hx
      split at hx
      · rename_i heq
        have heq' : e.1 = t.tag := eq_of_beq heq
        rcases List.mem_append.mp hx with h1 | h1
        · exact h.entVal e he x (List.mem_filter.mp h1).1
        · rw [List.mem_singleton] at h1
          subst h1
          rw [heq']
          exact hval
      · exact h.entVal e he x hx
    · intro τ
      rw [map_updEntry_keys, h.keyMem τ]
      constructor
      · rintro ⟨⟨q', h1⟩, h2⟩
        exact ⟨⟨q', Or.inl h1⟩, h2⟩
      · rintro ⟨⟨q', h1 | ⟨_, rfl⟩⟩, h2⟩
        · exact ⟨⟨q', h1⟩, h2⟩
        · exact ⟨((h.keyMem _).mp hc).1, h2⟩
    · intro g hg q' hq'
      exact Or.inl (h.outDone g hg q' hq')
  · rw [if_neg hc]
    have hnone : ∀ q', ¬ S q' t.tag := fun q' hs => hc ((h.keyMem _).mpr ⟨⟨q', hs⟩, hnf⟩)
    have hkey : ∀ e ∈ m, e.1 ≠ t.tag := fun e he heq => hc (List.mem_map.mpr ⟨e, he, heq⟩)
    refine ⟨?_, ?_, ?_, ?_, ?_, ?_, h.outNodup, ?_, h.outVal⟩
    · rintro q' τ (h1 | ⟨rfl, _⟩)
      · exact h.bound q' τ h1
      · exact hq
    · rw [List.map_append, List.nodup_append]
      refine ⟨h.keysNodup, nodup_single _, ?_⟩
      intro a ha b hb
      simp only [List.map_cons, List.map_nil, List.mem_singleton] at hb
      subst hb
      rintro rfl
      exact hc ha
    · intro e he
      rcases List.mem_append.mp he with h1 | h1
      · exact h.entNodup e h1
      · rw [List.mem_singleton] at h1
        subst h1
        exact nodup_single _
    · intro e he q'
      rcases List.mem_append.mp he with h1 | h1
      · rw [h.entMem e h1 q']
        constructor
        · exact Or.inl
        · rintro (h2 | ⟨_, h2⟩)
          · exact h2
          · exact absurd h2.symm (fun hh => hkey e h1 hh.symm)
      · rw [List.mem_singleton] at h1
        subst h1
        simp only [List.map_cons, List.map_nil, List.mem_singleton]
        constructor
        · rintro rfl
          exact Or.inr ⟨rfl, trivial⟩
        · rintro (h2 | ⟨h2, _⟩)
          · exact absurd h2 (hnone q')
          · exact h2
    · intro e he x hx
      rcases List.mem_append.mp he with h1 | h1
      · exact h.entVal e h1 x hx
      · rw [List.mem_singleton] at h1
        subst h1
        rw [List.mem_singleton] at hx
        subst hx
        exact hval
    · intro τ
      rw [List.map_append, List.mem_append, h.keyMem τ]
      simp only [List.map_cons, List.map_nil, List.mem_singleton]
      constructor
      · rintro (⟨⟨q', h1⟩, h2⟩ | rfl)
        · exact ⟨⟨q', Or.inl h1⟩, h2⟩
        · exact ⟨⟨q, Or.inr ⟨rfl, rfl⟩⟩, hnf⟩
      · rintro ⟨⟨q', h1 | ⟨_, rfl⟩⟩, h2⟩
        · exact Or.inl ⟨⟨q', h1⟩, h2⟩
        · exact Or.inr rfl
    · intro g hg q' hq'
      exact Or.inl (h.outDone g hg q' hq')

theorem MapInv.congr {ls : List (List Tok)} {S S' : Nat → Tag → Prop} {m : IMap} {o : List (Tag × List Val)}
    (h : MapInv ls S m o) (hS : ∀ q τ, S q τ ↔ S' q τ) : MapInv ls S' m o := by
  have : S = S' := funext (fun q => funext (fun τ => propext (hS q τ)))
  rw [← this]
  exact h

/-- `_group_by_tag` over a list of (token, port) pairs with distinct ports, none of them delivered before -/
theorem MapInv.addMany {ls : List (List Tok)} {o : List (Tag × List Val)} :
    ∀ (tqs : List (Tok × Nat)) {S : Nat → Tag → Prop} {m : IMap}, MapInv ls S m o → (tqs.map (·.2)).Nodup →
      (∀ tq ∈ tqs, tq.2 < ls.length ∧ ¬ S tq.2 tq.1.tag ∧
        lookupTag (portLog ls tq.2) tq.1.tag = some tq.1.val) →
      MapInv ls (fun q τ => S q τ ∨ ∃ tq ∈ tqs, tq.2 = q ∧ tq.1.tag = τ)
        (tqs.foldl (fun m (tq : Tok × Nat) => imapAdd m tq.2 tq.1) m) o
  | [], S, m, h, _, _ => h.congr (fun q τ => by simp)
  | tq :: r, S, m, h, hn, hp => by
    rw [List.foldl_cons]
    have h0 := hp tq List.mem_cons_self
    have h1 := h.add h0.1 h0.2.1 h0.2.2
    rw [List.map_cons, List.nodup_cons] at hn
    have h2 := MapInv.addMany r h1 hn.2 (fun x hx => by
      have hx' := hp x (List.mem_cons_of_mem _ hx)
      refine ⟨hx'.1, ?_, hx'.2.2⟩
      rintro (h3 | ⟨h3, _⟩)
      · exact hx'.2.1 h3
      · exact hn.1 (List.mem_map.mpr ⟨x, hx, h3⟩))
    refine h2.congr (fun q τ => ?_)
    simp only [List.mem_cons]
    constructor
    · rintro ((h3 | ⟨h3, h4⟩) | ⟨x, hx, h3⟩)
      · exact Or.inl h3
      · exact Or.inr ⟨tq, Or.inl rfl, h3.symm, h4.symm⟩
      · exact Or.inr ⟨x, Or.inr hx, h3⟩
    · rintro (h3 | ⟨x, rfl | hx, h3⟩)
      · exact Or.inl (Or.inl h3)
      · exact Or.inl (Or.inr ⟨h3.1.symm, h3.2.symm⟩)
      · exact Or.inr ⟨x, hx, h3⟩

/-! ## `fireAll` -/

/-- an entry has `len(input_ports)` elements iff its tag was delivered on every port -/
theorem MapInv.entry_complete {ls : List (List Tok)} {S : Nat → Tag → Prop} {m : IMap}
    {o : List (Tag × List Val)} (h : MapInv ls S m o) {e : Tag × List (Nat × Val)} (he : e ∈ m) :
    e.2.length = ls.length ↔ ∀ q < ls.length, S q e.1 := by
  have := length_eq_iff_all_mem (l := e.2.map (·.1)) (P := ls.length) (C := fun q => S q e.1)
    (h.entNodup e he) (fun q => by
      rw [h.entMem e he q]
      exact ⟨fun hs => ⟨h.bound _ _ hs, hs⟩, fun hs => hs.2⟩)
  rwa [List.length_map] at this

/-- the values of a complete entry, read in port order, are the values the ports carry at that tag -/
theorem MapInv.groupVals_eq {ls : List (List Tok)} {S : Nat → Tag → Prop} {m : IMap}
    {o : List (Tag × List Val)} (h : MapInv ls S m o) {e : Tag × List (Nat × Val)} (he : e ∈ m)
    (hc : ∀ q < ls.length, S q e.1) : groupVals ls.length e.2 = valsOf ls e.1 := by
  rw [valsOf_eq_range]
  unfold groupVals
  apply filterMap_congr_mem
  intro q hq
  have hq' : q ∈ e.2.map (·.1) := (h.entMem e he q).mpr (hc q (List.mem_range.mp hq))
  obtain ⟨x, hx, hxq⟩ := List.mem_map.mp hq'
  cases hf : e.2.find? (fun x => x.1 == q) with
  | none =>
    rw [List.find?_eq_none] at hf
    exact absurd (beq_iff_eq.mpr hxq) (hf x hx)
  | some y =>
    have hy : y ∈ e.2 := List.mem_of_find?_eq_some hf
    have hyq : y.1 = q := eq_of_beq (List.find?_some (p := fun (x : Nat × Val) => x.1 == q) hf)
    have := h.entVal e he y hy
    rw [hyq] at this
    rw [this]
    rfl

theorem mem_fired_keys {ls : List (List Tok)} {S : Nat → Tag → Prop} {m : IMap} {o : List (Tag × List Val)}
    (h : MapInv ls S m o) (τ : Tag) :
    τ ∈ (fireAll ls.length m).2.map (·.1) ↔ τ ∈ m.map (·.1) ∧ ∀ q < ls.length, S q τ := by
  unfold fireAll
  simp only [List.map_map, List.mem_map, List.mem_filter, Function.comp_apply, beq_iff_eq]
  constructor
  · rintro ⟨e, ⟨he, hl⟩, rfl⟩
    exact ⟨⟨e, he, rfl⟩, (h.entry_complete he).mp hl⟩
  · rintro ⟨⟨e, he, rfl⟩, hc⟩
    exact ⟨e, ⟨he, (h.entry_complete he).mpr hc⟩, rfl⟩

theorem mem_kept_keys {ls : List (List Tok)} {S : Nat → Tag → Prop} {m : IMap} {o : List (Tag × List Val)}
    (h : MapInv ls S m o) (τ : Tag) :
    τ ∈ (fireAll ls.length m).1.map (·.1) ↔ τ ∈ m.map (·.1) ∧ ¬ ∀ q < ls.length, S q τ := by
  unfold fireAll
  simp only [List.mem_map, List.mem_filter, bne_iff_ne, ne_eq]
  constructor
  · rintro ⟨e, ⟨he, hl⟩, rfl⟩
    exact ⟨⟨e, he, rfl⟩, fun hc => hl ((h.entry_complete he).mpr hc)⟩
  · rintro ⟨⟨e, he, rfl⟩, hc⟩
    exact ⟨e, ⟨he, fun hl => hc ((h.entry_complete he).mp hl)⟩, rfl⟩

/-- popping and firing the complete entries keeps the invariant, and afterwards every complete tag is fired -/
theorem MapInv.fire {ls : List (List Tok)} {S : Nat → Tag → Prop} {m : IMap} {o : List (Tag × List Val)}
    (hP : 0 < ls.length) (h : MapInv ls S m o) :
    MapInv ls S (fireAll ls.length m).1 (o ++ (fireAll ls.length m).2) ∧
    ∀ τ, (∀ q < ls.length, S q τ) → τ ∈ (o ++ (fireAll ls.length m).2).map (·.1) := by
  have hf := mem_fired_keys h
  have hk := mem_kept_keys h
  have hsub1 : ∀ e ∈ (fireAll ls.length m).1, e ∈ m := fun e he => (List.mem_filter.mp he).1
  have hfsub : ((fireAll ls.length m).2.map (·.1)).Sublist (m.map (·.1)) := by
    unfold fireAll
    simp only [List.map_map]
    exact (List.filter_sublist).map _
  refine ⟨⟨h.bound, ?_, fun e he => h.entNodup e (hsub1 e he), fun e he => h.entMem e (hsub1 e he),
    fun e he => h.entVal e (hsub1 e he), ?_, ?_, ?_, ?_⟩, ?_⟩
  · exact ((List.filter_sublist).map _).nodup h.keysNodup
  · intro τ
    rw [hk τ, h.keyMem τ, List.map_append, List.mem_append, hf τ, h.keyMem τ]
    constructor
    · rintro ⟨⟨h1, h2⟩, h3⟩
      refine ⟨h1, ?_⟩
      rintro (h4 | h4)
      · exact h2 h4
      · exact h3 h4.2
    · rintro ⟨h1, h2⟩
      exact ⟨⟨h1, fun h3 => h2 (Or.inl h3)⟩, fun h3 => h2 (Or.inr ⟨⟨h1, fun h4 => h2 (Or.inl h4)⟩, h3⟩)⟩
  · rw [List.map_append, List.nodup_append]
    refine ⟨h.outNodup, hfsub.nodup h.keysNodup, ?_⟩
    intro a ha b hb hab
    subst hab
    exact ((h.keyMem a).mp ((hf a).mp hb).1).2 ha
  · intro g hg
    rcases List.mem_append.mp hg with h1 | h1
    · exact h.outDone g h1
    · exact ((hf g.1).mp (List.mem_map.mpr ⟨g, h1, rfl⟩)).2
  · intro g hg
    rcases List.mem_append.mp hg with h1 | h1
    · exact h.outVal g h1
    · have hc := ((hf g.1).mp (List.mem_map.mpr ⟨g, h1, rfl⟩)).2
      unfold fireAll at h1
      obtain ⟨e, he, rfl⟩ := List.mem_map.mp h1
      exact h.groupVals_eq (List.mem_filter.mp he).1 hc
  · intro τ hc
    rw [List.map_append, List.mem_append, hf τ, h.keyMem τ]
    by_cases ho : τ ∈ o.map (·.1)
    · exact Or.inl ho
    · exact Or.inr ⟨⟨⟨0, hc 0 hP⟩, ho⟩, hc⟩

/-! ## one round -/

/-- the token delivered by a port in round `r` -/
def tokAt (r : Nat) (l : List Tok) : Tok := l[r]?.getD default

/-- tag `τ` was delivered on port `q` in one of the first `r` rounds -/
def seen (ls : List (List Tok)) (r q : Nat) (τ : Tag) : Prop := τ ∈ ((portLog ls q).take r).map (·.tag)

/-- one iteration of the `while True` loop -/
def stepRound (ls : List (List Tok)) (s : GState) (r : Nat) : GState :=
  match roundInputs ls r with
  | some toks => round ls.length s toks
  | none => s

/-- the state after the first `r` iterations -/
def runRoundsUpTo (ls : List (List Tok)) (r : Nat) : GState :=
  (List.range r).foldl (stepRound ls) { map := [], out := [] }

theorem runRounds_eq (ls : List (List Tok)) : runRounds ls = runRoundsUpTo ls (numRounds ls) := rfl

theorem runRoundsUpTo_succ (ls : List (List Tok)) (r : Nat) :
    runRoundsUpTo ls (r + 1) = stepRound ls (runRoundsUpTo ls r) r := by
  unfold runRoundsUpTo
  rw [List.range_succ, List.foldl_append]
  rfl

theorem tokAt_eq {r : Nat} {l : List Tok} (h : r < l.length) : tokAt r l = l[r] := by
  unfold tokAt
  rw [List.getElem?_eq_getElem h]
  rfl

theorem roundInputs_eq {ls : List (List Tok)} {r : Nat} (h : ∀ l ∈ ls, r < l.length) :
    roundInputs ls r = some (ls.map (tokAt r)) :=
  mapM_option_eq_map ls (fun l hl => by rw [tokAt_eq (h l hl), List.getElem?_eq_getElem (h l hl)])

theorem portLog_mem {ls : List (List Tok)} {q : Nat} (hq : q < ls.length) : portLog ls q ∈ ls := by
  unfold portLog
  rw [List.getElem?_eq_getElem hq]
  exact List.getElem_mem hq

theorem portLog_ge {ls : List (List Tok)} {q : Nat} (hq : ¬ q < ls.length) : portLog ls q = [] := by
  unfold portLog
  rw [List.getElem?_eq_none (Nat.le_of_not_lt hq)]
  rfl

theorem seen_bound {ls : List (List Tok)} {r q : Nat} {τ : Tag} (h : seen ls r q τ) : q < ls.length := by
  apply Classical.byContradiction
  intro hq
  unfold seen at h
  rw [portLog_ge hq] at h
  simp at h

theorem DistinctTags.lookup_of_mem : ∀ {l : List Tok}, DistinctTags l → ∀ {t : Tok}, t ∈ l →
    lookupTag l t.tag = some t.val
  | [], _, _, ht => nomatch ht
  | x :: r, d, t, ht => by
    have hd := List.pairwise_cons.mp d
    unfold lookupTag
    rw [List.find?_cons]
    by_cases hx : x.tag = t.tag
    · rw [beq_iff_eq.mpr hx]
      rcases List.mem_cons.mp ht with rfl | ht'
      · rfl
      · exact absurd hx (hd.1 t ht')
    · rw [beq_eq_false_iff_ne.mpr hx]
      rcases List.mem_cons.mp ht with rfl | ht'
      · exact absurd rfl hx
      · exact DistinctTags.lookup_of_mem (l := r) hd.2 ht'

theorem DistinctTags.not_seen {l : List Tok} (d : DistinctTags l) {r : Nat} (hr : r < l.length) :
    l[r].tag ∉ (l.take r).map (·.tag) := by
  intro hc
  obtain ⟨a, ha, hat⟩ := List.mem_map.mp hc
  unfold DistinctTags at d
  rw [← List.take_append_drop r l, List.pairwise_append] at d
  have hb : l[r] ∈ l.drop r := by
    rw [List.drop_eq_getElem_cons hr]
    exact List.mem_cons_self
  exact d.2.2 a ha l[r] hb hat

theorem mem_tags_take_succ {l : List Tok} {r : Nat} (hr : r < l.length) (τ : Tag) :
    τ ∈ (l.take (r + 1)).map (·.tag) ↔ τ ∈ (l.take r).map (·.tag) ∨ (tokAt r l).tag = τ := by
  rw [List.take_succ_eq_append_getElem hr, List.map_append, List.mem_append, tokAt_eq hr]
  simp only [List.map_cons, List.map_nil, List.mem_singleton]
  exact ⟨fun h => h.imp id Eq.symm, fun h => h.imp id Eq.symm⟩

theorem mem_zipIdx_round {ls : List (List Tok)} {r : Nat} (tq : Tok × Nat) :
    tq ∈ (ls.map (tokAt r)).zipIdx ↔ tq.2 < ls.length ∧ tq.1 = tokAt r (portLog ls tq.2) := by
  rw [List.mem_zipIdx_iff_getElem?, List.getElem?_map]
  by_cases hq : tq.2 < ls.length
  · unfold portLog
    rw [List.getElem?_eq_getElem hq]
    simp only [Option.map_some, Option.some.injEq, Option.getD_some]
    exact ⟨fun h => ⟨hq, h.symm⟩, fun h => h.2.symm⟩
  · rw [List.getElem?_eq_none (Nat.le_of_not_lt hq)]
    constructor
    · intro h
      simp at h
    · intro h
      exact absurd h.1 hq

theorem seen_succ {ls : List (List Tok)} {r : Nat} (h : ∀ l ∈ ls, r < l.length) (q : Nat) (τ : Tag) :
    (seen ls r q τ ∨ ∃ tq ∈ (ls.map (tokAt r)).zipIdx, tq.2 = q ∧ tq.1.tag = τ) ↔ seen ls (r + 1) q τ := by
  by_cases hq : q < ls.length
  · unfold seen
    rw [mem_tags_take_succ (h _ (portLog_mem hq))]
    constructor
    · rintro (h1 | ⟨tq, h1, rfl, h2⟩)
      · exact Or.inl h1
      · rw [((mem_zipIdx_round tq).mp h1).2] at h2
        exact Or.inr h2
    · rintro (h1 | h1)
      · exact Or.inl h1
      · exact Or.inr ⟨(tokAt r (portLog ls q), q), (mem_zipIdx_round _).mpr ⟨hq, rfl⟩, rfl, h1⟩
  · constructor
    · rintro (h1 | ⟨tq, h1, rfl, _⟩)
      · exact absurd (seen_bound h1) hq
      · exact absurd ((mem_zipIdx_round tq).mp h1).1 hq
    · intro h1
      exact absurd (seen_bound h1) hq

/-- the invariant at the loop head, after `r` iterations -/
structure RoundInv (ls : List (List Tok)) (r : Nat) (s : GState) : Prop where
  inv : MapInv ls (seen ls r) s.map s.out
  fired : ∀ τ, (∀ q < ls.length, seen ls r q τ) → τ ∈ s.out.map (·.1)

theorem RoundInv.step {ls : List (List Tok)} {r : Nat} {s : GState} (hP : 0 < ls.length)
    (hd : ∀ l ∈ ls, DistinctTags l) (hr : ∀ l ∈ ls, r < l.length) (h : RoundInv ls r s) :
    RoundInv ls (r + 1) (stepRound ls s r) := by
  unfold stepRound
  rw [roundInputs_eq hr]
  show RoundInv ls (r + 1) (round ls.length s (ls.map (tokAt r)))
  unfold round groupRound
  have h1 := MapInv.addMany (ls.map (tokAt r)).zipIdx h.inv
    (by rw [List.zipIdx_map_snd]; exact List.nodup_range')
    (fun tq htq => by
      obtain ⟨hq, ht⟩ := (mem_zipIdx_round tq).mp htq
      have hl := portLog_mem hq
      have hrl := hr _ hl
      rw [tokAt_eq hrl] at ht
      refine ⟨hq, ?_, ?_⟩
      · unfold seen
        rw [ht]
        exact (hd _ hl).not_seen hrl
      · rw [ht]
        exact (hd _ hl).lookup_of_mem (List.getElem_mem hrl))
  have h2 := (h1.congr (seen_succ hr)).fire hP
  exact ⟨h2.1, h2.2⟩

theorem RoundInv.init {ls : List (List Tok)} (hP : 0 < ls.length) : RoundInv ls 0 { map := [], out := [] } := by
  have hs : ∀ q τ, ¬ seen ls 0 q τ := fun q τ h => by
    unfold seen at h
    simp at h
  refine ⟨⟨fun q τ h => absurd h (hs q τ), List.nodup_nil, (fun e he => nomatch he), (fun e he => nomatch he),
    (fun e he => nomatch he), fun τ => ?_, List.nodup_nil, (fun g hg => nomatch hg), (fun g hg => nomatch hg)⟩,
    fun τ h => absurd (h 0 hP) (hs 0 τ)⟩
  constructor
  · intro h
    nomatch h
  · rintro ⟨⟨q, h⟩, _⟩
    exact absurd h (hs q τ)

theorem foldl_min_le (r : List (List Tok)) : ∀ (acc : Nat),
    r.foldl (fun acc x => min acc x.length) acc ≤ acc ∧
    ∀ x ∈ r, r.foldl (fun acc x => min acc x.length) acc ≤ x.length := by
  induction r with
  | nil => intro acc; exact ⟨Nat.le_refl _, fun x hx => nomatch hx⟩
  | cons y r ih =>
    intro acc
    rw [List.foldl_cons]
    have h := ih (min acc y.length)
    refine ⟨Nat.le_trans h.1 (Nat.min_le_left _ _), ?_⟩
    intro x hx
    rcases List.mem_cons.mp hx with rfl | hx'
    · exact Nat.le_trans h.1 (Nat.min_le_right _ _)
    · exact h.2 x hx'

theorem numRounds_le {ls : List (List Tok)} : ∀ l ∈ ls, numRounds ls ≤ l.length := by
  cases ls with
  | nil => intro l hl; nomatch hl
  | cons y r =>
    intro l hl
    unfold numRounds
    rcases List.mem_cons.mp hl with rfl | hl'
    · exact (foldl_min_le r _).1
    · exact (foldl_min_le r _).2 l hl'

/-- **The invariant holds after every iteration.** -/
theorem roundInv_run {ls : List (List Tok)} (hne : ls ≠ []) (hd : ∀ l ∈ ls, DistinctTags l) :
    ∀ r, r ≤ numRounds ls → RoundInv ls r (runRoundsUpTo ls r) := by
  have hP : 0 < ls.length := List.length_pos_iff.mpr hne
  intro r
  induction r with
  | zero => intro _; exact RoundInv.init hP
  | succ r ih =>
    intro hr
    rw [runRoundsUpTo_succ]
    exact (ih (Nat.le_of_succ_le hr)).step hP hd (fun l hl => Nat.lt_of_lt_of_le hr (numRounds_le l hl))

/-! ## complete inputs: every port carries the same tag set -/

theorem foldl_min_const {L : Nat} : ∀ (r : List (List Tok)), (∀ x ∈ r, x.length = L) →
    r.foldl (fun acc x => min acc x.length) L = L
  | [], _ => rfl
  | y :: r, h => by
    rw [List.foldl_cons, h y List.mem_cons_self, Nat.min_self]
    exact foldl_min_const r (fun x hx => h x (List.mem_cons_of_mem y hx))

theorem numRounds_eq {ls : List (List Tok)} {L : Nat} (hne : ls ≠ []) (hL : ∀ l ∈ ls, l.length = L) :
    numRounds ls = L := by
  cases ls with
  | nil => exact absurd rfl hne
  | cons y r =>
    show List.foldl (fun acc x => min acc x.length) y.length r = L
    rw [hL y List.mem_cons_self]
    exact foldl_min_const r (fun x hx => hL x (List.mem_cons_of_mem y hx))

theorem seen_all {ls : List (List Tok)} {L : Nat} (hL : ∀ l ∈ ls, l.length = L) (q : Nat) (τ : Tag) :
    seen ls L q τ ↔ q < ls.length ∧ τ ∈ (portLog ls q).map (·.tag) := by
  constructor
  · intro h
    have hq := seen_bound h
    unfold seen at h
    rw [List.take_of_length_le (Nat.le_of_eq (hL _ (portLog_mem hq)))] at h
    exact ⟨hq, h⟩
  · rintro ⟨hq, h⟩
    unfold seen
    rw [List.take_of_length_le (Nat.le_of_eq (hL _ (portLog_mem hq)))]
    exact h

theorem DistinctTags.nodup_tags {l : List Tok} (d : DistinctTags l) : (l.map (·.tag)).Nodup :=
  List.pairwise_map.mpr d

theorem head_eq_portLog {ls : List (List Tok)} (hne : ls ≠ []) : ls.head hne = portLog ls 0 := by
  cases ls with
  | nil => exact absurd rfl hne
  | cons y r => rfl

/-- **Operational = denotational, for every arrival order.** When all ports carry the same (duplicate-free) tag
set, the loop ends with an empty `inputs_map` and has fired, up to order, exactly one group per tag, with the
values of that tag in port order. -/
theorem runRounds_complete {ls : List (List Tok)} (hne : ls ≠ []) (hd : ∀ l ∈ ls, DistinctTags l)
    (hsame : ∀ l ∈ ls, ∀ l' ∈ ls, (l.map (·.tag)).Perm (l'.map (·.tag))) :
    (runRounds ls).map = [] ∧
    (runRounds ls).out.Perm (((ls.head hne).map (·.tag)).map (fun t => (t, valsOf ls t))) := by
  have hP : 0 < ls.length := List.length_pos_iff.mpr hne
  have hhead : ls.head hne ∈ ls := List.head_mem hne
  have hL : ∀ l ∈ ls, l.length = (ls.head hne).length := fun l hl => by
    have := (hsame l hl _ hhead).length_eq
    rwa [List.length_map, List.length_map] at this
  have hN := numRounds_eq hne hL
  have hI : RoundInv ls (ls.head hne).length (runRounds ls) := by
    rw [runRounds_eq, hN]
    exact roundInv_run hne hd _ (Nat.le_of_eq hN.symm)
  have hseen : ∀ q τ, seen ls (ls.head hne).length q τ → τ ∈ (ls.head hne).map (·.tag) := fun q τ h => by
    obtain ⟨hq, h1⟩ := (seen_all hL q τ).mp h
    exact (hsame _ (portLog_mem hq) _ hhead).mem_iff.mp h1
  have hcomp : ∀ τ, τ ∈ (ls.head hne).map (·.tag) → ∀ q < ls.length, seen ls (ls.head hne).length q τ :=
    fun τ h q hq => (seen_all hL q τ).mpr ⟨hq, (hsame _ hhead _ (portLog_mem hq)).mem_iff.mp h⟩
  constructor
  · rw [List.eq_nil_iff_forall_not_mem]
    intro e he
    obtain ⟨⟨q, hq⟩, hno⟩ := (hI.inv.keyMem e.1).mp (List.mem_map.mpr ⟨e, he, rfl⟩)
    exact hno (hI.fired e.1 (hcomp e.1 (hseen q e.1 hq)))
  · refine perm_map_of_keys hI.inv.outNodup (hd _ hhead).nodup_tags (fun t => ⟨?_, ?_⟩) hI.inv.outVal
    · intro ht
      obtain ⟨g, hg, rfl⟩ := List.mem_map.mp ht
      exact hseen 0 g.1 (hI.inv.outDone g hg 0 hP)
    · intro ht
      exact hI.fired t (hcomp t ht)

/-! ## connection with `groupStep` -/

theorem mapM_option_eq_filterMap {α β : Type} {f : α → Option β} :
    ∀ (l : List α), (∀ a ∈ l, (f a).isSome) → l.mapM f = some (l.filterMap f)
  | [], _ => rfl
  | a :: r, h => by
    obtain ⟨b, hb⟩ := Option.isSome_iff_exists.mp (h a List.mem_cons_self)
    rw [List.mapM_cons, List.filterMap_cons, hb,
      mapM_option_eq_filterMap r (fun x hx => h x (List.mem_cons_of_mem a hx))]
    rfl

theorem lookupTag_isSome {l : List Tok} {t : Tag} (h : t ∈ l.map (·.tag)) : (lookupTag l t).isSome := by
  obtain ⟨x, hx, hxt⟩ := List.mem_map.mp h
  unfold lookupTag
  rw [Option.isSome_map, List.find?_isSome]
  exact ⟨x, hx, beq_iff_eq.mpr hxt⟩

theorem groupAt_eq_valsOf {e : Env} {ins : List Nat} {t : Tag} (h : ∀ q ∈ ins, t ∈ (e.get q).map (·.tag)) :
    groupAt e ins t = some (valsOf (ins.map e.get) t) := by
  unfold groupAt valsOf
  rw [List.filterMap_map]
  exact mapM_option_eq_filterMap ins (fun q hq => lookupTag_isSome (h q hq))

/-- the tokens the fired groups `gs` put on output `j` -/
def emitOf (f : List Val → List (Option Val)) (j : Nat) (g : Tag × List Val) : Option Tok :=
  ((f g.2)[j]?.join).map (fun v => { tag := g.1, val := v })

theorem emitted_eq (f : List Val → List (Option Val)) (j : Nat) (s : GState) :
    emitted f j s = s.out.filterMap (emitOf f j) := rfl

/-- when all input ports carry the same tag set, output `j` of the denotation holds one candidate token per tag
of the first port -/
theorem groupStep_eq_of_sameTags {e : Env} {ins : List Nat} (hne : ins ≠ [])
    (hsame : ∀ q ∈ ins, ∀ q' ∈ ins, ((e.get q).map (·.tag)).Perm ((e.get q').map (·.tag)))
    (nouts : Nat) (f : List Val → List (Option Val)) {j : Nat} (hj : j < nouts) :
    (groupStep e ins nouts f)[j]?.getD [] =
      (((e.get (ins.head hne)).map (·.tag)).map (fun t => (t, valsOf (ins.map e.get) t))).filterMap
        (emitOf f j) := by
  cases ins with
  | nil => exact absurd rfl hne
  | cons p r =>
    have hg : ∀ t ∈ (e.get p).map (·.tag), groupAt e (p :: r) t = some (valsOf ((p :: r).map e.get) t) :=
      fun t ht => groupAt_eq_valsOf (fun q hq => (hsame p List.mem_cons_self q hq).mem_iff.mp ht)
    unfold groupStep
    rw [List.getElem?_map, List.getElem?_range hj]
    simp only [Option.map_some, Option.getD_some, List.head_cons]
    have hc : commonTags e (p :: r) = (e.get p).map (·.tag) := by
      show ((e.get p).map (·.tag)).filter _ = _
      rw [List.filter_eq_self]
      intro t ht
      rw [hg t ht]
      rfl
    rw [hc]
    conv => rhs; rw [List.filterMap_map]
    apply filterMap_congr_mem
    intro t ht
    rw [hg t ht]
    rfl

/-- the loop fed with the logs of the ports `ins` puts on output `j` the tokens of `groupStep`, up to order -/
theorem emitted_perm_groupStep {e : Env} {ins : List Nat} (hne : ins ≠ [])
    (hd : ∀ q ∈ ins, DistinctTags (e.get q))
    (hsame : ∀ q ∈ ins, ∀ q' ∈ ins, ((e.get q).map (·.tag)).Perm ((e.get q').map (·.tag)))
    (nouts : Nat) (f : List Val → List (Option Val)) {j : Nat} (hj : j < nouts) :
    (emitted f j (runRounds (ins.map e.get))).Perm ((groupStep e ins nouts f)[j]?.getD []) ∧
    (runRounds (ins.map e.get)).map = [] := by
  have hne' : ins.map e.get ≠ [] := fun h => hne (List.map_eq_nil_iff.mp h)
  have hd' : ∀ l ∈ ins.map e.get, DistinctTags l := fun l hl => by
    obtain ⟨q, hq, rfl⟩ := List.mem_map.mp hl
    exact hd q hq
  have hsame' : ∀ l ∈ ins.map e.get, ∀ l' ∈ ins.map e.get, (l.map (·.tag)).Perm (l'.map (·.tag)) :=
    fun l hl l' hl' => by
      obtain ⟨q, hq, rfl⟩ := List.mem_map.mp hl
      obtain ⟨q', hq', rfl⟩ := List.mem_map.mp hl'
      exact hsame q hq q' hq'
  have hmain := runRounds_complete hne' hd' hsame'
  rw [groupStep_eq_of_sameTags hne hsame nouts f hj, emitted_eq]
  have hh : (ins.map e.get).head hne' = e.get (ins.head hne) := by
    cases ins with
    | nil => exact absurd rfl hne
    | cons p r => rfl
  rw [← hh]
  exact ⟨hmain.2.filterMap _, hmain.1⟩

/-! ## order independence -/

theorem lookupTag_none {l : List Tok} {t : Tag} (h : t ∉ l.map (·.tag)) : lookupTag l t = none := by
  unfold lookupTag
  rw [Option.map_eq_none_iff, List.find?_eq_none]
  intro x hx hxt
  exact h (List.mem_map.mpr ⟨x, hx, eq_of_beq hxt⟩)

theorem DistinctTags.perm_tf {l1 l2 : List Tok} (d : DistinctTags l1) (h : l1.Perm l2) : DistinctTags l2 :=
  List.Pairwise.perm d h (fun hne => Ne.symm hne)

/-- the value a port carries at a tag does not depend on the arrival order -/
theorem DistinctTags.lookupTag_perm_tf {l1 l2 : List Tok} (d : DistinctTags l1) (h : l1.Perm l2) (t : Tag) :
    lookupTag l1 t = lookupTag l2 t := by
  by_cases ht : t ∈ l1.map (·.tag)
  · obtain ⟨x, hx, rfl⟩ := List.mem_map.mp ht
    rw [d.lookup_of_mem hx, (d.perm_tf h).lookup_of_mem (h.mem_iff.mp hx)]
  · rw [lookupTag_none ht, lookupTag_none (fun hc => ht ((h.map _).mem_iff.mpr hc))]

theorem mem_iff_portLog {ls : List (List Tok)} {l : List Tok} :
    l ∈ ls ↔ ∃ q, q < ls.length ∧ portLog ls q = l := by
  constructor
  · intro hl
    obtain ⟨q, hq, rfl⟩ := List.getElem_of_mem hl
    refine ⟨q, hq, ?_⟩
    unfold portLog
    rw [List.getElem?_eq_getElem hq]
    rfl
  · rintro ⟨q, hq, rfl⟩
    exact portLog_mem hq

theorem valsOf_perm {ls ls' : List (List Tok)} (hlen : ls.length = ls'.length)
    (hp : ∀ q, (portLog ls q).Perm (portLog ls' q)) (hd : ∀ l ∈ ls, DistinctTags l) (t : Tag) :
    valsOf ls t = valsOf ls' t := by
  rw [valsOf_eq_range, valsOf_eq_range, ← hlen]
  apply filterMap_congr_mem
  intro q hq
  exact (hd _ (portLog_mem (List.mem_range.mp hq))).lookupTag_perm_tf (hp q) t

/-- the hypotheses of `runRounds_complete` are invariant under port-wise permutation -/
theorem portwise_perm_hyps {ls ls' : List (List Tok)} (hlen : ls.length = ls'.length)
    (hp : ∀ q, (portLog ls q).Perm (portLog ls' q)) (hd : ∀ l ∈ ls, DistinctTags l)
    (hsame : ∀ l ∈ ls, ∀ l' ∈ ls, (l.map (·.tag)).Perm (l'.map (·.tag))) :
    (∀ l ∈ ls', DistinctTags l) ∧ ∀ l ∈ ls', ∀ l' ∈ ls', (l.map (·.tag)).Perm (l'.map (·.tag)) := by
  constructor
  · intro l hl
    obtain ⟨q, hq, rfl⟩ := mem_iff_portLog.mp hl
    exact (hd _ (portLog_mem (hlen ▸ hq))).perm_tf (hp q)
  · intro l hl l' hl'
    obtain ⟨q, hq, rfl⟩ := mem_iff_portLog.mp hl
    obtain ⟨q', hq', rfl⟩ := mem_iff_portLog.mp hl'
    exact (((hp q).map _).symm.trans
      (hsame _ (portLog_mem (hlen ▸ hq)) _ (portLog_mem (hlen ▸ hq')))).trans ((hp q').map _)

/-- **Order independence of the fired groups.** Two families of logs that are port-wise permutations of each
other make the loop fire the same groups, up to order. -/
theorem runRounds_out_perm {ls ls' : List (List Tok)} (hne : ls ≠ []) (hlen : ls.length = ls'.length)
    (hp : ∀ q, (portLog ls q).Perm (portLog ls' q)) (hd : ∀ l ∈ ls, DistinctTags l)
    (hsame : ∀ l ∈ ls, ∀ l' ∈ ls, (l.map (·.tag)).Perm (l'.map (·.tag))) :
    (runRounds ls).out.Perm (runRounds ls').out := by
  have hne' : ls' ≠ [] := fun h => hne (List.length_eq_zero_iff.mp (by rw [hlen, h]; rfl))
  obtain ⟨hd', hsame'⟩ := portwise_perm_hyps hlen hp hd hsame
  have h1 := (runRounds_complete hne hd hsame).2
  have h2 := (runRounds_complete hne' hd' hsame').2
  have hv : (fun t => (t, valsOf ls t)) = (fun t => (t, valsOf ls' t)) :=
    funext (fun t => by rw [valsOf_perm hlen hp hd t])
  have hh : ((ls.head hne).map (·.tag)).Perm ((ls'.head hne').map (·.tag)) := by
    rw [head_eq_portLog, head_eq_portLog]
    exact (hp 0).map _
  rw [hv] at h1
  exact (h1.trans (hh.map _)).trans h2.symm

theorem length_filterMap_of_isSome {α β : Type} {f : α → Option β} :
    ∀ (l : List α), (∀ a ∈ l, (f a).isSome) → (l.filterMap f).length = l.length
  | [], _ => rfl
  | a :: r, h => by
    obtain ⟨b, hb⟩ := Option.isSome_iff_exists.mp (h a List.mem_cons_self)
    rw [List.filterMap_cons, hb, List.length_cons, List.length_cons,
      length_filterMap_of_isSome r (fun x hx => h x (List.mem_cons_of_mem a hx))]

/-- a tag delivered on every port has one value per port -/
theorem valsOf_length_of_seen {ls : List (List Tok)} {r : Nat} {τ : Tag}
    (h : ∀ q < ls.length, seen ls r q τ) : (valsOf ls τ).length = ls.length := by
  unfold valsOf
  apply length_filterMap_of_isSome
  intro l hl
  obtain ⟨q, hq, rfl⟩ := mem_iff_portLog.mp hl
  have h0 := h q hq
  unfold seen at h0
  obtain ⟨x, hx, hxt⟩ := List.mem_map.mp h0
  exact lookupTag_isSome (List.mem_map.mpr ⟨x, List.mem_of_mem_take hx, hxt⟩)

/-- an exec node emits one token per fired group, with the group's tag -/
theorem emitted_exec_tags (k : Int) (s : GState) :
    (emitted (fun vals => [some (.int (linFold vals + k))]) 0 s).map (·.tag) = s.out.map (·.1) := by
  unfold emitted
  induction s.out with
  | nil => rfl
  | cons g r ih =>
    rw [List.filterMap_cons, List.map_cons, ← ih]
    rfl

/-! ## concrete instances used by the examples of `SFV/Props/C05Steps.lean` -/

def mkTok (t : Tag) (i : Int) : Tok := { tag := t, val := .int i }

/-- two ports, three tags, different arrival orders -/
def exLogs : List (List Tok) :=
  [[mkTok [0, 2] 5, mkTok [0, 0] 1, mkTok [0, 1] 3], [mkTok [0, 1] 10, mkTok [0, 2] 20, mkTok [0, 0] 30]]

/-- the same tokens in another arrival order -/
def exLogs' : List (List Tok) :=
  [[mkTok [0, 0] 1, mkTok [0, 1] 3, mkTok [0, 2] 5], [mkTok [0, 2] 20, mkTok [0, 1] 10, mkTok [0, 0] 30]]

def exEnv : Env := ⟨fun q => exLogs[q]?.getD []⟩

/-- port 0 carries two tags, port 1 only one of them: first arrival order -/
def unevenA : List (List Tok) := [[mkTok [0, 1] 1, mkTok [0, 0] 2], [mkTok [0, 0] 3]]

/-- the same tokens, port 0 in the other order -/
def unevenB : List (List Tok) := [[mkTok [0, 0] 2, mkTok [0, 1] 1], [mkTok [0, 0] 3]]

end SFV.Net
