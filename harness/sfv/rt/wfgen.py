"""Random DAG workflows built from the REAL StreamFlow step classes, run on the real StreamFlowExecutor under the
controlled loop (C04 / C05 / C07 share this harness; other properties may import it).

A workflow is described by a JSON-able *spec*:

    {"nports": N,
     "sources": [{"port": p, "value": v}, ...]           # one token with tag "0" each, then a termination token
     "closed":  [p, ...]                                  # ports holding only a termination token (unknown-size gathers)
     "nodes":   [{"id": k, "kind": ..., "ins": [...], "outs": [...], ...}, ...]}   # in topological order

Values are ints or (nested) lists of ints. Node kinds:
  tf      GenTransformer (subclass of the real `Transformer`; the engine's run loop, tag grouping and persistence are real)
          fn in add(k) | sum | range(k) | lin | pair | split      (see `apply_fn`)
  scatter real ScatterStep           outs = [elements, size]
  gather  real GatherStep (depth d)  ins = [elements, size]
  dot     real CombinatorStep + DotProductCombinator,  outs[i] mirrors ins[i]
  cart    real CombinatorStep + CartesianProductCombinator(depth=1)
  cond    GenConditionalStep (subclass of the real `ConditionalStep`), pred mod(m, r) on the deep sum of the first
          input; mode "drop" (false branch emits nothing) | "zero" (false branch emits the zeroed value)
  exec    schedule/transfer/execute job pipeline from /repo/tests/utils/workflow.py (RecoveryTranslator), output =
          lin(inputs) + k, ints only
  loop    a loop sub-network built with RecoveryTranslator.get_input_loop / get_output_loop (real LoopCombinatorStep,
          BaseLoopConditionalStep, LoopTerminationCombinator, BaseLoopOutputLastStep, ForwardTransformers) around a
          `+ k` body: ins = [counter, limit], out = the last counter value (counter < limit initially)
A node may carry "fail": {"tag": t} (tf only): the transformation raises on that tag (the step ends FAILED).

`run_spec` returns, per run: the executor outcome, per-port {tag: value} maps read from `port.token_list`, the
final status / terminated flag of every step, the tasks still pending, and the token / provenance tables.
"""
from __future__ import annotations

import asyncio
import itertools
import json
import os
import posixpath
import random
import time
from typing import Any

from sfv.rt.loop import run_controlled
from sfv.rt.sfctx import make_context

# --------------------------------------------------------------------------------------------------
# values and the pure functions of the generated steps (mirrored in lean/SFV/Model/Net.lean)
# --------------------------------------------------------------------------------------------------


def deep_sum(v) -> int:
    return v if isinstance(v, int) else sum(deep_sum(x) for x in v)


def deep_map(v, f):
    return f(v) if isinstance(v, int) else [deep_map(x, f) for x in v]


def apply_fn(fn: str, k: int, vals: list) -> list:
    """outputs (one per output port) of the transformation `fn` with parameter `k` on the input values"""
    if fn == "add":
        return [deep_map(vals[0], lambda x: x + k)]
    if fn == "sum":
        return [deep_sum(vals[0])]
    if fn == "range":
        s = deep_sum(vals[0])
        return [[s + i for i in range(s % k)]]
    if fn == "lin":
        acc = 0
        for v in vals:
            acc = acc * 31 + deep_sum(v)
        return [acc + k]
    if fn == "pair":
        return [[vals[0], vals[1]]]
    if fn == "split":
        return [deep_map(vals[0], lambda x: x + 1), deep_sum(vals[0])]
    if fn == "loop":
        c, l = deep_sum(vals[0]), deep_sum(vals[1])
        return [c + k * (-((c - l) // k)) if c < l and k > 0 else c]
    raise ValueError(fn)


def pred_holds(m: int, r: int, v) -> bool:
    return deep_sum(v) % m == r


def tag_key(tag: str):
    return tuple(int(c) for c in tag.split("."))


# --------------------------------------------------------------------------------------------------
# reference denotation in Python (used ONLY by the generator to keep workflows well-formed and to choose failure
# points; the specification the runs are compared with is the Lean `den`)
# --------------------------------------------------------------------------------------------------
class IllFormed(Exception):
    pass


def py_den(spec) -> dict[int, dict[str, Any]]:
    ports: dict[int, dict[str, Any]] = {p: {} for p in range(spec["nports"])}
    for s in spec["sources"]:
        ports[s["port"]] = {"0": s["value"]}
    for n in spec["nodes"]:
        ins = [ports[p] for p in n["ins"]]
        kind = n["kind"]
        if kind in ("tf", "cond", "exec", "loop"):
            keys = set(ins[0])
            if any(set(i) != keys for i in ins[1:]):
                raise IllFormed(f"node {n['id']}: input ports carry different tag sets")
            for tag in keys:
                vals = [i[tag] for i in ins]
                if kind == "tf":
                    if n["fn"] == "range" or n["fn"] == "sum" or n["fn"] == "add" or n["fn"] == "split":
                        pass
                    outs = apply_fn(n["fn"], n.get("k", 0), vals)
                    for o, v in zip(n["outs"], outs):
                        ports[o][tag] = v
                elif kind == "exec":
                    if not all(isinstance(v, int) for v in vals):
                        raise IllFormed("exec on a list value")
                    ports[n["outs"][0]][tag] = apply_fn("lin", n.get("k", 0), vals)[0]
                elif kind == "loop":
                    if not all(isinstance(v, int) for v in vals) or not vals[0] < vals[1] or n["k"] < 1:
                        raise IllFormed("loop needs ints, k >= 1 and at least one iteration")
                    ports[n["outs"][0]][tag] = apply_fn("loop", n["k"], vals)[0]
                else:
                    if pred_holds(n["m"], n["r"], vals[0]):
                        for o, v in zip(n["outs"], vals):
                            ports[o][tag] = v
                    elif n["mode"] == "zero":
                        for o, v in zip(n["outs"], vals):
                            ports[o][tag] = deep_map(v, lambda x: 0)
        elif kind == "scatter":
            for tag, v in ins[0].items():
                if isinstance(v, int):
                    raise IllFormed("scatter of a non-list")
                for i, e in enumerate(v):
                    ports[n["outs"][0]][f"{tag}.{i}"] = e
                ports[n["outs"][1]][tag] = len(v)
        elif kind == "gather":
            d = n.get("depth", 1)
            groups: dict[str, list] = {}
            for tag, size in ins[1].items():
                groups.setdefault(tag, [])
            for tag in ins[0]:
                comps = tag.split(".")
                if len(comps) <= d:
                    raise IllFormed("gather deeper than the tag")
                groups.setdefault(".".join(comps[:-d]), []).append(tag)
            for key, tags in groups.items():
                if key in ins[1] and len(tags) > ins[1][key]:
                    raise IllFormed("more elements than the declared size")
                ports[n["outs"][0]][key] = [ins[0][t] for t in sorted(tags, key=lambda t: (len(tag_key(t)), tag_key(t)))]
        elif kind == "dot":
            for i in ins:
                ts = list(i)
                for a in ts:
                    for b in ts:
                        if a != b and tag_key(b)[: len(tag_key(a))] == tag_key(a):
                            raise IllFormed("dot input port is not a prefix antichain")
            alltags = set().union(*[set(i) for i in ins])
            for kappa in alltags:
                picks = []
                for i in ins:
                    c = [t for t in i if tag_key(kappa)[: len(tag_key(t))] == tag_key(t)]
                    if not c:
                        break
                    picks.append(i[c[0]])
                else:
                    for o, v in zip(n["outs"], picks):
                        ports[o][kappa] = v
        elif kind == "cart":
            a, b = ins
            for ta, va in a.items():
                for tb, vb in b.items():
                    ca, cb = ta.split("."), tb.split(".")
                    if len(ca) < 2 or len(cb) < 2:
                        raise IllFormed("cartesian product of root tags")
                    if ca[:-1] == cb[:-1]:
                        tag = ".".join(ca[:-1] + [ca[-1], cb[-1]])
                        ports[n["outs"][0]][tag] = va
                        ports[n["outs"][1]][tag] = vb
        else:
            raise ValueError(kind)
    return ports


# --------------------------------------------------------------------------------------------------
# generator
# --------------------------------------------------------------------------------------------------
DEFAULT_FEATURES = {"tf": 5, "scatter": 3, "gather": 4, "dot": 2, "cart": 1, "cond": 2, "exec": 0, "loop": 0}


# boundary workflows that every check runs first (index >= 10, empty scatter, broadcast, products, loop in a scatter)
L12 = [3, 1, 4, 1, 5, 9, 2, 6, 5, 3, 5, 8]
CORPUS = [
    {"nports": 5, "sources": [{"port": 0, "value": L12}], "closed": [], "nodes": [
        {"id": 0, "kind": "scatter", "ins": [0], "outs": [1, 2]},
        {"id": 1, "kind": "tf", "ins": [1], "outs": [3], "fn": "add", "k": 1},
        {"id": 2, "kind": "gather", "ins": [3, 2], "outs": [4], "depth": 1}]},
    {"nports": 6, "sources": [{"port": 0, "value": L12}], "closed": [], "nodes": [
        {"id": 0, "kind": "scatter", "ins": [0], "outs": [1, 2]},
        {"id": 1, "kind": "exec", "ins": [1], "outs": [3], "k": 2},
        {"id": 2, "kind": "tf", "ins": [3, 1], "outs": [4], "fn": "lin", "k": 0},
        {"id": 3, "kind": "gather", "ins": [4, 2], "outs": [5], "depth": 1}]},
    {"nports": 4, "sources": [{"port": 0, "value": []}], "closed": [], "nodes": [
        {"id": 0, "kind": "scatter", "ins": [0], "outs": [1, 2]},
        {"id": 1, "kind": "gather", "ins": [1, 2], "outs": [3], "depth": 1}]},
    {"nports": 9, "sources": [{"port": 0, "value": [1, 2, 3]}, {"port": 1, "value": 7}], "closed": [], "nodes": [
        {"id": 0, "kind": "scatter", "ins": [0], "outs": [2, 3]},
        {"id": 1, "kind": "dot", "ins": [1, 2], "outs": [4, 5]},
        {"id": 2, "kind": "tf", "ins": [4, 5], "outs": [6], "fn": "lin", "k": 1},
        {"id": 3, "kind": "cond", "ins": [6], "outs": [7], "m": 2, "r": 0, "mode": "drop"},
        {"id": 4, "kind": "gather", "ins": [7, 3], "outs": [8], "depth": 1}]},
    {"nports": 11, "sources": [{"port": 0, "value": [1, 2]}, {"port": 1, "value": [10, 20, 30]}], "closed": [9], "nodes": [
        {"id": 0, "kind": "scatter", "ins": [0], "outs": [2, 3]},
        {"id": 1, "kind": "scatter", "ins": [1], "outs": [4, 5]},
        {"id": 2, "kind": "cart", "ins": [2, 4], "outs": [6, 7]},
        {"id": 3, "kind": "tf", "ins": [6, 7], "outs": [8], "fn": "lin", "k": 0},
        {"id": 4, "kind": "gather", "ins": [8, 9], "outs": [10], "depth": 2}]},
    # parent-tag broadcast with more than 10 parents: 0.1 is a parent of 0.1.j but not of 0.10.j / 0.11.j
    # (the parents come out of jobs, i.e. in a schedule-dependent order)
    {"nports": 11, "sources": [{"port": 0, "value": L12}], "closed": [], "nodes": [
        {"id": 0, "kind": "scatter", "ins": [0], "outs": [1, 2]},
        {"id": 1, "kind": "tf", "ins": [1], "outs": [3], "fn": "range", "k": 3},
        {"id": 2, "kind": "scatter", "ins": [3], "outs": [4, 5]},
        {"id": 3, "kind": "exec", "ins": [1], "outs": [10], "k": 1},
        {"id": 4, "kind": "dot", "ins": [10, 4], "outs": [6, 7]},
        {"id": 5, "kind": "tf", "ins": [6, 7], "outs": [8], "fn": "lin", "k": 0},
        {"id": 6, "kind": "gather", "ins": [8, 5], "outs": [9], "depth": 1}]},
    # a workflow without declared output ports (the executor's `await asyncio.gather(*self.executions)` branch)
    {"nports": 5, "no_outputs": True, "sources": [{"port": 0, "value": [4, 5, 6]}], "closed": [], "nodes": [
        {"id": 0, "kind": "scatter", "ins": [0], "outs": [1, 2]},
        {"id": 1, "kind": "tf", "ins": [1], "outs": [3], "fn": "add", "k": 2},
        {"id": 2, "kind": "gather", "ins": [3, 2], "outs": [4], "depth": 1}]},
    {"nports": 7, "sources": [{"port": 0, "value": [2, 7, 4]}], "closed": [], "nodes": [
        {"id": 0, "kind": "scatter", "ins": [0], "outs": [1, 2]},
        {"id": 1, "kind": "tf", "ins": [1], "outs": [3], "fn": "add", "k": 3},
        {"id": 2, "kind": "loop", "ins": [1, 3], "outs": [4], "k": 2},
        {"id": 3, "kind": "gather", "ins": [4, 2], "outs": [5], "depth": 1},
        {"id": 4, "kind": "tf", "ins": [5], "outs": [6], "fn": "sum", "k": 0}]},
    # a job pipeline with TWO input ports that deliver the tags in DIFFERENT orders (one branch comes out of jobs, i.e.
    # reversed under the even schedule seeds, the other straight from a transformer), both port orders: the ScheduleStep must
    # build the job of a tag from the tokens of THAT tag (not from those of its last reading round)
    *[{"nports": 7, "sources": [{"port": 0, "value": [4, 5, 6, 7]}], "closed": [], "nodes": [
        {"id": 0, "kind": "scatter", "ins": [0], "outs": [1, 2]},
        {"id": 1, "kind": "tf", "ins": [1], "outs": [3], "fn": "add", "k": 1},
        {"id": 2, "kind": "exec", "ins": [1], "outs": [4], "k": 1},
        {"id": 3, "kind": "exec", "ins": ins, "outs": [5], "k": 2},
        {"id": 4, "kind": "gather", "ins": [5, 2], "outs": [6], "depth": 1}]} for ins in ([3, 4], [4, 3])],
]


def _arrival(ds: float, dp: float, dq: float) -> dict:
    """dot(s scattered, p plain, q plain); the three inputs reach the combinator after `ds` / `dp` / `dq` seconds"""
    return {"nports": 13, "sources": [{"port": 0, "value": [1, 2, 3]}, {"port": 1, "value": 10}, {"port": 2, "value": 100}],
            "closed": [], "nodes": [
        {"id": 0, "kind": "tf", "ins": [0], "outs": [3], "fn": "add", "k": 0, "delay": ds},
        {"id": 1, "kind": "scatter", "ins": [3], "outs": [4, 5]},
        {"id": 2, "kind": "tf", "ins": [1], "outs": [6], "fn": "add", "k": 0, "delay": dp},
        {"id": 3, "kind": "tf", "ins": [2], "outs": [7], "fn": "add", "k": 0, "delay": dq},
        {"id": 4, "kind": "dot", "ins": [4, 6, 7], "outs": [8, 9, 10]},
        {"id": 5, "kind": "tf", "ins": [8, 9, 10], "outs": [11], "fn": "lin", "k": 0},
        {"id": 6, "kind": "gather", "ins": [11, 5], "outs": [12], "depth": 1}]}


# combinators under CONTROLLED arrival orders (used by C05): one scattered and two plain inputs in all 6 arrival orders
# (e.g. plain p, then the scattered elements, then plain q: q must still be combined with every element), plus a variant
# in which the order is forced by a data dependency (q is computed from the gathered elements) instead of by the clock
ARRIVAL_CORPUS = [_arrival(*[0.12 * r for r in perm]) for perm in itertools.permutations((0, 1, 2))] + [
    {"nports": 13, "sources": [{"port": 0, "value": [1, 2, 3]}, {"port": 1, "value": 10}], "closed": [], "nodes": [
        {"id": 0, "kind": "scatter", "ins": [0], "outs": [2, 3]},
        {"id": 1, "kind": "gather", "ins": [2, 3], "outs": [4], "depth": 1},
        {"id": 2, "kind": "tf", "ins": [4], "outs": [5], "fn": "sum", "k": 0},
        {"id": 3, "kind": "dot", "ins": [2, 1, 5], "outs": [6, 7, 8]},
        {"id": 4, "kind": "tf", "ins": [6, 7, 8], "outs": [9], "fn": "lin", "k": 0},
        {"id": 5, "kind": "gather", "ins": [9, 3], "outs": [10], "depth": 1},
        {"id": 6, "kind": "tf", "ins": [10], "outs": [11, 12], "fn": "split", "k": 0}]},
]


def _type_list(t):
    return ("L", t)


def gen_spec(rng: random.Random, size: int = 8, features: dict | None = None, max_tokens: int = 40) -> dict:
    """a random well-formed workflow (checked with `py_den`); retries until one is found"""
    for _ in range(200):
        try:
            spec = _gen_once(rng, size, dict(DEFAULT_FEATURES, **(features or {})))
            den = py_den(spec)
        except IllFormed:
            continue
        if sum(len(v) for v in den.values()) <= max_tokens * 4 and max((len(v) for v in den.values()), default=0) <= max_tokens:
            # arrival orders: in a third of the workflows one or two transformers (with few tokens) are slow, so that a whole
            # branch reaches the joins / combinators / job pipelines downstream later than its siblings (`den` does not change)
            slow = [n for n in spec["nodes"] if n["kind"] == "tf" and len(den[n["ins"][0]]) <= 6]
            if slow and rng.random() < 0.35:
                for n in rng.sample(slow, min(len(slow), rng.randint(1, 2))):
                    n["delay"] = rng.choice((0.02, 0.05))
            return spec
    raise RuntimeError("generator could not produce a well-formed workflow")


def _gen_once(rng, size, feat):
    ports = []  # per port: {"type": t, "shape": tuple, }
    levels = {"r": None}  # level id -> size port (or None)
    fresh = [0]

    def new_level(size_port=None):
        fresh[0] += 1
        lv = f"l{fresh[0]}"
        levels[lv] = size_port
        return lv

    def new_port(t, shape, role="data"):
        ports.append({"type": t, "shape": shape, "role": role, "consumers": 0})
        return len(ports) - 1

    spec = {"sources": [], "closed": [], "nodes": []}
    nsrc = rng.randint(1, 3)
    for _ in range(nsrc):
        if rng.random() < 0.5:
            v, t = rng.randint(0, 9), "I"
        else:
            # now and then a list with more than 10 elements: tags 0.10, 0.11 must sort after 0.9 (numeric, not textual)
            n_el = rng.choice([11, 12, 13]) if rng.random() < 0.08 else rng.choice([0, 1, 2, 2, 3, 3, 4])
            v, t = [rng.randint(0, 9) for _ in range(n_el)], _type_list("I")
        spec["sources"].append({"port": new_port(t, ("r",)), "value": v})
    kinds = [k for k, w in feat.items() for _ in range(w)]

    def pick(pred, n=1, same_shape=False):
        cand = [i for i, p in enumerate(ports) if p["role"] == "data" and pred(p)]
        if not cand:
            return None
        # prefer ports without consumers (keeps the graph connected and deep)
        cand.sort(key=lambda i: (ports[i]["consumers"], rng.random()))
        first = cand[0] if rng.random() < 0.7 else rng.choice(cand)
        out = [first]
        if n > 1:
            rest = [i for i in cand if i != first and (not same_shape or ports[i]["shape"] == ports[first]["shape"])]
            rng.shuffle(rest)
            if len(rest) < n - 1:
                return None
            out += rest[: n - 1]
        return out

    def add(kind, ins, outs, **kw):
        for i in ins:
            ports[i]["consumers"] += 1
        node = {"id": len(spec["nodes"]), "kind": kind, "ins": ins, "outs": outs}
        node.update(kw)
        spec["nodes"].append(node)

    tries = 0
    while len(spec["nodes"]) < size and tries < size * 12:
        tries += 1
        kind = rng.choice(kinds)
        if kind == "tf":
            fn = rng.choice(["add", "add", "sum", "range", "range", "lin", "lin", "pair", "split"])
            if fn in ("add", "split"):
                ins = pick(lambda p: True)
                if ins is None:
                    continue
                p = ports[ins[0]]
                outs = [new_port(p["type"], p["shape"])] + ([new_port("I", p["shape"])] if fn == "split" else [])
                add("tf", ins, outs, fn=fn, k=rng.randint(-3, 5))
            elif fn == "sum":
                ins = pick(lambda p: True)
                if ins is None:
                    continue
                add("tf", ins, [new_port("I", ports[ins[0]]["shape"])], fn=fn, k=0)
            elif fn == "range":
                ins = pick(lambda p: True)
                if ins is None:
                    continue
                add("tf", ins, [new_port(_type_list("I"), ports[ins[0]]["shape"])], fn=fn, k=rng.randint(1, 4))
            elif fn == "lin":
                ins = pick(lambda p: True, n=rng.randint(2, 3), same_shape=True)
                if ins is None:
                    continue
                add("tf", ins, [new_port("I", ports[ins[0]]["shape"])], fn=fn, k=rng.randint(0, 3))
            elif fn == "pair":
                ins = pick(lambda p: True, n=2, same_shape=True)
                if ins is None or ports[ins[0]]["type"] != ports[ins[1]]["type"]:
                    continue
                add("tf", ins, [new_port(_type_list(ports[ins[0]]["type"]), ports[ins[0]]["shape"])], fn=fn, k=0)
        elif kind == "scatter":
            ins = pick(lambda p: p["type"] != "I" and len(p["shape"]) < 4)
            if ins is None:
                continue
            p = ports[ins[0]]
            size_port = new_port("I", p["shape"], role="size")
            lv = new_level(size_port)
            add("scatter", ins, [new_port(p["type"][1], p["shape"] + (lv,)), size_port])
        elif kind == "gather":
            ins = pick(lambda p: len(p["shape"]) >= 2)
            if ins is None:
                continue
            p = ports[ins[0]]
            lv = p["shape"][-1]
            if levels.get(lv) is not None and rng.random() < 0.8:
                add("gather", [ins[0], levels[lv]], [new_port(_type_list(p["type"]), p["shape"][:-1])], depth=1)
                ports[levels[lv]]["consumers"] += 0
            else:
                closed = new_port("I", (), role="closed")
                spec["closed"].append(closed)
                d = 1 if len(p["shape"]) < 3 or rng.random() < 0.7 else 2
                base = p["shape"][:-d]
                shape = base[:-1] + (new_level(levels.get(base[-1])),)
                t = p["type"]
                add("gather", [ins[0], closed], [new_port(_type_list(t), shape)], depth=d)
        elif kind == "dot":
            n = rng.randint(2, 3)
            first = pick(lambda p: True)
            if first is None:
                continue
            sh = ports[first[0]]["shape"]
            cand = [i for i, p in enumerate(ports) if p["role"] == "data" and i != first[0]
                    and (p["shape"] == sh[: len(p["shape"])] or sh == p["shape"][: len(sh)])]
            # keep a chain: all shapes pairwise prefix-comparable
            rng.shuffle(cand)
            ins = [first[0]]
            for c in cand:
                if len(ins) >= n:
                    break
                if all(ports[c]["shape"] == ports[x]["shape"][: len(ports[c]["shape"])] or ports[x]["shape"] == ports[c]["shape"][: len(ports[x]["shape"])] for x in ins):
                    ins.append(c)
            if len(ins) < 2:
                continue
            deepest = max((ports[i]["shape"] for i in ins), key=len)
            add("dot", ins, [new_port(ports[i]["type"], deepest) for i in ins])
        elif kind == "cart":
            a = pick(lambda p: len(p["shape"]) >= 2 and len(p["shape"]) < 4)
            if a is None:
                continue
            sa = ports[a[0]]["shape"]
            cand = [i for i, p in enumerate(ports) if p["role"] == "data" and i != a[0] and len(p["shape"]) == len(sa) and p["shape"][:-1] == sa[:-1]]
            if not cand:
                continue
            b = rng.choice(cand)
            la, lb = new_level(levels.get(sa[-1])), new_level(None)
            shape = sa[:-1] + (la, lb)
            add("cart", [a[0], b], [new_port(ports[a[0]]["type"], shape), new_port(ports[b]["type"], shape)])
        elif kind == "cond":
            ins = pick(lambda p: True, n=rng.choice([1, 1, 2]), same_shape=True)
            if ins is None:
                continue
            mode = rng.choice(["drop", "zero"])
            p = ports[ins[0]]
            shape = p["shape"] if mode == "zero" else p["shape"][:-1] + (new_level(levels.get(p["shape"][-1])),)
            m = rng.randint(2, 3)
            add("cond", ins, [new_port(ports[i]["type"], shape) for i in ins], m=m, r=rng.randrange(m), mode=mode)
        elif kind == "loop":
            ins = pick(lambda p: p["type"] == "I")
            if ins is None:
                continue
            p = ports[ins[0]]
            lim = new_port("I", p["shape"])
            add("tf", ins, [lim], fn="add", k=rng.randint(1, 5))        # limit = counter + m: at least one iteration
            add("loop", [ins[0], lim], [new_port("I", p["shape"])], k=rng.randint(1, 3))
        elif kind == "exec":
            motif = rng.random()
            if motif < 0.35:
                # jobs complete in a schedule-dependent order: join the reordered port with its in-order sibling
                ins = pick(lambda p: p["type"] == "I" and len(p["shape"]) >= 2)
                if ins is None:
                    continue
                p = ports[ins[0]]
                x = new_port("I", p["shape"])
                add("exec", ins, [x], k=rng.randint(0, 3))
                if rng.random() < 0.5:
                    add("tf", [x, ins[0]], [new_port("I", p["shape"])], fn="lin", k=rng.randint(0, 3))
                else:
                    add("tf", [ins[0], x], [new_port(_type_list("I"), p["shape"])], fn="pair", k=0)
            elif motif < 0.65:
                # the canonical scatter -> job -> gather pipeline
                ins = pick(lambda p: p["type"] == _type_list("I") and len(p["shape"]) < 3)
                if ins is None:
                    continue
                p = ports[ins[0]]
                size_port = new_port("I", p["shape"], role="size")
                lv = new_level(size_port)
                el = new_port("I", p["shape"] + (lv,))
                add("scatter", ins, [el, size_port])
                x = new_port("I", p["shape"] + (lv,))
                add("exec", [el], [x], k=rng.randint(0, 3))
                add("gather", [x, size_port], [new_port(_type_list("I"), p["shape"])], depth=1)
            else:
                ins = pick(lambda p: p["type"] == "I", n=rng.choice([1, 1, 2]), same_shape=True)
                if ins is None or any(ports[i]["type"] != "I" for i in ins):
                    continue
                add("exec", ins, [new_port("I", ports[ins[0]]["shape"])], k=rng.randint(0, 3))
    spec["nports"] = len(ports)
    return spec


def _upstream_of_loops(spec: dict) -> set[int]:
    """ids of the nodes from which some loop node is reachable"""
    tainted_ports: set[int] = set()
    out: set[int] = set()
    for n in reversed(spec["nodes"]):
        if n["kind"] == "loop" or any(p in tainted_ports for p in n["outs"]):
            if n["kind"] != "loop":
                out.add(n["id"])
            tainted_ports.update(n["ins"])
    return out


def choose_failure(rng: random.Random, spec: dict, escape_prob: float = 0.3, loop_upstream_prob: float = 0.12,
                   job_prob: float = 0.5, no_outputs_prob: float = 0.15) -> dict | None:
    """`_choose_failure`; in addition some of the failing workflows declare no output port at all (`no_outputs`): the
    executor then only awaits the step tasks, and nobody but the failing step's own task closes it"""
    out = _choose_failure(rng, spec, escape_prob, loop_upstream_prob, job_prob)
    if out is not None and rng.random() < no_outputs_prob:
        out["no_outputs"] = True
    return out


def _choose_failure(rng: random.Random, spec: dict, escape_prob: float = 0.3, loop_upstream_prob: float = 0.12,
                    job_prob: float = 0.5) -> dict | None:
    """copy of the spec with one injected failure:
    * a transformer raises on one of the tags it processes (`Transformer.run` catches it: the step ends FAILED and the
      failure travels as TerminationToken(FAILED)), or
    * the `+k` body of a loop sub-network raises in a chosen iteration (after the earlier iterations succeeded), or
    * one job of a job pipeline returns a FAILED CommandOutput (`ExecuteStep.run` cancels its pending jobs), or
    * (mode "escape") a scatter step is fed a non-list value through an inserted `sum` transformer: `ScatterStep.run`
      does not catch the WorkflowDefinitionException, which reaches `StreamFlowExecutor._handle_exception` -> close()."""
    den = py_den(spec)
    scatters = [n["id"] for n in spec["nodes"] if n["kind"] == "scatter" and den[n["ins"][0]]
                and n["id"] not in _upstream_of_loops(spec)]
    if scatters and rng.random() < escape_prob:
        sid = rng.choice(scatters)
        spec = json.loads(json.dumps(spec))
        old_in = spec["nodes"][sid]["ins"][0]
        newp = spec["nports"]
        spec["nports"] += 1
        nodes = spec["nodes"]
        nodes.insert(sid, {"id": sid, "kind": "tf", "ins": [old_in], "outs": [newp], "fn": "sum", "k": 0, "fail": {"mode": "escape"}})
        nodes[sid + 1]["ins"][0] = newp
        for i, n in enumerate(nodes):
            n["id"] = i
        return spec
    feeds = _upstream_of_loops(spec)
    jobs = [(n["id"], tag) for n in spec["nodes"] if n["kind"] == "exec" and n["id"] not in feeds for tag in den[n["ins"][0]]]
    if jobs and rng.random() < job_prob:
        # one job of a schedule/transfer/execute pipeline fails (CommandOutput FAILED): ExecuteStep cancels its other jobs
        nid, tag = rng.choice(jobs)
        spec = json.loads(json.dumps(spec))
        spec["nodes"][nid]["fail"] = {"job_tag": tag}
        return spec
    loops = [n for n in spec["nodes"] if n["kind"] == "loop" and den[n["ins"][0]]]
    if loops and rng.random() < 0.3:
        # the body of a loop raises in iteration `it` (for the instances that get that far)
        n = rng.choice(loops)
        iters = max((den[n["ins"][1]][t] - c + n["k"] - 1) // n["k"] for t, c in den[n["ins"][0]].items())
        spec = json.loads(json.dumps(spec))
        spec["nodes"][n["id"]]["fail"] = {"iter": rng.randrange(max(1, iters))}
        return spec
    cands = [(n["id"], tag) for n in spec["nodes"] if n["kind"] == "tf" for tag in den[n["ins"][0]]]
    # a failure upstream of a loop input dead-locks the LoopCombinatorStep (known finding of C04, every occurrence costs
    # the whole watchdog time): keep such failure points rare
    feeds_loop = _upstream_of_loops(spec)
    rare = [c for c in cands if c[0] in feeds_loop]
    common = [c for c in cands if c[0] not in feeds_loop]
    cands = rare if (rare and loop_upstream_prob > 0 and (not common or rng.random() < loop_upstream_prob)) else common
    if not cands:
        return None
    nid, tag = rng.choice(cands)
    spec = json.loads(json.dumps(spec))
    spec["nodes"][nid]["fail"] = {"tag": tag}
    return spec


# --------------------------------------------------------------------------------------------------
# building the real workflow
# --------------------------------------------------------------------------------------------------
def _classes():
    """the generated step subclasses live in sfv.rt.wfsteps (module level, so that Workflow.load can find them);
    imported lazily so that importing this module does not import streamflow"""
    from sfv.rt import wfsteps

    return wfsteps.GenTransformer, wfsteps.GenConditionalStep, wfsteps.mktoken, wfsteps.tokval


async def build(context, spec: dict, workdir: str):
    """instantiate the spec with the real classes; returns (workflow, ports, node_steps)"""
    from streamflow.core import utils as sfutils
    from streamflow.core.workflow import Workflow
    from streamflow.workflow.combinator import CartesianProductCombinator, DotProductCombinator
    from streamflow.workflow.step import CombinatorStep, GatherStep, ScatterStep
    from streamflow.workflow.token import TerminationToken

    GenTransformer, GenConditionalStep, mktoken, _ = _classes()
    workflow = Workflow(context=context, name=sfutils.random_name(), config={})
    ports = [workflow.create_port(name=f"p{i}") for i in range(spec["nports"])]
    node_steps: dict[int, list[str]] = {}
    translator = None
    for n in spec["nodes"]:
        name = f"/n{n['id']}-{n['kind']}"
        kind = n["kind"]
        if kind == "tf":
            step = workflow.create_step(cls=GenTransformer, name=name, fn=n["fn"], k=n.get("k", 0), nin=len(n["ins"]),
                                        fail_tag=(n.get("fail") or {}).get("tag"), delay=n.get("delay", 0.0))
            for j, p in enumerate(n["ins"]):
                step.add_input_port(f"i{j}", ports[p])
            for j, p in enumerate(n["outs"]):
                step.add_output_port(f"o{j}", ports[p])
        elif kind == "cond":
            step = workflow.create_step(cls=GenConditionalStep, name=name, m=n["m"], r=n["r"], mode=n["mode"])
            for j, p in enumerate(n["ins"]):
                step.add_input_port(f"i{j}", ports[p])
            for j, p in enumerate(n["outs"]):
                step.add_output_port(f"o{j}", ports[p])
        elif kind == "scatter":
            step = workflow.create_step(cls=ScatterStep, name=name, size_port=ports[n["outs"][1]])
            step.add_input_port("i0", ports[n["ins"][0]])
            step.add_output_port("o0", ports[n["outs"][0]])
        elif kind == "gather":
            step = workflow.create_step(cls=GatherStep, name=name, size_port=ports[n["ins"][1]], depth=n.get("depth", 1))
            step.add_input_port("i0", ports[n["ins"][0]])
            step.add_output_port("o0", ports[n["outs"][0]])
        elif kind in ("dot", "cart"):
            comb = (DotProductCombinator(name=name + "-c", workflow=workflow) if kind == "dot"
                    else CartesianProductCombinator(name=name + "-c", workflow=workflow, depth=1))
            step = workflow.create_step(cls=CombinatorStep, name=name, combinator=comb)
            for j, p in enumerate(n["ins"]):
                comb.add_item(f"x{j}")
                step.add_input_port(f"x{j}", ports[p])
            for j, p in enumerate(n["outs"]):
                step.add_output_port(f"x{j}", ports[p])
        elif kind == "loop":
            from tests.utils.workflow import RecoveryTranslator
            before = set(workflow.steps)
            ltr = RecoveryTranslator(workflow)
            loop_in = ltr.get_input_loop(name, {"counter": ports[n["ins"][0]], "limit": ports[n["ins"][1]]},
                                         'lambda x: x["counter"].value < x["limit"].value')
            body = workflow.create_step(cls=GenTransformer, name=name + "/body", fn="add", k=n["k"], nin=1,
                                        fail_iter=(n.get("fail") or {}).get("iter"))
            body.add_input_port("i0", loop_in["counter"])
            body_out = workflow.create_port()
            body.add_output_port("o0", body_out)
            louts = ltr.get_output_loop(name, {"counter": body_out, "limit": loop_in["limit"]}, {"counter"})
            fw = workflow.create_step(cls=GenTransformer, name=name + "/out", fn="add", k=0, nin=1)
            fw.add_input_port("i0", louts["counter"])
            fw.add_output_port("o0", ports[n["outs"][0]])
            node_steps[n["id"]] = sorted(set(workflow.steps) - before)
            continue
        elif kind == "exec":
            if translator is None:
                translator = await _exec_translator(context, workflow, workdir)
            command = "lambda x: ('copy', 'primitive', 0)"   # replaced below by GenCommand
            before = set(workflow.steps)
            step = translator.get_execute_pipeline(
                command=command, deployment_names=[translator._sfv_deployment],
                input_ports={f"i{j}": ports[p] for j, p in enumerate(n["ins"])},
                outputs={}, step_name=name, workflow=workflow)
            from tests.utils.workflow import EvalCommandOutputProcessor
            step.add_output_port("o0", ports[n["outs"][0]], EvalCommandOutputProcessor("o0", workflow, "primitive"))
            from sfv.rt import wfsteps
            step.command = wfsteps.GenCommand(step, k=n.get("k", 0), nin=len(n["ins"]),
                                              fail_tag=(n.get("fail") or {}).get("job_tag"), delay=n.get("delay", 0.0))
            if n.get("allcores"):
                # every job asks for all the cores of the deployment: jobs of different pipelines queue for resources
                workflow.steps[posixpath.join(name, "__schedule__")].hardware_requirement = wfsteps.GenHardwareRequirement()
            node_steps[n["id"]] = sorted(set(workflow.steps) - before)
            continue
        else:
            raise ValueError(kind)
        node_steps[n["id"]] = [step.name]
    # every port without a consumer is a workflow output (otherwise the executor never reads it)
    consumed = {p for n in spec["nodes"] for p in n["ins"]}
    for i, port in enumerate(ports):
        if i not in consumed and not spec.get("no_outputs"):
            # ("no_outputs": the workflow declares no output port at all: StreamFlowExecutor.run then simply awaits the steps)
            workflow.output_ports[f"out{i}"] = port.name
    await workflow.save(context.database)
    # sources: persisted token then termination; closed ports: termination only
    for s in spec["sources"]:
        tok = mktoken(s["value"], "0")
        await tok.save(context.database, ports[s["port"]].persistent_id)
        ports[s["port"]].put(tok)
        ports[s["port"]].put(TerminationToken())
    for p in spec.get("closed", []):
        ports[p].put(TerminationToken())
    return workflow, ports, node_steps


async def _exec_translator(context, workflow, workdir):
    from streamflow.core.deployment import DeploymentConfig
    from tests.utils.workflow import RecoveryTranslator

    wd = os.path.join(workdir, "deploy")
    os.makedirs(wd, exist_ok=True)
    config = DeploymentConfig(name="sfv-local", type="local", config={}, external=True, lazy=False, workdir=wd)
    await context.deployment_manager.deploy(config)
    translator = RecoveryTranslator(workflow)
    translator.deployment_configs = {config.name: config}
    translator._sfv_deployment = config.name
    return translator


# --------------------------------------------------------------------------------------------------
# running
# --------------------------------------------------------------------------------------------------
async def _dump_db(context) -> dict:
    out = {"tokens": [], "provenance": []}
    async with context.database.connection as db:
        async with db.execute("SELECT id, port, tag, type FROM token ORDER BY id") as cur:
            for r in await cur.fetchall():
                out["tokens"].append([r["id"], r["port"], r["tag"], r["type"].rsplit(".", 1)[-1]])
        async with db.execute("SELECT dependee, depender FROM provenance ORDER BY depender, dependee") as cur:
            for r in await cur.fetchall():
                out["provenance"].append([r["dependee"], r["depender"]])
    return out


def run_spec(spec: dict, seed: int, workdir: str, timeout: float = 60.0, shuffle: bool = True, settle: float = 1.0) -> dict:
    """one run of the spec on the real engine under the PRNG schedule `seed`"""
    os.makedirs(workdir, exist_ok=True)
    result: dict[str, Any] = {"seed": seed}
    import logging

    from streamflow.log_handler import logger as sf_logger
    sf_logger.setLevel(logging.CRITICAL + 10)   # injected failures are logged with full tracebacks otherwise

    async def main():
        from streamflow.core.workflow import Status
        from streamflow.workflow.executor import StreamFlowExecutor
        from streamflow.workflow.token import IterationTerminationToken, JobToken, TerminationToken

        _, _, _, tokval = _classes()
        from sfv.rt import wfsteps
        wfsteps.JOB_RNG = random.Random(seed * 7919 + 13)
        wfsteps.JOB_JITTER = float(os.environ.get("SFV_JOB_JITTER", "0.03")) if shuffle else 0.0
        wfsteps.JOB_MODE = "reverse" if (shuffle and seed % 2 == 0) else "random"   # even schedule seeds: reverse completion order
        context = make_context(workdir)
        try:
            workflow, ports, node_steps = await build(context, spec, workdir)
            rec = {"cancel_called": False, "close_noop_with_unterminated": False}

            class RecExecutor(StreamFlowExecutor):
                """records which path the executor took (used to classify the known `_cancel` defect narrowly)"""

                async def _cancel(self, tasks):
                    rec["cancel_called"] = True
                    await super()._cancel(tasks)

                async def close(self):
                    if self._closed and any(not st.terminated for st in self.workflow.steps.values()):
                        rec["close_noop_with_unterminated"] = True
                    await super().close()

            executor = RecExecutor(workflow)
            me = asyncio.current_task()
            async def runner():
                try:
                    return await executor.run()
                finally:
                    # the very moment run() returns / raises: which steps are not terminated
                    result.setdefault("unterminated_at_exit", sorted(n for n, st in workflow.steps.items() if not st.terminated))

            run_task = asyncio.create_task(runner())

            def workflow_tasks():
                return [t for t in asyncio.all_tasks() if t is not me and not t.done() and t is not run_task
                        and not _is_infrastructure(t)]

            def progress_mark():
                # anything that changes while the workflow is still working: tokens on the ports, terminated steps, finished tasks
                return (sum(len(p.token_list) for p in workflow.ports.values()),
                        sum(1 for st in workflow.steps.values() if st.terminated), len(workflow_tasks()))

            # A hang verdict is "run() has not finished AND the state of the workflow did not change for a whole window",
            # never elapsed time alone: on a loaded machine a healthy run is slow but keeps moving. The window is the nominal
            # timeout scaled by the machine load; when every step is terminated and no step task is pending (run() is about
            # to return: it only waits for its own database update) the window is three times as long.
            window = timeout * load_factor()
            t_start = time.monotonic()
            mark, t_mark, waits = progress_mark(), t_start, 0
            while True:
                done, _ = await asyncio.wait({run_task}, timeout=min(1.0, window / 8))
                if done:
                    break
                now, m = time.monotonic(), progress_mark()
                if m != mark:
                    mark, t_mark = m, now
                idle_state = all(st.terminated for st in workflow.steps.values()) and not workflow_tasks()
                if now - t_mark >= min(window, 5.0) and any(_awaits_itself(t) for t in asyncio.all_tasks() if not t.done()):
                    break       # dead-lock by inspection (see below): no need to wait for the whole window
                if now - t_mark >= (3 * window if idle_state else window) or now - t_start >= 6 * window:
                    break
            result["watchdog"] = {"window_s": round(window, 1), "waited_s": round(time.monotonic() - t_start, 1),
                                  "quiet_s": round(time.monotonic() - t_mark, 1)}
            if not done:
                result["unterminated_at_exit"] = sorted(n for n, st in workflow.steps.items() if not st.terminated)
                # a dead-lock by inspection: a task that waits for a gather() of which it is itself a member can never finish
                # (and cannot be cancelled: Task.cancel() recurses through the gather back into the task)
                selfw = [t for t in asyncio.all_tasks() if not t.done() and _awaits_itself(t)]
                result["self_awaiting_tasks"] = sorted(_task_label(t) for t in selfw)
                if selfw:
                    result["known_deadlock_state"] = True
                quiet = time.monotonic() - t_mark
                result["outcome"] = {"kind": "hang", "detail": (
                    f"executor.run() did not finish: no change of the workflow state (tokens, terminated steps, pending tasks) for "
                    f"{quiet:.0f}s (window {window:.0f}s, total {time.monotonic() - t_start:.0f}s)"
                    + (f"; tasks awaiting their own cancellation: {result['self_awaiting_tasks']}" if selfw else "")
                    + ("; every step is terminated and no step task is pending" if not result["unterminated_at_exit"] and not workflow_tasks() else ""))}
            elif run_task.cancelled():
                result["outcome"] = {"kind": "raise", "detail": "CancelledError"}
            elif run_task.exception() is not None:
                result["outcome"] = {"kind": "raise", "detail": type(run_task.exception()).__name__}
            else:
                ret = run_task.result()
                result["outcome"] = {"kind": "return", "keys": sorted(ret), "ret": {k: _jsonable(v) for k, v in ret.items()}}
            result["executor"] = dict(rec, closed=bool(executor._closed))
            # state of the loop combinator steps (classification of the known loop hang)
            from streamflow.workflow.step import LoopCombinatorStep
            result["loop_combinators"] = {
                name: {"terminated": bool(st.terminated),
                       "checklist": {k: sorted(v) for k, v in st.iteration_termination_checklist.items()},
                       "inputs": {pn: {"terminations": [Status(t.value).name for t in port.token_list if isinstance(t, TerminationToken)],
                                       "ndata": sum(1 for t in port.token_list if not isinstance(t, (TerminationToken, IterationTerminationToken))),
                                       "unread": (port.queues[posixpath.join(name, pn)].qsize()
                                                  if posixpath.join(name, pn) in port.queues else len(port.token_list)),
                                       "stream": [("T1" if t.value == Status.COMPLETED else ("T0" if t.value in (Status.FAILED, Status.CANCELLED) else "T2")) if isinstance(t, TerminationToken)
                                                  else ("i" + t.tag if isinstance(t, IterationTerminationToken) else "d" + t.tag)
                                                  for t in port.token_list]}
                                  for pn, port in st.get_input_ports().items()}}
                for name, st in workflow.steps.items() if isinstance(st, LoopCombinatorStep)}

            if result["outcome"]["kind"] == "hang":
                # a state that is a dead-lock by inspection (not only by the clock): an unterminated LoopCombinatorStep with
                # a FAILED / CANCELLED termination on one input port and a non-empty checklist on another
                for lc in result["loop_combinators"].values():
                    bad_in = [p for p, v in lc["inputs"].items() if any(t in ("FAILED", "CANCELLED") for t in v["terminations"])]
                    if not lc["terminated"] and bad_in and any(v and p not in bad_in for p, v in lc["checklist"].items()):
                        result["known_deadlock_state"] = True

            # let finishing tasks settle (the last `_set_status` of a step is a database await served by a thread)
            for _ in range(30):
                await asyncio.sleep(0)
            waited = 0.0
            while workflow_tasks() and waited < settle:
                await asyncio.sleep(0.01)
                waited += 0.01
            result["pending"] = sorted(_task_label(t) for t in workflow_tasks())
            result["steps"] = {name: {"status": Status(s.status).name, "terminated": bool(s.terminated)}
                               for name, s in sorted(workflow.steps.items())}
            result["node_steps"] = {str(k): v for k, v in node_steps.items()}
            pmap, term, ids, dup = {}, {}, {}, {}
            for i, port in enumerate(ports):
                m, tl, idm = {}, [], {}
                for t in port.token_list:
                    if isinstance(t, TerminationToken):
                        tl.append(Status(t.value).name)
                    elif isinstance(t, (IterationTerminationToken, JobToken)):
                        continue
                    else:
                        if t.tag in m:
                            dup.setdefault(str(i), []).append(t.tag)
                        m[t.tag] = tokval(t)
                        idm[t.tag] = t.persistent_id
                pmap[str(i)], term[str(i)], ids[str(i)] = m, tl, idm
            result["ports"], result["terminations"], result["token_ids"], result["duplicate_tags"] = pmap, term, ids, dup
            result["data_after_termination"] = [
                str(i) for i, port in enumerate(ports)
                if any(isinstance(a, TerminationToken) and not isinstance(b, TerminationToken)
                       for a, b in zip(port.token_list, port.token_list[1:]))]
            result["order"] = {str(i): [t.tag for t in port.token_list if not isinstance(t, TerminationToken)] for i, port in enumerate(ports)}
            result["port_ids"] = {str(i): port.persistent_id for i, port in enumerate(ports)}
            result["outputs"] = sorted(workflow.output_ports)
            result["db"] = await _dump_db(context)
            if not done:
                for t in [t for t in asyncio.all_tasks() if not t.done() and _awaits_itself(t)]:
                    # break the cycle (plain Future.cancel: the gather's own cancel() would recurse), else no event loop
                    # shutdown ever completes and the verdict above would be lost with the worker process
                    asyncio.Future.cancel(t._fut_waiter)
                for _ in range(5):
                    await asyncio.sleep(0)
                try:
                    run_task.cancel()
                except RecursionError:
                    pass
        finally:
            try:
                await asyncio.wait_for(context.close(), 10)
            except Exception:  # noqa: BLE001
                pass

    try:
        run_controlled(main, seed, timeout=6 * timeout * load_factor() + 60, shuffle=shuffle)
    except (TimeoutError, asyncio.TimeoutError):
        # the bound around the WHOLE harness coroutine (build, run, inspection, context shutdown) fired before the watchdog on
        # executor.run() reached a verdict: nothing is known about the implementation => a harness note, never a violation
        result.setdefault("outcome", {"kind": "harness-error", "detail": "harness bound reached before the run gave a verdict "
                                      f"(build / inspection / shutdown too slow; load {os.getloadavg()[0]:.0f})"})
    except Exception as e:  # noqa: BLE001
        result.setdefault("outcome", {"kind": "harness-error", "detail": f"{type(e).__name__}: {e}"})
    return result


def _jsonable(v):
    if isinstance(v, (int, str, float, bool)) or v is None:
        return v
    if isinstance(v, (list, tuple)):
        return [_jsonable(x) for x in v]
    if isinstance(v, dict):
        return {str(k): _jsonable(x) for k, x in v.items()}
    return repr(v)


def load_factor() -> float:
    """how much slower than an idle machine this one probably is: runnable processes per core, between 1 and 3"""
    try:
        return max(1.0, min(3.0, os.getloadavg()[0] / (os.cpu_count() or 1)))
    except OSError:
        return 1.0


def _awaits_itself(t: asyncio.Task) -> bool:
    fut = getattr(t, "_fut_waiter", None)
    return fut is not None and any(c is t for c in getattr(fut, "_children", ()) or ())


def _task_label(t: asyncio.Task) -> str:
    try:
        co = t.get_coro()
        return f"{t.get_name()}:{getattr(co, '__qualname__', str(co))}"
    except Exception:  # noqa: BLE001
        return t.get_name()


def _is_infrastructure(t: asyncio.Task) -> bool:
    """tasks that belong to the context (scheduler / data manager loops), not to the workflow"""
    q = getattr(t.get_coro(), "__qualname__", "")
    return not any(s in q for s in ("Step.", "Executor.", "Port.", "Combinator", "_handle_exception", "Queue.get", "get_job", "get_connector", "_get_inputs", "_run_job", "_run_transfer"))
