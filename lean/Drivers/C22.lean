import SFV.Model.Transfer
import SFV.Model.Proto
open SFV SFV.Proto SFV.Transfer

def showPath (p : List String) : String := "/" ++ "/".intercalate p

/-- `rrwc <dstIsDir> <srcIsDir> <base> <dst components…>` → the row chosen by `get_remote_to_remote_write_command`
    `dest <dstIsDir> <base> <dst components…>` → intended destination of the tree -/
def handle : List String → String
  | "rrwc" :: d :: s :: base :: dst =>
      match stringOfHex base, dst.mapM stringOfHex with
      | some b, some dst =>
          match remoteWriteCmd dst (d == "1") b (s == "1") with
          | .xC p => s!"xC {hexOfString (showPath p)}"
          | .xCstrip p => s!"xCstrip {hexOfString (showPath p)}"
          | .tee p => s!"tee {hexOfString (showPath p)}"
      | _, _ => "bad-op"
  | "dest" :: d :: base :: dst =>
      match stringOfHex base, dst.mapM stringOfHex with
      | some b, some dst => hexOfString (showPath (finalDest dst (d == "1") b))
      | _, _ => "bad-op"
  | _ => "bad-op"

def main : IO Unit := runPure handle
