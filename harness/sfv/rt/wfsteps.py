"""Step subclasses used by the generated workflows (sfv.rt.wfgen). Only `transform` / `_eval` / `_on_true` /
`_on_false` are ours; the run loops, tag grouping, persistence and termination are the engine's."""
from __future__ import annotations

from typing import Any, MutableMapping, cast

from streamflow.core.exception import WorkflowExecutionException
from streamflow.core.persistence import Database, DatabaseLoadingContext
from streamflow.core.utils import get_entity_ids, get_tag
from streamflow.core.scheduling import Hardware, HardwareRequirement
from streamflow.core.workflow import Command, CommandOutput, Status, Token
from streamflow.workflow.step import ConditionalStep, Transformer
from streamflow.workflow.token import ListToken

import asyncio
import random

from sfv.rt.wfgen import apply_fn, deep_map, pred_holds

# per-run PRNG for the duration of jobs (set by wfgen.run_spec from the schedule seed): jobs complete in an order that
# is part of the schedule — C05 quantifies over "every order in which jobs complete"
JOB_RNG = random.Random(0)
JOB_JITTER = 0.004
# "random": PRNG durations; "reverse": a job takes the longer the smaller the last component of its tag, so that the jobs
# of a scatter complete in (roughly) REVERSE tag order — a controlled, reproducible reordering of the step's output port
JOB_MODE = "random"


class GenHardwareRequirement(HardwareRequirement):
    """every job of the pipeline asks for ALL the cores of the local deployment: jobs of different pipelines queue"""

    @classmethod
    async def _load(cls, row, loading_context):
        return cls()

    async def _save_additional_params(self, database):
        return {}

    def eval(self, job):
        from streamflow.deployment.connector.local import _max_cores
        return Hardware(cores=float(_max_cores()))


class GenCommand(Command):
    """the command of the generated job pipelines: lin(inputs) + k after a PRNG-chosen (schedule dependent) duration"""

    def __init__(self, step, k=0, nin=1, fail_tag=None, delay=0.0):
        super().__init__(step)
        self.k, self.nin, self.fail_tag, self.delay = k, nin, fail_tag, delay

    @classmethod
    async def _load(cls, row, loading_context, step):
        return cls(step=step, k=row["k"], nin=row["nin"], fail_tag=row.get("fail_tag"), delay=row.get("delay", 0.0))

    async def _save_additional_params(self, database):
        return {"k": self.k, "nin": self.nin, "fail_tag": self.fail_tag, "delay": self.delay}

    async def execute(self, job):
        if self.delay:
            await asyncio.sleep(self.delay)
        if JOB_MODE == "reverse" and JOB_JITTER > 0:
            idx = int(get_tag(job.inputs.values()).split(".")[-1])
            await asyncio.sleep(max(0, 14 - idx) * 0.012)
        else:
            await asyncio.sleep(JOB_RNG.random() * JOB_JITTER)
        if self.fail_tag is not None and get_tag(job.inputs.values()) == self.fail_tag:
            return CommandOutput("injected job failure", Status.FAILED)
        vals = [job.inputs[f"i{j}"].value for j in range(self.nin)]
        return CommandOutput(apply_fn("lin", self.k, vals)[0], Status.COMPLETED)


def mktoken(v, tag):
    if isinstance(v, int):
        return Token(value=v, tag=tag)
    return ListToken(value=[mktoken(x, tag) for x in v], tag=tag)


def tokval(t):
    if isinstance(t, ListToken):
        return [tokval(x) for x in t.value]
    return t.value


class GenTransformer(Transformer):
    def __init__(self, name, workflow, fn="add", k=0, nin=1, fail_tag=None, fail_iter=None, delay=0.0):
        super().__init__(name, workflow)
        self.fn, self.k, self.nin, self.fail_tag, self.fail_iter = fn, k, nin, fail_tag, fail_iter
        self.delay = delay      # seconds slept before a token is transformed: controls the ARRIVAL order downstream

    @classmethod
    async def _load(cls, row: MutableMapping[str, Any], loading_context: DatabaseLoadingContext):
        p = row["params"]
        return cls(name=row["name"], workflow=await loading_context.load_workflow(row["workflow"]),
                   fn=p["fn"], k=p["k"], nin=p["nin"], fail_tag=p["fail_tag"], fail_iter=p.get("fail_iter"),
                   delay=p.get("delay", 0.0))

    async def _save_additional_params(self, database: Database) -> MutableMapping[str, Any]:
        return cast(dict, await super()._save_additional_params(database)) | {
            "fn": self.fn, "k": self.k, "nin": self.nin, "fail_tag": self.fail_tag, "fail_iter": self.fail_iter,
            "delay": self.delay}

    async def transform(self, inputs):
        tag = get_tag(inputs.values())
        if self.delay:
            await asyncio.sleep(self.delay)
        if self.fail_tag is not None and tag == self.fail_tag:
            raise WorkflowExecutionException(f"injected failure in {self.name} on tag {tag}")
        if self.fail_iter is not None and tag.split(".")[-1] == str(self.fail_iter):
            raise WorkflowExecutionException(f"injected failure in {self.name} in iteration {self.fail_iter} (tag {tag})")
        vals = [tokval(inputs[f"i{j}"]) for j in range(self.nin)]
        outs = apply_fn(self.fn, self.k, vals)
        return {f"o{j}": mktoken(v, tag) for j, v in enumerate(outs)}


class GenConditionalStep(ConditionalStep):
    def __init__(self, name, workflow, m=2, r=0, mode="drop"):
        super().__init__(name, workflow)
        self.m, self.r, self.mode = m, r, mode

    @classmethod
    async def _load(cls, row: MutableMapping[str, Any], loading_context: DatabaseLoadingContext):
        p = row["params"]
        return cls(name=row["name"], workflow=await loading_context.load_workflow(row["workflow"]),
                   m=p["m"], r=p["r"], mode=p["mode"])

    async def _save_additional_params(self, database: Database) -> MutableMapping[str, Any]:
        return cast(dict, await super()._save_additional_params(database)) | {"m": self.m, "r": self.r, "mode": self.mode}

    async def _eval(self, inputs):
        return pred_holds(self.m, self.r, tokval(inputs["i0"]))

    async def _emit(self, inputs, zero):
        for j in range(len(self.input_ports)):
            tok = inputs[f"i{j}"]
            new = mktoken(deep_map(tokval(tok), lambda x: 0), tok.tag) if zero else tok.update(tok.value)
            port = self.get_output_port(f"o{j}")
            port.put(await self._persist_token(token=new, port=port, input_token_ids=get_entity_ids(inputs.values())))

    async def _on_true(self, inputs):
        await self._emit(inputs, False)

    async def _on_false(self, inputs):
        if self.mode == "zero":
            await self._emit(inputs, True)
