/-! # Model of `QueueManagerConnector.run` / `undeploy` (streamflow/deployment/connector/queue_manager.py)

A labelled transition system. One process per `run(job_name=…)` call, one `undeploy` process, and the
batch system itself (jobs only ever *leave* the queue). An action is the code between two suspension
points of the coroutine (or one externally visible effect of the batch system):

```
job_id = await self._run_batch_command(...)        -- submit j   (effect of sbatch + its answer + the next line)
self._scheduled_jobs[job_id] = location            --   "
async with self._jobs_cache_lock:                  -- clear j    (needs the lock free)
    self._jobs_cache.clear()
while True:
    async with self._jobs_cache_lock:              -- pollHit j  (cache cell present: no await inside)
        running_jobs = await self._get_running_jobs(location)
                                                   -- pollMiss j (cell absent: take the lock, `squeue -j <scheduled ids>` leaves)
                                                   -- answer j   (the batch system evaluates the query)
                                                   -- pollStore j(cell := answer, release the lock)
    if job_id not in running_jobs: break
    await asyncio.sleep(self.pollingInterval)
self._scheduled_jobs.pop(job_id)                   -- (part of pollHit / pollStore) KeyError when undeploy emptied the map
out = await self._get_output(job_id, location)     -- fetchOut j
rc = await self._get_returncode(job_id, location)  -- fetchRc j
```
Ids are `Nat`. `res j` is the batch system's final record (output, exit code) of job `j`; `scontrol` shows it
only once the job has left the queue. `Cfg` holds the two facts about the source that the translator
`harness/sfv/translate/queueguards.py` re-reads on every run. -/
namespace SFV.Queue

structure Cfg where
  /-- `run` clears the jobs cache (under the lock) after `_scheduled_jobs[job_id] = location` -/
  clearsCache : Bool
  /-- `undeploy` hands the *already unwrapped* location to `_remove_jobs`, whose `super().run` unwraps it again
      (`get_inner_location` raises on a location that wraps nothing) -/
  passInner : Bool
deriving DecidableEq, Repr

inductive Pc
  | idle | needClear | poll | query | answered | popped
  | gotOut (o : Option Nat)
  | done (o c : Option Nat)
  | failed
deriving DecidableEq, Repr

/-- the run is registered and still waiting for its job -/
def Pc.waiting : Pc → Bool
  | .needClear | .poll | .query | .answered => true
  | _ => false

/-- the run has left the polling loop believing the job finished -/
def Pc.finished : Pc → Bool
  | .popped | .gotOut _ | .done _ _ => true
  | _ => false

inductive UPc
  | idle
  | raised                       -- `get_inner_location` raised: nothing was cancelled
  | cancelling (js : List Nat)   -- snapshot of `_scheduled_jobs` taken, `scancel js` on its way
  | sent (js : List Nat)         -- the batch system has executed `scancel js`
  | finished (js : List Nat)     -- `_scheduled_jobs = {}` done, undeploy returned
deriving DecidableEq, Repr

structure St where
  res : Nat → Nat × Nat
  queue : List Nat
  submitted : List Nat
  scheduled : List Nat
  cache : Option (List Nat × List Nat)   -- (ids reported running, ids the query listed — ghost)
  lock : Option Nat
  asked : List Nat
  answer : List Nat
  pc : Nat → Pc
  upc : UPc

inductive Act
  | submit (j : Nat)
  | clear (j : Nat)
  | pollHit (j : Nat)
  | pollMiss (j : Nat)
  | answer (j : Nat)
  | pollStore (j : Nat)
  | fetchOut (j : Nat)
  | fetchRc (j : Nat)
  | leave (j : Nat)
  | expire
  | undeployStart
  | scancel
  | undeployEnd
deriving DecidableEq, Repr

def init (res : Nat → Nat × Nat) : St :=
  { res := res, queue := [], submitted := [], scheduled := [], cache := none, lock := none,
    asked := [], answer := [], pc := fun _ => .idle, upc := .idle }

def setPc (s : St) (j : Nat) (p : Pc) : Nat → Pc := fun k => if k = j then p else s.pc k

/-- `if job_id not in running_jobs: break` followed by `self._scheduled_jobs.pop(job_id)` -/
def afterPoll (s : St) (j : Nat) (running : List Nat) : St :=
  if j ∈ running then { s with pc := setPc s j .poll }
  else if j ∈ s.scheduled then { s with scheduled := s.scheduled.filter (· ≠ j), pc := setPc s j .popped }
  else { s with pc := setPc s j .failed }

/-- what `scontrol show job j` yields for a field of the final record -/
def scontrol (s : St) (j : Nat) (f : Nat × Nat → Nat) : Option Nat :=
  if j ∈ s.queue then none else some (f (s.res j))

def step (cfg : Cfg) (s : St) : Act → Option St
  | .submit j =>
      if s.pc j = .idle ∧ j ∉ s.submitted then
        some { s with queue := j :: s.queue, submitted := j :: s.submitted, scheduled := j :: s.scheduled,
                      pc := setPc s j .needClear }
      else none
  | .clear j =>
      if s.pc j = .needClear ∧ s.lock = none then
        some { s with cache := if cfg.clearsCache then none else s.cache, pc := setPc s j .poll }
      else none
  | .pollHit j =>
      if s.pc j = .poll ∧ s.lock = none then
        match s.cache with
        | some (r, _) => some (afterPoll s j r)
        | none => none
      else none
  | .pollMiss j =>
      if s.pc j = .poll ∧ s.lock = none ∧ s.cache = none then
        some { s with lock := some j, asked := s.scheduled, pc := setPc s j .query }
      else none
  | .answer j =>
      if s.pc j = .query then
        some { s with answer := s.asked.filter (· ∈ s.queue), pc := setPc s j .answered }
      else none
  | .pollStore j =>
      if s.pc j = .answered then
        some (afterPoll { s with cache := some (s.answer, s.asked), lock := none } j s.answer)
      else none
  | .fetchOut j =>
      if s.pc j = .popped then some { s with pc := setPc s j (.gotOut (scontrol s j Prod.fst)) } else none
  | .fetchRc j =>
      match s.pc j with
      | .gotOut o => some { s with pc := setPc s j (.done o (scontrol s j Prod.snd)) }
      | _ => none
  | .leave j => if j ∈ s.queue then some { s with queue := s.queue.filter (· ≠ j) } else none
  | .expire => some { s with cache := none }
  | .undeployStart =>
      if s.upc = .idle then
        if s.scheduled = [] then some { s with upc := .finished [] }
        else if cfg.passInner then some { s with upc := .raised }
        else some { s with upc := .cancelling s.scheduled }
      else none
  | .scancel =>
      match s.upc with
      | .cancelling js => some { s with queue := s.queue.filter (· ∉ js), upc := .sent js }
      | _ => none
  | .undeployEnd =>
      match s.upc with
      | .sent js => some { s with scheduled := [], upc := .finished js }
      | _ => none

inductive Reachable (cfg : Cfg) (res : Nat → Nat × Nat) : St → Prop
  | init : Reachable cfg res (init res)
  | step {s a s'} : Reachable cfg res s → step cfg s a = some s' → Reachable cfg res s'

/-- run a list of actions; `none` as soon as one is not enabled -/
def runActs (cfg : Cfg) (s : St) : List Act → Option St
  | [] => some s
  | a :: as => match step cfg s a with
    | some s' => runActs cfg s' as
    | none => none

theorem reachable_runActs {cfg res s} (h : Reachable cfg res s) :
    ∀ (as : List Act) {s'}, runActs cfg s as = some s' → Reachable cfg res s' := by
  intro as
  induction as generalizing s with
  | nil => intro s' h'; simp [runActs] at h'; exact h' ▸ h
  | cons a as ih =>
    intro s' h'
    simp only [runActs] at h'
    split at h'
    · rename_i s1 hs1; exact ih (Reachable.step h hs1) h'
    · cases h'

/-! ### Slurm job states (for the `squeue -t` filter) -/

/-- the job states of Slurm's documented life cycle that the model distinguishes -/
inductive JobState
  | pending | configuring | running | suspended | completing | resizing | revoked | specialExit
  | completed | failed | cancelled | timeout | nodeFail | outOfMemory | bootFail | deadline | preempted
deriving DecidableEq, Repr

/-- a job in a terminal state has left the queue for good -/
def JobState.terminal : JobState → Bool
  | .completed | .failed | .cancelled | .timeout | .nodeFail | .outOfMemory | .bootFail | .deadline | .preempted => true
  | _ => false

def JobState.name : JobState → String
  | .pending => "PENDING" | .configuring => "CONFIGURING" | .running => "RUNNING" | .suspended => "SUSPENDED"
  | .completing => "COMPLETING" | .resizing => "RESIZING" | .revoked => "REVOKED" | .specialExit => "SPECIAL_EXIT"
  | .completed => "COMPLETED" | .failed => "FAILED" | .cancelled => "CANCELLED" | .timeout => "TIMEOUT"
  | .nodeFail => "NODE_FAIL" | .outOfMemory => "OUT_OF_MEMORY" | .bootFail => "BOOT_FAIL" | .deadline => "DEADLINE"
  | .preempted => "PREEMPTED"

def JobState.all : List JobState :=
  [.pending, .configuring, .running, .suspended, .completing, .resizing, .revoked, .specialExit,
   .completed, .failed, .cancelled, .timeout, .nodeFail, .outOfMemory, .bootFail, .deadline, .preempted]

end SFV.Queue
