"""C02 — dot-product / cartesian-product combinators emit exactly the right combinations, whatever the arrival order."""
from __future__ import annotations

import contextlib
import itertools
import signal

from streamflow.core.workflow import Token, Workflow
from streamflow.workflow.combinator import CartesianProductCombinator, DotProductCombinator

from sfv.framework import Ctx, Property
from sfv.rt import loop as sfloop
from sfv.rt import sfctx
from sfv.translate import combguards, tagguards

DRIVER = "Drivers/C02.lean"
COMPS = [0, 1, 2, 9, 10, 11]
KEY_DESC = "dot:port-with-tag-and-own-descendant:order-dependent"
KEY_MIXED = "cart:ports-with-mixed-tag-depths:order-dependent"


# ------------------------------------------------------------------------------------------------
# watchdog for synchronous code (combine() never really suspends, so asyncio time-outs cannot fire)
# ------------------------------------------------------------------------------------------------
class Hang(Exception):
    pass


@contextlib.contextmanager
def alarm(seconds: int):
    def onalarm(signum, frame):
        raise Hang()

    old = signal.signal(signal.SIGALRM, onalarm)
    signal.alarm(seconds)
    try:
        yield
    finally:
        signal.alarm(0)
        signal.signal(signal.SIGALRM, old)


# ------------------------------------------------------------------------------------------------
# tags
# ------------------------------------------------------------------------------------------------
def comps(tag: str) -> tuple[int, ...]:
    return tuple(int(c) for c in tag.split("."))


def is_prefix(a: str, b: str) -> bool:
    ca, cb = comps(a), comps(b)
    return cb[: len(ca)] == ca


# ------------------------------------------------------------------------------------------------
# the REAL combinators
# ------------------------------------------------------------------------------------------------
def build(wf: Workflow, shape: dict):
    """shape: {"kind": "dot", "P": n} | {"kind": "cart", "depth": d, "P": n} |
    {"kind": "nest", "items": [2, ["d", [0, 1]], ["c", 1, [3, 4]]]} (outer dot product)"""
    if shape["kind"] == "dot":
        c = DotProductCombinator(name="c", workflow=wf)
        for p in range(shape["P"]):
            c.add_item(f"p{p}")
        return c
    if shape["kind"] == "cart":
        c = CartesianProductCombinator(name="c", workflow=wf, depth=shape["depth"])
        for p in range(shape["P"]):
            c.add_item(f"p{p}")
        return c
    outer = DotProductCombinator(name="outer", workflow=wf)
    for i, it in enumerate(shape["items"]):
        if isinstance(it, int):
            outer.add_item(f"p{it}")
        else:
            if it[0] == "d":
                inner = DotProductCombinator(name=f"c{1000 + i}", workflow=wf)
                ports = it[1]
            else:
                inner = CartesianProductCombinator(name=f"c{1000 + i}", workflow=wf, depth=it[1])
                ports = it[2]
            for p in ports:
                inner.add_item(f"p{p}")
            outer.add_combinator(inner, {f"p{p}" for p in ports})
    return outer


async def run_real(wf: Workflow, shape: dict, events: list) -> tuple[list, str | None]:
    """feed the events in order; returns (emissions, exception name). An emission is the schema in dict order:
    [(port, tag, value), …]"""
    c = build(wf, shape)
    out = []
    try:
        for p, tag, val in events:
            async for schema in c.combine(f"p{p}", Token(value=val, tag=tag)):
                out.append([(int(k[1:]), s["token"].tag, s["token"].value) for k, s in schema.items()])
    except Hang:
        raise
    except Exception as e:  # noqa: BLE001
        return out, type(e).__name__
    return out, None


def canon(out: list) -> list:
    """multiset of combinations: each sorted by port, the whole sorted"""
    return sorted(tuple(sorted(e)) for e in out)


def render(out: list, err: str | None) -> str:
    body = ";".join(",".join(f"{p}:{t}:{v}" for p, t, v in e) for e in out)
    return (body if (body or err) else "-") + (f"!{err}" if err else "")


def line_of(shape: dict, events: list) -> str:
    evs = " ".join(f"{p}:{t}:{v}" for p, t, v in events)
    if shape["kind"] == "dot":
        return f"dot {shape['P']} {evs}".rstrip()
    if shape["kind"] == "cart":
        return f"cart {shape['depth']} {shape['P']} {evs}".rstrip()
    items = []
    for it in shape["items"]:
        if isinstance(it, int):
            items.append(str(it))
        elif it[0] == "d":
            items.append("d:" + ",".join(map(str, it[1])))
        else:
            items.append(f"c{it[1]}:" + ",".join(map(str, it[2])))
    return f"nest {'/'.join(items)} {evs}".rstrip()


# ------------------------------------------------------------------------------------------------
# the property's own oracle
# ------------------------------------------------------------------------------------------------
def wf_dot(ports: list[int], S: list) -> bool:
    """per port: tags pairwise distinct and a prefix antichain"""
    for q in ports:
        tags = [t for p, t, _ in S if p == q]
        for i, a in enumerate(tags):
            for j, b in enumerate(tags):
                if i != j and is_prefix(a, b):
                    return False
    return True


def has_dup(ports: list[int], S: list) -> bool:
    for q in ports:
        tags = [t for p, t, _ in S if p == q]
        if len(set(tags)) != len(tags):
            return True
    return False


def wf_cart(ports: list[int], S: list) -> bool:
    """per port distinct tags; every token has the same depth"""
    return not has_dup(ports, S) and len({len(comps(t)) for _, t, _ in S}) <= 1


def spec_dot(ports: list[int], S: list) -> list:
    """for every received tag k such that every port has exactly one received token whose tag is a prefix of k:
    those tokens, all retagged k"""
    out = []
    for k in sorted({t for _, t, _ in S}):
        combo = []
        for q in ports:
            cands = [(p, t, v) for p, t, v in S if p == q and is_prefix(t, k)]
            if len(cands) != 1:
                break
            combo.append((q, k, cands[0][2]))
        else:
            out.append(tuple(combo))
    return sorted(out)


def spec_cart(depth: int, ports: list[int], S: list) -> list:
    """per key tag[:-depth]: the full cross product; member t is retagged t.tag[:-1] + [last component of every member]"""
    out = []
    keys = sorted({comps(t)[: len(comps(t)) - depth] for _, t, _ in S})
    for k in keys:
        per_port = [[(p, t, v) for p, t, v in S if p == q and comps(t)[: len(comps(t)) - depth] == k] for q in ports]
        for combo in itertools.product(*per_port):
            suffix = [comps(t)[-1] for _, t, _ in combo]
            out.append(tuple((p, ".".join(map(str, list(comps(t)[:-1]) + suffix)), v) for p, t, v in combo))
    return sorted(out)


def nest_ports(shape: dict) -> list[int]:
    ps = []
    for it in shape["items"]:
        ps += [it] if isinstance(it, int) else list(it[-1])
    return ps


def spec_nest(shape: dict, S: list):
    """composition: the inner combinators' specified emissions are the streams of virtual ports of the outer dot product.
    Returns None when the stream is outside the well-formedness domain of some level."""
    streams = []  # per outer item: list of (tag, members) where members = tuple of (port, value)
    for it in shape["items"]:
        if isinstance(it, int):
            streams.append([(t, ((p, v),)) for p, t, v in S if p == it])
        else:
            ports = list(it[-1])
            sub = [e for e in S if e[0] in ports]
            if it[0] == "d":
                if not wf_dot(ports, sub):
                    return None
                inner = spec_dot(ports, sub)
            else:
                if not wf_cart(ports, sub):
                    return None
                inner = spec_cart(it[1], ports, sub)
            # a schema is filed under get_tag(members) = its deepest tag; every member of a dot schema has the same tag,
            # the members of a cartesian schema have tags of equal length: the first one is taken
            streams.append([(combo[0][1], tuple((p, v) for p, _, v in combo)) for combo in inner])
    flat = [(i, t, m) for i, st in enumerate(streams) for t, m in st]
    idx = list(range(len(streams)))
    if not wf_dot(idx, flat):
        return None
    out = []
    for combo in spec_dot(idx, flat):
        k = combo[0][1]
        out.append(tuple(sorted((p, k, v) for _, _, members in combo for p, v in members)))
    return sorted(out)


# ------------------------------------------------------------------------------------------------
# generators
# ------------------------------------------------------------------------------------------------
def tag_pool(rng, maxdepth: int = 3) -> list[str]:
    """a small random tag tree rooted at 0 (so that prefixes are frequent)"""
    l2 = rng.sample(COMPS, rng.randint(1, 3))
    pool = ["0"] + [f"0.{a}" for a in l2]
    if maxdepth >= 3:
        for a in l2:
            for b in rng.sample(COMPS, rng.randint(0, 2)):
                pool.append(f"0.{a}.{b}")
    return pool


def gen_dot_stream(rng, P: int, wellformed: bool, ports=None) -> list:
    pool = tag_pool(rng)
    ports = list(range(P)) if ports is None else ports
    S, val = [], 1
    for q in ports:
        k = rng.randint(0, 4)
        mine: list[str] = []
        profile = rng.choice(["any", "any", "shallow", "deep"])
        cand = [t for t in pool if profile == "any" or (profile == "shallow") == (t.count(".") <= 1)] or pool
        for _ in range(k):
            t = rng.choice(cand)
            if wellformed and any(is_prefix(t, u) or is_prefix(u, t) for u in mine):
                continue
            mine.append(t)
        for t in mine:
            S.append((q, t, 100 * (q + 1) + val))
            val += 1
    return S


def gen_cart_stream(rng, P: int, depth: int, wellformed: bool, ports=None) -> list:
    ports = list(range(P)) if ports is None else ports
    S, val = [], 1
    L = rng.choice([depth, depth + 1, depth + 1, depth + 2]) if wellformed else None
    heads = [[0], [0, rng.choice(COMPS)], [0, rng.choice(COMPS)]]
    for q in ports:
        k = rng.randint(0, 4 if P == 2 else 3)
        mine: list[str] = []
        for _ in range(k):
            ln = L if wellformed else rng.randint(1, 3)
            base = [0] if ln == 1 else list(rng.choice([h for h in heads if len(h) <= ln]))
            while len(base) < ln:
                base.append(rng.choice(COMPS))
            t = ".".join(map(str, base[:ln]))
            if wellformed and t in mine:
                continue
            mine.append(t)
        for t in mine:
            S.append((q, t, 100 * (q + 1) + val))
            val += 1
    return S


def orders(rng, n: int, limit: int) -> list[tuple[int, ...]]:
    """all permutations when n <= 6 (and they fit the limit), else a sample; the identity always first"""
    ident = tuple(range(n))
    if n <= 6:
        perms = list(itertools.permutations(range(n)))
        if len(perms) <= limit:
            return perms
        rest = rng.sample(perms[1:], limit - 1)
        return [ident] + rest
    out, seen = [ident], {ident}
    while len(out) < limit:
        p = list(range(n))
        rng.shuffle(p)
        if tuple(p) not in seen:
            seen.add(tuple(p))
            out.append(tuple(p))
    return out


CORPUS = [
    # (shape, stream) — boundary cases that run first
    ({"kind": "dot", "P": 3}, [(0, "0", 100), (1, "0.1", 200), (2, "0.1.0", 300)]),          # the 3-port broadcast example
    ({"kind": "dot", "P": 2}, [(0, "0", 100), (1, "0", 7), (0, "0.0", 5)]),                   # the Lean witness (known finding)
    ({"kind": "dot", "P": 2}, [(0, "0", 1), (1, "0.10", 2), (1, "0.9", 3), (1, "0.1", 4)]),   # component >= 10
    ({"kind": "dot", "P": 2}, [(0, "0.10", 1), (1, "0.10.11", 2), (1, "0.1.0", 3), (0, "0.1", 4)]),
    ({"kind": "dot", "P": 2}, []),
    ({"kind": "dot", "P": 2}, [(0, "0", 1)]),
    ({"kind": "dot", "P": 2}, [(0, "0", 1), (0, "0", 2), (1, "0", 3), (1, "0", 4)]),          # duplicate tags (outside the quantifier)
    ({"kind": "dot", "P": 2}, [(0, "0.0", 0), (1, "0.10", 1), (0, "0.0", 2), (0, "0.0", 3), (1, "0", 4), (0, "0.10", 5), (1, "0.0.0", 6)]),
    ({"kind": "cart", "depth": 1, "P": 2}, [(0, "0.0", 1), (0, "0.1", 2), (1, "0.0", 3), (1, "0.1", 4)]),
    ({"kind": "cart", "depth": 1, "P": 2}, [(0, "0.10", 1), (0, "0.9", 2), (1, "0.11", 3)]),
    ({"kind": "cart", "depth": 2, "P": 2}, [(0, "0.1.2", 1), (0, "0.3.4", 2), (1, "0.5.6", 3)]),
    ({"kind": "cart", "depth": 1, "P": 2}, [(0, "0", 1), (1, "0", 2)]),                          # key is the empty string
    ({"kind": "cart", "depth": 1, "P": 2}, [(0, "0.0", 1), (1, "0.0", 3), (0, "0.0", 9)]),       # duplicate tag on a port
    ({"kind": "cart", "depth": 1, "P": 2}, [(0, "0.0", 1), (1, "0.0.1", 2), (1, "0.0.2", 3), (0, "0.1", 4)]),  # mixed depths
    ({"kind": "cart", "depth": 1, "P": 3}, [(0, "0.0", 1), (1, "0.1", 2)]),
    ({"kind": "nest", "items": [["c", 1, [0, 1]], 2]}, [(0, "0.0", 1), (0, "0.1", 2), (1, "0.0", 3), (1, "0.1", 4), (2, "0", 5)]),
    ({"kind": "nest", "items": [["d", [0, 1]], 2]}, [(0, "0.0", 1), (0, "0.1", 2), (1, "0.0", 3), (1, "0.1", 4), (2, "0", 5)]),
]


class C02(Property):
    pid = "C02"
    title = "Combinators emit exactly the right combinations, whatever the arrival order"
    lean_targets = ["SFV.Props.C02", "SFV.Model.Comb", "SFV.Model.Proto", "SFV.Gen.CombGuards"]
    props_files = ["SFV/Props/C02.lean"]
    drivers = [DRIVER]
    translators = [tagguards.generate, combguards.generate]
    rule = ("streams: 2-3 ports, 0..4 tokens per port, tags of depth 1..3 rooted at 0 with components from {0,1,2,9,10,11} drawn from a "
            "small random tag tree (parent/child mixes across ports); flat dot, flat cartesian (depth 1-2), outer dot over an inner "
            "dot/cartesian plus plain ports; well-formed streams (per port distinct tags forming a prefix antichain; same depth for "
            "cartesian) and non-well-formed streams (tag + own descendant on a port, duplicate tags, mixed depths). Every stream is fed "
            "to the REAL combinator in all permutations when <= 6 tokens (else a sample): the emitted multiset must equal the spec and "
            "be the same for every order (monitor); the emission *sequence* of a subset of the orders is compared with the Lean "
            "loop-faithful model (driver). Non-trivial = distinct (shape, stream) with at least one emission.")
    trusted_base = [
        "translators harness/sfv/translate/tagguards.py (get_tag comparison) and combguards.py (emission guard, pop side, _is_parent_tag, "
        "cartesian key/suffix slices -> SFV/Gen/CombGuards.lean)",
        "modelled, not verified: dict insertion order, deque append/pop, itertools.product order, `dict |= dict` on disjoint keys, "
        "str.split('.')/join — each exercised by the correspondence check on every run",
        "the lemma tying the loop-faithful model to the closed-form step used by the proofs is stated in SFV/Lemmas/Comb*.lean; where it "
        "is partial the correspondence check is the tie (see design_notes/C02.md)",
    ]
    technique = ("Lean 4 theorems (order independence and exact emitted multiset of the dot product under well-formedness, cartesian "
                 "cross-product invariant, negative witness by kernel evaluation of the loop-faithful model) + ast translator of the guards "
                 "+ differential correspondence of emission sequences on all permutations of small streams")
    level_text = ("grade A: for every number of ports and every well-formed stream the dot product emits, in any arrival order, exactly "
                  "one combination per complete received tag with the unique prefix-tagged token of every port; the cartesian product "
                  "emits exactly the cross product per key with composite tags; the full-strength statement without well-formedness is "
                  "proved false by a witness that reproduces on the real class (known finding)")
    level_note = ("Lean kernel, axioms within {propext, Classical.choice, Quot.sound}; theorems are about the Lean models in SFV/Model/Comb.lean "
                  "(loop-faithful) and SFV/Lemmas/Comb*.lean (closed form); the tie to the Python classes is the translator of the guards plus "
                  "the correspondence check of emission sequences; nested combinators are covered by correspondence and monitor only")
    assumptions = ["tags are dotted decimals rooted at 0; per port the tags are distinct and no tag is a prefix of another (dot), all tags have "
                   "the same depth >= the combinator depth (cartesian); ports of different items are disjoint; combinator depth >= 1"]
    quick_budget_s = 200
    thorough_budget_s = 1500
    min_nontrivial = 50

    # ---- one stream: all orders on the real code, monitor, protocol lines --------------------------------------
    def _stream(self, ctx: Ctx, wf, shape: dict, S: list, kcap: int, ocap: int, batch: list) -> None:
        rng = ctx.rng
        ords = orders(rng, len(S), ocap)
        results = []

        async def go():
            for o in ords:
                results.append(await run_real(wf, shape, [S[i] for i in o]))

        try:
            with alarm(60):
                sfloop.run_controlled(go, ctx.seed, timeout=60)
        except (Hang, TimeoutError):
            ctx.fail(f"{shape['kind']}:hang", f"combine() did not return within 60 s on {shape} {S}",
                     {"shape": shape, "stream": S, "orders": [list(ords[len(results)])] if len(results) < len(ords) else []})
            return
        kind = shape["kind"]
        ports = list(range(shape["P"])) if kind != "nest" else nest_ports(shape)
        if kind == "dot":
            wfok, spec = wf_dot(ports, S), spec_dot(ports, S)
        elif kind == "cart":
            wfok, spec = wf_cart(ports, S), spec_cart(shape["depth"], ports, S)
        else:
            spec = spec_nest(shape, S)
            wfok = spec is not None
        cans = [canon(out) for out, _ in results]
        errs = [e for _, e in results]
        emitted = any(out for out, _ in results)
        bucket = f"{kind}:{'wf' if wfok else 'nonwf'}"
        ctx.case({"shape": shape, "stream": S, "orders": len(ords), "real_first_order": render(*results[0])},
                 (line_of(shape, S),) if emitted else None, bucket)
        ctx.count(f"{kind}:orders", len(ords))
        replay = lambda o: {"shape": shape, "stream": S, "orders": [list(ords[0]), list(o)]}  # noqa: E731
        if wfok:
            for o, c, e in zip(ords, cans, errs):
                if e is not None:
                    ctx.fail(f"{kind}:wf:exception", f"{shape} stream {S} order {list(o)}: combine() raised {e}", replay(o))
                    break
                if c != spec:
                    missing = [x for x in spec if x not in c]
                    extra = [x for x in c if x not in spec]
                    what = "order-dependent" if c != cans[0] else "not-the-specified-combinations"
                    ctx.fail(f"{kind}:wf:{what}",
                             f"{shape} well-formed stream {S} in arrival order {list(o)}: emitted multiset differs from the specification; "
                             f"missing {missing[:4]}, unexpected {extra[:4]}" + (f"; first order emitted {cans[0][:6]}" if c != cans[0] else ""),
                             replay(o))
                    break
        else:
            dup = has_dup(ports, S)
            dep = next((o for o, c, e in zip(ords, cans, errs) if c != cans[0] or e != errs[0]), None)
            if dep is not None:
                ctx.count(f"{kind}:nonwf:order-dependent")
                if dup:
                    ctx.count(f"{kind}:nonwf:duplicate-tags(outside-quantifier)")
                elif kind == "dot":
                    i = ords.index(dep)
                    ctx.fail(KEY_DESC, f"dot product over {shape['P']} ports, stream {S} (a port carries a tag and a descendant of it): arrival "
                                       f"order {list(ords[0])} emits {cans[0]}, order {list(dep)} emits {cans[i]}", replay(dep))
                elif kind == "cart":
                    i = ords.index(dep)
                    ctx.fail(KEY_MIXED, f"cartesian product depth {shape['depth']} over {shape['P']} ports, stream {S} (tokens of different depths): "
                                        f"arrival order {list(ords[0])} emits {cans[0]}, order {list(dep)} emits {cans[i]}", replay(dep))
        # correspondence: emission sequences of a subset of the orders
        pick = list(range(len(ords))) if len(ords) <= kcap else [0] + rng.sample(range(1, len(ords)), kcap - 1)
        for i in pick:
            evs = [S[j] for j in ords[i]]
            batch.append((line_of(shape, evs), render(*results[i]), shape, S, ords[i]))

    def _flush(self, ctx: Ctx, batch: list) -> None:
        if not batch:
            return
        got = ctx.lean(DRIVER, [b[0] for b in batch])
        for g, (line, exp, shape, S, o) in zip(got, batch):
            if g != exp:
                ctx.disagree(f"model vs {shape['kind']} combinator", f"`{line}`: code emits {exp!r}, Lean model {g!r}",
                             {"shape": shape, "stream": S, "orders": [list(o)]})
        batch.clear()

    def explore(self, ctx: Ctx) -> None:
        rng = ctx.rng
        wf = Workflow(context=sfctx.make_context(ctx.scratch), config={}, name="w")
        thorough = ctx.tier == "thorough"
        search = ctx.mode == "search"
        ocap = 720 if (thorough or search) else 120
        ocap_big = 200 if (thorough or search) else 30
        kcap = 24 if thorough else 8
        n = {"dot": 260, "dotn": 140, "cart": 160, "cartn": 60, "nest": 120}
        if thorough or search:
            n = {k: v * 6 for k, v in n.items()}
        batch: list = []

        def cap(S):
            return ocap if len(S) <= 6 else ocap_big

        for shape, S in CORPUS:
            self._stream(ctx, wf, shape, S, kcap, cap(S), batch)
            ctx.corpus_replayed += 1
        # the Lean driver must reject what it does not understand
        batch.append(("cart 0 2 0:0.0:1", "bad-op", {"kind": "proto"}, [], ()))
        batch.append(("frob 1 2", "bad-op", {"kind": "proto"}, [], ()))
        plan = (["dot"] * n["dot"] + ["dotn"] * n["dotn"] + ["cart"] * n["cart"] + ["cartn"] * n["cartn"] + ["nest"] * n["nest"])
        rng.shuffle(plan)
        for what in plan:
            if ctx.out_of_time():
                ctx.extra["incomplete"] = True
                break
            P = rng.choice([2, 2, 3])
            if what in ("dot", "dotn"):
                shape = {"kind": "dot", "P": P}
                S = gen_dot_stream(rng, P, what == "dot")
            elif what in ("cart", "cartn"):
                shape = {"kind": "cart", "depth": rng.choice([1, 1, 2]), "P": P}
                S = gen_cart_stream(rng, P, shape["depth"], what == "cart")
            else:
                inner_ports = [0, 1]
                others = [2] if rng.random() < 0.7 else [2, 3]
                if rng.random() < 0.5:
                    inner = ["d", inner_ports]
                    S = gen_dot_stream(rng, 0, True, ports=inner_ports + others)
                else:
                    inner = ["c", 1, inner_ports]
                    S = gen_cart_stream(rng, 0, 1, True, ports=inner_ports)
                    # outer ports: ancestors of the composite tags (or the composite tags themselves)
                    heads = sorted({".".join(t.split(".")[:k]) for _, t, _ in S for k in range(1, t.count(".") + 1)} | {"0"})
                    for q in others:
                        mine = []
                        for _ in range(rng.randint(0, 2)):
                            t = rng.choice(heads)
                            if not any(is_prefix(t, u) or is_prefix(u, t) for u in mine):
                                mine.append(t)
                        S += [(q, t, 100 * (q + 1) + 50 + i) for i, t in enumerate(mine)]
                items = [inner] + others
                if rng.random() < 0.3:
                    items = others + [inner]
                shape = {"kind": "nest", "items": items}
                if len(S) > 7:
                    S = S[:7]
            self._stream(ctx, wf, shape, S, kcap, cap(S), batch)
            if len(batch) >= 4000:
                self._flush(ctx, batch)
        self._flush(ctx, batch)

    def replay(self, ctx: Ctx, data) -> None:
        r = data.get("replay") or data.get("case") or {}
        if not r and data.get("no_longer_checks"):
            r = next((b.get("case") for b in data["no_longer_checks"] if b.get("case")), {}) or {}
        if "shape" not in r:
            return super().replay(ctx, data)
        shape, S = r["shape"], [tuple(e) for e in r["stream"]]
        wf = Workflow(context=sfctx.make_context(ctx.scratch), config={}, name="w")
        ords = [tuple(o) for o in (r.get("orders") or [list(range(len(S)))])]
        results = []

        async def go():
            for o in ords:
                results.append(await run_real(wf, shape, [S[i] for i in o]))

        with alarm(60):
            sfloop.run_controlled(go, 0, timeout=60)
        lines = [line_of(shape, [S[i] for i in o]) for o in ords]
        model = ctx.lean(DRIVER, lines)
        kind = shape["kind"]
        ports = list(range(shape["P"])) if kind != "nest" else nest_ports(shape)
        if kind == "dot":
            wfok, spec = wf_dot(ports, S), spec_dot(ports, S)
        elif kind == "cart":
            wfok, spec = wf_cart(ports, S), spec_cart(shape["depth"], ports, S)
        else:
            spec = spec_nest(shape, S)
            wfok = spec is not None
        print(f"shape {shape}\nstream {S}\nwell-formed: {wfok}" + (f"\nspecified multiset: {spec}" if wfok else ""))
        for o, (out, err), ln, m in zip(ords, results, lines, model):
            print(f"order {list(o)}: `{ln}`\n   real : {render(out, err)}\n   model: {m}")
            if m != render(out, err):
                ctx.disagree(f"model vs {kind} combinator", f"`{ln}`: code {render(out, err)!r}, model {m!r}", r)
            if wfok and (err is not None or canon(out) != spec):
                ctx.fail(f"{kind}:wf:not-the-specified-combinations", f"order {list(o)} emits {canon(out)}, specified {spec}", r)
        cans = [canon(out) for out, _ in results]
        if not wfok and any(c != cans[0] for c in cans) and not has_dup(ports, S):
            ctx.fail(KEY_DESC if kind == "dot" else KEY_MIXED, f"orders emit different multisets: {cans}", r)


PROPERTY = C02()
