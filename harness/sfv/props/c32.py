"""C32 — remapping CWL file values between directories is lossless (streamflow/cwl/utils.py)."""
from __future__ import annotations

import copy
import os
import posixpath
import random
import re
import urllib.parse

from streamflow.cwl import utils as cu

from sfv.framework import Ctx, Property
from sfv.rt.hexs import hx, unhx
from sfv.translate import remapkeys

DRIVER = "Drivers/C32.lean"
ESC = re.compile(r"%[0-9a-fA-F]{2}")

PLAIN = ["a", "b.txt", "data", "x_1", "out.fastq.gz", "dir", "0", "File", "a.b.c"]
ODD = ["a b", "é", "日本", "a#b", "a?b", "a&b=c", "[x]", "a:b", "~", "a+b", "a'b", 'a"b', "a\\b", " lead", "trail ", "a\tb", "..a", "a..", "...",
       "x:", "100%", "%", "%%", "%zz", "%4", "a%", "😀"]
ESCAPED = ["a%41", "a%20b", "%2e%2e", "a%2Fb", "%C3%A9", "x%e2%82%ac", "%25", "%FF", "%C3", "%E2%82", "a%3Ab", "%F0%9F%98%80", "%ed%a0%80", "%41%zz%42"]
DIRS = ["/old", "/new", "/data/wf 1", "/tmp/é", "/a/b/c", "/o", "/work/run-1/out"]
ODD_DIRS = ["/n:", "/w%41", "/x:/y"]


def gen_name(rng, scope):
    r = rng.random()
    if r < 0.45:
        return rng.choice(PLAIN)
    if r < 0.75:
        return rng.choice(ODD)
    if r < 0.93:
        return rng.choice(ESCAPED)
    return "".join(rng.choice(["a", "%", "4", "1", "é", " ", ":", "C", "3", "A", "9", "."]) for _ in range(rng.randint(1, 6))) or "a"


def clean(name: str) -> bool:
    return name not in ("", ".", "..") and "/" not in name


def gen_rel(rng):
    comps = []
    for _ in range(rng.randint(1, 3)):
        n = gen_name(rng, True)
        comps.append(n if clean(n) else "a")
    return comps


class Gen:
    def __init__(self, rng, old, url_ok=True):
        self.rng, self.old = rng, old
        self.paths = []   # every File/Directory path or location generated (for classification)

    def path(self, as_url=False):
        p = posixpath.join(self.old, *gen_rel(self.rng))
        if as_url:
            p = "file://" + p
        self.paths.append(p)
        return p

    def file(self, depth=0):
        rng = self.rng
        cls = "File" if rng.random() < 0.7 else "Directory"
        f = {"class": cls} if rng.random() < 0.93 else {"type": cls}
        r = rng.random()
        if r < 0.5:
            f["path"] = self.path()
        elif r < 0.75:
            f["location"] = self.path(as_url=True)
        elif r < 0.9:
            f["location"] = self.path(as_url=rng.random() < 0.5)
            f["path"] = self.path()
        else:
            f["location"] = rng.choice(["http://example.org/old/a", "s3://bucket/old/x%20y", "https://h/p?q=/old/a", "ftp://old/a"])
        f["basename"] = rng.choice(PLAIN + ODD[:6])
        if rng.random() < 0.2:
            f["size"] = rng.randint(0, 10**6)
        if depth < 2:
            if cls == "File" and rng.random() < 0.3:
                f["secondaryFiles"] = [self.file(depth + 1) for _ in range(rng.randint(0, 2))]
            if cls == "Directory" and rng.random() < 0.5:
                f["listing"] = [self.file(depth + 1) for _ in range(rng.randint(0, 3))]
        if rng.random() < 0.1:
            f["format"] = "http://edamontology.org/format_1930"
        return f

    def value(self, depth=0):
        rng = self.rng
        r = rng.random()
        if r < 0.4 or depth >= 3:
            x = rng.random()
            if x < 0.55:
                return self.file()
            if x < 0.7:
                return rng.choice(["/old/not-a-file", "plain", "file:///old/str", "", "é%41"])
            if x < 0.85:
                return rng.randint(-5, 10**6)
            return None
        if r < 0.7:
            return [self.value(depth + 1) for _ in range(rng.randint(0, 3))]
        return {rng.choice(["a", "b", "in", "out", "é", "path", "location", "listing"]): self.value(depth + 1)
                for _ in range(rng.randint(0, 3))}


# ---- protocol encoding of values -----------------------------------------------------------------
def enc(v) -> list[str]:
    if v is None:
        return ["N"]
    if isinstance(v, bool):
        return [f"I:{int(v)}"]
    if isinstance(v, int):
        return [f"I:{v}"]
    if isinstance(v, str):
        return ["S:" + hx(v)]
    if isinstance(v, list):
        out = [f"L:{len(v)}"]
        for e in v:
            out += enc(e)
        return out
    if isinstance(v, dict):
        out = [f"O:{len(v)}"]
        for k, e in v.items():
            out.append("K:" + hx(k))
            out += enc(e)
        return out
    raise TypeError(v)


def has_file(v) -> bool:
    if isinstance(v, list):
        return any(has_file(e) for e in v)
    if isinstance(v, dict):
        if v.get("class", v.get("type")) in ("File", "Directory"):
            return True
        return any(has_file(e) for e in v.values())
    return False


def file_strings(v, out):
    """(path/location strings of the File/Directory objects, in traversal order)"""
    if isinstance(v, list):
        for e in v:
            file_strings(e, out)
    elif isinstance(v, dict):
        if v.get("class", v.get("type")) in ("File", "Directory"):
            for k in ("location", "path"):
                if k in v:
                    out.append(v[k])
            for k in ("secondaryFiles", "listing"):
                for e in v.get(k, []):
                    file_strings(e, out)
        else:
            for e in v.values():
                file_strings(e, out)
    return out


def real_remap_path(path, old, new):
    try:
        return cu.remap_path(posixpath, path, old, new)
    except ValueError:
        return None


def real_remap_value(v, old, new):
    try:
        return cu.remap_token_value(posixpath, old, new, copy.deepcopy(v))
    except (ValueError, TypeError):
        return "raises"


def classify(orig: str, back: str, new: str) -> str:
    if ":/" in new + "/":
        return "remap_path:new-dir-contains-colon-slash"
    if ESC.search(new):
        return "remap_path:percent-escape-in-new-dir"
    if orig.startswith("file://") and ESC.search(orig):
        return "remap_path:file-url-escape-not-requoted"
    if not orig.startswith("file://") and ":/" not in orig and ESC.search(orig):
        return "remap_path:percent-escape-unquoted"
    return "remap:roundtrip-other"


class C32(Property):
    pid = "C32"
    title = "Remapping CWL file values between directories is lossless"
    lean_targets = ["SFV.Props.C32", "SFV.Model.Proto"]
    props_files = ["SFV/Props/C32.lean"]
    drivers = [DRIVER]
    translators = [remapkeys.generate]
    rule = ("random nested CWL values (arrays, records, File/Directory objects with path and/or location — plain or file:// —, "
            "secondaryFiles, listing, `type`-keyed File objects, other URL schemes, non-file strings that look like paths) whose "
            "file names are drawn from plain, odd (spaces, unicode, `:#?[]%`), percent-escaped (ASCII, UTF-8 multi-byte, invalid "
            "UTF-8, malformed) and random pools, all under the old directory; old/new directories normalised absolute (a few with "
            "`:` or `%`). Monitor: remap old->new then new->old on the real function must give the original value; non-file "
            "values and other schemes unchanged. Correspondence: remap_token_value, remap_path (also on non-normalised, relative, "
            "outside-old and malformed paths), urllib.parse.unquote and urlsplit().scheme against the Lean model. "
            "Non-trivial = distinct value containing a File/Directory object, or a path with an odd/escaped name.")
    trusted_base = [
        "translator harness/sfv/translate/remapkeys.py (the keys `class`/`type`, `location`/`path`, `secondaryFiles`/`listing`, the "
        "class names, the `file` scheme literal, `path[7:]` and the `file://` prefix are read from the source into SFV/Gen/RemapKeys.lean)",
        "modelled, not verified (each compared with CPython on every run): urllib.parse.unquote (percent decoding of ASCII runs, "
        "UTF-8 decode with replacement), urlsplit().scheme, posixpath.relpath/abspath/normpath/join, dict order",
        "CWL values are modelled as cons chains (null/str/int/list/object); floats and booleans inside values are not modelled "
        "(remap_token_value never looks at them)",
    ]
    technique = ("Lean 4 theorems over an executable model of remap_path / remap_token_value including unquote, scheme detection, "
                 "relpath and join; negative witnesses by kernel evaluation; differential correspondence on random values and paths")
    level_text = ("grade A-: the full round-trip statement is proved FALSE of the code on three concrete witnesses (percent escapes "
                  "are decoded, file:// results are not re-quoted, a new directory containing `:/` makes the way back a no-op — "
                  "recorded as known findings); the partial round trip is proved for every value whose file names contain neither "
                  "`%` nor `:` under normalised absolute directories, for plain paths and file:// locations, through "
                  "secondaryFiles/listing/arrays/records; non-file values and other schemes proved untouched")
    level_note = ("Lean kernel, axioms within {propext, Classical.choice, Quot.sound}; hand-written model of the function and of the "
                  "stdlib pieces it calls, tied to CPython by the correspondence check; keys and literals come from the source (translator)")
    assumptions = ["path_processor = posixpath (remote, POSIX); File `path`/`location` entries are strings"]
    quick_budget_s = 480          # generous: the machine may be heavily loaded
    min_nontrivial = 50

    def explore(self, ctx: Ctx) -> None:
        rng = ctx.rng
        cwd = os.getcwd()
        lines, expect, meta = [], [], []

        def q(line, exp, what, case):
            lines.append(line)
            expect.append(exp)
            meta.append((what, case))

        # ---- unquote / scheme (stdlib pieces of the model) -------------------------------------
        pool = PLAIN + ODD + ESCAPED + ["", "%41%", "%C3%A9%C3", "é%41é", "%e9", "%80", "%f4%90%80%80", "%f0%90%80%80", "%e0%80%80",
                                       "%ed%9f%bf", "%c0%af", "%c2", "a%C3%A9b%zzc%", "%%41", "%4%41", "%41%4"]
        for _ in range(300 if ctx.tier == "quick" else 3000):
            pool.append("".join(rng.choice(["%", "%", "4", "1", "C", "3", "A", "9", "e", "2", "8", "f", "0", "F", "z", "é", "a", "/"])
                                for _ in range(rng.randint(0, 9))))
        for s in pool:
            q(f"unq {hx(s)}", hx(urllib.parse.unquote(s)), "urllib.parse.unquote", s)
            ctx.case({"op": "unquote", "s": s}, ("unq", s) if "%" in s else None, "unquote")
        for s in ["file:///old/a", "FILE:///x", " file:///x", "fi\tle:///x", "http://x/y", "/old/a:/b", "x:/y", "1x:/y", "a+b-.c:/z", "é:/x",
                  ":/x", "file:/x", "file", "", "\x00file:///x", "a b:/c", "s3://b/k", "C:/Users/x"]:
            q(f"scheme {hx(s)}", hx(urllib.parse.urlsplit(s).scheme), "urlsplit().scheme", s)
            ctx.case({"op": "scheme", "s": s}, None, "scheme")
        # a known finding is reported a few times per key only, so that the failure list keeps room for new ones
        per_key: dict[str, int] = {}

        def fail(key, detail, replay):
            per_key[key] = per_key.get(key, 0) + 1
            if per_key[key] <= 6:
                ctx.fail(key, detail, replay)
            else:
                ctx.count("more:" + key)

        # ---- values ----------------------------------------------------------------------------
        n = 700 if ctx.tier == "quick" else 8000
        if ctx.mode == "search":
            n *= 3
        for i in range(n):
            if ctx.out_of_time():
                ctx.extra["values_run"] = i
                if i < 150:
                    ctx.extra["incomplete"] = True
                break
            old, new = rng.sample(DIRS, 2)
            if rng.random() < 0.06:
                new = rng.choice(ODD_DIRS)
            g = Gen(rng, old)
            v = g.value() if i % 3 else g.file()
            fwd = real_remap_value(v, old, new)
            toks = ",".join(enc(v))
            q(f"rv {hx(cwd)} {hx(old)} {hx(new)} {toks}", "raises" if fwd == "raises" else ",".join(enc(fwd)), "remap_token_value",
              {"value": v, "old": old, "new": new})
            nontriv = has_file(v)
            ctx.case({"op": "remap_token_value", "old": old, "new": new, "value": v if len(toks) < 400 else "(large)"},
                     ("rv", old, new, toks) if nontriv else None, "value:file" if nontriv else "value:nofile")
            if fwd == "raises":
                ctx.fail("remap:raises", f"remap_token_value({old!r}->{new!r}) raises on {v!r}", {"value": v, "old": old, "new": new})
                continue
            # monitor 1: non-file values untouched
            if not nontriv and fwd != v:
                ctx.fail("remap:non-file-changed", f"value without File/Directory changed: {v!r} -> {fwd!r}", {"value": v, "old": old, "new": new})
            # monitor 2: round trip
            back = real_remap_value(fwd, new, old)
            if back != v:
                o_s, b_s = file_strings(v, []), ([] if back == "raises" else file_strings(back, []))
                diff = [(a, b) for a, b in zip(o_s, b_s) if a != b]
                keys = sorted({classify(a, b, new) for a, b in diff}) or ["remap:roundtrip-other"]
                for key in keys:
                    ex = next(((a, b) for a, b in diff if classify(a, b, new) == key), (None, None))
                    fail(key, f"remap {old!r}->{new!r}->{old!r}: {ex[0]!r} came back as {ex[1]!r}", {"value": v, "old": old, "new": new})
            # monitor 4: inside the domain of the partial theorem (no `%`, no `:` anywhere) every file string moves below `new`
            if "%" not in new + old and ":" not in new + old:
                for a, b in zip(file_strings(v, []), file_strings(fwd, [])):
                    body = a[7:] if a.startswith("file://") else a
                    if "%" in a or ":" in body or not body.startswith(old + "/"):
                        continue
                    want = ("file://" if a.startswith("file://") else "") + new + body[len(old):]
                    if b != want:
                        fail("remap:not-moved", f"remap {old!r}->{new!r}: {a!r} became {b!r}, expected {want!r}", {"value": v, "old": old, "new": new})
            # monitor 3: other schemes untouched
            for a, b in zip(file_strings(v, []), file_strings(fwd, [])):
                if ":/" in a and urllib.parse.urlsplit(a).scheme not in ("file",) and a != b:
                    ctx.fail("remap:other-scheme-changed", f"{a!r} -> {b!r}", {"value": v, "old": old, "new": new})
        # ---- path level, including out-of-scope shapes (correspondence only) --------------------
        weird = ["/old", "/old/", "/old/a/", "/old/a//b/./c", "/old/a/../b", "/elsewhere/x", "/", "", "rel/a", "./old/a", "/old/../old/a", "//old/a",
                 "///old/a", "/old/a:/b", "x:/y", "file:///old/a", "file:///old", "file://", "file:///elsewhere/a%20b", "FILE:///old/a",
                 " file:///old/a", "http://x/old/a", "/old/%2e%2e/x", "/old/a%2Fb", "file:///old/%C3%A9", "/old/é", "file:/old/a", "/..", "/old/.."]
        for p in weird:
            for old, new in [("/old", "/new"), ("/old/", "/new/"), ("/", "/new"), ("/old", "/"), ("old", "new"), ("/old", ""), ("", "/new"), ("/old/../o", "/new/./x")]:
                r = real_remap_path(p, old, new)
                q(f"rp {hx(cwd)} {hx(p)} {hx(old)} {hx(new)}", "ValueError" if r is None else hx(r), "remap_path", {"path": p, "old": old, "new": new})
                ctx.case({"op": "remap_path", "path": p, "old": old, "new": new, "real": r}, ("rp", p, old, new), "path:odd-shape")
        for _ in range(600 if ctx.tier == "quick" else 6000):
            old, new = rng.sample(DIRS + ODD_DIRS, 2)
            rel = gen_rel(rng)
            p = posixpath.join(old, *rel)
            if rng.random() < 0.3:
                p = "file://" + p
            r = real_remap_path(p, old, new)
            q(f"rp {hx(cwd)} {hx(p)} {hx(old)} {hx(new)}", "ValueError" if r is None else hx(r), "remap_path", {"path": p, "old": old, "new": new})
            ctx.case({"op": "remap_path", "path": p, "old": old, "new": new, "real": r},
                     ("rp", p, old, new) if any(x not in PLAIN for x in rel) else None, "path:under-old")
        got = ctx.lean(DRIVER, lines)
        nbad = 0
        for gl, e, (what, case) in zip(got, expect, meta):
            if gl != e:
                nbad += 1
                if nbad <= 40:
                    shown = {"code": e, "model": gl}
                    if what in ("remap_path", "urllib.parse.unquote", "urlsplit().scheme"):
                        shown = {"code": "ValueError" if e == "ValueError" else unhx(e), "model": gl if gl in ("ValueError", "bad-op") else unhx(gl)}
                    ctx.disagree("model vs " + what, f"{what} on {case!r}: {shown}", {"what": what, "case": case})

    def replay(self, ctx: Ctx, data) -> None:
        r = data.get("replay") or (data.get("no_longer_checks") or [{}])[0].get("case") or {}
        if "case" in r and isinstance(r["case"], dict):
            r = r["case"]
        if "value" in r:
            v, old, new = r["value"], r["old"], r["new"]
            fwd = real_remap_value(v, old, new)
            back = real_remap_value(fwd, new, old) if fwd != "raises" else "raises"
            model = ctx.lean(DRIVER, [f"rv {hx(os.getcwd())} {hx(old)} {hx(new)} {','.join(enc(v))}"])[0]
            print("value   :", v, "\nforward :", fwd, "\nback    :", back)
            print("model forward == code forward:", model == ("raises" if fwd == "raises" else ",".join(enc(fwd))))
            if back != v:
                ctx.fail("remap:roundtrip", "round trip does not restore the value", r)
        elif "path" in r:
            p, old, new = r["path"], r["old"], r["new"]
            real = real_remap_path(p, old, new)
            model = ctx.lean(DRIVER, [f"rp {hx(os.getcwd())} {hx(p)} {hx(old)} {hx(new)}"])[0]
            print("remap_path:", repr(p), old, "->", new, "\n  code :", repr(real), "\n  model:", model if model == "ValueError" else repr(unhx(model)))
            if ("ValueError" if real is None else hx(real)) != model:
                ctx.disagree("model vs remap_path", "differs", r)
        else:
            super().replay(ctx, data)


PROPERTY = C32()
