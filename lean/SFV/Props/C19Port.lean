import SFV.Model.IWPort
/-! # C19 (port level) — a recovery that synchronises on another recovery's producer port gets the regenerated token
    whether it registers before or after the producer emitted it (no lost hand-over, hence no dead-lock on it). -/
namespace SFV.C19Port
open SFV.IWPort

theorem mem_push {ls p x q y} (h : y ∈ ls q) : y ∈ push ls p x q := by
  unfold push; split <;> simp [h]

theorem mem_push_self (ls : Nat → List Item) (p : Nat) (x : Item) : x ∈ push ls p x p := by simp [push]

theorem mem_exec {ls r t q y} (h : y ∈ ls q) : y ∈ exec ls r t q := by
  unfold exec
  cases r.prop <;> cases r.termn <;> simp [mem_push, h]

theorem exec_delivers (ls : Nat → List Item) (r : Rule) (t : Nat) (hp : r.prop = true) :
    Item.tok t ∈ exec ls r t r.port := by
  unfold exec
  cases h : r.termn <;> simp [hp, mem_push, mem_push_self]

theorem putLoop_mono (t : Nat) (rs : List Rule) : ∀ ls m q y, y ∈ ls q → y ∈ (putLoop t rs ls m).2.1 q := by
  induction rs with
  | nil => intro ls m q y h; simpa [putLoop] using h
  | cons r rs ih =>
    intro ls m q y h
    simp only [putLoop]
    apply ih
    split
    · exact mem_exec h
    · exact h

theorem addLoop_mono (ts : List Nat) : ∀ r ls q y, y ∈ ls q → y ∈ (addLoop ts r ls).2 q := by
  induction ts with
  | nil => intro r ls q y h; simpa [addLoop] using h
  | cons t ts ih =>
    intro r ls q y h
    simp only [addLoop]
    apply ih
    split
    · exact mem_exec h
    · exact h

/-- token lists only grow -/
theorem step_mono (s : St) (op : Op) (q : Nat) (y : Item) (h : y ∈ s.lists q) : y ∈ (step s op).lists q := by
  cases op with
  | put t =>
    simp only [step]
    have := putLoop_mono t s.rules s.lists false q y h
    split
    · exact this
    · exact mem_push this
  | putTerm => exact mem_push h
  | add p tags pr tm => exact addLoop_mono _ _ _ q y h

theorem run_mono (ops : List Op) : ∀ (s : St) (q : Nat) (y : Item), y ∈ s.lists q → y ∈ (run ops s).lists q := by
  induction ops with
  | nil => intro s q y h; exact h
  | cons op ops ih => intro s q y h; exact ih _ q y (step_mono s op q y h)

/-- **early registration**: a propagating rule that only awaits tag `t` receives the token when it is put -/
theorem putLoop_delivers (t : Nat) (rs : List Rule) (r : Rule) (hr : r ∈ rs) (ht : r.tags.erase t = [])
    (hp : r.prop = true) : ∀ ls m, Item.tok t ∈ (putLoop t rs ls m).2.1 r.port := by
  induction rs with
  | nil => simp at hr
  | cons a rs ih =>
    intro ls m
    simp only [putLoop]
    rcases List.mem_cons.mp hr with rfl | hmem
    · apply putLoop_mono
      simp only [ht, List.isEmpty_nil, if_true]
      exact exec_delivers ls { r with tags := [] } t hp
    · exact ih hmem _ _

theorem put_delivers (s : St) (t : Nat) (r : Rule) (hr : r ∈ s.rules) (ht : r.tags.erase t = [])
    (hp : r.prop = true) : Item.tok t ∈ (step s (.put t)).lists r.port := by
  simp only [step]
  have := putLoop_delivers t s.rules r hr ht hp s.lists false
  split
  · exact this
  · exact mem_push this

/-- **late registration**: a propagating rule for `[t]` added after `t` went through the port is served at once -/
theorem addLoop_delivers (ts : List Nat) (t : Nat) (hin : t ∈ ts) :
    ∀ (r : Rule) ls, r.prop = true → (r.tags = [t] ∨ r.tags = []) → Item.tok t ∈ (addLoop ts r ls).2 r.port := by
  induction ts with
  | nil => simp at hin
  | cons a ts ih =>
    intro r ls hp htags
    simp only [addLoop]
    by_cases hat : a = t
    · subst hat
      have he : r.tags.erase a = [] := by rcases htags with h | h <;> simp [h]
      apply addLoop_mono
      simp only [he, List.isEmpty_nil, if_true]
      exact exec_delivers ls { r with tags := [] } a hp
    · have hin' : t ∈ ts := by
        rcases List.mem_cons.mp hin with h | h
        · exact absurd h.symm hat
        · exact h
      have he : r.tags.erase a = r.tags := by
        rcases htags with h | h
        · rw [h]; simp [List.erase_cons]
          intro h'; exact absurd h'.symm hat
        · simp [h]
      have := ih hin' { r with tags := r.tags.erase a } (if ({ r with tags := r.tags.erase a } : Rule).tags.isEmpty then
        exec ls { r with tags := r.tags.erase a } a else ls) hp (by simpa [he] using htags)
      simpa using this

theorem mem_tagsOf {l : List Item} {t : Nat} (h : Item.tok t ∈ l) : t ∈ tagsOf l := by
  induction l with
  | nil => simp at h
  | cons x l ih =>
    cases x with
    | tok u =>
      simp only [tagsOf]
      rcases List.mem_cons.mp h with h | h
      · cases h; simp
      · exact List.mem_cons_of_mem _ (ih h)
    | term =>
      simp only [tagsOf]
      rcases List.mem_cons.mp h with h | h
      · cases h
      · exact ih h

theorem add_delivers (s : St) (t w : Nat) (tm : Bool) (h : Item.tok t ∈ s.lists 0) :
    Item.tok t ∈ (step s (.add w [t] true tm)).lists w := by
  simp only [step]
  exact addLoop_delivers _ t (mem_tagsOf h) { port := w, tags := [t], prop := true, termn := tm } s.lists rfl (Or.inl rfl)

/-- when `put` ends with `matched_self`, a propagating self rule has already stored the token in the port -/
theorem putLoop_matched (t : Nat) (rs : List Rule) (hself : ∀ r ∈ rs, r.port = 0 → r.prop = true) :
    ∀ ls m, (putLoop t rs ls m).2.2 = true → m = true ∨ Item.tok t ∈ (putLoop t rs ls m).2.1 0 := by
  induction rs with
  | nil => intro ls m h; exact Or.inl (by simpa [putLoop] using h)
  | cons r rs ih =>
    intro ls m h
    simp only [putLoop] at h ⊢
    have hs' : ∀ r' ∈ rs, r'.port = 0 → r'.prop = true := fun r' hr' => hself r' (List.mem_cons_of_mem _ hr')
    rcases ih hs' _ _ h with hm | hin
    · by_cases he : (r.tags.erase t).isEmpty = true
      · simp only [he, if_true, Bool.or_eq_true, beq_iff_eq] at hm
        rcases hm with hm | hport
        · exact Or.inl hm
        · right
          apply putLoop_mono
          simp only [he, if_true]
          have := exec_delivers ls { r with tags := r.tags.erase t } t (hself r (List.mem_cons_self ..) hport)
          simpa [hport] using this
      · simp only [he] at hm
        exact Or.inl (by simpa using hm)
    · exact Or.inr hin

/-- after `put t` the token is in the producer port's own list (unless a non-propagating self rule swallowed it) -/
theorem put_records (s : St) (t : Nat) (hself : ∀ r ∈ s.rules, r.port = 0 → r.prop = true) :
    Item.tok t ∈ (step s (.put t)).lists 0 := by
  simp only [step]
  split
  · rename_i hm
    rcases putLoop_matched t s.rules hself s.lists false hm with h | h
    · cases h
    · exact h
  · exact mem_push_self _ _ _

theorem run_append (a b : List Op) (s : St) : run (a ++ b) s = run b (run a s) := by
  simp [run, List.foldl_append]

/-- **C19, hand-over to a late recovery.** From any state whose self rules propagate, once the producer has put the
    regenerated token `t`, a recovery that registers `[t]` *afterwards* — after any further operations `mid`,
    including the port's termination — finds the token in its port `w`, and keeps it whatever happens later. -/
theorem late_registration_served (s : St) (hself : ∀ r ∈ s.rules, r.port = 0 → r.prop = true)
    (t w : Nat) (tm : Bool) (mid post : List Op) :
    Item.tok t ∈ (run ([.put t] ++ mid ++ [.add w [t] true tm] ++ post) s).lists w := by
  rw [run_append, run_append, run_append]
  apply run_mono
  have h1 : Item.tok t ∈ (run [.put t] s).lists 0 := put_records s t hself
  have h2 := run_mono mid _ 0 _ h1
  exact add_delivers _ t w tm h2

/-- **C19, hand-over to an early recovery (one step).** A propagating rule that only awaits `t` is served by `put t`. -/
theorem early_registration_served (s : St) (t : Nat) (r : Rule) (hr : r ∈ s.rules) (ht : r.tags = [t] ∨ r.tags = [])
    (hp : r.prop = true) (post : List Op) : Item.tok t ∈ (run ([.put t] ++ post) s).lists r.port := by
  rw [run_append]
  apply run_mono
  exact put_delivers s t r hr (by rcases ht with h | h <;> simp [h]) hp

/-- the premises are met by a real history: producer puts `7`, terminates, then recovery `2` registers -/
example : Item.tok 7 ∈ (run ([.put 7] ++ [.putTerm] ++ [.add 2 [7] true false] ++ []) St.init).lists 2 :=
  late_registration_served St.init (by simp [St.init]) 7 2 false [.putTerm] []
example : (run [.put 7, .putTerm, .add 2 [7] true false] St.init).lists 2 = [.tok 7] := by decide

/-- the rule awaits nothing but `t` -/
def Awaits (t : Nat) (r : Rule) : Prop := r.tags = [t] ∨ r.tags = []

theorem awaits_erase {t : Nat} {r : Rule} (u : Nat) (h : Awaits t r) : Awaits t { r with tags := r.tags.erase u } := by
  rcases h with h | h
  · by_cases hu : t = u
    · right; simp [h, hu]
    · left; simp [h, hu]
  · right; simp [h]

theorem putLoop_rules (u : Nat) (rs : List Rule) : ∀ ls m,
    (putLoop u rs ls m).1 = rs.map (fun r => { r with tags := r.tags.erase u }) := by
  induction rs with
  | nil => intro ls m; rfl
  | cons r rs ih => intro ls m; simp only [putLoop, List.map_cons, ih]

theorem addLoop_rule (t : Nat) (ts : List Nat) : ∀ (r : Rule) ls,
    (addLoop ts r ls).1.port = r.port ∧ (addLoop ts r ls).1.prop = r.prop ∧ (Awaits t r → Awaits t (addLoop ts r ls).1) := by
  induction ts with
  | nil => intro r ls; exact ⟨rfl, rfl, id⟩
  | cons a ts ih =>
    intro r ls
    simp only [addLoop]
    obtain ⟨h1, h2, h3⟩ := ih { r with tags := r.tags.erase a }
      (if ({ r with tags := r.tags.erase a } : Rule).tags.isEmpty then exec ls { r with tags := r.tags.erase a } a else ls)
    exact ⟨h1, h2, fun h => h3 (awaits_erase a h)⟩

/-- a propagating rule for port `w` that awaits nothing but `t` is registered -/
def Waiting (t w : Nat) (s : St) : Prop := ∃ r ∈ s.rules, r.port = w ∧ r.prop = true ∧ Awaits t r

theorem waiting_step (t w : Nat) (s : St) (op : Op) (h : Waiting t w s) : Waiting t w (step s op) := by
  obtain ⟨r, hr, hw, hp, ha⟩ := h
  cases op with
  | put u =>
    refine ⟨{ r with tags := r.tags.erase u }, ?_, hw, hp, awaits_erase u ha⟩
    simp only [step, putLoop_rules]
    exact List.mem_map.mpr ⟨r, hr, rfl⟩
  | putTerm => exact ⟨r, hr, hw, hp, ha⟩
  | add p tags pr tm => exact ⟨r, by simp only [step]; exact List.mem_append_left _ hr, hw, hp, ha⟩

theorem waiting_run (t w : Nat) (ops : List Op) : ∀ s, Waiting t w s → Waiting t w (run ops s) := by
  induction ops with
  | nil => intro s h; exact h
  | cons op ops ih => intro s h; exact ih _ (waiting_step t w s op h)

theorem waiting_after_add (t w : Nat) (tm : Bool) (s : St) : Waiting t w (step s (.add w [t] true tm)) := by
  obtain ⟨h1, h2, h3⟩ := addLoop_rule t (tagsOf (s.lists 0)) { port := w, tags := [t], prop := true, termn := tm } s.lists
  exact ⟨_, by simp only [step]; exact List.mem_append_right _ (List.mem_singleton.mpr rfl), h1, h2, h3 (Or.inl rfl)⟩

/-- **C19, hand-over to an early recovery, any history.** From *any* state, a recovery that registers `[t]` on the
    producer port and then waits through arbitrary further operations `mid` (other tokens, other registrations, even a
    termination token) receives `t` as soon as the producer puts it, and keeps it through `post`. Together with
    `late_registration_served` the hand-over does not depend on which side comes first. -/
theorem early_registration_served_any (s : St) (t w : Nat) (tm : Bool) (mid post : List Op) :
    Item.tok t ∈ (run ([.add w [t] true tm] ++ mid ++ [.put t] ++ post) s).lists w := by
  rw [run_append, run_append, run_append]
  apply run_mono
  obtain ⟨r, hr, hw, hp, ha⟩ := waiting_run t w mid _ (waiting_after_add t w tm s)
  have := put_delivers _ t r hr (by rcases ha with h | h <;> simp [h]) hp
  rw [hw] at this
  exact this

example : (run [.add 2 [7] true true, .put 3, .put 7, .putTerm] St.init).lists 2 = [.tok 7, .term] := by decide

theorem mem_push_iff {ls p x q y} : y ∈ push ls p x q ↔ y ∈ ls q ∨ (q = p ∧ y = x) := by
  unfold push; split <;> simp_all

theorem tok_exec {ls : Nat → List Item} {r : Rule} {t q x} (h : Item.tok x ∈ exec ls r t q) : Item.tok x ∈ ls q ∨ x = t := by
  unfold exec at h
  cases hp : r.prop <;> cases ht : r.termn <;> simp only [hp, ht, if_true, if_false, Bool.false_eq_true] at h
  · exact Or.inl h
  · rcases mem_push_iff.mp h with h | ⟨_, h⟩
    · exact Or.inl h
    · cases h
  · rcases mem_push_iff.mp h with h | ⟨_, h⟩
    · exact Or.inl h
    · cases h; exact Or.inr rfl
  · rcases mem_push_iff.mp h with h | ⟨_, h⟩
    · rcases mem_push_iff.mp h with h | ⟨_, h⟩
      · exact Or.inl h
      · cases h; exact Or.inr rfl
    · cases h

theorem tok_putLoop (t : Nat) (rs : List Rule) : ∀ ls m q x, Item.tok x ∈ (putLoop t rs ls m).2.1 q → Item.tok x ∈ ls q ∨ x = t := by
  induction rs with
  | nil => intro ls m q x h; exact Or.inl (by simpa [putLoop] using h)
  | cons r rs ih =>
    intro ls m q x h
    simp only [putLoop] at h
    rcases ih _ _ q x h with h | h
    · split at h
      · exact tok_exec h
      · exact Or.inl h
    · exact Or.inr h

theorem tok_addLoop (ts : List Nat) : ∀ r ls q x, Item.tok x ∈ (addLoop ts r ls).2 q → Item.tok x ∈ ls q ∨ x ∈ ts := by
  induction ts with
  | nil => intro r ls q x h; exact Or.inl (by simpa [addLoop] using h)
  | cons a ts ih =>
    intro r ls q x h
    simp only [addLoop] at h
    rcases ih _ _ q x h with h | h
    · split at h
      · rcases tok_exec h with h | h
        · exact Or.inl h
        · exact Or.inr (by simp [h])
      · exact Or.inl h
    · exact Or.inr (List.mem_cons_of_mem _ h)

theorem tagsOf_mem {l : List Item} {t : Nat} (h : t ∈ tagsOf l) : Item.tok t ∈ l := by
  induction l with
  | nil => simp [tagsOf] at h
  | cons x l ih =>
    cases x with
    | tok u =>
      simp only [tagsOf] at h
      rcases List.mem_cons.mp h with h | h
      · subst h; simp
      · exact List.mem_cons_of_mem _ (ih h)
    | term => exact List.mem_cons_of_mem _ (ih (by simpa [tagsOf] using h))

/-- one step creates no token: whatever is in some port afterwards was in some port before, or is the token put -/
theorem step_sound (s : St) (op : Op) (q x : Nat) (h : Item.tok x ∈ (step s op).lists q) :
    (∃ q', Item.tok x ∈ s.lists q') ∨ op = .put x := by
  cases op with
  | put t =>
    simp only [step] at h
    split at h
    · rcases tok_putLoop t s.rules s.lists false q x h with h | h
      · exact Or.inl ⟨q, h⟩
      · exact Or.inr (by rw [h])
    · rcases mem_push_iff.mp h with h | ⟨_, h⟩
      · rcases tok_putLoop t s.rules s.lists false q x h with h | h
        · exact Or.inl ⟨q, h⟩
        · exact Or.inr (by rw [h])
      · cases h; exact Or.inr rfl
  | putTerm =>
    rcases mem_push_iff.mp h with h | ⟨_, h⟩
    · exact Or.inl ⟨q, h⟩
    · cases h
  | add p tags pr tm =>
    rcases tok_addLoop _ _ _ q x h with h | h
    · exact Or.inl ⟨q, h⟩
    · exact Or.inl ⟨0, tagsOf_mem h⟩

/-- **no fabricated hand-over**: every token found in any port of the recovery workflows was put by the producer
    (boundary rules only forward, whatever the order of registrations, puts and terminations). -/
theorem delivered_only_if_put (ops : List Op) : ∀ (s : St) (q x : Nat), Item.tok x ∈ (run ops s).lists q →
    (∃ q', Item.tok x ∈ s.lists q') ∨ Op.put x ∈ ops := by
  induction ops with
  | nil => intro s q x h; exact Or.inl ⟨q, h⟩
  | cons op ops ih =>
    intro s q x h
    rcases ih (step s op) q x h with ⟨q', h'⟩ | h'
    · rcases step_sound s op q' x h' with h'' | h''
      · exact Or.inl h''
      · exact Or.inr (by rw [h'']; exact List.mem_cons_self ..)
    · exact Or.inr (List.mem_cons_of_mem _ h')

theorem delivered_only_if_put_init (ops : List Op) (q x : Nat) (h : Item.tok x ∈ (run ops St.init).lists q) : Op.put x ∈ ops := by
  rcases delivered_only_if_put ops St.init q x h with ⟨q', h'⟩ | h'
  · simp [St.init] at h'
  · exact h'

end SFV.C19Port
