"""./check <id> [--tier quick|thorough] [--replay FILE]"""
from __future__ import annotations

import argparse
import importlib
import os
import sys

from sfv import framework


def main() -> int:
    ap = argparse.ArgumentParser()
    ap.add_argument("pid")
    ap.add_argument("--tier", default=os.environ.get("VERIF_TIER", "quick"), choices=["quick", "thorough"])
    ap.add_argument("--replay")
    ap.add_argument("--seed", type=int, default=None)
    args = ap.parse_args()
    seed = args.seed if args.seed is not None else int(os.environ.get("VERIF_SEED", "0") or 0)
    try:
        mod = importlib.import_module(f"sfv.props.{args.pid.lower()}")
    except ModuleNotFoundError as e:
        if e.name == f"sfv.props.{args.pid.lower()}":
            print(f"no check is built for {args.pid}")
            return 2
        raise
    prop = mod.PROPERTY
    if args.replay:
        return framework.run_replay(prop, args.replay)
    return framework.run_check(prop, args.tier, seed)


if __name__ == "__main__":
    sys.stdout.reconfigure(line_buffering=True)
    rc = main()
    # leave without interpreter teardown: transports of finished subprocesses print "Event loop is closed" from __del__
    # when they are collected after their loop, and a stuck helper thread must not keep a finished check alive
    sys.stdout.flush()
    sys.stderr.flush()
    os._exit(rc)
