import SFV.Model.Transfer
import SFV.Lemmas.TransferReg
import SFV.Lemmas.Sh
import SFV.Gen.CmdTemplates
/-! # C22 — transfers reproduce the source data exactly

Proved here: the destination-path decision logic of the copy routes over abstract trees, and the quoting status of
the shell commands built along the way. The equality of real trees (tar, cp, ln, file contents, modes) and the
registration of the destination are validated differentially by the check (design_notes/C22.md). -/
namespace SFV.C22
open SFV.Transfer SFV.Sh SFV.Gen.Cmd

/-- **remote → remote**: for each of the four rows of `get_remote_to_remote_write_command`, the chosen extraction command
    puts the source tree exactly at the intended destination (`dst/basename(src)` iff `dst` is an existing directory). -/
theorem remote_to_remote_places_tree {α ε} [DecidableEq α] (dst : Path α) (dstIsDir srcIsDir : Bool) (base : α)
    (t : Tree α ε) (hfile : srcIsDir = false → ∃ e, t = [([], e)]) :
    runWrite (remoteWriteCmd dst dstIsDir base srcIsDir) (archive base t) = place (finalDest dst dstIsDir base) t := by
  unfold remoteWriteCmd finalDest
  cases dstIsDir with
  | true => simp [runWrite, archive, place, List.map_map, Function.comp_def]
  | false =>
    have hft : ¬ (false = true) := by decide
    rw [if_neg hft, if_neg hft]
    by_cases hb : some base ≠ dst.getLast?
    · rw [if_pos hb]
      cases srcIsDir with
      | true => simp [runWrite, archive, place, List.map_map, Function.comp_def]
      | false =>
        obtain ⟨e, he⟩ := hfile rfl
        simp [he, runWrite, archive, place]
    · have hb' : dst.getLast? = some base := by
        by_cases h : dst.getLast? = some base
        · exact h
        · exact absurd (fun e => h e.symm) hb
      have hdst : dst = dst.dropLast ++ [base] := by
        cases hne : dst with
        | nil => simp [hne] at hb'
        | cons x xs =>
          have h1 : (x :: xs) ≠ [] := by simp
          have := List.dropLast_concat_getLast h1
          rw [hne] at hb'
          have h2 : (x :: xs).getLast h1 = base := by
            rw [List.getLast?_eq_some_getLast h1] at hb'; exact Option.some.inj hb'
          rw [h2] at this; exact this.symm
      rw [if_neg hb]
      simp only [runWrite, archive, place, List.map_map, Function.comp_def]
      apply List.map_congr_left
      intro pe _
      conv => rhs; rw [hdst]
      simp

/-- **local → remote**: the writer names the members by the computed destination and `tar xpf - -C /` puts them there -/
theorem local_to_remote_places_tree {α ε} (dst : Path α) (dstIsDir : Bool) (base : α) (t : Tree α ε) :
    localToRemote dst dstIsDir base t = place (finalDest dst dstIsDir base) t := by
  simp [localToRemote, place, List.map_map, Function.comp_def]

/-- **remote → local, destination not an existing directory**: `extract_tar_stream` puts the tree at `dst` -/
theorem extract_places_tree {α ε} [DecidableEq α] (dst : Path α) (base : α) (t : Tree α ε) :
    extractStream dst false base (archive base t) = place (finalDest dst false base) t := by
  simp [extractStream, archive, place, finalDest, List.map_map, Function.comp_def]

/-- remote → local into an existing directory, single file: lands at `dst/basename(src)` -/
theorem extract_file_into_dir {α ε} [DecidableEq α] (dst : Path α) (base : α) (e : ε) :
    extractStream dst true base (archive base [([], e)]) = place (finalDest dst true base) [([], e)] := by
  simp [extractStream, archive, place, finalDest]

/-- **remote → local into an existing directory is FALSE for directories**: the top member goes to `dst/basename(src)` but the
    children are placed directly under `dst` (known finding; reproduced on the real code by the check) -/
theorem extract_dir_into_dir_false :
    extractStream [0] true 7 (archive 7 [([], 1), ([5], 2)]) ≠ place (finalDest [0] true 7) [([], 1), ([5], 2)] := by
  decide

/-- what it does instead -/
example : extractStream [0] true 7 (archive 7 [([], 1), ([5], 2)]) = [([0, 7], 1), ([0, 5], 2)] := by decide

/-- non-vacuity of the four rows -/
example : runWrite (remoteWriteCmd [1, 2] false 9 true) (archive 9 [([], 0), ([4], 1)]) = [([1, 2], 0), ([1, 2, 4], 1)] := by decide
example : runWrite (remoteWriteCmd [1, 9] false 9 true) (archive 9 [([], 0), ([4], 1)]) = [([1, 9], 0), ([1, 9, 4], 1)] := by decide
example : runWrite (remoteWriteCmd [1, 2] true 9 true) (archive 9 [([], 0), ([4], 1)]) = [([1, 2, 9], 0), ([1, 2, 9, 4], 1)] := by decide
example : runWrite (remoteWriteCmd [1, 2] false 9 false) (archive 9 [([], 0)]) = [([1, 2], 0)] := by decide

/-! ### the shell commands built along the way -/

/-- the command templates of the copy routes, as extracted from the source -/
def transferTemplates : List Template :=
  get_local_to_remote_destination_all ++ get_remote_to_remote_write_command_all ++ copy_same_connector_all ++ tar_commands_all

/-- `cmd_verbatim_paths` — **none of the path-carrying templates of the copy routes is verbatim** (known finding): each of them
    is either the constant `tar xpf - -C /` or mis-reads one of the witness paths `a b`, `$x`, `` `x` ``, `a"b` -/
def witnesses : List (List Char) := [['a', ' ', 'b'], ['$', 'x'], ['`', 'x', '`'], ['a', '"', 'b']]
def nArgs (t : Template) : Nat :=
  t.foldl (fun n p => match p with | .lit _ => n | .raw i | .shq i | .dq i | .safe i => max n (i + 1)) 0
def witnessFails (t : Template) : Bool :=
  witnesses.any (fun w => !verbatimOn t ((List.range (nArgs t)).map (fun _ => w)))

theorem cmd_verbatim_paths_status :
    transferTemplates.all (fun t => (allShQuoted t && placed ⟨.unq, true⟩ t) != witnessFails t) = true := by
  decide +kernel

/-- quoted templates of the copy routes are verbatim for every path (applies to whatever `transferTemplates` quotes) -/
theorem quoted_transfer_template_verbatim (t : Template) (args : List (List Char)) (hq : allShQuoted t = true)
    (hp : placed ⟨.unq, true⟩ t = true) (hs : safeArgsOk t args = true) :
    lexLine (render t args) = specLine t args := by
  unfold lexLine specLine
  rw [feed_render_quoted t init args hq hp hs]

/-! ### registration of the destination (on the registry model of C21) -/
open SFV.Registry SFV.TransferReg

/-- **`transfer_registers`**: after the registration steps of `transfer_data` the data manager knows a valid copy at the final
    destination path on the destination location — writable or read-only, whatever the registry contained before -/
theorem transfer_registers (s : St) (srcObj ldst : Nat) (final : Path) (writable : Bool) :
    HasCopy (transferRegister s srcObj ldst final writable) final ldst := by
  unfold transferRegister
  simp only
  have hput := put_hasCopy { (register s ldst final.dropLast).1 with
      heap := (register s ldst final.dropLast).1.heap ++ [⟨ldst, final, true⟩] } final
    (register s ldst final.dropLast).1.heap.length (by simp) (by simp [objPath]) (by simp [objValid])
  have hloc : objLoc { (register s ldst final.dropLast).1 with
      heap := (register s ldst final.dropLast).1.heap ++ [⟨ldst, final, true⟩] }
      (register s ldst final.dropLast).1.heap.length = ldst := by simp [objLoc]
  rw [hloc] at hput
  cases writable with
  | true => simpa using hput
  | false =>
    simp only [Bool.false_eq_true, if_false]
    exact hasCopy_grows (grows_relate _ _ _) final ldst hput

/-- non-vacuity: source `/s/x` registered on location 0, read-only transfer to `/d/x` on location 1: the node `/d/x` lists exactly
    one valid object for location 1 (object 3: after `/s`, `/s/x`, `/d`), and `/s/x` is now also known for location 1 through the relation -/
example : getLocs (transferRegister (register St.init 0 ["s", "x"]).1 (register St.init 0 ["s", "x"]).2 1 ["d", "x"] false) ["d", "x"] 1 = [3] := by
  decide

end SFV.C22
