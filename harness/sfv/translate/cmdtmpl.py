"""Extractor of shell command templates -> SFV/Gen/CmdTemplates.lean

For every place where StreamFlow builds a command line for a (remote) shell, a small path-sensitive symbolic
execution of the function body (python `ast`) records *how every value occurrence is rendered*:

    lit   literal text of the source                      raw   `{x}` / `str(x)` / bare name: sent as it is
    shq   `shlex.quote(x)`                                dq    `"{x}"` (inside double quotes)
    safe  an int rendered with a format spec / str(int), or an environment variable *name*

Covered: every `RemoteStreamFlowPath` operation and `_size` (streamflow/data/remotepath.py),
`get_local_to_remote_destination`, `get_remote_to_remote_write_command` (streamflow/core/utils.py),
`copy_same_connector`, the tar reader/writer commands (streamflow/deployment/connector/base.py) -- generic part --
and the environment/workdir renderers `create_command`, `_build_shell_command`, `CommandTemplateMap.get_command`
-- pattern part (their pieces are emitted separately so that the Lean model can repeat the `export` piece for every
variable).  When an expected shape is not found `TranslateError` is raised (a broken tie).
"""
from __future__ import annotations

import ast
import os
from dataclasses import dataclass, field

from sfv.translate.expr import TranslateError, parse_function

TARGET = "SFV/Gen/CmdTemplates.lean"

CAPTURE_CALLS = {"run": "run", "get_stream_writer": "stream", "get_stream_reader": "stream", "_test": "run"}
INT_FORMATS = ("o", "d", "x", "i")


class Unsupported(Exception):
    pass


# ---------------------------------------------------------------------------------------------------------
# symbolic values: a string is a list of pieces (kind, payload); a list is a list of such strings
# ---------------------------------------------------------------------------------------------------------
def lit(s):
    return ("lit", s)


@dataclass
class Env:
    vars: dict = field(default_factory=dict)       # name -> ("str", pieces) | ("list", [pieces, ...])
    params: dict = field(default_factory=dict)     # parameter name -> "int" | "str" | ...
    conds: list = field(default_factory=list)      # source text of the branch conditions taken
    selfname: str = "path"

    def fork(self):
        return Env({k: (v[0], [list(t) if isinstance(t, list) else t for t in v[1]]) for k, v in self.vars.items()},
                   self.params, list(self.conds), self.selfname)


def _is_self_str(node: ast.AST) -> bool:
    src = ast.unparse(node)
    return src in ("self.__str__()", "str(self)", "self")


def ev(node: ast.AST, env: Env) -> list:
    """all alternatives of the symbolic value of an expression"""
    if isinstance(node, ast.Constant) and isinstance(node.value, str):
        return [("str", [lit(node.value)])]
    if _is_self_str(node):
        return [("str", [("raw", env.selfname)])]
    if isinstance(node, ast.Name):
        if node.id in env.vars:
            return [env.vars[node.id]]
        kind = env.params.get(node.id)
        if kind == "int":
            return [("str", [("safe", node.id)])]
        return [("str", [("raw", node.id)])]
    if isinstance(node, ast.JoinedStr):
        alts = [[]]
        for part in node.values:
            if isinstance(part, ast.Constant):
                alts = [a + [lit(part.value)] for a in alts]
            else:
                assert isinstance(part, ast.FormattedValue)
                spec = ast.unparse(part.format_spec)[2:-1] if part.format_spec is not None else ""
                inner = ev(part.value, env)
                new = []
                for a in alts:
                    for kind, val in inner:
                        if kind != "str":
                            raise Unsupported(f"list inside f-string: {ast.unparse(part)}")
                        if spec and spec[-1] in INT_FORMATS:
                            val = [("safe", p[1]) if p[0] in ("raw", "safe") else p for p in val]
                        new.append(a + val)
                alts = new
        return [("str", a) for a in alts]
    if isinstance(node, ast.IfExp):
        out = []
        for branch, tag in ((node.body, ""), (node.orelse, "not ")):
            for v in ev(branch, env):
                out.append(v)
        return out
    if isinstance(node, (ast.List, ast.Tuple)):
        alts = [[]]
        for e in node.elts:
            if isinstance(e, ast.Starred):
                src = ast.unparse(e.value)
                if src.startswith("posixpath.split(") or src.startswith("os.path.split("):
                    inner = ast.unparse(e.value.args[0])
                    vals = [("list", [[("raw", f"dirname({inner})")], [("raw", f"basename({inner})")]])]
                else:
                    vals = ev(e.value, env)
                new = []
                for a in alts:
                    for kind, val in vals:
                        new.append(a + (val if kind == "list" else [val]))
                alts = new
            else:
                new = []
                for a in alts:
                    for kind, val in ev(e, env):
                        if kind != "str":
                            raise Unsupported(f"nested list {ast.unparse(e)}")
                        new.append(a + [val])
                alts = new
        return [("list", a) for a in alts]
    if isinstance(node, ast.BinOp) and isinstance(node.op, ast.Add):
        out = []
        for lk, lv in ev(node.left, env):
            for rk, rv in ev(node.right, env):
                if lk != rk:
                    raise Unsupported(f"str + list in {ast.unparse(node)}")
                out.append((lk, lv + rv))
        return out
    if isinstance(node, ast.Call):
        fsrc = ast.unparse(node.func)
        if fsrc == "shlex.quote" and len(node.args) == 1:
            out = []
            for kind, val in ev(node.args[0], env):
                if kind != "str":
                    raise Unsupported("shlex.quote of a list")
                if len(val) == 1 and val[0][0] in ("raw", "safe"):
                    out.append(("str", [("shq", val[0][1])]))
                else:
                    out.append(("str", [("shqsub", val)]))
            return out
        if fsrc == "str" and len(node.args) == 1:
            return ev(node.args[0], env)
        if fsrc.endswith(".__str__") and not node.args:
            return ev(node.func.value, env)
        if fsrc in ("posixpath.join", "os.path.join", "posixpath.dirname", "os.path.dirname", "posixpath.basename",
                    "os.path.basename", "os.path.normpath", "posixpath.normpath"):
            return [("str", [("raw", ast.unparse(node).replace("posixpath.", "").replace("os.path.", ""))])]
        if isinstance(node.func, ast.Attribute) and node.func.attr == "join" and len(node.args) == 1:
            seps = ev(node.func.value, env)
            if len(seps) != 1 or seps[0][0] != "str" or any(p[0] != "lit" for p in seps[0][1]):
                raise Unsupported(f"join with a non-literal separator: {ast.unparse(node)}")
            sep = "".join(p[1] for p in seps[0][1])
            a0 = node.args[0]
            if isinstance(a0, (ast.ListComp, ast.GeneratorExp)):
                if len(a0.generators) != 1:
                    raise Unsupported("nested comprehension")
                inner = env.fork()
                for n in ast.walk(a0.generators[0].target):
                    if isinstance(n, ast.Name):
                        inner.vars.pop(n.id, None)
                        inner.params = {**inner.params, n.id: "str"}
                # one repetition of the element stands for the joined sequence
                return [("str", v) for k, v in ev(a0.elt, inner) if k == "str"]
            out = []
            for kind, val in ev(a0, env):
                if kind == "list":
                    pieces = []
                    for i, tok in enumerate(val):
                        if i and sep:
                            pieces.append(lit(sep))
                        pieces += tok
                    out.append(("str", pieces))
                else:
                    # a parameter that is a list of strings (e.g. the user's command): joined text, sent as it is
                    out.append(("str", val))
            return out
    raise Unsupported(f"expression `{ast.unparse(node)[:80]}`")


def normalise(pieces: list) -> list:
    """merge adjacent literals; `"` raw `"` -> dq"""
    merged = []
    for p in pieces:
        if p[0] == "lit" and p[1] == "":
            continue
        if p[0] == "lit" and merged and merged[-1][0] == "lit":
            merged[-1] = lit(merged[-1][1] + p[1])
        else:
            merged.append(p)
    out = []
    i = 0
    while i < len(merged):
        p = merged[i]
        if (p[0] == "raw" and out and out[-1][0] == "lit" and out[-1][1].endswith('"') and i + 1 < len(merged)
                and merged[i + 1][0] == "lit" and merged[i + 1][1].startswith('"')):
            out[-1] = lit(out[-1][1][:-1])
            if out[-1][1] == "":
                out.pop()
            out.append(("dq", p[1]))
            merged[i + 1] = lit(merged[i + 1][1][1:])
            i += 1
            continue
        if p[0] == "lit" and p[1] == "":
            i += 1
            continue
        if p[0] == "lit" and out and out[-1][0] == "lit":
            out[-1] = lit(out[-1][1] + p[1])
        else:
            out.append(p)
        i += 1
    return out


def tokens_to_pieces(tokens: list) -> list:
    pieces = []
    for i, tok in enumerate(tokens):
        if i:
            pieces.append(lit(" "))
        pieces += tok
    return normalise(pieces)


# ---------------------------------------------------------------------------------------------------------
# path-sensitive execution of a function body
# ---------------------------------------------------------------------------------------------------------
@dataclass
class Captured:
    via: str            # run | stream | return
    pieces: list
    conds: list
    lineno: int


class Exec:
    def __init__(self, fn: ast.AST, selfname: str = "path"):
        self.fn = fn
        self.captured: list[Captured] = []
        params = {}
        for a in fn.args.args + fn.args.kwonlyargs:
            ann = ast.unparse(a.annotation) if a.annotation is not None else ""
            params[a.arg] = "int" if ann == "int" else "str"
        self.env0 = Env({}, params, [], selfname)

    def run(self) -> list[Captured]:
        self.block(self.fn.body, [self.env0])
        return self.captured

    # -- helpers
    def capture_calls(self, node: ast.AST, env: Env) -> None:
        for call in [n for n in ast.walk(node) if isinstance(n, ast.Call)]:
            name = call.func.attr if isinstance(call.func, ast.Attribute) else getattr(call.func, "id", None)
            if name not in CAPTURE_CALLS:
                continue
            kw = {k.arg: k.value for k in call.keywords}
            if "command" not in kw:
                continue
            try:
                for kind, val in ev(kw["command"], env):
                    if kind != "list":
                        raise Unsupported("command is not a list")
                    toks = ([[lit("test")]] + val) if name == "_test" else val
                    self.captured.append(Captured(CAPTURE_CALLS[name], tokens_to_pieces(toks), list(env.conds), call.lineno))
            except Unsupported as e:
                raise TranslateError(f"{self.fn.name}: line {call.lineno}: cannot analyse the command: {e}") from e

    def assign(self, target: ast.AST, value: ast.AST, envs: list[Env]) -> list[Env]:
        out = []
        for env in envs:
            self.capture_calls(value, env)
            if not isinstance(target, ast.Name):
                # tuple targets (result, status = await ...): forget the names
                for n in ast.walk(target):
                    if isinstance(n, ast.Name):
                        env.vars.pop(n.id, None)
                out.append(env)
                continue
            try:
                alts = ev(value, env)
            except Unsupported:
                env.vars.pop(target.id, None)
                out.append(env)
                continue
            for i, v in enumerate(alts):
                e2 = env.fork() if len(alts) > 1 else env
                if len(alts) > 1:
                    e2.conds.append(f"{target.id} alt {i}")
                e2.vars[target.id] = v
                out.append(e2)
        return out

    def block(self, stmts: list, envs: list[Env]) -> list[Env]:
        for st in stmts:
            if not envs:
                break
            envs = self.stmt(st, envs)
        return envs

    def stmt(self, st: ast.AST, envs: list[Env]) -> list[Env]:
        if isinstance(st, ast.Assign) and len(st.targets) == 1:
            return self.assign(st.targets[0], st.value, envs)
        if isinstance(st, ast.AnnAssign) and st.value is not None:
            return self.assign(st.target, st.value, envs)
        if isinstance(st, ast.Expr):
            call = st.value.value if isinstance(st.value, ast.Await) else st.value
            if (isinstance(call, ast.Call) and isinstance(call.func, ast.Attribute) and call.func.attr in ("append", "extend")
                    and isinstance(call.func.value, ast.Name)):
                name = call.func.value.id
                out = []
                for env in envs:
                    if name not in env.vars or env.vars[name][0] != "list":
                        out.append(env)
                        continue
                    try:
                        alts = ev(call.args[0], env)
                    except Unsupported as e:
                        raise TranslateError(f"{self.fn.name}: line {st.lineno}: {e}") from e
                    for v in alts:
                        e2 = env.fork() if len(alts) > 1 else env
                        cur = e2.vars[name][1]
                        if call.func.attr == "append":
                            e2.vars[name] = ("list", cur + [v[1]])
                        else:
                            e2.vars[name] = ("list", cur + v[1])
                        out.append(e2)
                return out
            for env in envs:
                self.capture_calls(st, env)
            return envs
        if isinstance(st, ast.If):
            out = []
            test = ast.unparse(st.test)
            for env in envs:
                self.capture_calls(st.test, env)
                a, b = env.fork(), env.fork()
                a.conds.append(test)
                b.conds.append(f"not ({test})")
                out += self.block(st.body, [a])
                out += self.block(st.orelse, [b])
            return out
        if isinstance(st, (ast.For, ast.AsyncFor, ast.While)):
            out = []
            for env in envs:
                body_env = env.fork()
                if not isinstance(st, ast.While):
                    self.capture_calls(st.iter, env)
                    for n in ast.walk(st.target):
                        if isinstance(n, ast.Name):
                            body_env.vars.pop(n.id, None)
                    # `for path in ...` over paths of the same object: a loop variable named like that is the path
                    body_env.conds.append(f"for {ast.unparse(st.target)}")
                out += self.block(st.body, [body_env])
            return out
        if isinstance(st, (ast.With, ast.AsyncWith)):
            for env in envs:
                for item in st.items:
                    self.capture_calls(item.context_expr, env)
            return self.block(st.body, envs)
        if isinstance(st, ast.Try):
            envs = self.block(st.body, envs)
            return self.block(st.finalbody, envs) if st.finalbody else envs
        if isinstance(st, ast.Return):
            for env in envs:
                if st.value is None:
                    continue
                self.capture_calls(st.value, env)
                if isinstance(st.value, (ast.List, ast.JoinedStr)):
                    try:
                        for kind, val in ev(st.value, env):
                            pieces = tokens_to_pieces(val) if kind == "list" else normalise(val)
                            self.captured.append(Captured("return", pieces, list(env.conds), st.lineno))
                    except Unsupported as e:
                        raise TranslateError(f"{self.fn.name}: line {st.lineno}: {e}") from e
            return []
        if isinstance(st, (ast.Raise, ast.Continue, ast.Break)):
            return [] if isinstance(st, ast.Raise) else envs
        if isinstance(st, (ast.FunctionDef, ast.AsyncFunctionDef, ast.ClassDef, ast.Pass, ast.Import, ast.ImportFrom)):
            return envs
        for env in envs:
            self.capture_calls(st, env)
        return envs


# ---------------------------------------------------------------------------------------------------------
# what to extract
# ---------------------------------------------------------------------------------------------------------
REMOTEPATH_OPS = ["checksum", "chmod", "exists", "glob", "is_dir", "is_executable", "is_file", "is_symlink", "mkdir",
                  "read_text", "resolve", "rmtree", "size", "symlink_to", "hardlink_to", "walk", "write_text"]


@dataclass
class Op:
    name: str            # lean identifier stem
    where: str           # file:function
    variants: list       # list[Captured], deduplicated


def _dedup(caps: list[Captured]) -> list[Captured]:
    seen, out = set(), []
    for c in caps:
        key = repr(c.pieces)
        if key not in seen:
            seen.add(key)
            out.append(c)
    return out


def extract_generic(repo: str) -> list[Op]:
    ops = []
    rp = os.path.join(repo, "streamflow/data/remotepath.py")
    for name in REMOTEPATH_OPS:
        fn = parse_function(rp, name, cls="RemoteStreamFlowPath")
        caps = _dedup(Exec(fn).run())
        if not caps:
            raise TranslateError(f"RemoteStreamFlowPath.{name}: no shell command found")
        ops.append(Op(name, f"streamflow/data/remotepath.py:RemoteStreamFlowPath.{name}", caps))
    fn = parse_function(rp, "_size")
    caps = _dedup(Exec(fn).run())
    if not caps:
        raise TranslateError("remotepath._size: no shell command found")
    ops.append(Op("size_fn", "streamflow/data/remotepath.py:_size", caps))
    ut = os.path.join(repo, "streamflow/core/utils.py")
    for name in ("get_local_to_remote_destination", "get_remote_to_remote_write_command"):
        fn = parse_function(ut, name)
        caps = _dedup(Exec(fn).run())
        if not caps:
            raise TranslateError(f"utils.{name}: no shell command found")
        ops.append(Op(name, f"streamflow/core/utils.py:{name}", caps))
    # the rename test of get_remote_to_remote_write_command must compare the two basenames exactly
    fn = parse_function(ut, "get_remote_to_remote_write_command")
    renames = [n for n in ast.walk(fn) if isinstance(n, ast.If) and "basename" in ast.unparse(n.test)]
    if len(renames) != 1 or ast.unparse(renames[0].test).replace(" ", "") != "posixpath.basename(src)!=posixpath.basename(dst)":
        raise TranslateError("get_remote_to_remote_write_command: the rename test is not `posixpath.basename(src) != posixpath.basename(dst)`: "
                             + "; ".join(ast.unparse(n.test) for n in renames))
    dirtests = [ast.unparse(n.test) for n in ast.walk(fn) if isinstance(n, ast.If) and "status" in ast.unparse(n.test)]
    if sorted(set(dirtests)) != ["status == 0", "status > 1"]:
        raise TranslateError(f"get_remote_to_remote_write_command: unexpected status tests {sorted(set(dirtests))}")
    bp = os.path.join(repo, "streamflow/deployment/connector/base.py")
    fn = parse_function(bp, "copy_same_connector")
    caps = _dedup(Exec(fn).run())
    if not caps:
        raise TranslateError("copy_same_connector: no shell command found")
    ops.append(Op("copy_same_connector", "streamflow/deployment/connector/base.py:copy_same_connector", caps))
    # tar commands: keyword arguments reader_command= / writer_command= (lists) anywhere in base.py
    with open(bp) as f:
        tree = ast.parse(f.read())
    caps = []
    for node in ast.walk(tree):
        if isinstance(node, (ast.FunctionDef, ast.AsyncFunctionDef)):
            env = Exec(node).env0
            for sub in ast.walk(node):
                vals = []
                if isinstance(sub, ast.keyword) and sub.arg in ("reader_command", "writer_command") and isinstance(sub.value, ast.List):
                    vals.append((sub.value, sub.value.lineno))
                if (isinstance(sub, ast.Assign) and len(sub.targets) == 1 and isinstance(sub.targets[0], ast.Name)
                        and sub.targets[0].id in ("reader_command", "writer_command") and isinstance(sub.value, ast.List)):
                    vals.append((sub.value, sub.lineno))
                for v, ln in vals:
                    try:
                        for kind, val in ev(v, env):
                            caps.append(Captured("stream", tokens_to_pieces(val), [node.name], ln))
                    except Unsupported as e:
                        raise TranslateError(f"base.py:{node.name}: line {ln}: {e}") from e
    caps = _dedup(caps)
    if len(caps) < 2:
        raise TranslateError("base.py: the tar reader/writer commands were not found")
    ops.append(Op("tar_commands", "streamflow/deployment/connector/base.py:reader_command/writer_command", caps))
    return ops


def _fstrings(fn: ast.AST, containing: str) -> list[ast.JoinedStr]:
    out = []
    for n in ast.walk(fn):
        if isinstance(n, ast.JoinedStr):
            text = "".join(p.value for p in n.values if isinstance(p, ast.Constant))
            if containing in text:
                out.append(n)
    return out


def _one(xs: list, what: str):
    if len(xs) != 1:
        raise TranslateError(f"{what}: expected exactly one occurrence, found {len(xs)}")
    return xs[0]


def extract_env_renderers(repo: str) -> dict:
    """pieces of the three functions that render environment and working directory"""
    out = {}
    # the *name* of an environment variable is rendered as it is: by assumption an identifier (`safe`)
    env = Env({}, {"key": "int"}, [], "path")

    def piece(fn, marker, what):
        node = _one(_fstrings(fn, marker), what)
        alts = ev(node, env)
        return normalise(_one(alts, what)[1])

    # ---- _build_shell_command ----
    fn = parse_function(os.path.join(repo, "streamflow/deployment/shell.py"), "_build_shell_command")
    out["bsc_cd"] = piece(fn, "cd ", "_build_shell_command: f-string with `cd `")
    out["bsc_export"] = piece(fn, "export ", "_build_shell_command: f-string with `export `")
    wrap = _one(_fstrings(fn, "sh -c "), "_build_shell_command: f-string with `sh -c `")
    quoted = [p for p in wrap.values if isinstance(p, ast.FormattedValue)]
    q = _one(quoted, "_build_shell_command: placeholder of the `sh -c` f-string")
    if not (isinstance(q.value, ast.Call) and ast.unparse(q.value.func) == "shlex.quote"
            and isinstance(q.value.args[0], ast.Call) and isinstance(q.value.args[0].func, ast.Attribute)
            and q.value.args[0].func.attr == "join" and isinstance(q.value.args[0].func.value, ast.Constant)):
        # still emit what is there: the sub-shell text is then a raw argument
        out["bsc_wrap"] = normalise([lit(p.value) if isinstance(p, ast.Constant) else ("raw", "inner") for p in wrap.values])
        seps = [n for n in ast.walk(wrap) if isinstance(n, ast.Call) and isinstance(n.func, ast.Attribute)
                and n.func.attr == "join" and isinstance(n.func.value, ast.Constant)]
        out["bsc_sep"] = _one(seps, "_build_shell_command: separator of the sub-shell parts").func.value.value
    else:
        out["bsc_wrap"] = normalise([lit(p.value) if isinstance(p, ast.Constant) else ("shq", "inner") for p in wrap.values])
        out["bsc_sep"] = q.value.args[0].func.value.value
    plain = [n for n in _fstrings(fn, " 2>&1") if n is not wrap]
    out["bsc_plain"] = normalise(_one(ev(_one(plain, "_build_shell_command: f-string of the plain command"), Env({}, {}, [], "path")),
                                      "plain")[1])
    frame = _one(_fstrings(fn, "echo "), "_build_shell_command: f-string with `echo `")
    out["bsc_frame"] = normalise(_one(ev(frame, Env({}, {}, [], "path")), "frame")[1])
    # order of the parts: cd, then exports, then the command
    appends = [ast.unparse(n.args[0]) for n in sorted(
        (n for n in ast.walk(fn) if isinstance(n, ast.Call) and isinstance(n.func, ast.Attribute) and n.func.attr == "append"),
        key=lambda n: n.lineno)]
    order = ["cd" if "cd " in a else "export" if "export " in a else "command" if "join(command)" in a else "?" for a in appends]
    if order != ["cd", "export", "command"]:
        raise TranslateError(f"_build_shell_command: sub-shell parts are appended in the order {order}, expected cd, export, command")
    # ---- create_command ----
    fn = parse_function(os.path.join(repo, "streamflow/core/utils.py"), "create_command")
    out["cc_cd"] = piece(fn, "cd ", "create_command: f-string with `cd `")
    out["cc_export"] = piece(fn, "export ", "create_command: f-string with `export `")
    out["cc_stdin"] = piece(fn, " < ", "create_command: f-string with ` < `")
    out["cc_stdout"] = piece(fn, " > ", "create_command: f-string with ` > `")
    out["cc_stderr"] = piece(fn, " 2>", "create_command: f-string with ` 2>`")
    merges = [n.value.value for n in ast.walk(fn) if isinstance(n, ast.Assign) and isinstance(n.value, ast.Constant)
              and isinstance(n.value.value, str) and "2>&1" in n.value.value and ast.unparse(n.targets[0]) == "stderr"]
    out["cc_merge"] = _one(merges, "create_command: `stderr = ' 2>&1'` (stderr merged into stdout, the default)")
    fmt = [n for n in ast.walk(fn) if isinstance(n, ast.Constant) and isinstance(n.value, str) and "{workdir}" in n.value]
    fmt = _one(fmt, "create_command: format string with {workdir}").value
    if fmt != "{workdir}{environment}{command}{stdin}{stdout}{stderr}":
        raise TranslateError(f"create_command: unexpected assembly order {fmt!r}")
    # ---- CommandTemplateMap.get_command ----
    fn = parse_function(os.path.join(repo, "streamflow/deployment/template.py"), "get_command", cls="CommandTemplateMap")
    out["gc_export"] = piece(fn, "export ", "get_command: f-string with `export `")
    joins = [n for n in ast.walk(fn) if isinstance(n, ast.Call) and isinstance(n.func, ast.Attribute) and n.func.attr == "join"
             and isinstance(n.func.value, ast.Constant)]
    out["gc_sep"] = _one(joins, "get_command: join of the export statements").func.value.value
    # ---- the built-in job-script template of the queue-manager connectors ----
    with open(os.path.join(repo, "streamflow/deployment/connector/queue_manager.py")) as f:
        qtree = ast.parse(f.read())
    defaults = [k.value.value for n in ast.walk(qtree) if isinstance(n, ast.Call) and ast.unparse(n.func).endswith("CommandTemplateMap")
                for k in n.keywords if k.arg == "default" and isinstance(k.value, ast.Constant) and isinstance(k.value.value, str)]
    default = _one(sorted(set(defaults)), "queue_manager.py: literal default template of CommandTemplateMap")
    placeholder = "{{streamflow_command}}"
    if not default.endswith(placeholder) or "{{" in default[: -len(placeholder)]:
        raise TranslateError(f"queue_manager.py: the default template {default!r} is not `<text>{placeholder}`")
    out["qm_default_prefix"] = default[: -len(placeholder)]
    kws = {k.arg: ast.unparse(k.value) for n in ast.walk(fn) if isinstance(n, ast.Call) and isinstance(n.func, ast.Attribute)
           and n.func.attr == "render" for k in n.keywords if k.arg}
    if kws.get("streamflow_workdir") != "workdir" or kws.get("streamflow_command") != "command":
        raise TranslateError("get_command: streamflow_workdir / streamflow_command are not passed through as they are")
    return out


# ---------------------------------------------------------------------------------------------------------
# Lean rendering
# ---------------------------------------------------------------------------------------------------------
def lean_chars(s: str) -> str:
    def ch(c):
        if c == "'":
            return "'\\''"
        if c == "\\":
            return "'\\\\'"
        if c == "\n":
            return "'\\n'"
        if c == "\t":
            return "'\\t'"
        if ord(c) < 32 or ord(c) > 126:
            return f"Char.ofNat {ord(c)}"
        return f"'{c}'"
    return "[" + ", ".join(ch(c) for c in s) + "]"


def arg_names(pieces: list) -> list[str]:
    names = []
    for k, v in pieces:
        if k != "lit" and v not in names:
            names.append(v)
    return names


def lean_template(pieces: list, names: list[str] | None = None) -> str:
    names = names if names is not None else arg_names(pieces)
    parts = []
    for k, v in pieces:
        if k == "lit":
            parts.append(f".lit {lean_chars(v)}")
        elif k == "shqsub":
            raise TranslateError("nested shlex.quote of a compound text outside _build_shell_command")
        else:
            parts.append(f".{k} {names.index(v)}")
    return "[" + ", ".join(parts) + "]"


def show(pieces: list) -> str:
    out = ""
    for k, v in pieces:
        out += v if k == "lit" else {"raw": "{%s}", "shq": "{shlex.quote(%s)}", "dq": '"{%s}"', "safe": "{%s:safe}"}[k] % v
    return out.replace("\n", "\\n").replace("/-", "/ -").replace("-/", "- /")


def extract(repo: str) -> tuple[list[Op], dict]:
    return extract_generic(repo), extract_env_renderers(repo)


def table(repo: str) -> list[dict]:
    """the extracted templates for the harness: one entry per variant"""
    ops, envr = extract(repo)
    rows = []
    for op in ops:
        for i, c in enumerate(op.variants):
            rows.append({"op": op.name, "variant": i, "lean": f"{op.name}_{i}", "via": c.via, "where": op.where, "line": c.lineno,
                         "conds": c.conds, "pieces": c.pieces, "args": arg_names(c.pieces), "text": show(c.pieces),
                         "quoted": all(k in ("lit", "shq", "safe") for k, _ in c.pieces)})
    for name, pieces in envr.items():
        if isinstance(pieces, list):
            rows.append({"op": name, "variant": 0, "lean": name, "via": "env", "where": name, "line": 0, "conds": [],
                         "pieces": pieces, "args": arg_names(pieces), "text": show(pieces),
                         "quoted": all(k in ("lit", "shq", "safe") for k, _ in pieces)})
    return rows


def generate(repo: str) -> tuple[str, str]:
    ops, envr = extract(repo)
    lines = ["import SFV.Model.Sh",
             "/-! GENERATED by harness/sfv/translate/cmdtmpl.py from streamflow/data/remotepath.py, core/utils.py,",
             "    deployment/shell.py, deployment/template.py, deployment/connector/base.py — do not edit. -/",
             "namespace SFV.Gen.Cmd", "open SFV.Sh", ""]
    all_names = []
    for op in ops:
        vs = []
        for i, c in enumerate(op.variants):
            nm = f"{op.name}_{i}"
            names = arg_names(c.pieces)
            lines.append(f"/-- {op.where} (via {c.via}): `{show(c.pieces)}`  args: {names} -/")
            lines.append(f"def {nm} : Template := {lean_template(c.pieces, names)}")
            vs.append(nm)
        lines.append(f"def {op.name}_all : List Template := [{', '.join(vs)}]")
        lines.append("")
        all_names += vs
    for name, pieces in envr.items():
        if isinstance(pieces, list):
            names = arg_names(pieces)
            lines.append(f"/-- `{show(pieces)}`  args: {names} -/")
            lines.append(f"def {name} : Template := {lean_template(pieces, names)}")
            all_names.append(name)
        else:
            lines.append(f"/-- separator {pieces!r} -/")
            lines.append(f"def {name} : List Char := {lean_chars(pieces)}")
    lines.append("")
    lines.append("/-- every extracted template that renders a path, directory or environment value (the framing / wrapping templates,")
    lines.append("    whose arguments are command texts by design, are left out) -/")
    lines.append(f"def allTemplates : List Template := [{', '.join(n for n in all_names if n not in ('bsc_frame', 'bsc_wrap', 'bsc_plain'))}]")
    lines.append("")
    lines.append("/-- name -> template, for the drivers -/")
    lines.append("def table : List (String × Template) := [" + ", ".join(f'("{n}", {n})' for n in all_names) + "]")
    lines.append("")
    lines.append("end SFV.Gen.Cmd")
    return TARGET, "\n".join(lines) + "\n"


if __name__ == "__main__":
    import sys
    for r in table(sys.argv[1] if len(sys.argv) > 1 else "/repo"):
        print(f"{r['lean']:45s} {'Q' if r['quoted'] else '-'} {r['via']:6s} {r['text']}")
