import SFV.Model.Graph
import SFV.Lemmas.Graph
/-! # `GraphMapper` (`streamflow/recovery/utils.py`): the two graphs and the dictionaries that must stay in step with them

`dcg_ports` (port names), `dag_tokens` (token ids), `port_name_ids`, `port_tokens` (port name ↦ set of token ids),
`token_availability`, `token_instances` (token id ↦ token; the model keeps what `get_equal_token` compares: the tag, or the job
name for a `JobToken`). Dictionaries are association lists in insertion order; port names are numbers. An operation that raises
(`FailureHandlingException`, the `ValueError` of `DirectedGraph.replace`) is `none`. Token ids are positive (`if equal_token_id :=`
treats id 0 as "not found"; SQLite ids start at 1). -/
namespace SFV.Mapper
open SFV.Graph

abbrev Dict (α : Type) := List (Nat × α)

def Dict.get? {α : Type} : Dict α → Nat → Option α
  | [], _ => none
  | (a, v) :: r, k => if a = k then some v else Dict.get? r k

/-- `d.pop(k, None)` -/
def Dict.pop {α : Type} (d : Dict α) (k : Nat) : Dict α := d.filter (fun e => e.1 != k)

/-- `d[k] = v` -/
def Dict.set {α : Type} (d : Dict α) (k : Nat) (v : α) : Dict α :=
  if d.any (fun e => e.1 == k) then d.map (fun e => if e.1 == k then (k, v) else e) else d ++ [(k, v)]

def Dict.keys {α : Type} (d : Dict α) : List Nat := d.map (·.1)

/-- `d.setdefault(p, set()).add(t)` -/
def addTo (d : Dict (List Nat)) (p t : Nat) : Dict (List Nat) := d.set p (setAdd ((d.get? p).getD []) t)

structure M where
  ports : G
  toks : G
  portIds : Dict (List Nat)
  portTokens : Dict (List Nat)
  avail : Dict Bool
  inst : Dict Nat

def M.empty : M := ⟨G.empty, G.empty, [], [], [], []⟩

/-- `get_equal_token(port_name, token)`: the first token of the port with the same tag (job name) -/
def M.getEqual (m : M) (port key : Nat) : Option Nat :=
  ((m.portTokens.get? port).getD []).find? (fun t => m.inst.get? t == some key)

/-- `remove_port` -/
def M.removePort (m : M) (p : Nat) : M :=
  { m with ports := (m.ports.removeNodes [p] false).1, portIds := m.portIds.pop p, portTokens := m.portTokens.pop p }

/-- the body of the loop of `move_token_to_root` for one removed token: forget it, take it out of every port, note the ports
left empty -/
def M.dropToken (m : M) (r : Nat) (empties : List Nat) : M × List Nat :=
  let pt := m.portTokens.map (fun e => (e.1, discard e.2 r))
  ({ m with avail := m.avail.pop r, inst := m.inst.pop r, portTokens := pt },
   (pt.filter (fun e => e.2.isEmpty)).foldl (fun acc e => setAdd acc e.1) empties)

def dropTokens : List Nat → M × List Nat → M × List Nat
  | [], acc => acc
  | r :: rs, acc => dropTokens rs (acc.1.dropToken r acc.2)

/-- `move_token_to_root(token_id)` -/
def M.moveToRoot (m : M) (t : Nat) : M :=
  let r := m.toks.promote t
  let acc := dropTokens r.2 ({ m with toks := r.1 }, [])
  acc.2.foldl M.removePort acc.1

/-- `replace_token(port_name, token, is_available)` -/
def M.replaceToken (m : M) (port new key : Nat) (a : Bool) : Option M :=
  match m.getEqual port key with
  | none => none
  | some old =>
    if old = new then (if m.avail.get? old == some a then some m else none)
    else
      match m.toks.replace old new with
      | none => none
      | some g =>
        some { m with toks := g,
                      portTokens := addTo (m.portTokens.map (fun e => if e.1 == port then (e.1, discard e.2 old) else e)) port new,
                      avail := (m.avail.pop old).set new a,
                      inst := (m.inst.pop old).set new key }

/-- `_update_token(port_name, token, is_available)` -/
def M.updateToken (m : M) (port tok key : Nat) (a : Bool) : Option (M × Nat) :=
  match m.getEqual port key with
  | some e =>
    if m.avail.get? e == some true then some (m, e)
    else if a then (m.replaceToken port tok key a).map (fun m' => (m'.moveToRoot tok, tok))
    else some (m, e)
  | none =>
    some ({ m with portTokens := addTo m.portTokens port tok, inst := m.inst.set tok key, avail := m.avail.set tok a }, tok)

/-- a `ProvenanceToken` -/
structure Info where
  port : Nat
  portId : Nat
  tok : Nat
  key : Nat
  avail : Bool

/-- `add(token_info_a, token_info_b)` -/
def M.add (m : M) (a : Info) (b : Option Info) : Option M :=
  let ids1 := addTo m.portIds a.port a.portId
  let ids2 := match b with
    | some b => addTo ids1 b.port b.portId
    | none => ids1
  let m1 : M := { m with portIds := ids2, ports := m.ports.add a.port (b.map (·.port)) }
  match m1.updateToken a.port a.tok a.key a.avail with
  | none => none
  | some (m2, ia) =>
    match b with
    | none => some { m2 with toks := m2.toks.add ia none }
    | some b =>
      match m2.updateToken b.port b.tok b.key b.avail with
      | none => none
      | some (m3, ib) => some { m3 with toks := m3.toks.add ia (some ib) }

/-! ### `mapper_consistent` -/

def M.tokensOf (m : M) : List Nat := m.portTokens.flatMap (·.2)

/-- the dictionaries and the token graph speak about the same tokens, every listed port has a token and is a node of the port
graph, a token is listed under one port, both graphs satisfy their
representation invariant -/
structure M.consistent (m : M) : Prop where
  nodes_inst : ∀ t, t ∈ m.toks.sk ↔ t ∈ m.inst.keys
  inst_avail : ∀ t, t ∈ m.inst.keys ↔ t ∈ m.avail.keys
  inst_ports : ∀ t, t ∈ m.inst.keys ↔ t ∈ m.tokensOf
  nonempty : ∀ e ∈ m.portTokens, e.2 ≠ []
  port_node : ∀ e ∈ m.portTokens, e.1 ∈ m.ports.sk
  once : ∀ e ∈ m.portTokens, ∀ e' ∈ m.portTokens, ∀ t, t ∈ e.2 → t ∈ e'.2 → e.1 = e'.1
  port_keys : m.portTokens.keys.Nodup
  toks_inv : Inv m.toks
  ports_inv : Inv m.ports

/-- executable form (what the correspondence check evaluates on the real object) -/
def M.consistentB (m : M) : Bool :=
  let same (a b : List Nat) : Bool := a.all (· ∈ b) && b.all (· ∈ a)
  same m.toks.sk m.inst.keys && same m.inst.keys m.avail.keys && same m.inst.keys m.tokensOf &&
  m.portTokens.all (fun e => !e.2.isEmpty && decide (e.1 ∈ m.ports.sk)) && decide m.tokensOf.Nodup && decide m.portTokens.keys.Nodup

end SFV.Mapper
