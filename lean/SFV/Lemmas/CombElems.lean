import SFV.Lemmas.CombDotSpec
import SFV.Lemmas.CombCartMain
/-! The dot product fed with ELEMENTS (tokens of ports or schemas of an inner combinator): the outer level of a
    nested combinator. Same simulation as for tokens; an emitted schema is related to the closed form's emission
    up to the order of its entries (the dict order of the items). -/
namespace SFV.Comb
open SFV

/-- schema by schema, the loop's emission is a reordering of the closed form's emission -/
inductive EmRel : List Emit → List (Tag × List Elem) → Prop
  | nil : EmRel [] []
  | cons {e : Emit} {x : Tag × List Elem} {es : List Emit} {xs : List (Tag × List Elem)} :
      e.Perm (renderCF x.1 x.2) → EmRel es xs → EmRel (e :: es) (x :: xs)

theorem EmRel.append {a b : List Emit} {x y : List (Tag × List Elem)} (h1 : EmRel a x) (h2 : EmRel b y) :
    EmRel (a ++ b) (x ++ y) := by
  induction h1 with
  | nil => simpa using h2
  | cons hp _ ih => exact EmRel.cons hp ih

theorem EmRel.map_same {α : Type} (L : List α) (f : α → Emit) (g : α → Tag × List Elem)
    (h : ∀ a ∈ L, (f a).Perm (renderCF (g a).1 (g a).2)) : EmRel (L.map f) (L.map g) := by
  induction L with
  | nil => exact EmRel.nil
  | cons a L ih =>
    exact EmRel.cons (h a (by simp)) (ih (fun b hb => h b (List.mem_cons_of_mem _ hb)))

theorem EmRel.length_eq {a : List Emit} {x : List (Tag × List Elem)} (h : EmRel a x) : a.length = x.length := by
  induction h with
  | nil => rfl
  | cons _ _ ih => simp [ih]

/-- one emission, up to the order of the items -/
theorem emitOfCell_perm {P : Nat} {c : Cell} (hc : CellOK P c) (hall : ∀ q, q < P → q ∈ ckeys c)
    (hne : ∀ q, q < P → cget c q ≠ []) (κ : Tag)
    (htag : schemaTag (schemaOf (c.map (fun x => lastD x.2))) = κ) :
    (emitOfCell c).Perm (renderCF κ ((List.range P).filterMap (fun q => (cget c q).getLast?))) := by
  have hfm : (List.range P).filterMap (fun q => (cget c q).getLast?)
      = (List.range P).map (fun q => lastD (cget c q)) := by
    rw [← List.filterMap_eq_map]
    apply CF.filterMap_congr'
    intro q hq
    simp only [Function.comp]
    exact getLast?_lastD (hne q (List.mem_range.mp hq))
  have hperm : (ckeys c).Perm (List.range P) :=
    (List.perm_ext_iff_of_nodup hc.1 List.nodup_range).mpr (fun q =>
      ⟨fun h => List.mem_range.mpr (hc.2 q h), fun h => hall q (List.mem_range.mp h)⟩)
  have h1 : c.Perm ((List.range P).map (fun q => (q, cget c q))) := by
    have := hperm.map (fun q => (q, cget c q))
    rwa [← cell_eq_map hc.1] at this
  have h2 : (c.map (fun x => lastD x.2)).Perm ((List.range P).map (fun q => lastD (cget c q))) := by
    have := h1.map (fun x => lastD x.2)
    simpa [List.map_map, Function.comp_def] using this
  unfold emitOfCell
  simp only [htag]
  rw [hfm]
  unfold renderCF retagAll schemaOf
  exact (h2.flatMap_right _).map _

/-- what the outer combinator requires of its elements: tag rooted at `0`, at least one token, every token
    carrying the element's tag (true of a token of a port and of the schemas of an inner dot product or
    depth-1 cartesian product) -/
def ElemOK (e : Elem) : Prop :=
  e.tag.head? = some 0 ∧ e.toks ≠ [] ∧ ∀ y ∈ e.toks, y.2.tag = e.tag

/-- **one arrival of an element**: loop-faithful `combine` = closed-form step -/
theorem dotAdd_simE {P : Nat} {R : List CF.Ev} {s : CF.St} {tv : TV} (p : Nat) (e : Elem)
    (hwf : CF.WF P (R ++ [(p, e)])) (hok : ∀ x ∈ R ++ [(p, e)], ElemOK x.2)
    (hI : CF.Inv P R s) (hv : Valid P tv) (hk : tkeys tv = s.keys) (hs : sem tv = s.cell) :
    (dotAdd P tv p e).err = none ∧ Valid P (dotAdd P tv p e).tv ∧
    tkeys (dotAdd P tv p e).tv = (CF.step P s (p, e)).keys ∧
    sem (dotAdd P tv p e).tv = (CF.step P s (p, e)).cell ∧
    ∃ N, (CF.step P s (p, e)).out = s.out ++ N ∧ EmRel (dotAdd P tv p e).out N := by
  have hp : p < P := hwf.2.1 (p, e) (by simp)
  have habs0 : absSt tv s.outTags s.out = s := by
    cases s; simp only [absSt] at *; simp [hk, hs]
  obtain ⟨hv1, habs1⟩ := addToList_spec hv p hp e s.outTags s.out
  rw [habs0] at habs1
  have hM := CF.inv_add P hwf hI
  generalize hsa : CF.add s p e = sa at habs1 hM
  generalize htv1 : addToList addToPort tv e.tag p e = tv1 at habs1 hv1
  have hk1 : tkeys tv1 = sa.keys := congrArg CF.St.keys habs1
  have hs1 : sem tv1 = sa.cell := congrArg CF.St.cell habs1
  have hstep : CF.step P s (p, e) = CF.prod P sa := by simp [CF.step, hsa]
  have hdot : dotAdd P tv p e = prodLoop P (tkeys tv1) tv1 [] := by
    simp [dotAdd, dotProduct, htv1, tkeys]
  rw [hdot, hstep]
  have hmin : ∀ k ∈ tkeys tv1, ∃ q, q < P ∧ (sem tv1 k q).length ≤ 1 := by
    intro k hk'
    rw [hk1] at hk'
    obtain ⟨e', he', hte⟩ := (hM.keysIff k).mp hk'
    refine ⟨e'.1, hwf.2.1 e' he', ?_⟩
    rw [hs1, ← hte]
    exact (hM.exact1 e' he').1
  obtain ⟨r1, r2, r3, r4, r5⟩ := prodLoop_spec (tkeys tv1) tv1 [] hv1 hv1.1 (fun k hk => hk) hmin
  have hfulliff : ∀ κ, Full P tv1 κ ↔ CF.full P sa κ := by
    intro κ; unfold Full CF.full; rw [hs1]
  refine ⟨r1, r2, by rw [r3, hk1]; rfl, ?_, ?_⟩
  · funext κ q
    rw [r4]
    simp only [CF.prod]
    by_cases hc1 : κ ∈ tkeys tv1 ∧ Full P tv1 κ
    · rw [if_pos hc1]
      by_cases hq : q < P
      · have : κ ∈ sa.keys ∧ CF.full P sa κ ∧ q < P := ⟨hk1 ▸ hc1.1, (hfulliff κ).mp hc1.2, hq⟩
        rw [if_pos this, hs1]
      · have : ¬ (κ ∈ sa.keys ∧ CF.full P sa κ ∧ q < P) := fun h => hq h.2.2
        rw [if_neg this, ← hs1]
        have hq' : q ∉ ckeys (tcell tv1 κ) := fun h => hq ((valid_tcell hv1 κ).2 q h)
        simp [sem, cget_of_not_mem hq']
    · have : ¬ (κ ∈ sa.keys ∧ CF.full P sa κ ∧ q < P) :=
        fun h => hc1 ⟨hk1 ▸ h.1, (hfulliff κ).mpr h.2.1⟩
      rw [if_neg hc1, if_neg this, hs1]
  · have hsaout : sa.out = s.out := by rw [← hsa]; rfl
    refine ⟨(sa.keys.filter (fun κ => CF.full P sa κ)).map (fun κ => (κ, CF.lasts P sa κ)),
      by simp only [CF.prod, hsaout], ?_⟩
    rw [r5, List.nil_append, hk1]
    have hfilt : sa.keys.filter (fun κ => decide (Full P tv1 κ)) = sa.keys.filter (fun κ => decide (CF.full P sa κ)) := by
      apply List.filter_congr
      intro κ _
      simp only [decide_eq_decide]
      exact hfulliff κ
    rw [hfilt]
    apply EmRel.map_same
    intro κ hκ
    obtain ⟨hκk, hκf⟩ := List.mem_filter.mp hκ
    have hfull : CF.full P sa κ := by simpa using hκf
    have hcg : ∀ q, cget (tcell tv1 κ) q = sa.cell κ q := fun q => by rw [← hs1]; rfl
    have hcok := valid_tcell hv1 κ
    have hlasts : CF.lasts P sa κ = (List.range P).filterMap (fun q => (cget (tcell tv1 κ) q).getLast?) := by
      unfold CF.lasts
      apply CF.filterMap_congr'
      intro q _
      rw [hcg]
    simp only
    rw [hlasts]
    have hne : ∀ q, q < P → cget (tcell tv1 κ) q ≠ [] := fun q hq => by rw [hcg]; exact hfull q hq
    have hall : ∀ q, q < P → q ∈ ckeys (tcell tv1 κ) := fun q hq => mem_ckeys_of_cget_ne (hne q hq)
    have hlast : ∀ x ∈ tcell tv1 κ, (x.1, lastD x.2) ∈ R ++ [(p, e)] ∧ CF.pre (lastD x.2).tag κ := by
      intro x hx
      have hx1 : x.1 < P := hcok.2 x.1 (List.mem_map.mpr ⟨x, hx, rfl⟩)
      have hx2 : x.2 = sa.cell κ x.1 := by rw [← hcg, cget_of_mem hcok.1 hx]
      have hxne : x.2 ≠ [] := by rw [hx2]; exact hfull x.1 hx1
      have := lastD_mem hxne
      rw [hx2] at this
      rw [hx2]
      obtain ⟨_, h1, h2⟩ := hM.sound κ x.1 _ this
      exact ⟨h1, h2⟩
    apply emitOfCell_perm hcok hall hne
    unfold schemaTag
    obtain ⟨e', he', hte⟩ := (hM.keysIff κ).mp hκk
    have hmemτ : ∀ τ, τ ∈ (schemaOf ((tcell tv1 κ).map (fun x => lastD x.2))).map (fun y => y.2.tag) →
        ∃ x ∈ tcell tv1 κ, τ = (lastD x.2).tag := by
      intro τ hτ
      simp only [schemaOf, List.flatMap_map, List.mem_map, List.mem_flatMap] at hτ
      obtain ⟨y, ⟨x, hx, hy⟩, hyt⟩ := hτ
      refine ⟨x, hx, ?_⟩
      rw [← hyt]
      exact (hok _ (hlast x hx).1).2.2 y hy
    apply getTag_chain (d := κ)
    · have hq' : e'.1 < P := hwf.2.1 e' he'
      have hnout : κ ∉ sa.outTags := by
        intro hout
        have := (hM.exact1 e' he').2 (hte ▸ hout)
        exact hfull e'.1 hq' (hte ▸ this)
      have hmem : e'.2 ∈ sa.cell κ e'.1 := hM.compl κ hκk hnout e' he' (hte ▸ CF.pre_refl _)
      have hlen : (sa.cell κ e'.1).length ≤ 1 := by
        have := (hM.exact1 e' he').1; rwa [hte] at this
      have hcell : sa.cell κ e'.1 = [e'.2] := eq_singleton_of_mem_of_length_le_one hmem hlen
      obtain ⟨x, hx, hxq⟩ := List.mem_map.mp (hall e'.1 hq')
      have hx2 : x.2 = [e'.2] := by rw [← cget_of_mem hcok.1 hx, hxq, hcg, hcell]
      have hl : lastD x.2 = e'.2 := by rw [hx2]; rfl
      obtain ⟨_, hne', hun⟩ := hok e' he'
      obtain ⟨y, hy⟩ := List.exists_mem_of_ne_nil _ hne'
      simp only [schemaOf, List.map_flatMap, List.flatMap_map, List.mem_flatMap, List.mem_map]
      exact ⟨x, hx, y, by rw [hl]; exact hy, by rw [hun y hy, hte]⟩
    · intro τ hτ
      obtain ⟨x, hx, rfl⟩ := hmemτ τ hτ
      have hr := (hok _ (hlast x hx).1).1
      intro h0
      simp only at hr
      rw [h0] at hr
      simp at hr
    · intro τ hτ
      obtain ⟨x, hx, rfl⟩ := hmemτ τ hτ
      exact (CF.pre_iff.mp (hlast x hx).2).1
    · rw [← hte]; exact (hok e' he').1

/-- feed element events in order; stop at the first exception -/
def runWithE (add : TV → Nat → Elem → Res) : List CF.Ev → TV → List Emit → Res
  | [], tv, out => ⟨tv, out, none⟩
  | (p, e) :: es, tv, out =>
      let r := add tv p e
      match r.err with
      | some x => ⟨r.tv, out ++ r.out, some x⟩
      | none => runWithE add es r.tv (out ++ r.out)

theorem runWithE_sim {P : Nat} : ∀ (es R : List CF.Ev) (s : CF.St) (tv : TV) (fo : List Emit),
    CF.WF P (R ++ es) → (∀ x ∈ R ++ es, ElemOK x.2) → CF.Inv P R s → Valid P tv →
    tkeys tv = s.keys → sem tv = s.cell → EmRel fo s.out →
    (runWithE (dotAdd P) es tv fo).err = none ∧
    EmRel (runWithE (dotAdd P) es tv fo).out (es.foldl (CF.step P) s).out := by
  intro es
  induction es with
  | nil => intro R s tv fo _ _ _ _ _ _ hfo; exact ⟨rfl, by simpa [runWithE] using hfo⟩
  | cons ev es ih =>
    obtain ⟨p, e⟩ := ev
    intro R s tv fo hwf hok hI hv hk hs hfo
    have hR : R ++ (p, e) :: es = (R ++ [(p, e)]) ++ es := by simp
    have hwf1 : CF.WF P (R ++ [(p, e)]) := CF.WF_append_left (hR ▸ hwf)
    have hok1 : ∀ x ∈ R ++ [(p, e)], ElemOK x.2 := fun x hx => hok x (by rw [hR]; exact List.mem_append_left _ hx)
    obtain ⟨e1, v1, k1, s1, N, hN, hout⟩ := dotAdd_simE p e hwf1 hok1 hI hv hk hs
    have hI1 := CF.inv_step P hwf1 hI
    simp only [runWithE, e1, List.foldl_cons]
    exact ih (R ++ [(p, e)]) (CF.step P s (p, e)) _ (fo ++ (dotAdd P tv p e).out)
      (hR ▸ hwf) (hR ▸ hok) hI1 v1 k1 s1 (by rw [hN]; exact hfo.append hout)

/-! ### specification for element streams -/

def completeB (P : Nat) (R : List CF.Ev) (κ : Tag) : Bool :=
  (List.range P).all (fun q => R.any (fun e => e.1 = q ∧ CF.pre e.2.tag κ))

theorem completeB_iff {P : Nat} {R : List CF.Ev} {κ : Tag} : completeB P R κ = true ↔ CF.complete P R κ := by
  unfold completeB CF.complete
  simp only [List.all_eq_true, List.mem_range, List.any_eq_true, decide_eq_true_eq]

/-- one emission `(κ, elements by item)` for every received tag `κ` such that every item has a received element
    whose tag is an ancestor of `κ` -/
def specE (P : Nat) (R : List CF.Ev) : List (Tag × List Elem) :=
  ((dedup (R.map (·.2.tag))).filter (completeB P R)).map (fun κ => (κ, CF.picks P R κ))

theorem CF_out_perm_specE {P : Nat} {R : List CF.Ev} (hwf : CF.WF P R) : (CF.run P R).out.Perm (specE P R) := by
  have hLnd : (specE P R).Nodup := by
    apply CF.nodup_of_map (·.1)
    simp only [specE, List.map_map, Function.comp_def, List.map_id']
    exact (nodup_dedup _).filter _
  apply (List.perm_ext_iff_of_nodup (CF.out_nodup P _ hwf) hLnd).mpr
  rintro ⟨κ, l⟩
  rw [CF.mem_out_iff P _ hwf]
  simp only [specE, List.mem_map, List.mem_filter, mem_dedup, Prod.mk.injEq]
  constructor
  · rintro ⟨⟨e, he, hte⟩, hc, hl⟩
    exact ⟨κ, ⟨⟨e, he, hte⟩, completeB_iff.mpr hc⟩, rfl, hl.symm⟩
  · rintro ⟨κ', ⟨⟨e, he, hte⟩, hc⟩, rfl, hl⟩
    exact ⟨⟨e, he, hte⟩, completeB_iff.mp hc, hl.symm⟩

/-- **dot product over elements, any arrival order**: the outer level of a nested combinator. For every
    well-formed stream of elements and every arrival order, no exception, and the emitted schemas are — each
    up to the order of its entries — the specified emissions, as a multiset -/
theorem dotElems_any_order {P : Nat} (S es : List CF.Ev) (hwf : CF.WF P S) (hok : ∀ x ∈ S, ElemOK x.2)
    (hp : es.Perm S) :
    (runWithE (dotAdd P) es [] []).err = none ∧
    ∃ N, EmRel (runWithE (dotAdd P) es [] []).out N ∧ N.Perm (specE P S) := by
  have hwf' := CF.WF_perm P hp hwf
  obtain ⟨h1, h2⟩ := runWithE_sim (P := P) es [] CF.init [] [] (by simpa using hwf')
    (by simpa using fun x hx => hok x (hp.subset hx)) (CF.inv_init P) (valid_nil P) rfl rfl EmRel.nil
  exact ⟨h1, _, h2, (CF.out_perm P S es hp hwf).trans (CF_out_perm_specE hwf)⟩

end SFV.Comb
