import SFV.Model.Claims
import SFV.Model.Proto
open SFV SFV.Proto SFV.Claims

/-! `claims <acts…>`: a<p>:<j> acquire, t<p>:<j> check observed True, f<p>:<j> check observed False, c<p> claim,
    r<p>:<j> release, d<j> the job finished an execution (ignored unless it is recovering)
    -> `ok maxclaims=<n> total=<sum>` | `disabled <i> <why>` -/

def pj (w : String) : Option (Nat × Nat) :=
  match (w.drop 1).toString.splitOn ":" with
  | [p, j] => match p.toNat?, j.toNat? with
    | some p, some j => some (p, j)
    | _, _ => none
  | _ => none

def go : St → List String → Nat → Nat → String
  | _, [], _, mx => s!"ok maxclaims={mx}"
  | s, w :: ws, i, mx =>
      let fail (why : String) := s!"disabled {i} {why}"
      let cont (s' : St) (j : Nat) := go s' ws (i + 1) (max mx (s'.claims j))
      if w.startsWith "a" then match pj w with
        | some (p, j) => match step ⟨true⟩ s (.acquire p j) with
          | some s' => cont s' j | none => fail "lock-held"
        | none => fail "parse"
      else if w.startsWith "t" then match pj w with
        | some (p, j) => if s.holder j = some p then go s ws (i + 1) mx else fail "check-without-lock"
        | none => fail "parse"
      else if w.startsWith "f" then match pj w with
        | some (p, j) =>
            if s.recovering j then fail "code-says-not-recovering-but-already-claimed"
            else match step ⟨true⟩ s (.check p j) with
              | some s' => cont s' j | none => fail "check-without-lock"
        | none => fail "parse"
      else if w.startsWith "c" then match (w.drop 1).toNat? with
        | some p => match s.pend p with
          | some j => match step ⟨true⟩ s (.claim p) with
            | some s' => cont s' j | none => fail "claim"
          | none => fail "claim-without-check"
        | none => fail "parse"
      else if w.startsWith "r" then match pj w with
        | some (p, j) => match step ⟨true⟩ s (.release p j) with
          | some s' => cont s' j | none => fail "release"
        | none => fail "parse"
      else if w.startsWith "d" then match (w.drop 1).toNat? with
        | some j => match step ⟨true⟩ s (.finish j) with
          | some s' => cont s' j | none => go s ws (i + 1) mx
        | none => fail "parse"
      else fail "parse"

def handle : List String → String
  | "claims" :: acts => go init acts 0 0
  | _ => "bad-op"

def main : IO Unit := runPure handle
