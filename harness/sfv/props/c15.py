"""C15 — each scheduled job gets its own existing working directories."""
from __future__ import annotations

import json
import random

from sfv.framework import Ctx, Property
from sfv.rt import multifs, recov
from sfv.translate import dirregguard
from sfv.rt.par import pmap


def gen_cases(rng: random.Random, quick: bool) -> list[dict]:
    ms = [rng.choice([2, 3, 4]), rng.choice([6, 8, 12])] if quick else [1, 2, 3, 5, 8, 12]
    cases = []
    for m in ms:
        cases.append({"name": f"scatter{m}", "shape": {"kind": "scatter", "m": m}, "plan": [], "max_retries": 4})
        cases.append({"name": f"scatter{m}-fixed-tmp-b", "shape": {"kind": "scatter", "m": m}, "plan": [], "max_retries": 4, "fixed_tmp": ["/b"]})
    cases.append({"name": "pipeline4", "shape": {"kind": "pipeline", "n": 4}, "plan": [], "max_retries": 4})
    m = rng.choice([3, 5])
    el = rng.randrange(m)
    cases.append({"name": f"scatter{m}-reschedule-after-failure", "shape": {"kind": "scatter", "m": m}, "max_retries": 4,
                  "plan": [{"step": "/b", "tag": f"0.{el}", "phase": "execute", "kind": "failstop", "count": 1}]})
    return cases


def multifs_cases(rng: random.Random, quick: bool) -> list[dict]:
    """jobs bound with Target(locations=k) on a fake remote connector whose locations have private file systems"""
    cases = [{"name": "multifs-3jobs-2of3-locations", "jobs": 3, "locations": 2, "nlocs": 3},
             {"name": "multifs-2jobs-3of3-locations-fixed-tmp", "jobs": 2, "locations": 3, "nlocs": 3, "fixed": {"tmp": True}},
             {"name": "multifs-1job-1of3-locations", "jobs": 1, "locations": 1, "nlocs": 3}]
    if not quick:
        for _ in range(6):
            n = rng.choice([2, 3, 4, 5])
            cases.append({"name": f"multifs-random-{len(cases)}", "jobs": rng.choice([1, 2, 4, 6]), "locations": rng.randint(1, n), "nlocs": n,
                          "deployments": rng.choice([1, 1, 2]),
                          "fixed": {k: True for k in ("input", "output", "tmp") if rng.random() < 0.25}})
    return cases


def judge_multifs(case: dict, r: dict) -> list[tuple[str, str]]:
    name = case["name"]
    if r["outcome"] != "ok":
        return [(f"schedule:{r['outcome']}", f"{name}: {r.get('msg', '')[:300]}")]
    fails = []
    if len(r["jobs"]) != case["jobs"]:
        fails.append(("not-every-job-scheduled", f"{name}: {len(r['jobs'])} of {case['jobs']} jobs scheduled"))
    seen: dict = {}
    for e in r["jobs"]:
        if len(e["locations"]) != case["locations"]:
            fails.append(("allocation-size-differs-from-target", f"{name}: {e['job']} allocated on {len(e['locations'])} locations, target says {case['locations']}"))
        if len({(l["deployment"], l["name"]) for l in e["locations"]}) != len(e["locations"]):
            fails.append(("allocation-repeats-a-location", f"{name}: {e['job']}: {[(l['deployment'], l['name']) for l in e['locations']]}"))
        for loc in e["locations"]:
            for d, (registered, exists) in loc["cells"].items():
                if not exists:
                    fails.append(("job-directory-does-not-exist-on-allocated-location",
                                  f"{name}: {e['job']}: {d} does not exist in the file system of {loc['deployment']}/{loc['name']}"))
                if not registered:
                    fails.append(("job-directory-not-registered-on-allocated-location",
                                  f"{name}: {e['job']}: {d} exists on {loc['deployment']}/{loc['name']} but the data manager has no data location "
                                  f"for it there (allocation: {[l['name'] for l in e['locations']]})"))
        for pos, d in enumerate(e["dirs"]):
            if case.get("fixed", {}).get(("input", "output", "tmp")[pos]):
                continue
            if d in seen:
                fails.append(("directory-shared-between-jobs", f"{name}: {d} given to {e['job']} and {seen[d]}"))
            seen[d] = e["job"]
    return fails


def judge(case: dict, r: dict) -> list[tuple[str, str]]:
    fails = []
    name = case["name"]
    if r["outcome"] != "ok":
        return [(f"run:{r['outcome']}", f"{name}: {r.get('msg', '')[:300]}")]
    fixed = set()
    for st in case.get("fixed_tmp", []):
        fixed.add(st)
    # (1) existence + registration, observed when the job's command starts
    for job, reg in r["avail"]:
        for d, (registered, exists) in reg.items():
            if not exists:
                fails.append(("job-directory-does-not-exist", f"{name}: {job}: {d} does not exist when the job starts"))
            if not registered:
                fails.append(("job-directory-not-registered", f"{name}: {job}: {d} is not registered in the data manager for the job's location"))
    # (2) distinctness across all schedulings (a re-scheduled job gets new directories too) unless fixed by the step
    seen: dict = {}
    for k, (job, dirs) in enumerate(r["dirs"]):
        step = job.rsplit("/", 1)[0]
        if len(set(dirs)) != 3:
            fails.append(("job-directories-coincide", f"{name}: {job}: {dirs}"))
        for pos, d in enumerate(dirs):
            if pos == 2 and step in fixed:
                continue
            if d in seen and seen[d] != (k, pos):
                fails.append(("directory-shared-between-jobs", f"{name}: {d} given to {job} and to scheduling #{seen[d][0]} ({r['dirs'][seen[d][0]][0]})"))
            seen[d] = (k, pos)
        if step in fixed and not dirs[2].endswith("fixed-" + step.strip("/")):
            fails.append(("fixed-directory-not-honoured", f"{name}: {job}: tmp {dirs[2]}"))
    return fails


class C15(Property):
    pid = "C15"
    title = "Each scheduled job gets its own existing working directories"
    lean_targets = ["SFV.Props.C15", "SFV.Model.Proto"]
    props_files = ["SFV/Props/C15.lean"]
    drivers = ["Drivers/C15.lean"]
    translators = [dirregguard.generate]
    rule = ("real workflows with scattered steps (2..12 concurrent jobs of one step) and a pipeline on the local connector, with and without a "
            "tmp directory fixed by the step, and with a job re-scheduled after a fail-stop failure; observed for every scheduling: the three "
            "directories in the Job, their existence and their registration in the data manager when the job's command starts, pairwise "
            "distinctness across all schedulings; the number of distinct directories is compared with the Lean bookkeeping model on the same "
            "sequence of schedulings. Multi-location: the real DeployStep + ScheduleStep with Target(locations=k) on a fake REMOTE connector whose "
            "2..5 locations have private file systems (harness/sfv/rt/multifs.py): for every job and EVERY allocated location each directory must "
            "exist in that location's file system and be registered for (deployment, location name); registration counts compared with the Lean "
            "registration loop run with the generated guard. T: the guard's query must name deployment and location.")
    trusted_base = ["uuid4 freshness (random_name) = the model's increasing name supply", "real mkdir / resolve / data manager registry are runtime (observed)",
                    "fake remote connector harness/sfv/rt/multifs.py (private file system per location by rewriting a virtual path prefix; commands run by "
                    "a local sh); translator harness/sfv/translate/dirregguard.py (arguments of the guard of the registration loop)"]
    assumptions = ["random_name() never repeats"]
    technique = "Lean 4 bookkeeping model (exist+registered, distinct unless fixed, for every scheduling sequence) + observation of real scattered runs"
    level_text = "grade B, partial: bookkeeping proved (dirs exist and are registered right after scheduling; generated directories never collide); real file system and registry observed"
    level_note = "Lean kernel; file system, data manager and uuid4 are runtime / trusted"
    quick_budget_s = 2400        # room for one confirmation re-run of a timed-out case (5x its bound), see recov.run_confirmed
    thorough_budget_s = 6000
    min_nontrivial = 4

    def explore(self, ctx: Ctx) -> None:
        quick = ctx.tier == "quick" and ctx.mode != "search"
        cases = gen_cases(ctx.rng, quick)
        lines, meta = [], []
        for case, status, r in recov.run_cases(cases, timeout=300, workers=6, ctx=ctx):
            replay = {"recovery": case}
            if status != "ok":
                ctx.fail("run:" + status, f"{case['name']}: {str(r)[:300]}", replay)
                continue
            ctx.case({"case": case["name"], "outcome": r["outcome"], "schedulings": len(r.get("dirs", []))}, ("c", case["name"]), case["shape"]["kind"])
            for key, detail in judge(case, r):
                ctx.fail(key, detail, replay)
            if r["outcome"] != "ok":
                continue
            fixed = set(case.get("fixed_tmp", []))
            steps = {}
            reqs = []
            for k, (job, dirs) in enumerate(r["dirs"]):
                step = job.rsplit("/", 1)[0]
                fx = steps.setdefault(step, len(steps)) if step in fixed else None
                reqs.append(f"{k}:1:-:-:{fx if fx is not None else '-'}")
            lines.append("dirs " + " ".join(reqs))
            meta.append((case, r))
        # ---- several locations per job, each with its own file system ------------------------------------------------
        mmeta = []
        for case, status, r in recov.run_confirmed(ctx, multifs.run_case, multifs_cases(ctx.rng, quick), timeout=180, workers=4, inner_default=60):
            replay = {"multifs": case}
            if status != "ok":
                ctx.fail("schedule:" + status, f"{case['name']}: {str(r)[:300]}", replay)
                continue
            ctx.case({"case": case["name"], "outcome": r["outcome"], "jobs": len(r.get("jobs", []))}, ("m", case["name"]), "multifs")
            for key, detail in judge_multifs(case, r):
                ctx.fail(key, detail, replay)
            if r["outcome"] != "ok":
                continue
            for e in r["jobs"]:
                deps = sorted({l["deployment"] for l in e["locations"]})
                locs = ",".join(f"{deps.index(l['deployment'])}.{int(l['name'][3:])}" for l in e["locations"])
                lines.append(f"reg {locs} 3")
                mmeta.append((case, e))
        got = ctx.lean("Drivers/C15.lean", lines)
        for g, (case, e) in zip(got[len(meta):], mmeta):
            real = [sum(1 for reg, _ in l["cells"].values() if reg) for l in e["locations"]]
            exp = f"ok registered={sum(real)} per-location={','.join(map(str, real))}"
            if g.strip() != exp:
                ctx.disagree("registration loop vs model", f"{case['name']}: {e['job']}: real `{exp}`, model `{g.strip()}`", {"multifs": case})
        for g, (case, r) in zip(got, meta):
            g = g.strip()
            real_distinct = len({d for _, dirs in r["dirs"] for d in dirs})
            exp = f"jobs={len(r['dirs'])} distinct={real_distinct}"
            if not g.startswith("ok " + exp):
                ctx.disagree("directory bookkeeping vs model", f"{case['name']}: real {exp}, model `{g}`", {"recovery": case})

    def replay(self, ctx: Ctx, data) -> None:
        rr = data.get("replay") or (data.get("no_longer_checks") or [{}])[0].get("case") or {}
        if "multifs" in rr:
            r = multifs.run_case(rr["multifs"])
            print(json.dumps(r, indent=1)[:6000])
            for key, detail in judge_multifs(rr["multifs"], r):
                ctx.fail(key, detail, rr)
            return
        if "recovery" not in rr:
            return super().replay(ctx, data)
        r = recov.run_case(rr["recovery"])
        print(json.dumps({k: r.get(k) for k in ("outcome", "msg", "dirs", "avail")}, indent=1, default=str)[:6000])
        for key, detail in judge(rr["recovery"], r):
            ctx.fail(key, detail, rr)


PROPERTY = C15()
