"""C15: a fake REMOTE connector with several locations, each with its OWN file system, and a driver that runs the real
DeployStep + ScheduleStep for jobs bound with `Target(locations=k)`.

`MultiFsConnector` (subclass of the repo's BaseConnector): every location `loc<i>` has a private root directory; commands are
run by a local `sh -c` after rewriting the virtual prefix `/sfvfs` to that root (and back in the captured output), so
`/sfvfs/work/x` on loc0 and on loc1 are different directories — `mkdir`, `test -e`, `readlink -f` issued by the real
`RemoteStreamFlowPath` behave as on distinct hosts.

`run_case(case)`: case = {jobs: n, locations: k (per job), nlocs: locations of the deployment, fixed: {"tmp"|"in"|"out": bool}}.
For every scheduled job: the three directories, and for EVERY allocated location whether each directory exists in that
location's file system and whether the data manager has it registered for (deployment, location name)."""
from __future__ import annotations

import asyncio
import logging
import os
import posixpath
import shutil
import tempfile

VIRT = "/sfvfs"


def _connector_class():
    from streamflow.core.scheduling import AvailableLocation
    from streamflow.deployment.connector.base import BaseConnector

    class MultiFsConnector(BaseConnector):
        def __init__(self, deployment_name: str, config_dir: str, root: str, nlocs: int = 3, transferBufferSize: int = 2 ** 16):
            super().__init__(deployment_name, config_dir, transferBufferSize)
            self.root = os.path.realpath(root)
            self.nlocs = nlocs
            self.commands: list = []

        def real_root(self, location_name: str) -> str:
            return os.path.join(self.root, location_name)

        async def deploy(self, external: bool) -> None:
            for i in range(self.nlocs):
                os.makedirs(self.real_root(f"loc{i}"), exist_ok=True)

        async def undeploy(self, external: bool) -> None:
            return None

        async def get_available_locations(self, service=None):
            return {f"loc{i}": AvailableLocation(name=f"loc{i}", deployment=self.deployment_name, hostname=f"host{i}", service=service,
                                                 slots=64) for i in range(self.nlocs)}

        @classmethod
        def get_schema(cls) -> str:
            return "{}"

        async def run(self, location, command, environment=None, workdir=None, stdin=None, stdout=asyncio.subprocess.STDOUT,
                      stderr=asyncio.subprocess.STDOUT, capture_output=False, timeout=None, job_name=None):
            real = self.real_root(location.name)
            self.commands.append((location.name, list(command)))
            cmd = " ".join(command).replace(VIRT, real)
            if workdir:
                cmd = f"cd {workdir.replace(VIRT, real)} && {cmd}"
            env = dict(os.environ)
            env.update({k: v.replace(VIRT, real) for k, v in (environment or {}).items()})
            proc = await asyncio.create_subprocess_exec("sh", "-c", cmd, stdin=asyncio.subprocess.DEVNULL,
                                                        stdout=asyncio.subprocess.PIPE, stderr=asyncio.subprocess.STDOUT, env=env)
            out, _ = await asyncio.wait_for(proc.communicate(), timeout or 60)
            if capture_output:
                return out.decode().strip().replace(real, VIRT), proc.returncode
            return None

    return MultiFsConnector


async def _run(case: dict, root: str) -> dict:
    from streamflow.core.config import BindingConfig
    from streamflow.core.deployment import DeploymentConfig, Target
    from streamflow.core.workflow import Token
    from streamflow.deployment.connector import connector_classes
    from streamflow.main import build_context
    from streamflow.workflow.step import DeployStep, ScheduleStep
    from streamflow.workflow.token import JobToken, TerminationToken
    from tests.utils.workflow import create_workflow
    connector_classes["sfv-multifs"] = _connector_class()
    context = build_context({"database": {"type": "default", "config": {"connection": ":memory:"}}, "path": root})
    res: dict = {"outcome": None, "jobs": []}
    try:
        deployments = []
        for k in range(case.get("deployments", 1)):
            deployments.append(DeploymentConfig(name=f"multifs{k}", type="sfv-multifs",
                                                config={"root": os.path.join(root, f"fs{k}"), "nlocs": case.get("nlocs", 3)},
                                                lazy=False, workdir=posixpath.join(VIRT, "work")))
        workflow = next(iter(await create_workflow(context, num_port=0)))
        deploy_steps = [workflow.create_step(cls=DeployStep, name=posixpath.join("__deploy__", d.name), deployment_config=d) for d in deployments]
        fixed = {f"{k}_directory": posixpath.join(VIRT, "work", f"fixed-{k}") for k in ("input", "output", "tmp") if case.get("fixed", {}).get(k)}
        binding = BindingConfig(targets=[Target(deployment=d, locations=case.get("locations", 2)) for d in deployments])
        schedule = workflow.create_step(cls=ScheduleStep, name="/j/__schedule__", job_prefix="/j",
                                        connector_ports={d.name: s.get_output_port() for d, s in zip(deployments, deploy_steps)},
                                        binding_config=binding, **fixed)
        port = workflow.create_port()
        schedule.add_input_port("in", port)
        for i in range(case.get("jobs", 1)):
            port.put(Token(i, tag=f"0.{i}", recoverable=True))
        port.put(TerminationToken())
        await workflow.save(context.database)
        tasks = [asyncio.create_task(s.run()) for s in deploy_steps] + [asyncio.create_task(schedule.run())]
        done, pending = await asyncio.wait(tasks, timeout=case.get("timeout", 60))
        if pending:
            res["outcome"] = "hang"
            for t in pending:
                t.cancel()
        else:
            res["outcome"] = "ok" if schedule.status.name == "COMPLETED" else "step:" + schedule.status.name
        for t in schedule.get_output_port().token_list:
            if not isinstance(t, JobToken):
                continue
            job = t.value
            locs = context.scheduler.get_locations(job.name)
            entry = {"job": job.name, "dirs": [job.input_directory, job.output_directory, job.tmp_directory], "locations": []}
            for loc in locs:
                conn = context.deployment_manager.get_connector(loc.deployment)
                cells = {}
                for d in entry["dirs"]:
                    realp = d.replace(VIRT, conn.real_root(loc.name), 1) if d and d.startswith(VIRT) else None
                    cells[d] = [bool(context.data_manager.get_data_locations(d, loc.deployment, loc.name)),
                                bool(realp and os.path.isdir(realp))]
                entry["locations"].append({"deployment": loc.deployment, "name": loc.name, "cells": cells})
            res["jobs"].append(entry)
    except Exception as e:  # noqa: BLE001
        import traceback
        res["outcome"] = "harness-error"
        res["msg"] = f"{type(e).__name__}: {e}\n{traceback.format_exc()[-1500:]}"
    finally:
        try:
            await asyncio.wait_for(context.close(), 20)
        except BaseException:  # noqa: BLE001
            pass
    return res


def run_case(case: dict) -> dict:
    import streamflow.log_handler  # noqa: F401
    logging.getLogger("streamflow").setLevel(logging.CRITICAL)
    logging.disable(logging.CRITICAL)
    from sfv.rt.recov import _run_loop
    root = tempfile.mkdtemp(prefix="sfv-multifs-")
    try:
        return _run_loop(_run(case, root))
    finally:
        shutil.rmtree(root, ignore_errors=True)
