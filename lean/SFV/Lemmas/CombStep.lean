import SFV.Lemmas.CombDotSpec
import SFV.Lemmas.CombCartMain
/-! `CombinatorStep.run`: the logs of the output ports (`portLog`) against the specification. -/
namespace SFV.Comb
open SFV

theorem lookup_filter_key (e : Emit) (p : Nat) : (e.filter (fun x => x.1 = p)).lookup p = e.lookup p := by
  induction e with
  | nil => rfl
  | cons x r ih =>
    obtain ⟨q, t⟩ := x
    by_cases h : q = p
    · subst h; simp [List.filter_cons, List.lookup]
    · have hb : (p == q) = false := by simpa using (fun e => h e.symm)
      simp only [List.filter_cons, h, decide_false, Bool.false_eq_true, if_false, List.lookup, hb]
      exact ih

theorem lookup_filter_other (e : Emit) {p q : Nat} (h : q ≠ p) : (e.filter (fun x => x.1 = q)).lookup p = none := by
  rw [List.lookup_eq_none_iff]
  intro x hx
  simp only [List.mem_filter, decide_eq_true_eq] at hx
  rw [bne_iff_ne]
  intro hp
  exact h (hx.2.symm.trans hp.symm)

/-- sorting a schema by port does not change what is found under a port -/
theorem lookup_normEmit (M : Nat) (e : Emit) {p : Nat} (hp : p < M) : (normEmit M e).lookup p = e.lookup p := by
  unfold normEmit
  induction M with
  | zero => omega
  | succ M ih =>
    rw [List.range_succ, List.flatMap_append, List.lookup_append]
    by_cases h : p < M
    · rw [ih h]
      have hM : p ≠ M := by omega
      have : ([M].flatMap (fun q => e.filter (fun x => x.1 = q))).lookup p = none := by
        simp only [List.flatMap_cons, List.flatMap_nil, List.append_nil]
        exact lookup_filter_other e (fun e' => hM e'.symm)
      rw [this]
      cases e.lookup p <;> rfl
    · have hpM : p = M := by omega
      subst hpM
      have hnone : ((List.range p).flatMap (fun q => e.filter (fun x => x.1 = q))).lookup p = none := by
        rw [List.lookup_eq_none_iff]
        intro x hx
        obtain ⟨q, hq, hxq⟩ := List.mem_flatMap.mp hx
        simp only [List.mem_filter, decide_eq_true_eq] at hxq
        have := List.mem_range.mp hq
        rw [bne_iff_ne]
        omega
      rw [hnone]
      simp [lookup_filter_key]

theorem portLog_normEmit (P : Nat) (out : List Emit) {p : Nat} (hp : p < P) :
    portLog p (out.map (normEmit P)) = portLog p out := by
  unfold portLog
  rw [List.filterMap_map]
  apply CF.filterMap_congr'
  intro e _
  exact lookup_normEmit P e hp

/-- **output ports of a dot-product `CombinatorStep`**: for every arrival order of a well-formed stream the log of
    output port `p` is, as a multiset, column `p` of the specification -/
theorem step_dot_port_logs {P : Nat} (S es : List Ev) (h : WFDot P S) (hp : es.Perm S) (p : Nat) (hpP : p < P) :
    (portLog p (runDot P es).out).Perm (portLog p (specDot P S)) := by
  rw [← portLog_normEmit P _ hpP]
  exact (runDot_any_order S es h hp).2.filterMap _

/-- the same for a cartesian-product step -/
theorem step_cart_port_logs {depth P L : Nat} (S es : List Ev) (h : WFCart depth P L S) (hp : es.Perm S) (p : Nat) :
    (portLog p (runCart depth P es).out).Perm (portLog p (specCart depth P S)) :=
  (runCart_any_order S es h hp).2.filterMap _

end SFV.Comb
