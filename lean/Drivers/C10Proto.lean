import SFV.Model.Ledger
import SFV.Model.Proto
/-! Acceptance of an observed scheduler event sequence by the engine protocol: the hypothesis `Ledger.HistoryOk` of the
C10/C11/C12 theorems, evaluated step by step (`Ledger.OpOk` is decidable) on the sequence of allocations and
notifications a real run produced. `alloc j` / `notify j status` → `ok` | `reject`; `reset` starts a new run. -/
open SFV SFV.Ledger SFV.Gen.Sched SFV.Proto

def statusOfNat (n : Nat) : Option Status := Status.all.find? (fun s => s.toNat = n)

def step1 (s : St) (op : Op) : St × String :=
  if decide (OpOk s op) then (Ledger.step (fun _ => 0) s op, "ok") else (Ledger.step (fun _ => 0) s op, "reject")

def stepLine (s : St) : List String → St × String
  | ["reset"] => (Ledger.init, "ok")
  | ["alloc", j] =>
      match j.toNat? with
      | some j => step1 s (.allocate j [])
      | none => (s, "bad-op")
  | ["notify", j, n] =>
      match j.toNat?, n.toNat? >>= statusOfNat with
      | some j, some st => step1 s (.notify j st [])
      | _, _ => (s, "bad-op")
  | _ => (s, "bad-op")

def main : IO Unit := runStateful Ledger.init stepLine
