import SFV.Model.Comb
/-! Dot product, closed form (`SFV.Comb.CF`): the state of `DotProductCombinator` as a key list plus a total
    function `tag → item → deque`, `_add_to_list` and `_product` as closed-form updates, and the invariant that
    makes the emitted combinations a function of the *set* of received events (ported from the round-0 pilot,
    extended with the emitted VALUES). `SFV/Lemmas/CombSim.lean` proves that the loop-faithful model of
    `SFV/Model/Comb.lean` computes exactly these closed forms. Elements are `Elem`s (a token of a port, or a
    schema of an inner combinator); only their `tag` matters here. -/
namespace SFV.Comb.CF
open SFV SFV.Comb

abbrev Ev := Nat × Elem

/-- `a ⊑ b`: `_is_parent_tag(b, a)` -/
def pre (a b : Tag) : Prop := isParentTag b a = true
instance (a b : Tag) : Decidable (pre a b) := inferInstanceAs (Decidable (_ = true))

theorem pre_iff {a b : Tag} : pre a b ↔ (a <+: b ∧ (a = [] → b = [])) := by
  unfold pre isParentTag
  by_cases ha : a = []
  · subst ha; simp
  · simp only [ha, if_false, Gen.isParentComps, beq_iff_eq, false_imp_iff, and_true]
    rw [List.prefix_iff_eq_take]
    exact eq_comm

theorem pre_refl (a : Tag) : pre a a := pre_iff.mpr ⟨List.prefix_refl a, id⟩
theorem pre_trans {a b c : Tag} (h1 : pre a b) (h2 : pre b c) : pre a c := by
  rw [pre_iff] at *
  exact ⟨List.IsPrefix.trans h1.1 h2.1, fun h => h2.2 (h1.2 h)⟩
theorem pre_antisymm {a b : Tag} (h1 : pre a b) (h2 : pre b a) : a = b :=
  List.IsPrefix.eq_of_length_le (pre_iff.mp h1).1 (List.IsPrefix.length_le (pre_iff.mp h2).1)
/-- two ancestors of the same tag are comparable -/
theorem pre_total {a b c : Tag} (h1 : pre a c) (h2 : pre b c) : pre a b ∨ pre b a := by
  have h1' := pre_iff.mp h1
  have h2' := pre_iff.mp h2
  rcases List.prefix_or_prefix_of_prefix h1'.1 h2'.1 with h | h
  · refine Or.inl (pre_iff.mpr ⟨h, fun ha => ?_⟩)
    have := h1'.2 ha; subst this; exact List.prefix_nil.mp h2'.1
  · refine Or.inr (pre_iff.mpr ⟨h, fun hb => ?_⟩)
    have := h2'.2 hb; subst this; exact List.prefix_nil.mp h1'.1

structure St where
  keys : List Tag
  cell : Tag → Nat → List Elem
  outTags : List Tag
  out : List (Tag × List Elem)

variable (P : Nat)

def ancCopy (s : St) (tag : Tag) (q : Nat) : List Elem :=
  (s.keys.filter (fun k => k ≠ tag ∧ pre k tag)).flatMap (fun k => s.cell k q)

/-- `_add_to_list` in closed form -/
def add (s : St) (p : Nat) (t : Elem) : St :=
  { keys := if t.tag ∈ s.keys then s.keys else s.keys ++ [t.tag],
    cell := fun κ q =>
      if κ = t.tag then s.cell κ q ++ ancCopy s t.tag q ++ (if q = p then [t] else [])
      else if κ ∈ s.keys ∧ pre t.tag κ then s.cell κ q ++ (if q = p then [t] else [])
      else s.cell κ q,
    outTags := s.outTags
    out := s.out }

def full (s : St) (κ : Tag) : Prop := ∀ q, q < P → s.cell κ q ≠ []
instance (s : St) (κ : Tag) : Decidable (full P s κ) := by unfold full; exact Nat.decidableBallLT _ _

/-- the elements `_product` pops for key `κ`: the last one of every deque, items in increasing order -/
def lasts (s : St) (κ : Tag) : List Elem := (List.range P).filterMap (fun q => (s.cell κ q).getLast?)

/-- `_product` in closed form, for states where at most one combination per key is available -/
def prod (s : St) : St :=
  { keys := s.keys,
    cell := fun κ q => if κ ∈ s.keys ∧ full P s κ ∧ q < P then (s.cell κ q).dropLast else s.cell κ q,
    outTags := s.outTags ++ s.keys.filter (fun κ => full P s κ)
    out := s.out ++ (s.keys.filter (fun κ => full P s κ)).map (fun κ => (κ, lasts P s κ)) }

def step (s : St) (e : Ev) : St := prod P (add s e.1 e.2)

/-- well-formed received list: items in range, per item distinct tags forming a prefix antichain -/
def WF (R : List Ev) : Prop :=
  R.Nodup ∧ (∀ e ∈ R, e.1 < P) ∧
  (∀ e ∈ R, ∀ e' ∈ R, e.1 = e'.1 → pre e.2.tag e'.2.tag → e = e')

def complete (R : List Ev) (κ : Tag) : Prop := ∀ q, q < P → ∃ e ∈ R, e.1 = q ∧ pre e.2.tag κ

structure Inv (R : List Ev) (s : St) : Prop where
  keysNodup : s.keys.Nodup
  keysIff : ∀ κ, κ ∈ s.keys ↔ ∃ e ∈ R, e.2.tag = κ
  sound : ∀ κ q x, x ∈ s.cell κ q → κ ∈ s.keys ∧ (q, x) ∈ R ∧ pre x.tag κ
  compl : ∀ κ, κ ∈ s.keys → κ ∉ s.outTags → ∀ e ∈ R, pre e.2.tag κ → e.2 ∈ s.cell κ e.1
  exact1 : ∀ e ∈ R, (s.cell e.2.tag e.1).length ≤ 1 ∧ (e.2.tag ∈ s.outTags → s.cell e.2.tag e.1 = [])
  outNodup : s.outTags.Nodup
  outIff : ∀ κ, κ ∈ s.outTags ↔ (κ ∈ s.keys ∧ complete P R κ)

/-- the new event is incomparable, on its port, with everything received before -/
theorem fresh_port {R : List Ev} {e : Ev} (hwf : WF P (R ++ [e])) :
    e ∉ R ∧ ∀ e' ∈ R, e'.1 = e.1 → ¬ pre e'.2.tag e.2.tag ∧ ¬ pre e.2.tag e'.2.tag := by
  obtain ⟨hnd, _, hanti⟩ := hwf
  have hnotin : e ∉ R := by
    have := List.nodup_append.mp hnd
    intro h
    exact this.2.2 e h e (by simp) rfl
  refine ⟨hnotin, ?_⟩
  intro e' he' hport
  have hmem' : e' ∈ R ++ [e] := List.mem_append_left _ he'
  have hmem : e ∈ R ++ [e] := by simp
  constructor
  · intro hp
    have := hanti e' hmem' e hmem hport hp
    exact hnotin (this ▸ he')
  · intro hp
    have := hanti e hmem e' hmem' hport.symm hp
    exact hnotin (this ▸ he')

theorem wf_prefix {R : List Ev} {e : Ev} (hwf : WF P (R ++ [e])) : WF P R := by
  obtain ⟨hnd, hp, hanti⟩ := hwf
  refine ⟨(List.nodup_append.mp hnd).1, fun x hx => hp x (List.mem_append_left _ hx), ?_⟩
  intro a ha b hb
  exact hanti a (List.mem_append_left _ ha) b (List.mem_append_left _ hb)



/-- invariant between `add` and `prod` -/
structure InvMid (R : List Ev) (s : St) (old : List Tag) : Prop where
  keysNodup : s.keys.Nodup
  keysIff : ∀ κ, κ ∈ s.keys ↔ ∃ e ∈ R, e.2.tag = κ
  sound : ∀ κ q x, x ∈ s.cell κ q → κ ∈ s.keys ∧ (q, x) ∈ R ∧ pre x.tag κ
  compl : ∀ κ, κ ∈ s.keys → κ ∉ s.outTags → ∀ e ∈ R, pre e.2.tag κ → e.2 ∈ s.cell κ e.1
  exact1 : ∀ e ∈ R, (s.cell e.2.tag e.1).length ≤ 1 ∧ (e.2.tag ∈ s.outTags → s.cell e.2.tag e.1 = [])
  outNodup : s.outTags.Nodup
  outOld : ∀ κ, κ ∈ s.outTags → (κ ∈ s.keys ∧ complete P R κ)

theorem mem_ancCopy {s : St} {tag : Tag} {q : Nat} {x : Elem} :
    x ∈ ancCopy s tag q ↔ ∃ k, k ∈ s.keys ∧ k ≠ tag ∧ pre k tag ∧ x ∈ s.cell k q := by
  simp [ancCopy, List.mem_flatMap, List.mem_filter]
  constructor
  · rintro ⟨k, ⟨hk, hne, hp⟩, hx⟩; exact ⟨k, hk, hne, hp, hx⟩
  · rintro ⟨k, hk, hne, hp, hx⟩; exact ⟨k, ⟨hk, hne, hp⟩, hx⟩

theorem inv_add {R : List Ev} {s : St} {p : Nat} {t : Elem}
    (hwf : WF P (R ++ [(p, t)])) (hI : Inv P R s) :
    InvMid P (R ++ [(p, t)]) (add s p t) s.outTags := by
  obtain ⟨hfresh, hinc⟩ := fresh_port P hwf
  have hinc' : ∀ q x, (q, x) ∈ R → q = p → ¬ pre x.tag t.tag ∧ ¬ pre t.tag x.tag :=
    fun q x hx hq => hinc (q, x) hx hq
  -- nothing on port p below or above τ yet
  have hcellp_empty : ∀ κ, pre κ t.tag → s.cell κ p = [] := by
    intro κ hκ
    cases hc : s.cell κ p with
    | nil => rfl
    | cons x xs =>
      have hx : x ∈ s.cell κ p := by simp [hc]
      obtain ⟨_, hR, hpre⟩ := hI.sound κ p x hx
      exact absurd (pre_trans hpre hκ) (hinc' p x hR rfl).1
  have hτout : t.tag ∉ s.outTags := by
    intro h
    obtain ⟨_, hc⟩ := (hI.outIff t.tag).mp h
    obtain ⟨e', he', hport, hpre⟩ := hc p (hwf.2.1 (p, t) (by simp))
    exact (hinc e' he' hport).1 hpre
  have hancout : ∀ k, k ∈ s.keys → pre k t.tag → k ∉ s.outTags := by
    intro k hk hpk h
    obtain ⟨_, hc⟩ := (hI.outIff k).mp h
    obtain ⟨e', he', hport, hpre⟩ := hc p (hwf.2.1 (p, t) (by simp))
    exact (hinc e' he' hport).1 (pre_trans hpre hpk)
  constructor
  · -- keysNodup
    simp only [add]
    split
    · exact hI.keysNodup
    · rename_i h
      exact List.nodup_append.mpr ⟨hI.keysNodup, by simp, by
        intro a ha b hb; simp at hb; subst hb; exact fun e => h (e ▸ ha)⟩
  · -- keysIff
    intro κ
    simp only [add]
    constructor
    · intro h
      split at h
      · obtain ⟨e, he, hte⟩ := (hI.keysIff κ).mp h
        exact ⟨e, List.mem_append_left _ he, hte⟩
      · rcases List.mem_append.mp h with h | h
        · obtain ⟨e, he, hte⟩ := (hI.keysIff κ).mp h
          exact ⟨e, List.mem_append_left _ he, hte⟩
        · simp at h; subst h; exact ⟨(p, t), by simp, rfl⟩
    · rintro ⟨e, he, hte⟩
      rcases List.mem_append.mp he with he | he
      · have := (hI.keysIff κ).mpr ⟨e, he, hte⟩
        split
        · exact this
        · exact List.mem_append_left _ this
      · simp at he; subst he; subst hte
        split
        · assumption
        · simp
  · -- sound
    intro κ q x hx
    simp only [add] at hx ⊢
    have hkeys : ∀ k, k ∈ s.keys → k ∈ (if t.tag ∈ s.keys then s.keys else s.keys ++ [t.tag]) := by
      intro k hk; split
      · exact hk
      · exact List.mem_append_left _ hk
    have hτkeys : t.tag ∈ (if t.tag ∈ s.keys then s.keys else s.keys ++ [t.tag]) := by
      split
      · assumption
      · simp
    split at hx
    · rename_i hκ; subst hκ
      rcases List.mem_append.mp hx with hx | hx
      · rcases List.mem_append.mp hx with hx | hx
        · obtain ⟨hk, hR, hp⟩ := hI.sound _ q x hx
          exact ⟨hτkeys, List.mem_append_left _ hR, hp⟩
        · obtain ⟨k, hk, _, hpk, hxk⟩ := mem_ancCopy.mp hx
          obtain ⟨_, hR, hp⟩ := hI.sound k q x hxk
          exact ⟨hτkeys, List.mem_append_left _ hR, pre_trans hp hpk⟩
      · split at hx
        · rename_i hq; simp at hx; subst hx; subst hq
          exact ⟨hτkeys, by simp, pre_refl _⟩
        · simp at hx
    · split at hx
      · rename_i hcond
        rcases List.mem_append.mp hx with hx | hx
        · obtain ⟨hk, hR, hp⟩ := hI.sound κ q x hx
          exact ⟨hkeys κ hk, List.mem_append_left _ hR, hp⟩
        · split at hx
          · rename_i hq; simp at hx; subst hx; subst hq
            exact ⟨hkeys κ hcond.1, by simp, hcond.2⟩
          · simp at hx
      · obtain ⟨hk, hR, hp⟩ := hI.sound κ q x hx
        exact ⟨hkeys κ hk, List.mem_append_left _ hR, hp⟩
  · -- compl
    intro κ hκ hout e' he' hpre
    simp only [add] at hκ hout ⊢
    rcases List.mem_append.mp he' with he' | he'
    · -- an old event
      by_cases hκτ : κ = t.tag
      · subst hκτ
        simp only [if_true]
        by_cases hold : t.tag ∈ s.keys
        · have := hI.compl t.tag hold hout e' he' hpre
          exact List.mem_append_left _ (List.mem_append_left _ this)
        · -- new key: the token comes from the ancestor copy
          have hk : e'.2.tag ∈ s.keys := (hI.keysIff _).mpr ⟨e', he', rfl⟩
          have hne : e'.2.tag ≠ t.tag := fun h => hold (h ▸ hk)
          have hkout := hancout _ hk hpre
          have := hI.compl e'.2.tag hk hkout e' he' (pre_refl _)
          exact List.mem_append_left _ (List.mem_append_right _
            (mem_ancCopy.mpr ⟨_, hk, hne, hpre, this⟩))
      · have hκold : κ ∈ s.keys := by
          split at hκ
          · exact hκ
          · rcases List.mem_append.mp hκ with h | h
            · exact h
            · simp at h; exact absurd h hκτ
        have := hI.compl κ hκold hout e' he' hpre
        simp only [hκτ, if_false]
        split
        · exact List.mem_append_left _ this
        · exact this
    · -- the new event itself
      simp at he'; subst he'
      simp only at hpre ⊢
      by_cases hκτ : κ = t.tag
      · subst hκτ; simp
      · have hκold : κ ∈ s.keys := by
          split at hκ
          · exact hκ
          · rcases List.mem_append.mp hκ with h | h
            · exact h
            · simp at h; exact absurd h hκτ
        simp [hκτ, hκold, hpre]
  · -- exact1
    intro e' he'
    simp only [add]
    rcases List.mem_append.mp he' with heR | heN
    · clear he'
      obtain ⟨q, x⟩ := e'
      simp only
      have hold := hI.exact1 (q, x) heR
      simp only at hold
      by_cases hκτ : x.tag = t.tag
      · -- same tag as the new token: must be another port, and no ancestor copy lands there
        have hqp : q ≠ p := by
          intro h; subst h
          exact (hinc' q x heR rfl).1 (hκτ ▸ pre_refl _)
        have hanc : ancCopy s t.tag q = [] := by
          cases hc : ancCopy s t.tag q with
          | nil => rfl
          | cons y ys =>
            have hy : y ∈ ancCopy s t.tag q := by simp [hc]
            obtain ⟨k, hk, hne, hpk, hyk⟩ := mem_ancCopy.mp hy
            obtain ⟨_, hyR, hpy⟩ := hI.sound k q y hyk
            have hyx : (q, y) = (q, x) :=
              (wf_prefix P hwf).2.2 (q, y) hyR (q, x) heR rfl (hκτ ▸ pre_trans hpy hpk)
            have hyx' : y = x := by simpa using hyx
            subst hyx'
            exact absurd (pre_antisymm hpk (hκτ ▸ hpy)) hne
        simp [hκτ, hanc, hqp] at hold ⊢
        simpa [hκτ] using hold
      · simp only [hκτ, if_false]
        split
        · rename_i hcond
          have hqp : q ≠ p := by
            intro h; subst h
            exact (hinc' q x heR rfl).2 hcond.2
          simpa [hqp] using hold
        · exact hold
    · simp at heN; subst heN
      simp only [if_true]
      have h1 : s.cell t.tag p = [] := hcellp_empty t.tag (pre_refl _)
      have h2 : ancCopy s t.tag p = [] := by
        cases hc : ancCopy s t.tag p with
        | nil => rfl
        | cons y ys =>
          have hy : y ∈ ancCopy s t.tag p := by simp [hc]
          obtain ⟨k, _, _, hpk, hyk⟩ := mem_ancCopy.mp hy
          rw [hcellp_empty k hpk] at hyk; simp at hyk
      simp [h1, h2]
      exact fun h => absurd h hτout
  · exact hI.outNodup
  · -- outOld
    intro κ hκ
    simp only [add] at hκ ⊢
    obtain ⟨hk, hc⟩ := (hI.outIff κ).mp hκ
    refine ⟨?_, ?_⟩
    · split
      · exact hk
      · exact List.mem_append_left _ hk
    · intro q hq
      obtain ⟨e', he', h1, h2⟩ := hc q hq
      exact ⟨e', List.mem_append_left _ he', h1, h2⟩



theorem inv_prod {R : List Ev} {s : St} {old : List Tag} (hports : ∀ e ∈ R, e.1 < P)
    (hM : InvMid P R s old) : Inv P R (prod P s) := by
  have hdisj : ∀ κ, κ ∈ s.outTags → ¬ (κ ∈ s.keys ∧ full P s κ) := by
    intro κ hout ⟨hk, hfull⟩
    obtain ⟨e, he, hte⟩ := (hM.keysIff κ).mp hk
    have := (hM.exact1 e he).2 (hte ▸ hout)
    exact hfull e.1 (hports e he) (hte ▸ this)
  constructor
  · exact hM.keysNodup
  · exact hM.keysIff
  · -- sound
    intro κ q x hx
    simp only [prod] at hx
    split at hx
    · exact hM.sound κ q x ((List.dropLast_sublist _).subset hx)
    · exact hM.sound κ q x hx
  · -- compl
    intro κ hκ hout e he hpre
    simp only [prod] at hκ hout ⊢
    have hnf : ¬ (κ ∈ s.keys ∧ full P s κ) := by
      intro h
      exact hout (List.mem_append_right _ (List.mem_filter.mpr ⟨h.1, by simpa using h.2⟩))
    have hold : κ ∉ s.outTags := fun h => hout (List.mem_append_left _ h)
    have := hM.compl κ hκ hold e he hpre
    split
    · rename_i h; exact absurd ⟨h.1, h.2.1⟩ hnf
    · exact this
  · -- exact1
    intro e he
    have h1 := hM.exact1 e he
    simp only [prod]
    constructor
    · split
      · have := List.length_dropLast (xs := s.cell e.2.tag e.1); omega
      · exact h1.1
    · intro hout
      rcases List.mem_append.mp hout with hout | hout
      · have := h1.2 hout
        split <;> simp [this]
      · obtain ⟨hk, hf⟩ := List.mem_filter.mp hout
        have hf' : full P s e.2.tag := by simpa using hf
        have hlt := hports e he
        simp only [hk, hf', hlt, and_self, if_true]
        have hlen := h1.1
        cases hc : s.cell e.2.tag e.1 with
        | nil => rfl
        | cons a l =>
          rw [hc] at hlen
          have : l = [] := by
            cases l with
            | nil => rfl
            | cons b l' => simp at hlen
          subst this; rfl
  · -- outNodup
    simp only [prod]
    refine List.nodup_append.mpr ⟨hM.outNodup, hM.keysNodup.filter _, ?_⟩
    intro a ha b hb hab
    subst hab
    obtain ⟨hk, hf⟩ := List.mem_filter.mp hb
    exact hdisj a ha ⟨hk, by simpa using hf⟩
  · -- outIff
    intro κ
    simp only [prod]
    constructor
    · intro h
      rcases List.mem_append.mp h with h | h
      · exact hM.outOld κ h
      · obtain ⟨hk, hf⟩ := List.mem_filter.mp h
        have hf' : full P s κ := by simpa using hf
        refine ⟨hk, ?_⟩
        intro q hq
        cases hc : s.cell κ q with
        | nil => exact absurd hc (hf' q hq)
        | cons x xs =>
          have hx : x ∈ s.cell κ q := by simp [hc]
          obtain ⟨_, hR, hp⟩ := hM.sound κ q x hx
          exact ⟨(q, x), hR, rfl, hp⟩
    · rintro ⟨hk, hc⟩
      by_cases hout : κ ∈ s.outTags
      · exact List.mem_append_left _ hout
      · refine List.mem_append_right _ (List.mem_filter.mpr ⟨hk, ?_⟩)
        have : full P s κ := by
          intro q hq hempty
          obtain ⟨e, he, hport, hpre⟩ := hc q hq
          have := hM.compl κ hk hout e he hpre
          rw [hport, hempty] at this; simp at this
        simpa using this

theorem inv_step {R : List Ev} {s : St} {e : Ev} (hwf : WF P (R ++ [e])) (hI : Inv P R s) :
    Inv P (R ++ [e]) (step P s e) := by
  obtain ⟨p, t⟩ := e
  exact inv_prod P hwf.2.1 (inv_add P hwf hI)


def init : St := { keys := [], cell := fun _ _ => [], outTags := [], out := [] }
def run (es : List Ev) : St := es.foldl (step P) init

theorem inv_init : Inv P [] init := by
  constructor <;> simp [init]

/-! ### emitted values -/

theorem filterMap_congr' {α β : Type} {f g : α → Option β} {l : List α} (h : ∀ a ∈ l, f a = g a) :
    l.filterMap f = l.filterMap g := by
  induction l with
  | nil => rfl
  | cons a l ih =>
    simp only [List.filterMap_cons]
    rw [h a (by simp), ih (fun b hb => h b (List.mem_cons_of_mem _ hb))]

theorem nodup_of_map {α β : Type} (f : α → β) {l : List α} (h : (l.map f).Nodup) : l.Nodup :=
  List.Pairwise.of_map f (fun _ _ hne e => hne (e ▸ rfl)) h

/-- the element of item `q` the specification pairs with tag `κ`: the first (under `WF`: the only) received
    element of `q` whose tag is an ancestor of `κ` -/
def pick (R : List Ev) (κ : Tag) (q : Nat) : Option Elem :=
  (R.find? (fun e => e.1 = q ∧ pre e.2.tag κ)).map (·.2)

def picks (R : List Ev) (κ : Tag) : List Elem := (List.range P).filterMap (pick R κ)

theorem pick_of_mem {R : List Ev} (hwf : WF P R) {q : Nat} {x : Elem} {κ : Tag}
    (hm : (q, x) ∈ R) (hp : pre x.tag κ) : pick R κ q = some x := by
  unfold pick
  cases h : R.find? (fun e => e.1 = q ∧ pre e.2.tag κ) with
  | none =>
    have := List.find?_eq_none.mp h (q, x) hm
    simp [hp] at this
  | some e' =>
    have h1 := List.find?_some h
    have hmem := List.mem_of_find?_eq_some h
    simp only [decide_eq_true_eq] at h1
    obtain ⟨hq, hp'⟩ := h1
    have : e' = (q, x) := by
      rcases pre_total hp' hp with hc | hc
      · exact hwf.2.2 e' hmem (q, x) hm hq hc
      · exact (hwf.2.2 (q, x) hm e' hmem hq.symm hc).symm
    simp [this]

theorem pick_none {R : List Ev} {q : Nat} {κ : Tag}
    (h : ∀ e ∈ R, e.1 = q → ¬ pre e.2.tag κ) : pick R κ q = none := by
  unfold pick
  have : R.find? (fun e => e.1 = q ∧ pre e.2.tag κ) = none := by
    apply List.find?_eq_none.mpr
    intro e he
    simp only [decide_eq_true_eq, not_and]
    exact h e he
  rw [this]; rfl

theorem pick_append {R : List Ev} {e : Ev} {κ : Tag} {q : Nat} {x : Elem}
    (h : pick R κ q = some x) : pick (R ++ [e]) κ q = some x := by
  unfold pick at *
  rw [List.find?_append]
  cases hf : R.find? (fun e => e.1 = q ∧ pre e.2.tag κ) with
  | none => rw [hf] at h; simp at h
  | some e' => rw [hf] at h; simpa using h

structure InvV (R : List Ev) (s : St) : Prop where
  outMap : s.outTags = s.out.map (·.1)
  outVal : ∀ κ es, (κ, es) ∈ s.out → es = picks P R κ

theorem invV_step {R : List Ev} {s : St} {e : Ev} (hwf : WF P (R ++ [e])) (hI : Inv P R s)
    (hV : InvV P R s) : InvV P (R ++ [e]) (step P s e) := by
  obtain ⟨p, t⟩ := e
  have hM := inv_add P hwf hI
  constructor
  · simp only [step, prod, add, List.map_append, List.map_map, hV.outMap]
    congr 1
    simp [Function.comp_def]
  · intro κ es hmem
    simp only [step, prod] at hmem
    rcases List.mem_append.mp hmem with hold | hnew
    · -- an old emission: its picks are unchanged
      have hold' : (κ, es) ∈ s.out := hold
      rw [hV.outVal κ es hold']
      have hκ : κ ∈ s.outTags := by
        rw [hV.outMap]; exact List.mem_map.mpr ⟨(κ, es), hold', rfl⟩
      obtain ⟨_, hc⟩ := (hI.outIff κ).mp hκ
      unfold picks
      apply filterMap_congr'
      intro q hq
      obtain ⟨e', he', h1, h2⟩ := hc q (List.mem_range.mp hq)
      obtain ⟨q', x⟩ := e'
      simp only at h1 h2
      subst h1
      have := pick_of_mem P (wf_prefix P hwf) he' h2
      rw [this, pick_append this]
    · obtain ⟨κ', hk', heq⟩ := List.mem_map.mp hnew
      simp only [Prod.mk.injEq] at heq
      obtain ⟨h1, h2⟩ := heq
      subst h1
      rw [← h2]
      obtain ⟨_, hfull⟩ := List.mem_filter.mp hk'
      have hfull' : full P (add s p t) κ' := by simpa using hfull
      unfold lasts picks
      apply filterMap_congr'
      intro q hq
      have hne := hfull' q (List.mem_range.mp hq)
      cases hl : ((add s p t).cell κ' q).getLast? with
      | none => rw [List.getLast?_eq_none_iff] at hl; exact absurd hl hne
      | some x =>
        have hx : x ∈ (add s p t).cell κ' q := List.mem_of_getLast? hl
        obtain ⟨_, hR, hp⟩ := hM.sound κ' q x hx
        exact (pick_of_mem P hwf hR hp).symm

theorem inv_run_aux' (R es : List Ev) (s : St) (hwf : WF P (R ++ es)) (hI : Inv P R s) (hV : InvV P R s) :
    Inv P (R ++ es) (es.foldl (step P) s) ∧ InvV P (R ++ es) (es.foldl (step P) s) := by
  induction es generalizing R s with
  | nil => simpa using ⟨hI, hV⟩
  | cons e es ih =>
    have hwf' : WF P ((R ++ [e]) ++ es) := by simpa using hwf
    have hpre : WF P (R ++ [e]) := by
      obtain ⟨hnd, hp, ha⟩ := hwf'
      refine ⟨(List.nodup_append.mp hnd).1, fun x hx => hp x (List.mem_append_left _ hx), ?_⟩
      intro a ha' b hb'
      exact ha a (List.mem_append_left _ ha') b (List.mem_append_left _ hb')
    have := ih (R ++ [e]) (step P s e) hwf' (inv_step P hpre hI) (invV_step P hpre hI hV)
    simpa using this

theorem inv_run (es : List Ev) (hwf : WF P es) : Inv P es (run P es) ∧ InvV P es (run P es) := by
  have := inv_run_aux' P [] es init (by simpa using hwf) (inv_init P)
    ⟨by simp [init], by simp [init]⟩
  simpa [run] using this

/-- **what is emitted, exactly**: the pair `(κ, l)` is emitted iff `κ` is a received tag, every item has a
    received element whose tag is an ancestor of `κ`, and `l` lists those elements -/
theorem mem_out_iff (es : List Ev) (hwf : WF P es) (κ : Tag) (l : List Elem) :
    (κ, l) ∈ (run P es).out ↔ ((∃ e ∈ es, e.2.tag = κ) ∧ complete P es κ ∧ l = picks P es κ) := by
  obtain ⟨hI, hV⟩ := inv_run P es hwf
  constructor
  · intro h
    have hκ : κ ∈ (run P es).outTags := by
      rw [hV.outMap]; exact List.mem_map.mpr ⟨(κ, l), h, rfl⟩
    obtain ⟨hk, hc⟩ := (hI.outIff κ).mp hκ
    exact ⟨(hI.keysIff κ).mp hk, hc, hV.outVal κ l h⟩
  · rintro ⟨hr, hc, hl⟩
    have hκ : κ ∈ (run P es).outTags := (hI.outIff κ).mpr ⟨(hI.keysIff κ).mpr hr, hc⟩
    rw [hV.outMap] at hκ
    obtain ⟨⟨κ', l'⟩, hm, hk⟩ := List.mem_map.mp hκ
    simp only at hk; subst hk
    rw [hl, ← hV.outVal _ l' hm]; exact hm

/-- every key is emitted at most once -/
theorem out_nodup (es : List Ev) (hwf : WF P es) : (run P es).out.Nodup := by
  obtain ⟨hI, hV⟩ := inv_run P es hwf
  have := hI.outNodup
  rw [hV.outMap] at this
  exact nodup_of_map _ this

theorem WF_perm {es es' : List Ev} (h : es'.Perm es) (hwf : WF P es) : WF P es' := by
  obtain ⟨hnd, hp, ha⟩ := hwf
  refine ⟨h.nodup_iff.mpr hnd, fun e he => hp e (h.subset he), ?_⟩
  intro a ha' b hb'
  exact ha a (h.subset ha') b (h.subset hb')

theorem picks_perm {es es' : List Ev} (h : es'.Perm es) (hwf : WF P es) (κ : Tag) :
    picks P es' κ = picks P es κ := by
  unfold picks
  apply filterMap_congr'
  intro q _
  by_cases hex : ∃ e ∈ es, e.1 = q ∧ pre e.2.tag κ
  · obtain ⟨⟨q', x⟩, he, h1, h2⟩ := hex
    simp only at h1 h2; subst h1
    rw [pick_of_mem P hwf he h2, pick_of_mem P (WF_perm P h hwf) (h.symm.subset he) h2]
  · have hn : ∀ e ∈ es, e.1 = q → ¬ pre e.2.tag κ := fun e he h1 h2 => hex ⟨e, he, h1, h2⟩
    rw [pick_none hn, pick_none (fun e he => hn e (h.subset he))]

/-- order independence of the closed-form run: any two arrival orders of a well-formed stream emit the same
    (key, elements) pairs, each exactly once -/
theorem out_perm (es es' : List Ev) (h : es'.Perm es) (hwf : WF P es) :
    (run P es').out.Perm (run P es).out := by
  have hwf' := WF_perm P h hwf
  apply (List.perm_ext_iff_of_nodup (out_nodup P es' hwf') (out_nodup P es hwf)).mpr
  rintro ⟨κ, l⟩
  rw [mem_out_iff P es' hwf', mem_out_iff P es hwf, picks_perm P h hwf]
  constructor
  · rintro ⟨⟨e, he, hte⟩, hc, hl⟩
    exact ⟨⟨e, h.subset he, hte⟩, fun q hq => by
      obtain ⟨e', he', h1, h2⟩ := hc q hq; exact ⟨e', h.subset he', h1, h2⟩, hl⟩
  · rintro ⟨⟨e, he, hte⟩, hc, hl⟩
    exact ⟨⟨e, h.symm.subset he, hte⟩, fun q hq => by
      obtain ⟨e', he', h1, h2⟩ := hc q hq; exact ⟨e', h.symm.subset he', h1, h2⟩, hl⟩

end SFV.Comb.CF
