import SFV.Lemmas.GatherMain
/-! Forced gathering (no size token), nested scatters. -/
namespace SFV.Gather
open SFV

/-! ### forced gathering -/

/-- the outputs of `forceLoop`, as a function of the fields it reads -/
def forceOut {V} (toks : Tag → List (Tok V)) (completed : List Tag) (out : List (Tag × List (Tok V))) :
    List Tag → List (Tag × List (Tok V))
  | [] => out
  | k :: ks => if k ∈ completed then forceOut toks completed out ks
               else forceOut toks completed (out ++ [(k, sortToks (toks k))]) ks

theorem forceLoop_out {V} (s : St V) (ks : List Tag) :
    (forceLoop s ks).out = forceOut s.toks s.completed s.out ks ∧ (forceLoop s ks).status = s.status := by
  induction ks generalizing s with
  | nil => exact ⟨rfl, rfl⟩
  | cons k ks ih =>
    simp only [forceLoop, forceOut]
    split
    · exact ih s
    · have := ih { s with sizes := setKey s.sizes k (some (s.toks k).length), out := s.out ++ [(k, sortToks (s.toks k))] }
      exact this

/-- the two termination tokens, in general -/
theorem terms_general {V} (d : Nat) (s : St V) (ho : BothOpen s) (pa pb : PortId) (hab : pa ≠ pb) (sa sb : Status) :
    (step d (step d s (.term pa sa)) (.term pb sb)).out =
      (if Gen.gatherForce (reduce2 (reduce2 s.status sa) sb) then forceOut s.toks s.completed s.out s.keys else s.out) := by
  obtain ⟨ho1, ho2⟩ := ho
  cases pa <;> cases pb <;> first | exact absurd rfl hab | skip
  all_goals
    simp only [step, ho1, ho2, finish]
    simp
    split
    · rw [(forceLoop_out _ _).1]
    · rfl

theorem addKey_idem (keys : List Tag) (k : Tag) : addKey (addKey keys k) k = addKey keys k := by
  have : k ∈ addKey keys k := mem_addKey.mpr (Or.inr rfl)
  generalize addKey keys k = l at this ⊢
  simp [addKey, this]

theorem forced_fold {V} (d : Nat) (p : Tag) (ts : List (Tok V)) (hkey : ∀ t ∈ ts, keyOf d t.tag = p) :
    ∀ (s : St V), BothOpen s → s.sizes p = none →
      let s' := (ts.map Ev.elem).foldl (step d) s
      s'.sizes p = none ∧ s'.toks p = s.toks p ++ ts ∧ s'.out = s.out ∧ s'.completed = s.completed ∧
      s'.keys = (if ts = [] then s.keys else addKey s.keys p) ∧ BothOpen s' ∧ s'.status = s.status := by
  induction ts with
  | nil => intro s ho hs; simp [ho, hs]
  | cons t ts ih =>
    intro s ho hs
    have hk : keyOf d t.tag = p := hkey t (by simp)
    have hno : elemEmits ((s.toks p).length + 1) (s.sizes p) = false := by
      rw [hs]; rfl
    have hstep : step d s (.elem t) = { s with keys := addKey s.keys p, toks := setKey s.toks p (s.toks p ++ [t]) } := by
      simp [step, ho.2, hk, setKey_same, hno]
    have ih' := ih (fun x hx => hkey x (List.mem_cons_of_mem _ hx))
      { s with keys := addKey s.keys p, toks := setKey s.toks p (s.toks p ++ [t]) } ho hs
    simp only [List.map_cons, List.foldl_cons, hstep]
    obtain ⟨h1, h2, h3, h4, h5, h6, h7⟩ := ih'
    refine ⟨h1, ?_, h3, h4, ?_, h6, h7⟩
    · rw [h2]; simp [setKey_same]
    · rw [h5]; simp only [reduceCtorEq, if_false]
      split
      · rfl
      · exact addKey_idem _ _

/-! ### nested scatters -/

/-- a gathered list token as an element token of the next level -/
def asTok {V} (g : Tag × List (Tok V)) : Tok (List (Tok V)) := ⟨g.1, g.2⟩

/-- the scatter of every element of a scatter: one group per outer element -/
def scatter2 {V} (p : Tag) (xss : List (List V)) : List (Tag × List (Tok V)) :=
  (scatter p xss).1.map (fun t => (t.tag, (scatter t.tag t.val).1))

theorem scatter2_asTok {V} (p : Tag) (xss : List (List V)) :
    (scatter2 p xss).map asTok = (scatter p (xss.map (fun xs => xs))).1.map (fun t => ⟨t.tag, (scatter t.tag t.val).1⟩) := by
  simp [scatter2, asTok]

theorem map_tag_sorted {V W} (g : Tok V → W) (l : List (Tok V)) (h : StrictSorted l) :
    StrictSorted (l.map (fun t => (⟨t.tag, g t⟩ : Tok W))) := by
  unfold StrictSorted at *
  rw [List.pairwise_map]
  exact h

theorem scatter2_keys_nodup {V} (p : Tag) (xss : List (List V)) : ((scatter2 p xss).map (·.1)).Nodup := by
  have hs : StrictSorted (scatter p xss).1 := scatterFrom_sorted p 0 xss
  have : (scatter2 p xss).map (·.1) = (scatter p xss).1.map (·.tag) := by simp [scatter2]
  rw [this]
  unfold StrictSorted at hs
  rw [List.Nodup, List.pairwise_map]
  refine hs.imp ?_
  intro a b hab e
  rw [e, (C33.cmp_eq_zero_iff b.tag b.tag).mpr rfl] at hab
  omega

/-- row-major leaves of a two-level scatter are strictly sorted -/
theorem scatter2_leaves_sorted {V} (p : Tag) (xss : List (List V)) :
    StrictSorted ((scatter2 p xss).flatMap (·.2)) := by
  unfold StrictSorted
  rw [List.pairwise_flatMap]
  constructor
  · intro g hg
    obtain ⟨t, _, rfl⟩ := List.mem_map.mp hg
    exact scatterFrom_sorted _ 0 _
  · unfold scatter2
    rw [List.pairwise_map]
    have hs : StrictSorted (scatter p xss).1 := scatterFrom_sorted p 0 xss
    refine List.Pairwise.imp_of_mem ?_ hs
    intro a b ha hb hab x hx y hy
    obtain ⟨i, _, hai⟩ := mem_scatterFrom ha
    obtain ⟨j, _, hbj⟩ := mem_scatterFrom hb
    obtain ⟨i', _, hxi⟩ := mem_scatterFrom hx
    obtain ⟨j', _, hyj⟩ := mem_scatterFrom hy
    rw [hxi, hyj, hai, hbj, List.append_assoc, List.append_assoc]
    rw [hai, hbj] at hab
    have hij : i < j := by
      rcases Nat.lt_trichotomy i j with h | h | h
      · exact h
      · subst h; rw [(C33.cmp_eq_zero_iff _ _).mpr rfl] at hab; omega
      · have := C33.cmp_numeric p [] [] j i rfl h
        have h2 := C33.cmp_antisymm (p ++ [i]) (p ++ [j])
        omega
    exact C33.cmp_numeric p [i'] [j'] i j rfl hij

theorem scatter2_leaves_key {V} (p : Tag) (xss : List (List V)) :
    ∀ t ∈ (scatter2 p xss).flatMap (·.2), keyOf 2 t.tag = p := by
  intro t ht
  obtain ⟨g, hg, htg⟩ := List.mem_flatMap.mp ht
  obtain ⟨a, ha, rfl⟩ := List.mem_map.mp hg
  obtain ⟨i, _, hai⟩ := mem_scatterFrom ha
  obtain ⟨j, _, htj⟩ := mem_scatterFrom htg
  rw [htj, hai, List.append_assoc]
  exact keyOf_append 2 p _ rfl

theorem scatter2_group_key {V} (p : Tag) (xss : List (List V)) :
    ∀ g ∈ scatter2 p xss, (∀ t ∈ g.2, keyOf 1 t.tag = g.1) ∧ StrictSorted g.2 := by
  intro g hg
  obtain ⟨a, _, rfl⟩ := List.mem_map.mp hg
  exact ⟨scatterFrom_key _ 0 _, scatterFrom_sorted _ 0 _⟩

end SFV.Gather
