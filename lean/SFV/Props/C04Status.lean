import SFV.Lemmas.ExecStatus
/-! # C04 — the statuses steps end with in failing runs

A step downstream of a FAILED step never ends COMPLETED or SKIPPED: it ends FAILED (when it terminates by itself)
or CANCELLED (when the executor's `close()` terminates it). Property theorems only; the transition system is
`SFV/Model/Exec.lean`, helper lemmas and invariants are in `SFV/Lemmas/ExecStatus.lean`. `fx = false` is
`_cancel` before fix 88472de, `fx = true` the code as it is now; every theorem holds for both. No theorem here
needs the graph to be well-formed (`N.WF`). -/
namespace SFV.C04
open SFV.Exec

/-! ## A. A termination status is final -/

/-- **A status once set never changes.** No action (a step finishing or raising, the executor reading an output,
`close()`, the final return / raise) modifies the status of a step that is already terminated. -/
theorem status_is_final {fx : Bool} {N : ENet} {s s' : St} {a : Act} {i : Nat} {x : Status}
    (h : step fx N s a = some s') (hx : s.st i = some x) : s'.st i = some x :=
  step_st_stable h hx

/-- the same along any run -/
theorem status_stable_run {fx : Bool} {N : ENet} {s s' : St} {acts : List Act} {i : Nat} {x : Status}
    (h : runActs fx N s acts = some s') (hx : s.st i = some x) : s'.st i = some x :=
  runActs_st_stable h hx

/-! ## B. CANCELLED only comes from `close()` -/

/-- **CANCELLED only comes from `close()`.** In every reachable state, if some step is CANCELLED then every step is
terminated and the executor has left its collecting loop. (Stronger than asked: neither index is restricted to
`< N.n`.) -/
theorem cancelled_only_by_close {fx : Bool} {N : ENet} {s : St} (hr : Reachable fx N s) {i : Nat}
    (hc : s.st i = some .cancelled) : (∀ j, (s.st j).isSome = true) ∧ s.pc ≠ .running :=
  (cginv_reachable hr).1 i hc

/-- while the executor is collecting outputs no step is CANCELLED -/
theorem no_cancelled_while_running {fx : Bool} {N : ENet} {s : St} (hr : Reachable fx N s) (hp : s.pc = .running)
    (i : Nat) : s.st i ≠ some .cancelled :=
  fun hc => (cancelled_only_by_close hr hc).2 hp

/-- a step never ends CANCELLED by itself: in a reachable state an enabled `finish i` gives a status other than
CANCELLED (so CANCELLED appears only through `closeAll`) -/
theorem finish_never_cancelled {fx : Bool} {N : ENet} {s s' : St} {i : Nat} (hr : Reachable fx N s)
    (hs : step fx N s (.finish i) = some s') : s'.st i ≠ some .cancelled :=
  finish_not_cancelled (cginv_reachable hr).1 hs

/-! ## C. A good step has good producers -/

/-- **A COMPLETED / SKIPPED step has only COMPLETED / SKIPPED producers.** In every reachable state, if step `j`
ended COMPLETED or SKIPPED then every producer of one of its input ports is terminated COMPLETED or SKIPPED. -/
theorem good_step_has_good_producers {fx : Bool} {N : ENet} {s : St} (hr : Reachable fx N s) {j : Nat} {x : Status}
    (hx : s.st j = some x) (hg : x.bad = false) : ∀ p ∈ N.preds j, ∃ y, s.st p = some y ∧ y.bad = false :=
  (cginv_reachable hr).2 j x hx hg

/-- the step that makes C work: with no CANCELLED producer (always the case when `finish` is enabled in a reachable
state), a step with a FAILED producer that terminates by itself ends FAILED -/
theorem consumer_of_failed_finishes_failed {fx : Bool} {N : ENet} {s s' : St} {i p : Nat} (hr : Reachable fx N s)
    (hs : step fx N s (.finish i) = some s') (hp : p ∈ N.preds i) (hf : s.st p = some .failed) :
    s'.st i = some .failed :=
  finish_failed_of_pred (cginv_reachable hr).1 hs hp hf

/-! ## D. Downstream of a failure -/

/-- **A step downstream of a FAILED step never ends COMPLETED or SKIPPED.** In every reachable state (with or
without the repair of `_cancel`), if step `i` is FAILED and step `j` consumes, directly or through other steps,
what `i` produces, then `j` — if it is terminated — is FAILED or CANCELLED. (That the executor then does not return
normally is `failure_raises` in `SFV/Props/C04.lean`.) -/
theorem downstream_of_failed_never_good {fx : Bool} {N : ENet} {s : St} (hr : Reachable fx N s) {i j : Nat}
    (hU : Upstream N i j) (hf : s.st i = some .failed) {x : Status} (hx : s.st j = some x) : x.bad = true := by
  cases hb : x.bad with
  | true => rfl
  | false =>
    obtain ⟨y, hy, hyb⟩ := ginv_upstream (cginv_reachable hr).2 hU x hx hb
    rw [hf] at hy; cases hy; cases hyb

/-- the same with the statuses spelled out -/
theorem downstream_of_failed_failed_or_cancelled {fx : Bool} {N : ENet} {s : St} (hr : Reachable fx N s) {i j : Nat}
    (hU : Upstream N i j) (hf : s.st i = some .failed) {x : Status} (hx : s.st j = some x) :
    x = .failed ∨ x = .cancelled :=
  (bad_true_iff x).mp (downstream_of_failed_never_good hr hU hf hx)

/-- as long as the executor has not closed (no step was cancelled), a terminated step downstream of a FAILED step
is FAILED -/
theorem downstream_of_failed_failed_while_running {fx : Bool} {N : ENet} {s : St} (hr : Reachable fx N s)
    (hp : s.pc = .running) {i j : Nat} (hU : Upstream N i j) (hf : s.st i = some .failed) {x : Status}
    (hx : s.st j = some x) : x = .failed := by
  rcases downstream_of_failed_failed_or_cancelled hr hU hf hx with e | e
  · exact e
  · subst e; exact absurd hx (no_cancelled_while_running hr hp j)

/-- the run-level form the harness compares with the engine: after any enabled run from the initial state -/
theorem downstream_of_failed_never_good_run {fx : Bool} {N : ENet} {s : St} {acts : List Act}
    (h : runActs fx N St.init acts = some s) {i j : Nat} (hU : Upstream N i j) (hf : s.st i = some .failed) :
    s.st j = none ∨ s.st j = some .failed ∨ s.st j = some .cancelled := by
  cases hx : s.st j with
  | none => exact Or.inl rfl
  | some x =>
    right
    rcases downstream_of_failed_failed_or_cancelled (reachable_iff.mpr ⟨acts, h⟩) hU hf hx with e | e <;> simp [e]

/-- in a topologically ordered graph "downstream" means a larger index -/
theorem upstream_index_lt {N : ENet} (hwf : N.WF) {i j : Nat} (hU : Upstream N i j) (hj : j < N.n) : i < j :=
  upstream_lt hwf hU hj

/-! ## Examples: the hypotheses are satisfiable on non-trivial instances -/

/-- the failing run `diamondFailRun = [finish 0, fail 1, finish 2, finish 3, read 0, final]` of the diamond
`0 → 1, 0 → 2, (1, 2) → 3` (defined in `SFV/Lemmas/ExecStatus.lean`): step 1 raises; every action is enabled; steps 2
and 3 terminate by themselves, step 3 ends FAILED -/
example : (runActs false diamond St.init diamondFailRun).isSome = true ∧
    (runActs true diamond St.init diamondFailRun).isSome = true := by decide

example : (List.range 4).map (runD true diamond diamondFailRun).st
    = [some .completed, some .failed, some .skipped, some .failed] ∧
    (runD true diamond diamondFailRun).pc = .raised := by decide

/-- the hypotheses of `downstream_of_failed_never_good` hold in the diamond: step 3 is downstream of step 1 (and of
step 0, through 1 or 2) but step 2 is not downstream of step 1 — and indeed ends SKIPPED -/
example : Upstream diamond 1 3 := .direct (by decide)
example : Upstream diamond 0 3 := .trans (.direct (j := 2) (by decide)) (.direct (by decide))
example : 1 ∉ diamond.preds 2 ∧ (runD true diamond diamondFailRun).st 2 = some .skipped := by decide

/-- `downstream_of_failed_never_good` applied to the end state of the failing run of the diamond -/
example : ∀ x, (runD true diamond diamondFailRun).st 3 = some x → x.bad = true :=
  fun _ hx => downstream_of_failed_never_good (fx := true) (N := diamond) (reachable_runD (by decide))
    (.direct (by decide) : Upstream diamond 1 3) (by decide) hx

/-- hypotheses of `status_is_final` / `status_stable_run`: after `[finish 0, fail 1]` step 1 is FAILED and the rest
of the run is enabled from there -/
example :
    let s := runD true diamond [.finish 0, .fail 1]
    s.st 1 = some .failed ∧ (runActs true diamond s [.finish 2, .finish 3, .read 0, .final]).isSome = true := by
  decide

/-- hypotheses of `consumer_of_failed_finishes_failed`: after `[finish 0, fail 1, finish 2]` step 3 can finish and
its producer 1 is FAILED (its other producer is SKIPPED) -/
example :
    let s := runD true diamond [.finish 0, .fail 1, .finish 2]
    Reachable true diamond s ∧ (step true diamond s (.finish 3)).isSome = true ∧ 1 ∈ diamond.preds 3 ∧
      s.st 1 = some .failed ∧ s.st 2 = some .skipped :=
  ⟨reachable_runD (by decide), by decide, by decide, by decide, by decide⟩

/-- hypotheses of `cancelled_only_by_close`, and a downstream step that ends CANCELLED: in the chain `0 → 1 → 2` with
outputs `[0, 2]`, step 0 raises, the executor reads FAILED on output 0 and (with `_cancel` calling `close()`) cancels
steps 1 and 2, which are downstream of the failed step -/
example :
    let s := runD true chain3 [.fail 0, .read 0]
    chain3.WF ∧ Reachable true chain3 s ∧ s.pc = .closed ∧
      (List.range 3).map s.st = [some .failed, some .cancelled, some .cancelled] :=
  ⟨chain3_wf, reachable_runD (by decide), by decide, by decide⟩

example : Upstream chain3 0 2 := .trans (.direct (j := 1) (by decide)) (.direct (by decide))

/-- before fix 88472de (`fx = false`) the same run leaves steps 1 and 2 running; they can still terminate by
themselves and then end FAILED, never COMPLETED -/
example :
    (List.range 3).map (runD false chain3 [.fail 0, .read 0]).st = [some .failed, none, none] ∧
    (List.range 3).map (runD false chain3 [.fail 0, .read 0, .finish 1, .finish 2, .final]).st
      = [some .failed, some .failed, some .failed] := by decide

/-- why B is needed for C: `_get_status` turns a CANCELLED base status into SKIPPED when an output port is empty, so
a step finishing after a CANCELLED producer could end SKIPPED — but no `finish` is enabled once somebody is
CANCELLED -/
example : getStatus .cancelled true = .skipped ∧
    (step true chain3 (runD true chain3 [.fail 0, .read 0]) (.finish 2)).isSome = false := by decide

/-- `good_step_has_good_producers` on the failure-free run of the diamond: hypotheses hold for step 3 -/
example :
    let s := runD false diamond diamondRun
    Reachable false diamond s ∧ s.st 3 = some .completed ∧ diamond.preds 3 = [1, 2] ∧
      s.st 1 = some .completed ∧ s.st 2 = some .skipped :=
  ⟨reachable_runD (by decide), by decide, by decide, by decide, by decide⟩

end SFV.C04
