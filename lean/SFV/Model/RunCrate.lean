/-! # RunCrate — the bookkeeping of `RunCrateProvenanceManager` (`streamflow/provenance/run_crate.py`)

`graph` is a Python dict keyed by `@id` (insertion ordered), `files_map` maps source paths to archive names. The
manager only ever performs three kinds of updates: `self.graph[x["@id"]] = x`, appending `{"@id": …}` references
(`hasPart`, `object`, `result`, `mentions`) to an entity already in the graph, and `self.files_map[src] = dst`.
The final loop writes `@graph = list(self.graph.values())` and copies `files_map` into the zip. -/
namespace SFV.RunCrate

structure Entity where
  id : String
  isFile : Bool := false
  refs : List String := []
  name : String := ""              -- `name` of a PropertyValue
  values : List String := []       -- its `value` (strings; `@sha` stands for `{"@id": sha}`)
deriving Repr, DecidableEq

structure Crate where
  graph : List (String × Entity) := []
  files : List (String × String) := []
deriving Repr

inductive Op where
  | put (e : Entity)                        -- self.graph[e["@id"]] = e
  | addRef (owner target : String)          -- self.graph[owner][…].append({"@id": target})
  | mapFile (src dst : String)              -- self.files_map[src] = dst
deriving Repr

/-- dict assignment: replace the value of an existing key in place, else append -/
def dictSet (l : List (String × β)) (k : String) (v : β) : List (String × β) :=
  match l with
  | [] => [(k, v)]
  | (k', v') :: r => if k' = k then (k', v) :: r else (k', v') :: dictSet r k v

def step (c : Crate) : Op → Crate
  | .put e => { c with graph := dictSet c.graph e.id e }
  | .addRef owner target =>
      { c with graph := c.graph.map (fun p => if p.1 = owner then (p.1, { p.2 with refs := p.2.refs ++ [target] }) else p) }
  | .mapFile src dst => { c with files := dictSet c.files src dst }

def run (ops : List Op) : Crate := ops.foldl step {}

/-- `"@graph": list(self.graph.values())` -/
def emitted (c : Crate) : List Entity := c.graph.map (·.2)

/-- the zip loop: `for src, dst in files_map.items(): if exists(src) and dst not in archive.namelist(): write` -/
def archiveNames (exists_ : String → Bool) : List (String × String) → List String → List String
  | [], acc => acc
  | (src, dst) :: r, acc =>
      if exists_ src && !acc.contains dst then archiveNames exists_ r (acc ++ [dst]) else archiveNames exists_ r acc

/-! ### the invariants, as executable predicates (also evaluated on real archives by the driver) -/

def idsUnique (es : List Entity) : Bool := (es.map (·.id)).eraseDups.length == es.length

def isExternal (r : String) : Bool := r.startsWith "http://" || r.startsWith "https://"

def refsClosed (es : List Entity) : Bool :=
  es.all (fun e => e.refs.all (fun r => isExternal r || es.any (fun e' => e'.id == r)))

def filesPresent (es : List Entity) (names : List String) : Bool :=
  es.all (fun e => !e.isFile || isExternal e.id || names.contains e.id)

/-! ### values of the run (`get_property_value`, `_get_property_values`, `_update_actions`)

Token values as the CWL manager sees them: `None`, a scalar (recorded as `str(value)`), a File token (checksum, path),
or a list of those (`flatten_list` removes deeper nesting before anything is recorded). -/

inductive Leaf where
  | null
  | scalar (s : String)
  | file (sha path : String)
deriving Repr, DecidableEq

inductive TokVal where
  | leaf (l : Leaf)
  | list (items : List Leaf)
deriving Repr, DecidableEq

/-- what a list element contributes to the `value` of the list's PropertyValue -/
def leafValue : Leaf → Option String
  | .null => none
  | .scalar s => some s
  | .file sha _ => some ("@" ++ sha)

/-- `if property_value["@id"] not in self.graph: self.graph[...] = property_value` -/
def putNew (c : Crate) (e : Entity) : Crate :=
  if (c.graph.map (·.1)).contains e.id then c else step c (.put e)

/-- `_process_file_token` + the registration of the File entity (once per checksum) under the root dataset -/
def registerFile (c : Crate) (sha path : String) : Crate :=
  let c1 := step c (.mapFile path sha)
  if (c1.graph.map (·.1)).contains sha then c1
  else step (step c1 (.put { id := sha, isFile := true })) (.addRef "./" sha)

/-- `_update_actions`: append `{"@id": id}` to the action's `object` / `result` unless already there -/
def linkAction (c : Crate) (action id : String) : Crate :=
  if c.graph.any (fun p => p.1 == action && p.2.refs.contains id) then c else step c (.addRef action id)

def registerLeafFiles (c : Crate) : List Leaf → Crate
  | [] => c
  | .file sha path :: r => registerLeafFiles (registerFile c sha path) r
  | _ :: r => registerLeafFiles c r

/-- one input / output value of the run: `fresh` is the uuid the manager draws for a PropertyValue -/
def registerValue (c : Crate) (action fresh name : String) : TokVal → Crate
  | .leaf .null => c
  | .leaf (.scalar s) => linkAction (putNew c { id := fresh, name := name, values := [s] }) action fresh
  | .leaf (.file sha path) => linkAction (registerFile c sha path) action sha
  | .list items =>
      linkAction (putNew (registerLeafFiles c items) { id := fresh, name := name, values := items.filterMap leafValue })
        action fresh

def registerAll (c : Crate) (action : String) : List (String × String × TokVal) → Crate
  | [] => c
  | (fresh, name, tok) :: r => registerAll (registerValue c action fresh name tok) action r

/-- the identifier under which a value is represented -/
def repId (fresh : String) : TokVal → String
  | .leaf (.file sha _) => sha
  | _ => fresh

/-- the entity represents the value: a File entity under its checksum, or a PropertyValue with the port's name and the
(flattened, null-free) stringified value -/
def Represents (e : Entity) (name : String) : TokVal → Prop
  | .leaf .null => True
  | .leaf (.scalar s) => e.name = name ∧ e.values = [s]
  | .leaf (.file sha _) => e.id = sha ∧ e.isFile = true
  | .list items => e.name = name ∧ e.values = items.filterMap leafValue

/-- JSON shape of a recorded `value`: a one-element list is written as its element (`value[0] if len(value) == 1`) -/
def jsonValueIsScalar (e : Entity) : Bool := e.values.length == 1

end SFV.RunCrate
