import SFV.Model.Net
/-! # The executor protocol (C04) as a transition system

`StreamFlowExecutor.run / _wait_outputs / _cancel / close` and `BaseStep.terminate` over an abstract DAG of steps.

Abstraction (what is *modelled*, see design_notes/C04.md): a step is a unit that terminates by itself (`finish`)
once the producers of all its input ports have terminated — the token-level reason (ports deliver every token and the
termination token, C03; every `run` loop leaves on termination tokens) is not part of this model — or raises while
running (`fail`). The executor reads the termination token of each workflow output port (`read`), closes when the
last one arrived, cancels when one carries FAILED / CANCELLED, and finally returns or raises (`final`).

`fixed = true` is the code as it is now (since fix 88472de `_cancel` calls `close()`); `fixed = false` is the code
before that fix: `_cancel` set `_closed = True` without terminating the steps, so the `close()` in `run`'s `except` was
a no-op. Which of the two the current source is, is extracted on every run (`Gen.cancelCallsClose`). -/
namespace SFV.Exec
open SFV.Net

inductive Status where
  | completed | skipped | failed | cancelled
deriving DecidableEq, Repr, Inhabited

def Status.bad : Status → Bool
  | .failed | .cancelled => true
  | _ => false

def showStatus : Status → String
  | .completed => "COMPLETED"
  | .skipped => "SKIPPED"
  | .failed => "FAILED"
  | .cancelled => "CANCELLED"

/-- `_reduce_statuses` (RECOVERED does not occur in these runs): the first FAILED / CANCELLED wins, all SKIPPED
    gives SKIPPED, otherwise COMPLETED -/
def reduce (l : List Status) : Status :=
  match l.find? Status.bad with
  | some s => s
  | none => if l.all (· == .skipped) then .skipped else .completed

/-- `BaseStep._get_status` -/
def getStatus (s : Status) (emptyOut : Bool) : Status :=
  if s == .failed then .failed else if emptyOut then .skipped else s

/-- the step graph: steps `0 .. n-1` in topological order -/
structure ENet where
  n : Nat
  /-- producer of every input port of a step (`none` = a pre-loaded source port, terminated COMPLETED) -/
  ins : Nat → List (Option Nat)
  /-- producing step of every workflow output port -/
  outs : List Nat
  /-- some output port of the step stays empty (`_get_status` turns the status into SKIPPED) -/
  emptyOut : Nat → Bool
  /-- a `CombinatorStep` received a data token (its default SKIPPED becomes COMPLETED) -/
  dataIn : Nat → Bool

def ENet.preds (N : ENet) (i : Nat) : List Nat := (N.ins i).filterMap id

inductive Pc where
  | running | closed | returned | raised
deriving DecidableEq, Repr

structure St where
  st : Nat → Option Status        -- `Step.terminated` with the termination status
  pc : Pc
  received : List Nat             -- indices of the output ports whose (good) termination the executor has read
  failedRead : Option Nat         -- the output port on which the executor read FAILED / CANCELLED

def St.init : St := { st := fun _ => none, pc := .running, received := [], failedRead := none }

inductive Act where
  | finish (i : Nat)
  | fail (i : Nat)
  | read (k : Nat)
  | final
deriving Repr, DecidableEq

def St.setSt (s : St) (i : Nat) (x : Status) : St := { s with st := fun j => if j = i then some x else s.st j }

/-- `close()`: `terminate(CANCELLED)` on every step that is not terminated -/
def St.closeAll (s : St) : St :=
  { s with st := fun j => match s.st j with | none => some .cancelled | some x => some x, pc := .closed }

/-- status a step ends with when it terminates by itself -/
def finishStatus (N : ENet) (s : St) (i : Nat) : Status :=
  let terms := (N.ins i).map (fun p => match p with
    | none => Status.completed
    | some j => (s.st j).getD .completed)
  let base := reduce terms
  let base := if base == .skipped && N.dataIn i then .completed else base
  getStatus base (N.emptyOut i)

def step (fixed : Bool) (N : ENet) (s : St) : Act → Option St
  | .finish i =>
      if i < N.n ∧ s.st i = none ∧ (N.preds i).all (fun j => (s.st j).isSome) then
        some (s.setSt i (finishStatus N s i))
      else none
  | .fail i =>
      if i < N.n ∧ s.st i = none then some (s.setSt i .failed) else none
  | .read k =>
      if s.pc = .running ∧ k ∉ s.received then
        match N.outs[k]? with
        | none => none
        | some o =>
            match s.st o with
            | none => none
            | some x =>
                if x.bad then
                  -- `_cancel(unfinished)`: cancels the output tasks, marks the executor closed
                  let s' := { s with failedRead := some k }
                  some (if fixed then s'.closeAll else { s' with pc := .closed })
                else
                  let s' := { s with received := k :: s.received }
                  if (List.range N.outs.length).all (fun k' => s'.received.contains k') then some s'.closeAll
                  else some s'
      else none
  | .final =>
      if s.pc = .closed then
        if (List.range N.n).any (fun i => match s.st i with | some x => x.bad | none => false) then
          -- raise; `except: await self.close()` is a no-op because `_closed` is already True
          some { s with pc := .raised }
        else some { s with pc := .returned }
      else none

inductive Reachable (fixed : Bool) (N : ENet) : St → Prop
  | init : Reachable fixed N St.init
  | step {s a s'} : Reachable fixed N s → step fixed N s a = some s' → Reachable fixed N s'

def notDone (N : ENet) (s : St) : Nat := ((List.range N.n).filter (fun i => (s.st i).isNone)).length

/-! ## from a workflow spec -/

def producerOf (sp : Spec) (p : Nat) : Option Nat :=
  (sp.nodes.zipIdx.find? (fun (n, _) => n.outs.contains p)).map (·.2)

def isCombLike : Node → Bool
  | .dot _ _ | .cart _ _ _ _ => true
  | _ => false

def ofSpec (sp : Spec) : ENet :=
  let d := den sp
  let consumed := sp.nodes.flatMap Node.ins
  { n := sp.nodes.length
    ins := fun i => match sp.nodes[i]? with
      | some n => n.ins.map (producerOf sp)
      | none => []
    outs := ((List.range sp.nports).filter (fun p => !consumed.contains p)).filterMap (producerOf sp)
    emptyOut := fun i => match sp.nodes[i]? with
      | some n => n.outs.any (fun o => (d.get o).isEmpty)
      | none => false
    dataIn := fun i => match sp.nodes[i]? with
      | some n => isCombLike n && n.ins.any (fun q => !(d.get q).isEmpty)
      | none => false }

/-- default scheduler: steps in topological order (the failing one raises instead), then the executor reads the
    outputs in order, then `final` -/
def runDefault (sp : Spec) (failAt : Option Nat) (fixed : Bool := false) : St :=
  let N := ofSpec sp
  let acts : List Act :=
    (List.range N.n).map (fun i => if failAt = some i then Act.fail i else Act.finish i) ++
    (List.range N.outs.length).map Act.read ++ [Act.final]
  acts.foldl (fun s a => (step fixed N s a).getD s) St.init

/-- statuses of the steps after a run without failures -/
def nodeStatuses (sp : Spec) : List Status :=
  let s := runDefault sp none
  (List.range sp.nodes.length).map (fun i => (s.st i).getD .cancelled)

def showOutcome (s : St) : String :=
  match s.pc with
  | .returned => "return"
  | .raised => "raise"
  | .closed => "closed"
  | .running => "running"

end SFV.Exec
