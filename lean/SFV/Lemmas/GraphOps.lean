import SFV.Lemmas.GraphRemove
/-! C20: `remove_nodes` as a whole, `replace`, `promote_to_source`, and invariance under every operation. -/
namespace SFV.Graph

/-! ### `remove_nodes` -/

theorem removeNodes_spec (g : G) (hI : Inv g) (T : List Nat) (prune : Bool) :
    LInv prune g T (g.removeNodes T prune).1 [] (g.removeNodes T prune).2 :=
  linv_removeLoop g T.reverse [] (linv_init prune g T hI)

theorem removeNodes_mem (g : G) (hI : Inv g) (T : List Nat) (prune : Bool) (n : Nat) :
    n ∈ (g.removeNodes T prune).2 ↔ Closure prune g T n :=
  ⟨(removeNodes_spec g hI T prune).sound.1 n, linv_complete (removeNodes_spec g hI T prune)⟩

theorem removeNodes_pred_mem (g : G) (hI : Inv g) (T : List Nat) (prune : Bool) (u v : Nat) :
    v ∈ (g.removeNodes T prune).1.pred u ↔
      v ∈ g.pred u ∧ u ∉ (g.removeNodes T prune).2 ∧ v ∉ (g.removeNodes T prune).2 := by
  have h := removeNodes_spec g hI T prune
  rw [← h.inv.mirror, h.succ, hI.mirror]; grind

/-! ### `replace` -/

theorem replSucc_sk (old new : Nat) (l : List Nat) (g : G) : (replSucc old new l g).sk = g.sk := by
  induction l generalizing g with
  | nil => rfl
  | cons a l ih => simp [replSucc, ih]

theorem replSucc_pk (old new : Nat) (l : List Nat) (g : G) : (replSucc old new l g).pk = g.pk := by
  induction l generalizing g with
  | nil => rfl
  | cons a l ih => simp [replSucc, ih]

theorem replSucc_succ_mem (old new : Nat) (l : List Nat) (g : G) (u v : Nat) :
    v ∈ (replSucc old new l g).succ u ↔ v ∈ g.succ u ∨ (u = new ∧ v ∈ l) := by
  induction l generalizing g with
  | nil => simp [replSucc]
  | cons a l ih =>
    simp only [replSucc, ih, upd_apply]
    split <;> simp <;> grind

theorem replSucc_pred_mem (old new : Nat) (hne : new ≠ old) (l : List Nat) (g : G) (s v : Nat) :
    v ∈ (replSucc old new l g).pred s ↔ (v ∈ g.pred s ∧ (s ∈ l → v ≠ old)) ∨ (s ∈ l ∧ v = new) := by
  induction l generalizing g with
  | nil => simp [replSucc]
  | cons a l ih =>
    simp only [replSucc, ih, upd_apply]
    split <;> simp <;> grind

theorem replSucc_nodup (old new : Nat) (l : List Nat) (g : G)
    (h : (∀ u, (g.succ u).Nodup) ∧ ∀ u, (g.pred u).Nodup) :
    (∀ u, ((replSucc old new l g).succ u).Nodup) ∧ ∀ u, ((replSucc old new l g).pred u).Nodup := by
  induction l generalizing g with
  | nil => exact h
  | cons a l ih =>
    apply ih
    constructor
    · intro u; simp only [upd_apply]; split
      · exact nodup_setAdd _ (h.1 _)
      · exact h.1 u
    · intro u; simp only [upd_apply]; split
      · exact nodup_setAdd _ (nodup_discard _ (h.2 _))
      · exact h.2 u

theorem replPred_sk (old new : Nat) (l : List Nat) (g : G) : (replPred old new l g).sk = g.sk := by
  induction l generalizing g with
  | nil => rfl
  | cons a l ih => simp [replPred, ih]

theorem replPred_pk (old new : Nat) (l : List Nat) (g : G) : (replPred old new l g).pk = g.pk := by
  induction l generalizing g with
  | nil => rfl
  | cons a l ih => simp [replPred, ih]

theorem replPred_pred_mem (old new : Nat) (l : List Nat) (g : G) (u v : Nat) :
    v ∈ (replPred old new l g).pred u ↔ v ∈ g.pred u ∨ (u = new ∧ v ∈ l) := by
  induction l generalizing g with
  | nil => simp [replPred]
  | cons a l ih =>
    simp only [replPred, ih, upd_apply]
    split <;> simp <;> grind

theorem replPred_succ_mem (old new : Nat) (hne : new ≠ old) (l : List Nat) (g : G) (p v : Nat) :
    v ∈ (replPred old new l g).succ p ↔ (v ∈ g.succ p ∧ (p ∈ l → v ≠ old)) ∨ (p ∈ l ∧ v = new) := by
  induction l generalizing g with
  | nil => simp [replPred]
  | cons a l ih =>
    simp only [replPred, ih, upd_apply]
    split <;> simp <;> grind

theorem replPred_nodup (old new : Nat) (l : List Nat) (g : G)
    (h : (∀ u, (g.succ u).Nodup) ∧ ∀ u, (g.pred u).Nodup) :
    (∀ u, ((replPred old new l g).succ u).Nodup) ∧ ∀ u, ((replPred old new l g).pred u).Nodup := by
  induction l generalizing g with
  | nil => exact h
  | cons a l ih =>
    apply ih
    constructor
    · intro u; simp only [upd_apply]; split
      · exact nodup_setAdd _ (nodup_discard _ (h.1 _))
      · exact h.1 u
    · intro u; simp only [upd_apply]; split
      · exact nodup_setAdd _ (h.2 _)
      · exact h.2 u

/-- inverse renaming: the node that `x` was before `replace(old, new)` -/
def unren (old new x : Nat) : Nat := if x = new then old else x
/-- the renaming performed by `replace(old, new)` -/
def ren (old new x : Nat) : Nat := if x = old then new else x

/-- the graph built by an accepted `replace(old, new)` -/
def replaced (g : G) (old new : Nat) : G :=
  let g0 := g.addNode new
  let g1 := replSucc old new (g0.succ old) g0
  (replPred old new (g1.pred old) g1).delNode old

theorem replace_eq (g : G) (old new : Nat) (ho : old ∈ g.sk) (hn : new ∉ g.sk) :
    g.replace old new = some (replaced g old new) := by
  simp [G.replace, ho, hn, replaced]

theorem replaced_sk_mem (g : G) (old new : Nat) (x : Nat) :
    x ∈ (replaced g old new).sk ↔ (x ∈ g.sk ∨ x = new) ∧ x ≠ old := by
  simp [replaced, G.delNode, replPred_sk, replSucc_sk, addNode_sk_mem]

theorem replaced_succ_mem (g : G) (hI : Inv g) (old new : Nat) (hn : new ∉ g.sk) (ho : old ∈ g.sk) (u v : Nat) :
    v ∈ (replaced g old new).succ u ↔ u ≠ old ∧ v ≠ old ∧ unren old new v ∈ g.succ (unren old new u) := by
  have hne : new ≠ old := fun e => hn (e ▸ ho)
  have hS := addNode_succ_mem g hI new
  have hP := addNode_pred_mem g hI new
  simp only [replaced, G.delNode, upd_apply, unren]
  split
  · simp_all
  · rw [replPred_succ_mem old new hne, replSucc_pred_mem old new hne, replSucc_succ_mem, hS, hS, hS, hP]
    have hm := hI.mirror
    have hc := hI.closed
    have h1 := hc u v; have h2 := hc old v; have h3 := hc u old; have h4 := hc old old
    have m1 := hm u old; have m2 := hm old old
    grind

theorem replaced_pred_mem (g : G) (hI : Inv g) (old new : Nat) (hn : new ∉ g.sk) (ho : old ∈ g.sk) (u v : Nat) :
    v ∈ (replaced g old new).pred u ↔ u ≠ old ∧ v ≠ old ∧ unren old new v ∈ g.pred (unren old new u) := by
  have hne : new ≠ old := fun e => hn (e ▸ ho)
  have hS := addNode_succ_mem g hI new
  have hP := addNode_pred_mem g hI new
  simp only [replaced, G.delNode, upd_apply, unren]
  split
  · simp_all
  · rw [replPred_pred_mem, replSucc_pred_mem old new hne, replSucc_pred_mem old new hne, hS, hP, hP]
    have hm := hI.mirror
    have hc := hI.closed
    have h1 := hc v u; have h2 := hc v old; have h3 := hc old u; have h4 := hc old old
    have m1 := hm old u; have m2 := hm old old; have m3 := hm v old; have m4 := hm v u
    grind

theorem inv_replaced (g : G) (hI : Inv g) (old new : Nat) (hn : new ∉ g.sk) (ho : old ∈ g.sk) :
    Inv (replaced g old new) := by
  have hs := replaced_succ_mem g hI old new hn ho
  have hp := replaced_pred_mem g hI old new hn ho
  have hk := replaced_sk_mem g old new
  have hI0 := inv_addNode g hI new
  refine ⟨?_, ?_, ?_, ?_, ?_, ?_⟩
  · simp only [replaced, G.delNode, replPred_sk, replPred_pk, replSucc_sk, replSucc_pk, hI0.keys]
  · intro u v; rw [hs, hp]; have := hI.mirror (unren old new u) (unren old new v); grind
  · intro u v h; rw [hs] at h; rw [hk, hk]
    have := hI.closed _ _ h.2.2
    simp only [unren] at this
    grind
  · simp only [replaced, G.delNode, replPred_sk, replSucc_sk]; exact hI0.nodupK.filter _
  · intro u
    simp only [replaced, G.delNode, upd_apply]; split
    · simp
    · exact (replPred_nodup _ _ _ _ (replSucc_nodup _ _ _ _ ⟨hI0.nodupS, hI0.nodupP⟩)).1 u
  · intro u
    simp only [replaced, G.delNode, upd_apply]; split
    · simp
    · exact (replPred_nodup _ _ _ _ (replSucc_nodup _ _ _ _ ⟨hI0.nodupS, hI0.nodupP⟩)).2 u

theorem inv_replace (g : G) (hI : Inv g) (old new : Nat) : Inv ((g.replace old new).getD g) := by
  by_cases ho : old ∈ g.sk
  · by_cases hn : new ∈ g.sk
    · simp [G.replace, ho, hn, hI]
    · rw [replace_eq g old new ho hn]; exact inv_replaced g hI old new hn ho
  · simp [G.replace, ho, hI]

/-! ### `promote_to_source` -/

theorem promoteLoop_sk (node : Nat) (l : List Nat) (g : G) (del : List Nat) :
    (promoteLoop node l g del).1.sk = g.sk := by
  induction l generalizing g del with
  | nil => rfl
  | cons a l ih => simp [promoteLoop, ih]

theorem promoteLoop_pk (node : Nat) (l : List Nat) (g : G) (del : List Nat) :
    (promoteLoop node l g del).1.pk = g.pk := by
  induction l generalizing g del with
  | nil => rfl
  | cons a l ih => simp [promoteLoop, ih]

theorem promoteLoop_succ_mem (node : Nat) (l : List Nat) (g : G) (del : List Nat) (p v : Nat) :
    v ∈ (promoteLoop node l g del).1.succ p ↔ v ∈ g.succ p ∧ (p ∈ l → v ≠ node) := by
  induction l generalizing g del with
  | nil => simp [promoteLoop]
  | cons a l ih =>
    simp only [promoteLoop, ih, upd_apply]
    split <;> simp <;> grind

theorem promoteLoop_pred_mem (node : Nat) (l : List Nat) (g : G) (del : List Nat) (u v : Nat) :
    v ∈ (promoteLoop node l g del).1.pred u ↔ v ∈ g.pred u ∧ (u = node → v ∉ l) := by
  induction l generalizing g del with
  | nil => simp [promoteLoop]
  | cons a l ih =>
    simp only [promoteLoop, ih, upd_apply]
    split <;> simp <;> grind

theorem promoteLoop_nodup (node : Nat) (l : List Nat) (g : G) (del : List Nat)
    (h : (∀ u, (g.succ u).Nodup) ∧ ∀ u, (g.pred u).Nodup) :
    (∀ u, ((promoteLoop node l g del).1.succ u).Nodup) ∧ ∀ u, ((promoteLoop node l g del).1.pred u).Nodup := by
  induction l generalizing g del with
  | nil => exact h
  | cons a l ih =>
    apply ih
    constructor
    · intro u; simp only [upd_apply]; split
      · exact nodup_discard _ (h.1 _)
      · exact h.1 u
    · intro u; simp only [upd_apply]; split
      · exact nodup_discard _ (h.2 _)
      · exact h.2 u

theorem promoteLoop_del_mem (node : Nat) (l : List Nat) (g : G) (del : List Nat) (x : Nat) :
    x ∈ (promoteLoop node l g del).2 ↔ x ∈ del ∨ (x ∈ l ∧ ∀ v ∈ g.succ x, v = node) := by
  induction l generalizing g del with
  | nil => simp [promoteLoop]
  | cons a l ih =>
    simp only [promoteLoop, ih, upd_apply, if_true]
    have hemp : (discard (g.succ a) node).isEmpty = true ↔ ∀ v ∈ g.succ a, v = node := by
      rw [List.isEmpty_iff, List.eq_nil_iff_forall_not_mem]; simp
    by_cases he : (discard (g.succ a) node).isEmpty = true
    · rw [if_pos he]
      have := hemp.mp he
      simp only [List.mem_append, List.mem_cons, List.not_mem_nil, or_false]
      constructor
      · rintro ((h | rfl) | ⟨h1, h2⟩)
        · exact Or.inl h
        · exact Or.inr ⟨Or.inl rfl, this⟩
        · refine Or.inr ⟨Or.inr h1, ?_⟩
          intro v hv; split at h2
          · subst_vars; exact this v hv
          · exact h2 v hv
      · rintro (h | ⟨rfl | h1, h2⟩)
        · exact Or.inl (Or.inl h)
        · exact Or.inl (Or.inr rfl)
        · by_cases hxa : x = a
          · exact Or.inl (Or.inr hxa)
          · exact Or.inr ⟨h1, by rw [if_neg hxa]; exact h2⟩
    · rw [if_neg he]
      have hne := mt hemp.mpr he
      simp only [List.mem_cons]
      constructor
      · rintro (h | ⟨h1, h2⟩)
        · exact Or.inl h
        · refine Or.inr ⟨Or.inr h1, ?_⟩
          intro v hv; split at h2
          · subst_vars
            have : ∀ v ∈ discard (g.succ a) node, v = node := h2
            exfalso; apply he
            rw [List.isEmpty_iff, List.eq_nil_iff_forall_not_mem]
            intro w hw; have := this w hw; simp at hw; exact hw.2 this
          · exact h2 v hv
      · rintro (h | ⟨rfl | h1, h2⟩)
        · exact Or.inl h
        · exact absurd h2 hne
        · by_cases hxa : x = a
          · subst hxa; exact absurd h2 hne
          · exact Or.inr ⟨h1, by rw [if_neg hxa]; exact h2⟩

/-- specification graph of `promote_to_source`: every edge into `node` is cut -/
def G.cutIncoming (g : G) (node : Nat) : G :=
  { g with succ := fun u => discard (g.succ u) node, pred := upd g.pred node [] }

/-- the parents of `node` that lead nowhere else -/
def deadPreds (g : G) (node : Nat) : List Nat :=
  (g.pred node).filter (fun p => (g.succ p).all (· == node))

theorem inv_promoteLoop (g : G) (hI : Inv g) (node : Nat) :
    Inv (promoteLoop node (g.pred node) g []).1 := by
  refine ⟨by rw [promoteLoop_sk, promoteLoop_pk, hI.keys], ?_, ?_, by rw [promoteLoop_sk]; exact hI.nodupK,
    (promoteLoop_nodup _ _ _ _ ⟨hI.nodupS, hI.nodupP⟩).1, (promoteLoop_nodup _ _ _ _ ⟨hI.nodupS, hI.nodupP⟩).2⟩
  · intro u v; rw [promoteLoop_succ_mem, promoteLoop_pred_mem]
    have := hI.mirror u v; have := hI.mirror u node; grind
  · intro u v h; rw [promoteLoop_succ_mem] at h; rw [promoteLoop_sk]; exact hI.closed u v h.1

theorem closure_congr {prune : Bool} {g g' : G} {T T' : List Nat}
    (hk : ∀ n, n ∈ g.sk ↔ n ∈ g'.sk) (hs : ∀ u v, v ∈ g.succ u ↔ v ∈ g'.succ u) (hT : ∀ n, n ∈ T ↔ n ∈ T')
    {n : Nat} (h : Closure prune g T n) : Closure prune g' T' n := by
  induction h with
  | base h1 h2 => exact .base ((hT _).mp h1) ((hk _).mp h2)
  | step hp h2 h3 _ ih => exact .step hp ((hk _).mp h2) ((hs _ _).mp h3) (fun s hs' => ih s ((hs _ _).mpr hs'))

theorem inv_promote (g : G) (hI : Inv g) (node : Nat) : Inv (g.promote node).1 := by
  unfold G.promote; split
  · exact hI
  · exact (removeNodes_spec _ (inv_promoteLoop g hI node) _ true).inv

/-! ### every operation preserves the invariant -/

theorem inv_apply (g : G) (hI : Inv g) (op : Op) : Inv (g.apply op) := by
  cases op with
  | add u v => exact inv_add g hI u v
  | remove ns prune => exact (removeNodes_spec g hI ns prune).inv
  | replace old new => exact inv_replace g hI old new
  | promote n => exact inv_promote g hI n

theorem inv_foldl (ops : List Op) (g : G) (hI : Inv g) : Inv (ops.foldl G.apply g) := by
  induction ops generalizing g with
  | nil => exact hI
  | cons op ops ih => exact ih _ (inv_apply g hI op)

theorem inv_run (ops : List Op) : Inv (run ops) := inv_foldl ops _ inv_empty

end SFV.Graph
