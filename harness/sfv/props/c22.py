"""C22 — transfers reproduce the source data exactly."""
from __future__ import annotations

import asyncio
import os
import shutil

from streamflow.core import utils as sfu
from streamflow.core.data import DataType
from streamflow.core.deployment import ExecutionLocation
from streamflow.deployment.connector.local import LocalConnector
from streamflow.deployment.wrapper import ConnectorWrapper

import logging

from sfv.framework import Ctx, Property
from sfv.rt.hexs import hx, unhx
from sfv.rt.sfctx import make_context
from sfv.rt.shfake import in_scratch_cwd, Hang, MiniConnector, MultiRootConnector, VIRT, kill_leftovers, run_watchdog
from sfv.rt.trees import diff, make_tree, rand_name, resolved, snapshot
from sfv.translate import cmdtmpl

SAFE = set("abcdefghijklmnopqrstuvwxyzABCDEFGHIJKLMNOPQRSTUVWXYZ0123456789_@%+=:,./-")
KINDS = ["local", "remA0", "remA1", "remB0", "wrapA0", "wrapM0"]


def is_safe(s: str) -> bool:
    return bool(s) and all(c in SAFE for c in s)


class WrapMini(ConnectorWrapper):
    """a wrapping deployment (like a container or queue manager on top of a remote host) over a MiniConnector"""

    @classmethod
    def get_schema(cls) -> str:
        return "{}"


class GateConnector(MiniConnector):
    """a MiniConnector whose FIRST copy towards it waits for `release` (set by the harness): holds a transfer in the middle of its copy"""

    def __init__(self, *a, **kw):
        super().__init__(*a, **kw)
        self.entered = asyncio.Event()
        self.release = asyncio.Event()
        self.gated = False

    async def _gate(self):
        if not self.gated:
            self.gated = True
            self.entered.set()
            await self.release.wait()

    async def copy_local_to_remote(self, src, dst, locations, read_only=False):
        await self._gate()
        await super().copy_local_to_remote(src, dst, locations, read_only)

    async def copy_remote_to_remote(self, src, dst, locations, source_location, source_connector=None, read_only=False):
        await self._gate()
        await super().copy_remote_to_remote(src, dst, locations, source_location, source_connector, read_only)


def tame_name(rng) -> str:
    return "".join(rng.choice("abcdefXYZ0123_") for _ in range(rng.randint(1, 8)))


class C22(Property):
    pid = "C22"
    title = "Transfers reproduce the source data exactly"
    lean_targets = ["SFV.Model.Proto", "SFV.Props.C22"]
    props_files = ["SFV/Props/C22.lean"]
    drivers = ["Drivers/C22.lean"]
    translators = [cmdtmpl.generate]
    quick_budget_s = 900
    thorough_budget_s = 3000
    rule = ("random trees (0..30 entries, empty files and directories, binary contents, names with blanks, quotes, unicode, leading dashes, in-tree "
            "symlinks; up to 1 MiB files in the thorough tier) are transferred with the real DefaultDataManager.transfer_data between every "
            "pair of {local, fake remote A location 0/1, fake remote B} (persistent-sh BaseConnector subclasses rooted in private directories), "
            "writable and read-only, destination absent or an existing directory, source a file or a directory; the destination tree is "
            "compared with the (dereferenced) source tree and the data manager is asked for the destination. The four-row decision of "
            "get_remote_to_remote_write_command is compared with the Lean model on all eight situations per run. Regimes: tame top-level paths "
            "(must be exact) and top-level paths with shell-special characters. Non-trivial = distinct (route, flags, tree) with >= 1 entry.")
    trusted_base = [
        "translator harness/sfv/translate/cmdtmpl.py -> SFV/Gen/CmdTemplates.lean (quoting status of the copy-route commands)",
        "assumed, not modelled: GNU tar / cp / ln behaviour on real trees, file contents and modes, subprocess pipes; the theorems cover the "
        "destination-path decision logic over abstract trees only; everything observable on the real file system is differential validation",
        "the fake remotes (MiniConnector) — other connectors (ssh, docker, kubernetes, wrapped locations) are not exercised",
    ]
    technique = ("Lean 4 theorems on the destination-path decision tables of the copy routes over abstract trees + quoting obligations over the "
                 "regenerated command templates; differential runs of the real transfer_data on random trees between local and shell-based locations")
    level_text = ("grade C: proved — each row of get_remote_to_remote_write_command, the local->remote writer and extract_tar_stream (destination not "
                  "an existing directory; single file into a directory) put the tree at dst or dst/basename(src) as intended, the directory-into-"
                  "existing-directory case of extract_tar_stream is proved wrong on a witness; the quoting status of every copy-route command is "
                  "decided on the regenerated templates. Validated differentially only — equality of real trees, contents, exec bits, symlink "
                  "resolution, data-manager registration (transfer_tree_eq, transfer_registers of DESIGN §4 are not proved); wrapped locations are not covered")
    level_note = "Lean kernel, axioms within {propext, Classical.choice, Quot.sound}; tar/cp/ln semantics assumed, tied by differential runs"
    assumptions = ["source trees contain regular files, directories and symlinks to files inside the tree (no dangling links, no special files)",
                   "remote and local file systems are POSIX file systems on the same host (private root directories)"]

    # ------------------------------------------------------------------------------------------------------------
    def _setup(self, ctx: Ctx):
        logging.getLogger("streamflow").setLevel(logging.ERROR)
        self.gen = getattr(self, "gen", 0) + 1
        self.n = 0
        self.reg_lines, self.reg_expect = [], []
        try:
            self.table = cmdtmpl.table(os.environ.get("SFV_REPO", "/repo"))
        except Exception as e:  # noqa: BLE001  (the framework has already recorded the broken extractor)
            ctx.notes.append(f"command-template table unavailable: {e}")
            self.table = []

    def location(self, kind: str, mounts: dict | None = None) -> ExecutionLocation:
        if kind == "local":
            return ExecutionLocation(name="__LOCAL__", deployment="__LOCAL__", local=True)
        if kind.startswith("wrap"):
            inner = ExecutionLocation(name="loc0", deployment="remA", local=False)
            return ExecutionLocation(name="w0", deployment="wrapA", local=False, wraps=inner, mounts=mounts if kind == "wrapM0" else None)
        dep = "remA" if kind.startswith("remA") else "remB"
        return ExecutionLocation(name="loc" + kind[-1], deployment=dep, local=False)

    def one_transfer(self, ctx: Ctx, case: dict, bound: float = 30) -> dict:
        """build the tree of `case`, run transfer_data, return the observation"""
        import random
        rng = random.Random(case["seed"])
        self.n += 1
        base = os.path.join(ctx.scratch, f"c{self.gen}_{self.n}")
        src_root, dst_root = os.path.join(base, "S"), os.path.join(base, "D")
        os.makedirs(src_root)
        os.makedirs(dst_root)
        src = os.path.join(src_root, case["src_name"])
        if case["src_is_dir"]:
            make_tree(rng, src, max_entries=case.get("entries", 12), nasty=0.5, symlinks=True, long_names=True, big=case.get("big"))
        else:
            with open(src, "wb") as f:
                f.write(rng.randbytes(case.get("big") or rng.choice([0, 1, 700, 5000])))
            if rng.random() < 0.5:
                os.chmod(src, 0o755)
        # a wrapped location with a mount: the outer path `MO/…` is the inner path `D/…` (a symlink plays the bind mount)
        mounts = None
        if case["dst_kind"] == "wrapM0":
            outer = os.path.join(base, "MO")
            os.symlink(dst_root, outer)
            mounts = {outer: dst_root}
            dst_root_seen = outer
        else:
            dst_root_seen = dst_root
        dst = os.path.join(dst_root_seen, case["dst_name"])
        if case["dst_exists_dir"]:
            os.makedirs(dst)
        want = resolved(snapshot(src), src)
        context = make_context(base)
        conns = {"__LOCAL__": LocalConnector("__LOCAL__", base), "remA": MiniConnector("remA", locations=("loc0", "loc1")), "remB": MiniConnector("remB")}
        conns["wrapA"] = WrapMini("wrapA", base, conns["remA"], None, 2 ** 16)
        for k, v in conns.items():
            context.deployment_manager.deployments_map[k] = v
        sloc, dloc = self.location(case["src_kind"]), self.location(case["dst_kind"], mounts)
        obs = {"src": src, "dst": dst}

        async def go():
            try:
                context.data_manager.register_path(location=sloc, path=src, relpath=src, data_type=DataType.PRIMARY)
                await context.data_manager.transfer_data(src_location=sloc, src_path=src, dst_locations=[dloc], dst_path=dst, writable=case["writable"])
            finally:
                for c in conns.values():
                    try:
                        await c.undeploy(False)
                    except Exception:  # noqa: BLE001
                        pass
        try:
            run_watchdog(go, bound)
            obs["status"] = "ok"
        except Hang as e:
            obs["status"] = "hang"
            obs["error"] = str(e)
        except Exception as e:  # noqa: BLE001
            obs["status"] = "error"
            obs["error"] = f"{type(e).__name__}: {str(e)[:200]}"
        final = os.path.join(dst, case["src_name"]) if case["dst_exists_dir"] else dst
        obs["final"] = final
        got = snapshot(os.path.realpath(final)) if os.path.lexists(final) else {"": ("missing",)}
        got = resolved(got, os.path.realpath(final)) if got.get("", ("",))[0] != "missing" else got
        obs["diff"] = diff(want, got)
        obs["entries"] = len(want)
        obs["dst_root_listing"] = sorted(os.listdir(dst_root))[:6] + ([sorted(os.listdir(dst))[:6]] if os.path.isdir(dst) else [])
        obs["cmds"] = [(k, " ".join(c)) for conn in (conns["remA"], conns["remB"]) for k, c in conn.commands][:12]
        if mounts:
            obs["mounts"] = mounts
        # registration
        try:
            locs = context.data_manager.get_data_locations(path=final, deployment=dloc.deployment, location_name=dloc.name)
            obs["registered"] = [(l.path, l.data_type.name, l.available.is_set()) for l in locs]
        except Exception as e:  # noqa: BLE001
            obs["registered"] = f"error {e!r}"
        for k in conns:
            context.deployment_manager.deployments_map.pop(k, None)
        try:
            run_watchdog(context.close, 10)
        except Exception:  # noqa: BLE001
            pass
        kill_leftovers()
        shutil.rmtree(base, ignore_errors=True)
        return obs

    def concurrent_case(self, ctx: Ctx, case: dict) -> None:
        """two transfers of the same source to the same destination location, the second started while the first is in the middle of
        its copy (gated): the second must not use the first copy before it is available"""
        import random
        rng = random.Random(case["seed"])
        self.n += 1
        base = os.path.join(ctx.scratch, f"cc{self.gen}_{self.n}")
        src_root, dst_root = os.path.join(base, "S"), os.path.join(base, "D")
        os.makedirs(src_root)
        os.makedirs(dst_root)
        src = os.path.join(src_root, "data_" + tame_name(rng))
        if case["src_is_dir"]:
            make_tree(rng, src, max_entries=10, nasty=0.3, symlinks=False, long_names=False)
            with open(os.path.join(src, "always"), "wb") as f:
                f.write(rng.randbytes(3000))
        else:
            with open(src, "wb") as f:
                f.write(rng.randbytes(5000))
        d1, d2 = os.path.join(dst_root, "first_" + tame_name(rng)), os.path.join(dst_root, "second_" + tame_name(rng))
        want = resolved(snapshot(src), src)
        context = make_context(base)
        gate = GateConnector("remB")
        conns = {"__LOCAL__": LocalConnector("__LOCAL__", base), "remA": MiniConnector("remA", locations=("loc0", "loc1")), "remB": gate}
        for k, v in conns.items():
            context.deployment_manager.deployments_map[k] = v
        sloc, dloc = self.location(case["src_kind"]), self.location("remB0")
        obs = {}

        async def go():
            dm = context.data_manager
            try:
                dm.register_path(location=sloc, path=src, relpath=src, data_type=DataType.PRIMARY)
                t1 = asyncio.ensure_future(dm.transfer_data(src_location=sloc, src_path=src, dst_locations=[dloc], dst_path=d1, writable=False))
                await asyncio.wait({asyncio.ensure_future(gate.entered.wait()), t1}, timeout=30, return_when=asyncio.FIRST_COMPLETED)
                # the first transfer is now inside its copy; start the second one towards the same location
                t2 = asyncio.ensure_future(dm.transfer_data(src_location=sloc, src_path=src, dst_locations=[dloc], dst_path=d2, writable=True))
                await asyncio.sleep(0.4)
                obs["second_done_before_first_copy"] = t2.done()
                gate.release.set()
                res = await asyncio.gather(t1, t2, return_exceptions=True)
                obs["errors"] = [repr(r)[:150] for r in res if isinstance(r, BaseException)]
            finally:
                gate.release.set()
                for c in conns.values():
                    try:
                        await c.undeploy(False)
                    except Exception:  # noqa: BLE001
                        pass
        try:
            run_watchdog(go, 90)
            obs["status"] = "ok"
        except Hang as e:
            obs["status"] = "hang: " + str(e)
        except Exception as e:  # noqa: BLE001
            obs["status"] = f"error {type(e).__name__}: {str(e)[:150]}"
        diffs = {}
        for name, d in (("first", d1), ("second", d2)):
            got = snapshot(os.path.realpath(d)) if os.path.lexists(d) else {"": ("missing",)}
            got = resolved(got, os.path.realpath(d)) if got.get("", ("",))[0] != "missing" else got
            diffs[name] = diff(want, got)
            try:
                locs = context.data_manager.get_data_locations(path=d, deployment=dloc.deployment, location_name=dloc.name)
                obs[name + "_registered"] = [(l.data_type.name, l.available.is_set()) for l in locs]
            except Exception as e:  # noqa: BLE001
                obs[name + "_registered"] = f"error {e!r}"
        for k in conns:
            context.deployment_manager.deployments_map.pop(k, None)
        try:
            run_watchdog(context.close, 10)
        except Exception:  # noqa: BLE001
            pass
        kill_leftovers()
        shutil.rmtree(base, ignore_errors=True)
        route = f"{case['src_kind'].rstrip('01')}->remB x2 concurrent"
        ctx.case({"op": "concurrent-transfer", "route": route, "dir": case["src_is_dir"], "status": obs["status"], "diffs": {k: v[:1] for k, v in diffs.items()},
                  "second_done_before_first_copy": obs.get("second_done_before_first_copy")}, ("concurrent", case["seed"], case["src_kind"], case["src_is_dir"]),
                 f"concurrent:{case['src_kind'].rstrip('01')}->remB")
        replay = {"op": "concurrent", "case": case}
        detail = f"{route}: status {obs['status']}, errors {obs.get('errors')}, first {diffs['first'][:2]}, second {diffs['second'][:2]}, observation {obs}"
        if obs["status"] != "ok" or obs.get("errors"):
            ctx.fail("transfer:concurrent:failed-or-hung", detail, replay)
        elif diffs["second"] or diffs["first"]:
            ctx.fail("transfer:concurrent:destination-differs-from-source", detail, replay)
        elif not all(isinstance(obs[n + "_registered"], list) and any(av for _, av in obs[n + "_registered"]) for n in ("first", "second")):
            ctx.fail("transfer:concurrent:destination-not-registered-as-available", detail, replay)

    def registry_model_line(self, case: dict, obs: dict) -> None:
        """the registration steps of transfer_data on the Lean registry model vs what get_data_locations(final, destination) returns"""
        if case["src_kind"].startswith("wrap") or case["dst_kind"].startswith("wrap") or obs["status"] != "ok" or not isinstance(obs["registered"], list):
            return
        if not (is_safe(obs["src"]) and is_safe(obs["dst"])):
            return
        locid = {"local": 0, "remA0": 1, "remA1": 2, "remB0": 3}
        comps = lambda p: " ".join(hx(c) for c in p.split("/") if c)
        self.reg_lines.append(f"reg {int(case['writable'])} {locid[case['src_kind']]} {locid[case['dst_kind']]} S {comps(obs['src'])} F {comps(obs['final'])}")
        self.reg_expect.append((("objs " + " ".join(sorted(hx(p) for p, _, _ in obs["registered"]))).strip(),
                                {"case": {k: case[k] for k in ("src_kind", "dst_kind", "writable", "dst_exists_dir")}, "registered": obs["registered"]}))

    def sibling_case(self, ctx: Ctx, case: dict) -> None:
        """transfer between two locations of ONE deployment that have distinct file systems (`MultiRootConnector`): the copy that exists on
        the sibling location is not local to the destination"""
        import random
        rng = random.Random(case["seed"])
        self.n += 1
        base = os.path.join(ctx.scratch, f"sib{self.gen}_{self.n}")
        os.makedirs(base)
        context = make_context(base)
        conn = MultiRootConnector("remM", os.path.join(base, "fs"), locations=("loc0", "loc1"))
        context.deployment_manager.deployments_map["remM"] = conn
        l0 = ExecutionLocation(name="loc0", deployment="remM", local=False)
        l1 = ExecutionLocation(name="loc1", deployment="remM", local=False)
        vsrc = f"{VIRT}/S/src_{tame_name(rng)}"
        vdst = f"{VIRT}/D/dst_{tame_name(rng)}"
        rsrc = conn.real("loc0", vsrc)
        os.makedirs(os.path.dirname(rsrc))
        if case["src_is_dir"]:
            make_tree(rng, rsrc, max_entries=8, nasty=0.3, symlinks=False, long_names=False)
            with open(os.path.join(rsrc, "always"), "wb") as f:
                f.write(rng.randbytes(2000))
        else:
            with open(rsrc, "wb") as f:
                f.write(rng.randbytes(3000))
        want = snapshot(rsrc)
        obs = {}

        async def go():
            try:
                context.data_manager.register_path(location=l0, path=vsrc, relpath=vsrc, data_type=DataType.PRIMARY)
                await context.data_manager.transfer_data(src_location=l0, src_path=vsrc, dst_locations=[l1], dst_path=vdst, writable=case["writable"])
            finally:
                await conn.undeploy(False)
        try:
            run_watchdog(go, 120)
            obs["status"] = "ok"
        except Hang as e:
            obs["status"] = "hang: " + str(e)
        except Exception as e:  # noqa: BLE001
            obs["status"] = f"error {type(e).__name__}: {str(e)[:150]}"
        rdst = conn.real("loc1", vdst)
        got = snapshot(os.path.realpath(rdst)) if os.path.lexists(rdst) and os.path.exists(rdst) else {"": ("missing-or-dangling",)}
        d = diff(want, got)
        wrong_side = os.path.lexists(conn.real("loc0", vdst))
        try:
            locs = context.data_manager.get_data_locations(path=vdst, deployment="remM", location_name="loc1")
            reg = [(l.data_type.name, l.available.is_set()) for l in locs]
        except Exception as e:  # noqa: BLE001
            reg = f"error {e!r}"
        context.deployment_manager.deployments_map.pop("remM", None)
        try:
            run_watchdog(context.close, 10)
        except Exception:  # noqa: BLE001
            pass
        kill_leftovers()
        cmds = [(k, " ".join(c)[:80]) for k, c in conn.commands][:8]
        shutil.rmtree(base, ignore_errors=True)
        ctx.case({"op": "sibling-location-transfer", "dir": case["src_is_dir"], "writable": case["writable"], "status": obs["status"], "diff": d[:1]},
                 ("sibling", case["seed"], case["src_is_dir"], case["writable"]), "sibling-locations:loc0->loc1")
        replay = {"op": "sibling", "case": case}
        detail = (f"remM/loc0 -> remM/loc1 (distinct file systems), {'dir' if case['src_is_dir'] else 'file'}, {'rw' if case['writable'] else 'ro'}: status {obs['status']}; "
                  f"destination on loc1 {d[:2] or 'equal'}; created on loc0 instead: {wrong_side}; registered {reg}; commands {cmds}")
        if obs["status"] != "ok" or d or wrong_side:
            ctx.fail("transfer:sibling-locations:destination-on-the-other-location-missing-or-wrong", detail, replay)
        elif not (isinstance(reg, list) and any(av for _, av in reg)):
            ctx.fail("transfer:sibling-locations:destination-not-registered-as-available", detail, replay)

    def judge(self, ctx: Ctx, case: dict, obs: dict) -> None:
        self.registry_model_line(case, obs)
        route = f"{case['src_kind'].rstrip('01')}->{case['dst_kind'].rstrip('01')}"
        if case["src_kind"] == case["dst_kind"]:
            route += ":same-location"
        elif case["src_kind"][:4] == case["dst_kind"][:4] and case["src_kind"] != "local":
            route += ":same-connector"
        route = route.replace("wrapM", "wrapped+mount").replace("wrapA", "wrapped")
        flags = ("rw" if case["writable"] else "ro") + (",dst-is-dir" if case["dst_exists_dir"] else "") + (",dir" if case["src_is_dir"] else ",file")
        nasty_src, nasty_dst = not is_safe(obs["src"]), not is_safe(obs["dst"])
        regime = "tame-top" if not (nasty_src or nasty_dst) else "nasty-top"
        ctx.case({"op": "transfer", "route": route, "flags": flags, "src_name": case["src_name"], "dst_name": case["dst_name"], "status": obs["status"],
                  "entries": obs["entries"], "diff": obs["diff"][:1]}, ("transfer", route, flags, case["seed"], case["src_name"], case["dst_name"])
                 if obs["entries"] >= 1 else None, f"{route}:{regime}")
        ok_tree = obs["status"] == "ok" and not obs["diff"]
        registered = isinstance(obs["registered"], list) and any(av for _, _, av in obs["registered"])
        if ok_tree and registered:
            return
        replay = {"op": "transfer", "case": case}
        uses_shell = route != "local->local"
        detail = (f"{route} [{flags}] src {obs['src']!r} -> dst {obs['dst']!r}: status {obs['status']} {obs.get('error', '')}; tree diff {obs['diff'][:2]}; "
                  f"registered {obs['registered']}; destination root {obs['dst_root_listing']}; commands {obs['cmds'][:4]}")
        s_remote, d_remote = case["src_kind"] != "local", case["dst_kind"] != "local"
        cls = ("same-location" if case["src_kind"] == case["dst_kind"] else "remote->remote") if s_remote and d_remote else (
            "remote->local" if s_remote else "local->remote")
        rel_src, rel_dst = nasty_src and s_remote, nasty_dst and d_remote
        if uses_shell and (rel_src or rel_dst):
            which = "src+dst" if rel_src and rel_dst else ("src" if rel_src else "dst")
            ctx.fail(f"transfer:{cls}:unquoted-{which}-path", detail, replay)
        elif obs["status"] == "ok" and obs["diff"] and case["dst_exists_dir"] and case["src_is_dir"] and cls == "remote->local":
            # root cause, whatever the kind of remote source (plain, wrapped, wrapped with mounts) and the writable flag: extract_tar_stream
            ctx.fail("transfer:remote->local:directory-into-existing-directory:children-beside-basename", detail, replay)
        elif (obs["status"] == "ok" and cls == "remote->remote" and not case["src_is_dir"] and not case["dst_exists_dir"]
              and case["src_name"] != case["dst_name"] and len(obs["diff"]) == 1 and "True) != ('f'" in obs["diff"][0] and "False)" in obs["diff"][0]):
            ctx.fail("transfer:remote->remote:single-file-renamed:tee-loses-exec-bit", detail, replay)
        elif (obs["status"] == "ok" and obs["diff"] and route.startswith("local->local") and case["writable"] and case["dst_exists_dir"] and case["src_is_dir"]):
            ctx.fail("transfer:local->local:writable-directory-into-existing-directory:contents-merged-into-dst", detail, replay)
        elif ok_tree and not registered:
            ctx.fail(f"transfer:{route}:{flags}:destination-not-registered-as-available", detail, replay)
        else:
            ctx.fail(f"transfer:{route}:{flags}:{obs['status']}:tree-differs", detail, replay)

    def gen_case(self, rng, big_ok: bool) -> dict:
        nasty_top = rng.random() < 0.35
        src_kind, dst_kind = rng.choice(KINDS), rng.choice(KINDS)
        src_name = rand_name(rng, 0.9) if nasty_top and rng.random() < 0.6 else tame_name(rng)
        dst_name = rand_name(rng, 0.9) if nasty_top and rng.random() < 0.6 else tame_name(rng)
        if not nasty_top and rng.random() < 0.25:
            # a rename whose new name ends with / starts with / contains the old one (basename comparisons must be exact)
            dst_name = rng.choice(["old_" + src_name, "my-" + src_name, src_name + ".bak", "x" + src_name + "y"])
        return {"seed": rng.randrange(1 << 30), "src_kind": src_kind, "dst_kind": dst_kind, "writable": rng.random() < 0.5,
                "dst_exists_dir": rng.random() < 0.35, "src_is_dir": rng.random() < 0.7,
                "src_name": src_name, "dst_name": dst_name,
                "entries": rng.choice([0, 3, 12, 30]), "big": (1 << 20) if big_ok and rng.random() < 0.1 else None}

    # ---- the decision table of get_remote_to_remote_write_command vs the model -----------------------------------------
    def table_cases(self, ctx: Ctx):
        rng = ctx.rng
        lines, expect, meta = [], [], []
        root = os.path.join(ctx.scratch, f"tbl{self.gen}")
        os.makedirs(root, exist_ok=True)
        conn = MiniConnector("tbl")
        loc = ExecutionLocation(name="loc0", deployment="tbl", local=False)
        # base_eq: 1 = same basename, 0 = unrelated basename, 2 = destination basename ENDS WITH the source basename, 3 = starts with it
        combos = [(d, s, e) for d in (0, 1) for s in (0, 1) for e in (0, 1, 2, 3)]
        results = []

        async def go():
            try:
                for i, (dst_is_dir, src_is_dir, base_eq) in enumerate(combos):
                    sbase = tame_name(rng)
                    dbase = {1: sbase, 0: tame_name(rng) + "_d", 2: "old_" + sbase, 3: sbase + ".bak"}[base_eq]
                    sdir = os.path.join(root, f"s{i}")
                    ddir = os.path.join(root, f"d{i}")
                    os.makedirs(sdir)
                    os.makedirs(ddir)
                    src = os.path.join(sdir, sbase)
                    dst = os.path.join(ddir, dbase)
                    if src_is_dir:
                        os.makedirs(src)
                    else:
                        open(src, "w").close()
                    if dst_is_dir:
                        os.makedirs(dst)
                    cmd = await sfu.get_remote_to_remote_write_command(conn, loc, src, conn, [loc], dst)
                    results.append((dst_is_dir, src_is_dir, sbase, dst, list(cmd)))
            finally:
                await conn.undeploy(False)
        run_watchdog(go, 60)
        for dst_is_dir, src_is_dir, sbase, dst, cmd in results:
            comps = [c for c in dst.split("/") if c]
            lines.append(f"rrwc {dst_is_dir} {src_is_dir} {hx(sbase)} " + " ".join(hx(c) for c in comps))
            real = " ".join(cmd)
            if real.startswith("tar xpf - -C ") and real.endswith(" --strip-components 1"):
                e = f"xCstrip {hx(real[len('tar xpf - -C '):-len(' --strip-components 1')])}"
            elif real.startswith("tar xpf - -C "):
                e = f"xC {hx(real[len('tar xpf - -C '):])}"
            elif real.startswith("tar xpf - -O | tee ") and real.endswith(" > /dev/null"):
                e = f"tee {hx(real[len('tar xpf - -O | tee '):-len(' > /dev/null')])}"
            else:
                e = "unknown-command " + real
            expect.append(e)
            meta.append(("get_remote_to_remote_write_command", {"dst_is_dir": dst_is_dir, "src_is_dir": src_is_dir, "base": sbase, "dst": dst, "real": real}))
            ctx.case({"op": "rrwc", "dst_is_dir": dst_is_dir, "src_is_dir": src_is_dir, "cmd": real}, ("rrwc", dst_is_dir, src_is_dir, sbase == os.path.basename(dst)), "rrwc-table")
        return lines, expect, meta

    @in_scratch_cwd
    def explore(self, ctx: Ctx) -> None:
        from sfv.rt.shfake import limit_failures
        limit_failures(ctx)
        self._setup(ctx)
        rng = ctx.rng
        big = ctx.tier == "thorough" or ctx.mode == "search"
        lines, expect, meta = self.table_cases(ctx)
        # every route at least once in the tame regime, both flags
        corpus = []
        for s in KINDS:
            for d in KINDS:
                corpus.append({"seed": rng.randrange(1 << 30), "src_kind": s, "dst_kind": d, "writable": rng.random() < 0.5, "dst_exists_dir": False,
                               "src_is_dir": True, "src_name": tame_name(rng), "dst_name": tame_name(rng), "entries": 12, "big": None})
        corpus += [
            {"seed": 1, "src_kind": "remA0", "dst_kind": "local", "writable": True, "dst_exists_dir": True, "src_is_dir": True, "src_name": "srcdir", "dst_name": "dstdir", "entries": 8, "big": None},
            {"seed": 2, "src_kind": "local", "dst_kind": "remA0", "writable": True, "dst_exists_dir": True, "src_is_dir": True, "src_name": "srcdir", "dst_name": "do$HOME", "entries": 5, "big": None},
            {"seed": 3, "src_kind": "local", "dst_kind": "remA0", "writable": True, "dst_exists_dir": False, "src_is_dir": True, "src_name": "srcdir", "dst_name": 'q"uote', "entries": 5, "big": None},
            {"seed": 4, "src_kind": "remA0", "dst_kind": "remB0", "writable": False, "dst_exists_dir": False, "src_is_dir": False, "src_name": "a b", "dst_name": "plain", "entries": 0, "big": None},
            # renames whose new name ends with the old one, between two different remote locations, destination absent
            {"seed": 5, "src_kind": "remA0", "dst_kind": "remB0", "writable": True, "dst_exists_dir": False, "src_is_dir": True, "src_name": "input", "dst_name": "old_input", "entries": 6, "big": None},
            {"seed": 6, "src_kind": "remA0", "dst_kind": "remA1", "writable": True, "dst_exists_dir": False, "src_is_dir": False, "src_name": "data.bin", "dst_name": "metadata.bin", "entries": 0, "big": None},
            {"seed": 7, "src_kind": "remB0", "dst_kind": "remA0", "writable": False, "dst_exists_dir": False, "src_is_dir": True, "src_name": "input", "dst_name": "my-input", "entries": 4, "big": None},
        ]
        for sk in (["local", "remA0"] * (4 if big else 1)):
            for is_dir in (True, False):
                self.concurrent_case(ctx, {"seed": rng.randrange(1 << 30), "src_kind": sk, "src_is_dir": is_dir})
        for wr in ((True, False) * (3 if big else 1)):
            for is_dir in (True, False):
                self.sibling_case(ctx, {"seed": rng.randrange(1 << 30), "src_is_dir": is_dir, "writable": wr})
        n = 150 if big else 14
        cases = corpus + [self.gen_case(rng, big and ctx.tier == "thorough") for _ in range(n)]
        for case in cases:
            if ctx.out_of_time():
                ctx.extra["incomplete"] = True
                break
            obs = self.one_transfer(ctx, case)
            if obs["status"] == "hang" and is_safe(obs["src"]) and is_safe(obs["dst"]):
                # no shell-special character is involved: confirm the time-out alone with a much larger bound before reporting it
                ctx.count("slow-transfer-rerun-with-larger-bound")
                obs = self.one_transfer(ctx, case, bound=240)
            self.judge(ctx, case, obs)
        all_got = ctx.lean("Drivers/C22.lean", lines + self.reg_lines)
        got = all_got[:len(lines)]
        for g, (e, sample) in zip(all_got[len(lines):], self.reg_expect):
            ctx.count("registry-model")
            if " ".join(sorted(g.split()[1:])) != " ".join(e.split()[1:]):
                ctx.disagree("registration steps of transfer_data on the registry model", f"real {[unhx(x) for x in e.split()[1:]]}, "
                             f"Lean model {[unhx(x) for x in g.split()[1:]]}", sample)
        for g, e, m in zip(got, expect, meta):
            if g != e:
                ctx.disagree(f"model vs {m[0]}", f"{m[1]}: code {e!r} ({unhx(e.split()[1]) if len(e.split()) > 1 and e.split()[0] in ('xC', 'xCstrip', 'tee') else ''}), Lean model {g!r}", m[1])
        ctx.extra["copy_route_templates"] = {r["lean"]: ("quoted" if r["quoted"] else "NOT-quoted") + " " + r["text"] for r in self.table
                                             if r["op"] in ("get_local_to_remote_destination", "get_remote_to_remote_write_command", "copy_same_connector", "tar_commands")}

    @in_scratch_cwd
    def replay(self, ctx: Ctx, data) -> None:
        self._setup(ctx)
        r = data.get("replay") or {}
        if r.get("op") == "sibling":
            self.sibling_case(ctx, r["case"])
            print(ctx.samples[-1] if ctx.samples else "")
        elif r.get("op") == "concurrent":
            self.concurrent_case(ctx, r["case"])
            print(ctx.samples[-1] if ctx.samples else "")
        elif r.get("op") == "transfer":
            obs = self.one_transfer(ctx, r["case"])
            for k, v in obs.items():
                print(f"{k:18s}: {v}")
            self.judge(ctx, r["case"], obs)
        else:
            super().replay(ctx, data)


PROPERTY = C22()
