import SFV.Lemmas.ProvGraph
/-! Fuel sufficiency for the model of `build_graph`: on a provenance relation over tokens `< N` without self-dependencies the loop
pops every token at most once, so `N` iterations are enough (the model never answers `outOfFuel`). -/
namespace SFV.Prov

/-- every dependee of a token below `N` is below `N` -/
def Bounded (inp : In) (N : Nat) : Prop := ∀ t, t < N → ∀ p, p ∈ inp.deps t → p < N

/-- no token depends on itself (true of every DAG) -/
def Irrefl (inp : In) : Prop := ∀ t, t ∉ inp.deps t

structure FInv (N : Nat) (s : BSt) : Prop where
  infoNodup : s.info.Nodup
  queueNodup : s.queue.Nodup
  disjoint : ∀ x, x ∈ s.queue → x ∉ s.info
  infoLt : ∀ x, x ∈ s.info → x < N
  queueLt : ∀ x, x ∈ s.queue → x < N

theorem finv_length {N : Nat} {s : BSt} (h : FInv N s) : s.info.length + s.queue.length ≤ N := by
  have hn : (s.info ++ s.queue).Nodup := by
    rw [List.nodup_append]
    refine ⟨h.infoNodup, h.queueNodup, ?_⟩
    intro a ha b hb hab
    subst hab
    exact h.disjoint a hb ha
  have hsub : (s.info ++ s.queue) ⊆ List.range N := by
    intro x hx
    rw [List.mem_range]
    rcases List.mem_append.mp hx with hx | hx
    · exact h.infoLt x hx
    · exact h.queueLt x hx
  have := List.Nodup.length_le_of_subset hn hsub
  simpa using this

theorem enqueue_spec (info : List Nat) (t : Nat) :
    ∀ (ps q : List Nat), q.Nodup → (∀ x, x ∈ q → x ∉ info ∧ x ≠ t) → (∀ p, p ∈ ps → p ≠ t) →
      (enqueue info q ps).Nodup ∧ ∀ x, x ∈ enqueue info q ps → (x ∉ info ∧ x ≠ t) ∧ (x ∈ q ∨ x ∈ ps)
  | [], q, hq, hd, _ => by
    simp only [enqueue]
    exact ⟨hq, fun x hx => ⟨hd x hx, Or.inl hx⟩⟩
  | p :: ps, q, hq, hd, hp => by
    simp only [enqueue]
    split
    · obtain ⟨h1, h2⟩ := enqueue_spec info t ps q hq hd (fun x hx => hp x (List.mem_cons_of_mem _ hx))
      refine ⟨h1, fun x hx => ?_⟩
      obtain ⟨a, b⟩ := h2 x hx
      exact ⟨a, b.imp id (List.mem_cons_of_mem _)⟩
    · rename_i hnot
      have hpi : p ∉ info := fun h => hnot (Or.inl h)
      have hpq : p ∉ q := fun h => hnot (Or.inr h)
      have hq' : (q ++ [p]).Nodup := by
        rw [List.nodup_append]
        refine ⟨hq, by simp, ?_⟩
        intro a ha b hb hab
        simp at hb; subst hb; subst hab; exact hpq ha
      have hd' : ∀ x, x ∈ q ++ [p] → x ∉ info ∧ x ≠ t := by
        intro x hx
        rcases List.mem_append.mp hx with hx | hx
        · exact hd x hx
        · simp at hx; subst hx; exact ⟨hpi, hp x (List.mem_cons_self ..)⟩
      obtain ⟨h1, h2⟩ := enqueue_spec info t ps (q ++ [p]) hq' hd' (fun x hx => hp x (List.mem_cons_of_mem _ hx))
      refine ⟨h1, fun x hx => ?_⟩
      obtain ⟨a, b⟩ := h2 x hx
      refine ⟨a, ?_⟩
      rcases b with b | b
      · rcases List.mem_append.mp b with b | b
        · exact Or.inl b
        · simp at b; subst b; exact Or.inr (List.mem_cons_self ..)
      · exact Or.inr (List.mem_cons_of_mem _ b)

theorem finv_visit {inp : In} {N : Nat} (hb : Bounded inp N) (hi : Irrefl inp) {s s' : BSt} {t : Nat} {q : List Nat}
    (h : FInv N s) (hq : s.queue = t :: q) (hv : visit inp s t q = some s') :
    FInv N s' ∧ s'.info.length = s.info.length + 1 := by
  have hqn := h.queueNodup
  rw [hq] at hqn
  have htq : t ∉ q := (List.nodup_cons.mp hqn).1
  have hqn' : q.Nodup := (List.nodup_cons.mp hqn).2
  have hti : t ∉ s.info := h.disjoint t (by rw [hq]; exact List.mem_cons_self ..)
  have htN : t < N := h.queueLt t (by rw [hq]; exact List.mem_cons_self ..)
  have hqd : ∀ x, x ∈ q → x ∉ s.info ∧ x ≠ t := by
    intro x hx
    refine ⟨h.disjoint x (by rw [hq]; exact List.mem_cons_of_mem _ hx), ?_⟩
    rintro rfl; exact htq hx
  have hqN : ∀ x, x ∈ q → x < N := fun x hx => h.queueLt x (by rw [hq]; exact List.mem_cons_of_mem _ hx)
  have hinfo : addNode s.info t = s.info ++ [t] := by simp [addNode, hti]
  have hinfoN : (s.info ++ [t]).Nodup := by
    rw [List.nodup_append]
    refine ⟨h.infoNodup, by simp, ?_⟩
    intro a ha b hb' hab
    simp at hb'; subst hb'; subst hab; exact hti ha
  have hinfoLt : ∀ x, x ∈ s.info ++ [t] → x < N := by
    intro x hx
    rcases List.mem_append.mp hx with hx | hx
    · exact h.infoLt x hx
    · simp at hx; subst hx; exact htN
  unfold visit at hv
  split at hv
  · cases hv
    simp only [hinfo]
    refine ⟨⟨hinfoN, hqn', ?_, hinfoLt, hqN⟩, by simp⟩
    intro x hx hx'
    rcases List.mem_append.mp hx' with hx' | hx'
    · exact (hqd x hx).1 hx'
    · simp at hx'; exact (hqd x hx).2 hx'
  · split at hv
    · cases hv
    · rename_i ps hps
      cases hv
      have hdeps : ∀ p, p ∈ inp.deps t → p ≠ t := by
        rintro p hp rfl; exact hi p hp
      obtain ⟨e1, e2⟩ := enqueue_spec s.info t (inp.deps t) q hqn' hqd hdeps
      simp only [hinfo]
      refine ⟨⟨hinfoN, e1, ?_, hinfoLt, ?_⟩, by simp⟩
      · intro x hx hx'
        obtain ⟨⟨a, b⟩, _⟩ := e2 x hx
        rcases List.mem_append.mp hx' with hx' | hx'
        · exact a hx'
        · simp at hx'; exact b hx'
      · intro x hx
        obtain ⟨_, c⟩ := e2 x hx
        rcases c with c | c
        · exact hqN x c
        · exact hb t htN x c

/-- **fuel sufficiency**: with `N ≤ |info| + fuel` the loop never runs out of fuel -/
theorem bfs_fuel {inp : In} {N : Nat} (hb : Bounded inp N) (hi : Irrefl inp) :
    ∀ (fuel : Nat) (s : BSt), FInv N s → N ≤ s.info.length + fuel → bfs inp fuel s ≠ .outOfFuel
  | 0, s, h, hl => by
    have := finv_length h
    have hq : s.queue.length = 0 := by omega
    have : s.queue = [] := List.length_eq_zero_iff.mp hq
    simp [bfs, this]
  | fuel + 1, s, h, hl => by
    simp only [bfs]
    split
    · simp
    · rename_i t q hq
      split
      · simp
      · rename_i s' hv
        obtain ⟨h', hlen⟩ := finv_visit hb hi h hq hv
        exact bfs_fuel hb hi fuel s' h' (by omega)

end SFV.Prov
