import SFV.Model.JobDirs
/-! # The registration loop of `ScheduleStep._schedule` with its "already registered?" guard

```
for location in locations:
    for directory in (job.input_directory, job.output_directory, job.tmp_directory):
        if not data_manager.get_data_locations(directory, location.deployment, location.name):
            … data_manager.register_path(location=location, path=directory, …)
```
A location is `(deployment, name)`. `same l l'` says whether a registration on `l'` answers the guard's query for `l`
(the generated `SFV.Gen.regSameKey`: which of the two components the query passes). -/
namespace SFV.DirReg
open SFV.JobDirs (Dir)

abbrev Loc := Nat × Nat
abbrev Cell := Loc × Dir

def regLoop (same : Loc → Loc → Bool) (reg : List Cell) : List Cell → List Cell
  | [] => reg
  | (l, d) :: cs =>
      if reg.any (fun c => same l c.1 && decide (c.2 = d)) then regLoop same reg cs
      else regLoop same (reg ++ [(l, d)]) cs

/-- the (location, directory) pairs the loop visits, in its order -/
def cells (locs : List Loc) (ds : List Dir) : List Cell := locs.flatMap (fun l => ds.map (fun d => (l, d)))

end SFV.DirReg
