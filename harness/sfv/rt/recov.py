"""Recovery harness (C15-C19): builds workflow shapes with the repo's own test builders
(`tests/utils/workflow.py`: RecoveryTranslator, injector steps/commands), but with OUR failure injectors:
a failure plan names (step, tag, phase) -> how many times to fail, soft or fail-stop, and — for fail-stop — exactly
which jobs' directories are lost (the repo's FAIL_STOP injector deletes the whole shared workdir).

`run_case(case)` builds a fresh context (in-memory database, rollback failure manager with `max_retries`), runs the
workflow under a wall-clock watchdog and returns: outcome, output values, step statuses, attempts per job (our log and
the rows of the `execution` table), RecoveryRequest versions, every (job, directories) assignment, what was deleted."""
from __future__ import annotations

import asyncio
import logging
import os
import posixpath
import shutil
import tempfile
import time
from typing import Any

STATE: dict = {}


def _reset(plan: list) -> None:
    STATE.clear()
    STATE.update({"plan": [dict(p) for p in plan], "attempts": [], "dirs": [], "deleted": [], "injected": [], "avail": [], "events": [], "ports_done": {},
                  "timeline": [], "gate_events": {}, "signalled": set(), "gates": []})


_LEGACY = ("exec", "fail", "lose", "stage")


def _ev(kind: str, job: str) -> None:
    """`events`: the kinds the job-step replay of C16/C19 consumes; `timeline`: the same plus start / claim / replica / gate marks"""
    if kind in _LEGACY:
        STATE["events"].append([kind, job])
    STATE["timeline"].append([kind, job])


def _gate_event(name: str) -> "asyncio.Event":
    return STATE["gate_events"].setdefault(name, asyncio.Event())


def signal(name: str) -> None:
    if name not in STATE["signalled"]:
        STATE["signalled"].add(name)
        _ev("signal", name)
    _gate_event(name).set()


async def _gates(job_name: str, attempt: int, phase: str = "execute") -> None:
    """forced interleavings: `case.gates = [{job, attempt, phase?, signal?, wait?, timeout?}]` — at the start of the given execution of the
    job (phase execute: its status is RUNNING; phase schedule: it has just been scheduled, FIREABLE; phase completed: its outputs are in
    the output ports, the k-th `notify_status(job, COMPLETED)` has not been delivered yet) first raise `signal`, then hold the job until `wait` was raised (by another gate or by the failure-manager
    tracer: `synced:<failed job>` = a recovery finished `_synchronize_workflows`); a wait that times out is logged, not an error"""
    for g in STATE.get("gates", []):
        if g["job"] == job_name and g["attempt"] == attempt and g.get("phase", "execute") == phase:
            if g.get("signal"):
                signal(g["signal"])
            if g.get("wait"):
                try:
                    await asyncio.wait_for(_gate_event(g["wait"]).wait(), g.get("timeout", 30))
                except asyncio.TimeoutError:
                    _ev("gate-timeout", g["wait"])


def _lookup(step: str, tag: str, phase: str):
    for p in STATE["plan"]:
        if p["step"] == step and p["tag"] == tag and p["phase"] == phase and p.get("count", 1) > 0:
            return p
    return None


def _job_dirs(job_name: str):
    for name, dirs in reversed(STATE["dirs"]):
        if name == job_name:
            return dirs
    return None


def _lose(plan_entry: dict, job) -> None:
    """fail-stop: delete exactly the directories of the jobs named in the plan entry (default: the failing job)"""
    names = [posixpath.join(s, t) for s, t in plan_entry.get("lose", [])] or [job.name]
    for name in [posixpath.join(s, t) for s, t in plan_entry.get("replicate", [])]:
        _replicate(name)
    for st, tg, fname in plan_entry.get("lose_files", []):      # ONE file of a job's output (e.g. one field of a record)
        name = posixpath.join(st, tg)
        dirs = _job_dirs(name)
        path = os.path.join(dirs[1], fname) if dirs else None
        if path and os.path.exists(path):
            os.remove(path)
            STATE["deleted"].append((name, path))
            _ev("lose", name)
    for name in names:
        dirs = _job_dirs(name)
        if name == job.name and dirs is None:
            dirs = [job.input_directory, job.output_directory, job.tmp_directory]
        for d in dirs or []:
            if d and os.path.isdir(d):
                shutil.rmtree(d, ignore_errors=True)
                STATE["deleted"].append((name, d))
        _ev("lose", name)
        STATE["ports_done"].pop(name, None)


def _replicate(job_name: str) -> None:
    """copy every file of the job's output directory to the SECOND deployment (`shape.deps = 2`) and register the copy in the real
    DataManager as a further primary data location of the same data (what a transfer to another location does)"""
    from streamflow.core.data import DataType
    dm = STATE["context"].data_manager
    dirs = _job_dirs(job_name)
    out_dir = dirs[1] if dirs else None
    if not out_dir or not os.path.isdir(out_dir):
        return
    for base, _, files in os.walk(out_dir):
        for f in files:
            src = os.path.join(base, f)
            srcs = [d for d in dm.get_data_locations(src, data_type=DataType.PRIMARY) if d.path == src]
            if not srcs:
                continue
            dst = os.path.join(STATE["replica_root"], job_name.strip("/").replace("/", "_"), os.path.relpath(src, out_dir))
            os.makedirs(os.path.dirname(dst), exist_ok=True)
            shutil.copy2(src, dst)
            dloc = dm.register_path(STATE["replica_loc"], dst, relpath=srcs[0].relpath)
            dloc.available.set()
            dm.register_relation(srcs[0], dloc)
            _ev("replica", job_name)


def _exc(p, default_cls, msg: str):
    """the exception an injected failure raises: the repo's own WorkflowExecutionException by default, or — plan key `exc` — a
    non-StreamFlow exception as a connector / plugin / OS error would surface (ConnectionResetError, OSError, ValueError, TimeoutError)"""
    import builtins
    name = (p or {}).get("exc")
    cls = getattr(builtins, name) if name else default_cls
    return cls(msg)


def _inject(step_name: str, job, phase: str) -> bool:
    from streamflow.core.utils import get_job_tag
    tag = get_job_tag(job.name)
    p = _lookup(step_name, tag, phase)
    if p is None:
        return False
    p["count"] = p.get("count", 1) - 1
    STATE["last_injected"] = p
    STATE["injected"].append((job.name, phase, p["kind"]))
    if p["kind"] == "failstop":
        _lose(p, job)
    return True


def _classes():
    """our injectors, defined lazily (they subclass classes of /repo/tests) and registered in this module's namespace
    so that `Step.load` finds them by module path when a recovery workflow is rebuilt from the database"""
    if "SfvCommand" in globals():
        return
    from streamflow.core.exception import WorkflowExecutionException
    from streamflow.core.workflow import CommandOutput, Status
    from streamflow.workflow.step import ExecuteStep, ScheduleStep
    from streamflow.workflow.utils import get_job_token
    from tests.utils.workflow import (InjectorFailureCommand, InjectorFailureScheduleStep, InjectorFailureTransferStep,
                                      RecoveryTranslator)

    class SfvCommand(InjectorFailureCommand):
        async def execute(self, job):
            step_name = self.step.name
            STATE["attempts"].append((job.name, "execute", time.time()))
            _ev("start", job.name)
            await _gates(job.name, sum(1 for n, _, _ in STATE["attempts"] if n == job.name))
            ctx_ = self.step.workflow.context
            reg = {}
            for loc in ctx_.scheduler.get_locations(job.name):
                for d in (job.input_directory, job.output_directory, job.tmp_directory):
                    reg[d] = [bool(ctx_.data_manager.get_data_locations(d, loc.deployment, loc.name)), os.path.isdir(d)]
            STATE["avail"].append((job.name, reg))
            if _inject(step_name, job, "execute"):
                if STATE["last_injected"].get("exc"):
                    # the command itself raises (e.g. the connection to the location is reset), nothing is recorded
                    _ev("fail", job.name)
                    raise _exc(STATE["last_injected"], WorkflowExecutionException, f"Injected {STATE['last_injected']['exc']} into {step_name}")
                context = self.step.workflow.context
                cmd_out = CommandOutput("Injected failure", Status.FAILED)
                job_token = get_job_token(job.name, self.step.get_job_port().token_list)
                await context.database.update_execution(
                    await context.database.add_execution(self.step.persistent_id, job_token.persistent_id, self.command),
                    {"status": cmd_out.status})
                _ev("fail", job.name)
                return cmd_out
            try:
                op = eval(self.command)(job.inputs)  # noqa: S307  (the repo's test command does the same)
            except Exception:  # noqa: BLE001
                op = None
            if op and op[0] == "mkrecord":
                # a job whose output is a RECORD of three files written into its output directory (content derived from its input)
                os.makedirs(job.output_directory, exist_ok=True)
                src = op[2]
                text = open(src).read() if isinstance(src, str) and os.path.isfile(src) else str(src)
                value = {}
                for k in range(3):
                    path = os.path.join(job.output_directory, f"rec-f{k}")
                    with open(path, "w") as fh:
                        fh.write(f"{text}|field{k}")
                    value[f"f{k}"] = {"class": "File", "path": path, "basename": f"rec-f{k}"}
                value["threshold"] = 7          # a mixed record: a non-file field that always survives
                out = CommandOutput(value, Status.COMPLETED)
                context = self.step.workflow.context
                job_token = get_job_token(job.name, self.step.get_job_port().token_list)
                await context.database.update_execution(
                    await context.database.add_execution(self.step.persistent_id, job_token.persistent_id, self.command),
                    {"status": out.status})
            else:
                out = await super().execute(job)
            _ev("exec" if out.status == Status.COMPLETED else "fail", job.name)
            return out

    class SfvScheduleStep(InjectorFailureScheduleStep):
        async def _set_job_directories(self, connector, locations, job):
            step_name = self.job_prefix
            if _inject(step_name, job, "schedule"):
                _ev("fail", job.name)
                raise _exc(STATE["last_injected"], WorkflowExecutionException, f"Injected error into {self.name} step")
            await _gates(job.name, 1 + sum(1 for n, _ in STATE["dirs"] if n == job.name), "schedule")
            await ScheduleStep._set_job_directories(self, connector, locations, job)
            STATE["dirs"].append((job.name, [job.input_directory, job.output_directory, job.tmp_directory]))

    class SfvTransferStep(InjectorFailureTransferStep):
        async def transfer(self, job, token):
            step_name = self.name.split("/__transfer__/")[0]
            top = any(token is t for t in job.inputs.values())
            if top and _inject(step_name, job, "transfer"):
                _ev("fail", job.name)
                raise _exc(STATE["last_injected"], WorkflowExecutionException, f"Injected error into {self.name} step")
            out = await super().transfer(job, token)
            if top:
                done = STATE["ports_done"].setdefault(job.name, set())
                done.add(self.name)
                if len(done) >= len(job.inputs):
                    _ev("stage", job.name)
                    STATE["ports_done"][job.name] = set()
            return out

    class SfvTranslator(RecoveryTranslator):
        def get_execute_pipeline(self, command, deployment_names, input_ports, outputs, step_name, workflow,
                                 binding_config=None, **_ignored):
            from tests.utils.workflow import EvalCommandOutputProcessor
            extra = {}
            if STATE.get("fixed_tmp") and step_name in STATE["fixed_tmp"]:
                extra["tmp_directory"] = STATE["fixed_tmp"][step_name]
            schedule_step = self._get_schedule_step(cls=SfvScheduleStep, binding_config=binding_config,
                                                    deployment_names=deployment_names, step_name=step_name, workflow=workflow, **extra)
            execute_step = workflow.create_step(ExecuteStep, name=step_name, job_port=schedule_step.get_output_port())
            execute_step.command = SfvCommand(execute_step, command=command)
            for key, port in input_ports.items():
                schedule_step.add_input_port(key, port)
                transfer_step = workflow.create_step(cls=SfvTransferStep, name=posixpath.join(step_name, "__transfer__", key),
                                                     job_port=schedule_step.get_output_port())
                transfer_step.add_input_port(key, port)
                transfer_step.add_output_port(key, workflow.create_port())
                execute_step.add_input_port(key, transfer_step.get_output_port(key))
            for output, value_type in outputs.items():
                execute_step.add_output_port(output, workflow.create_port(), EvalCommandOutputProcessor(output, workflow, value_type))
            return execute_step

    for c in (SfvCommand, SfvScheduleStep, SfvTransferStep, SfvTranslator):
        c.__module__ = __name__
        c.__qualname__ = c.__name__
        globals()[c.__name__] = c



def _trace_failure_manager(context) -> None:
    """log lock acquisitions / is_recovering checks made under a request's lock / successful claims (C19)"""
    fm = context.failure_manager
    if not hasattr(fm, "_retry_requests"):
        return
    ev = STATE.setdefault("fm_events", [])
    rids: dict = {}
    held: dict = {}

    def rid() -> int:
        t = asyncio.current_task()
        return rids.setdefault(id(t), len(rids) + 1)

    class TracedLock(asyncio.Lock):
        def __init__(self, name):
            super().__init__()
            self.sfv_name = name

        async def acquire(self):
            r = await super().acquire()
            held.setdefault(rid(), set()).add(self.sfv_name)
            ev.append(["acquire", rid(), self.sfv_name])
            return r

        def release(self):
            held.get(rid(), set()).discard(self.sfv_name)
            ev.append(["release", rid(), self.sfv_name])
            return super().release()

    orig_get, orig_is, orig_upd = fm.get_request, fm.is_recovering, fm._update_request

    def get_request(job_name):
        r = orig_get(job_name)
        if not isinstance(r.lock, TracedLock):
            r.lock = TracedLock(job_name)
        return r

    async def is_recovering(job_name):
        try:
            seen = fm.context.scheduler.get_allocation(job_name).status.name      # what the status test is about to read
        except Exception:  # noqa: BLE001
            seen = "UNKNOWN"
        res = await orig_is(job_name)
        if job_name in held.get(rid(), set()):
            ev.append(["check", rid(), job_name, bool(res), seen])
        return res

    async def _update_request(job_name):
        _ev("claim", job_name)          # before the awaited notify_status(ROLLBACK): the decision is taken here
        try:
            await orig_upd(job_name)
        except BaseException:
            _ev("claim-refused", job_name)
            raise
        ev.append(["claim", rid(), job_name])

    orig_sync = fm._synchronize_workflows

    async def _synchronize_workflows(*a, **kw):
        # `retry_requests` is built from a SET of job names: its order is arbitrary (string hashing); `case.sync_order` (a list of job
        # names) picks one of the orders the real code can see, so both are exercised deterministically
        order = STATE.get("sync_order")
        if order and "retry_requests" in kw:
            kw["retry_requests"] = sorted(kw["retry_requests"], key=lambda q: order.index(q.name) if q.name in order else len(order))
        try:
            return await orig_sync(*a, **kw)
        finally:
            signal("synced:" + str(kw.get("failed_job", a[0] if a else "")))

    fm.get_request, fm.is_recovering, fm._update_request = get_request, is_recovering, _update_request
    fm._synchronize_workflows = _synchronize_workflows


async def _file(context, location, content: str) -> dict:
    from streamflow.core import utils
    from streamflow.data.remotepath import StreamFlowPath
    path = StreamFlowPath(STATE["inputs_dir"], utils.random_name(), context=context, location=location)
    await path.write_text(content)
    path = await path.resolve()
    return {"basename": os.path.basename(path), "checksum": f"sha1${await path.checksum()}", "class": "File",
            "path": str(path), "size": await path.size()}


async def _read(context, location, token) -> Any:
    from streamflow.data.remotepath import StreamFlowPath
    from streamflow.workflow.token import FileToken, ListToken, ObjectToken
    if isinstance(token, FileToken):
        p = await StreamFlowPath(token.value, context=context, location=location).resolve()
        if p is None or not await p.is_file():
            return {"missing": token.value}
        return {"file": await p.read_text()}
    if isinstance(token, ListToken):
        return [await _read(context, location, t) for t in token.value]
    if isinstance(token, ObjectToken):
        return {k: await _read(context, location, t) for k, t in token.value.items()}
    return token.value


async def _build(case: dict, context, workflow, translator, dep: str, location):
    """returns (output ports to observe: name -> port, execute steps by name)"""
    from streamflow.core.workflow import Token
    from streamflow.workflow.step import GatherStep, ScatterStep
    from streamflow.workflow.token import TerminationToken
    from tests.utils.utils import inject_tokens
    shape = case["shape"]
    steps = {}
    kind = shape.get("data", "file")

    async def source(name: str, value):
        inj = translator.get_base_injector_step([dep], name, posixpath.join(posixpath.sep, name), workflow)
        await inject_tokens(token_list=[Token(value, recoverable=True)], in_port=inj.get_input_port(name), context=context,
                            save_input_token=False)
        return inj.get_output_port(name)

    def stage(name: str, inputs: dict, src_key: str, out_type: str, out_name: str = "out", on: str | None = None):
        cmd = f"lambda x : ('copy', '{out_type}', x['{src_key}'].value)"
        st = translator.get_execute_pipeline(command=cmd, deployment_names=[on or dep], input_ports=inputs, outputs={out_name: out_type},
                                             step_name=posixpath.join(posixpath.sep, name), workflow=workflow)
        steps["/" + name] = st
        return st

    if shape["kind"] == "pipeline":
        value = await _file(context, location, "payload-pipeline") if kind == "file" else 100
        ports = {"out": await source("out", value)}
        for i in range(shape["n"]):
            if shape.get("sink") and i == shape["n"] - 1:
                # an ExecuteStep WITHOUT output ports (its command only has side effects)
                cmd = "lambda x : ('copy', 'primitive', 1)"
                st = translator.get_execute_pipeline(command=cmd, deployment_names=[dep], input_ports=ports, outputs={},
                                                     step_name=posixpath.join(posixpath.sep, f"s{i}"), workflow=workflow)
                steps[f"/s{i}"] = st
                return {}, steps
            st = stage(f"s{i}", ports, "out", "file" if kind == "file" else "primitive")
            ports = st.get_output_ports()
        return {"out": ports["out"]}, steps
    if shape["kind"] == "record":
        # source -> a (output: a record = ObjectToken of three files) -> b (copies field f1 of the record)
        value = await _file(context, location, "payload-record")
        a = translator.get_execute_pipeline(command="lambda x : ('mkrecord', 'object', x['out'].value['path'] if isinstance(x['out'].value, dict) else x['out'].value)",
                                            deployment_names=[dep], input_ports={"out": await source("out", value)},
                                            outputs={"out": "object"}, step_name="/a", workflow=workflow)
        steps["/a"] = a
        b = translator.get_execute_pipeline(command="lambda x : ('copy', 'file', x['out'].value['f1'].value)", deployment_names=[dep],
                                            input_ports={"out": a.get_output_port("out")}, outputs={"out": "file"}, step_name="/b",
                                            workflow=workflow)
        steps["/b"] = b
        return {"out": b.get_output_port("out")}, steps
    if shape["kind"] == "scatter":
        m = shape["m"]
        value = [await _file(context, location, f"payload-{i}") for i in range(m)]
        a = stage("a", {"out": await source("out", value)}, "out", "list")
        if shape.get("deep"):       # two-level shared ancestors: a -> m -> b_i
            a = stage("m", {"out": a.get_output_port("out")}, "out", "list")
        sc = workflow.create_step(cls=ScatterStep, name="/b-scatter")
        sc.add_input_port("out", a.get_output_port("out"))
        sc.add_output_port("out", workflow.create_port())
        b = stage("b", {"out": sc.get_output_port("out")}, "out", "list")
        # the element step produces a file out of one scattered file
        b.output_processors["out"].value_type = "file" if hasattr(b.output_processors["out"], "value_type") else None
        g = workflow.create_step(cls=GatherStep, name="/b-gather", size_port=sc.get_size_port())
        g.add_input_port("out", b.get_output_port("out"))
        g.add_output_port("out", workflow.create_port())
        c = stage("c", g.get_output_ports(), "out", "list")
        return {"out": c.get_output_port("out")}, steps
    if shape["kind"] == "diamond":
        value = await _file(context, location, "payload-diamond")
        a = stage("a", {"out": await source("out", value)}, "out", "file")
        if shape.get("deep"):       # two-level shared ancestors: a -> m -> b1, b2
            a = stage("m", {"out": a.get_output_port("out")}, "out", "file")
        b1 = stage("b1", {"out": a.get_output_port("out")}, "out", "file")
        b2 = stage("b2", {"out": a.get_output_port("out")}, "out", "file")
        c = translator.get_execute_pipeline(command="lambda x : ('copy', 'file', x['l'].value)", deployment_names=[dep],
                                            input_ports={"l": b1.get_output_port("out"), "r": b2.get_output_port("out")},
                                            outputs={"out": "file"}, step_name="/c", workflow=workflow)
        steps["/c"] = c
        return {"out": c.get_output_port("out")}, steps
    if shape["kind"] == "loop":
        k = shape["k"]
        value = await _file(context, location, "payload-loop")
        inputs = {}
        for name, v in {"test": value, "counter": 0, "limit": k}.items():
            inj = translator.get_base_injector_step([dep], name, posixpath.join(posixpath.sep, name), workflow)
            inputs[name] = inj.get_output_port(name)
            inj.get_input_port(name).put(Token(v, recoverable=True))
            inj.get_input_port(name).put(TerminationToken())
            workflow.input_ports[name] = inj.get_input_port(name)
        loop_in = translator.get_input_loop("/body", inputs, 'lambda x: x["counter"].value < x["limit"].value')
        counter = translator.get_execute_pipeline(command="lambda x : ('inc', 'integer', x['counter'].value)", deployment_names=[dep],
                                                  input_ports={"counter": loop_in["counter"]}, outputs={"counter": "primitive"},
                                                  step_name="/increment", workflow=workflow)
        body = translator.get_execute_pipeline(command="lambda x : ('copy', 'file', x['test'].value)", deployment_names=[dep],
                                               input_ports=loop_in, outputs={"test1": "file"}, step_name="/body", workflow=workflow)
        steps["/body"], steps["/increment"] = body, counter
        outs = translator.get_output_loop("/body", {"test": body.get_output_port("test1"), "counter": counter.get_output_port("counter"),
                                                    "limit": loop_in["limit"]}, {"test"})
        return dict(outs), steps
    raise ValueError(shape)


async def _run(case: dict) -> dict:
    from streamflow.core.workflow import Status
    from streamflow.main import build_context
    from streamflow.workflow.executor import StreamFlowExecutor
    from streamflow.workflow.token import JobToken, TerminationToken
    from tests.utils.deployment import get_local_deployment_config
    from tests.utils.workflow import create_workflow
    _classes()
    root = case["root"]
    os.makedirs(root, exist_ok=True)
    STATE["inputs_dir"] = os.path.join(root, "inputs")
    STATE["fixed_tmp"] = {st: os.path.join(root, "work", "test-fs-volatile", "fixed-" + st.strip("/")) for st in case.get("fixed_tmp", [])}
    os.makedirs(STATE["inputs_dir"], exist_ok=True)
    STATE["replica_root"] = os.path.join(root, "work1", "test-fs-volatile", "replicas")
    fm = ({"type": "default", "config": {"max_retries": case.get("max_retries"), "retry_delay": 0}}
          if case.get("manager", "rollback") == "rollback" else {"type": "dummy", "config": {}})
    context = build_context({"failureManager": fm, "database": {"type": "default", "config": {"connection": ":memory:"}}, "path": root})
    dep = "local-fs-volatile"
    config = get_local_deployment_config(name=dep, workdir=os.path.join(root, "work", "test-fs-volatile"))
    await context.deployment_manager.deploy(config)
    configs = {dep: config}
    for k in range(1, case["shape"].get("deps", 1)):
        configs[f"{dep}-{k}"] = get_local_deployment_config(name=f"{dep}-{k}", workdir=os.path.join(root, f"work{k}", "test-fs-volatile"))
        await context.deployment_manager.deploy(configs[f"{dep}-{k}"])
    STATE["deps"] = list(configs)
    STATE["context"] = context
    if len(configs) > 1:
        conn2 = context.deployment_manager.get_connector(STATE["deps"][1])
        STATE["replica_loc"] = next(iter((await conn2.get_available_locations()).values())).location
    if case.get("trace_fm"):
        _trace_failure_manager(context)
    if any(g.get("phase") == "completed" for g in STATE.get("gates", [])):
        # gate between "the job's outputs are in its output ports" and "the scheduler sees it COMPLETED" (ExecuteStep._run_job, finally)
        orig_notify = context.scheduler.notify_status
        done_n: dict = {}

        async def notify_status(job_name, status):
            if status == Status.COMPLETED:
                done_n[job_name] = done_n.get(job_name, 0) + 1
                await _gates(job_name, done_n[job_name], "completed")
            return await orig_notify(job_name, status)
        context.scheduler.notify_status = notify_status
    res: dict = {"outcome": None}
    try:
        connector = context.deployment_manager.get_connector(dep)
        location = next(iter((await connector.get_available_locations()).values())).location
        workflow = next(iter(await create_workflow(context, num_port=0)))
        translator = SfvTranslator(workflow)  # noqa: F821
        translator.deployment_configs = configs
        outs, steps = await _build(case, context, workflow, translator, dep, location)
        await workflow.save(context.database)
        executor = StreamFlowExecutor(workflow)
        t0 = time.time()
        try:
            await asyncio.wait_for(executor.run(), case.get("timeout", 180))
            res["outcome"] = "ok"
        except asyncio.TimeoutError:
            res["outcome"] = "hang"
        except Exception as e:  # noqa: BLE001
            res["outcome"] = "exc:" + type(e).__name__
            res["msg"] = str(e)[:200]
        res["wall"] = round(time.time() - t0, 2)
        res["outputs"] = {}
        if res["outcome"] == "ok":
            for name, port in outs.items():
                toks = [t for t in port.token_list if not isinstance(t, TerminationToken)]
                res["outputs"][name] = [[t.tag, await _read(context, location, t)] for t in toks]
        res["statuses"] = {s.name: s.status.name for s in workflow.steps.values()}
        jobs = {}
        for sname, st in steps.items():
            for t in st.get_input_port("__job__").token_list:
                if isinstance(t, JobToken):
                    jobs.setdefault(t.value.name, sname)
        res["jobs"] = jobs
        fmgr = context.failure_manager
        res["versions"] = {n: r.version for n, r in getattr(fmgr, "_retry_requests", {}).items()}
        rows = {}
        async with context.database.connection as db:
            async with db.execute("SELECT e.id, e.step, e.status, t.value FROM execution e JOIN token t ON e.job_token = t.id") as cur:
                async for row in cur:
                    try:
                        import json as _json
                        v = _json.loads(row[3]) if isinstance(row[3], (str, bytes)) else row[3]
                        name = v["job"]["params"]["name"] if "params" in v.get("job", {}) else None
                    except Exception:  # noqa: BLE001
                        name = None
                    rows.setdefault(name, []).append(row[2])
        res["execution_rows"] = {str(k): v for k, v in rows.items()}
    except Exception as e:  # noqa: BLE001
        import traceback
        res["outcome"] = "harness-error"
        res["msg"] = f"{type(e).__name__}: {e}\n{traceback.format_exc()[-1500:]}"
    finally:
        try:
            await asyncio.wait_for(context.deployment_manager.undeploy_all(), 20)
            await asyncio.wait_for(context.close(), 20)
        except Exception:  # noqa: BLE001
            pass
    att: dict = {}
    for name, phase, _ in STATE["attempts"]:
        att[name] = att.get(name, 0) + 1
    res["attempts"] = att
    res["injected"] = STATE["injected"]
    res["dirs"] = STATE["dirs"]
    res["deleted"] = STATE["deleted"]
    res["avail"] = STATE["avail"]
    res["events"] = STATE["events"]
    res["timeline"] = STATE["timeline"]
    res["fm_events"] = STATE.get("fm_events", [])
    res["plan_left"] = [p for p in STATE["plan"] if p.get("count", 1) > 0]
    return res


def _run_loop(coro):
    """like asyncio.run, but the final "cancel everything and wait" is bounded: after a hang some tasks of the engine do not end when
    cancelled, and asyncio.run would wait for them forever (turning a detected hang into a worker time-out)"""
    loop = asyncio.new_event_loop()
    try:
        asyncio.set_event_loop(loop)
        return loop.run_until_complete(coro)
    finally:
        try:
            left = [t for t in asyncio.all_tasks(loop) if not t.done()]
            for t in left:
                t.cancel()
            if left:
                loop.run_until_complete(asyncio.wait(left, timeout=5))
            loop.run_until_complete(asyncio.wait_for(loop.shutdown_asyncgens(), 5))
        except BaseException:  # noqa: BLE001
            pass
        asyncio.set_event_loop(None)
        try:
            loop.close()
        except BaseException:  # noqa: BLE001
            pass


def run_case(case: dict) -> dict:
    """case = {shape: {...}, plan: [...], max_retries, manager, root, timeout}"""
    import streamflow.log_handler  # noqa: F401  (sets the level on import)
    logging.getLogger("streamflow").setLevel(logging.CRITICAL)
    logging.disable(logging.CRITICAL)
    _reset(case.get("plan", []))
    STATE["gates"] = [dict(g) for g in case.get("gates", [])]
    STATE["sync_order"] = case.get("sync_order")
    root = case.get("root") or tempfile.mkdtemp(prefix="sfv-recov-")
    case = dict(case, root=root)
    try:
        if case.get("lseed") is not None:
            from sfv.rt.loop import run_controlled
            try:
                return run_controlled(lambda: _run(case), case["lseed"], timeout=case.get("timeout", 180) + 60)
            except (TimeoutError, asyncio.TimeoutError):
                return {"outcome": "hang", "msg": "time-out of the controlled loop", "attempts": {}, "versions": {}, "injected": [], "events": [],
                        "timeline": [], "deleted": [], "dirs": [], "avail": [], "statuses": {}, "outputs": {}, "fm_events": [], "plan_left": []}
        return _run_loop(_run(case))
    finally:
        shutil.rmtree(root, ignore_errors=True)


def run_confirmed(ctx, fn, cases: list, timeout: float = 300, workers: int = 6, inner_default: float = 180, factor: int = 5,
                  is_hang=None, name=lambda c: str(c.get("name", c.get("idx", "?")))):
    """pmap over `fn`, with the rule that a WALL-CLOCK time-out is never a verdict by itself: a case whose worker gave no result in time
    (`status == "timeout"`) or whose own watchdog fired (`is_hang(result)`) is re-run ALONE, after the pool has drained, with `factor`
    times the bounds (`case["timeout"]` is the case's own watchdog). If it completes then, the new result is used and a note
    "slow under load" is recorded; if it hangs again the hang is reported (`confirmed: True`); if the remaining budget does not allow the
    confirmation the check is inconclusive (exit 2), never a violation."""
    from sfv.framework import Inconclusive
    from sfv.rt.par import pmap
    is_hang = is_hang or (lambda r: isinstance(r, dict) and r.get("outcome") == "hang")
    suspects = []
    for case, status, r in pmap(fn, cases, timeout=timeout, workers=workers):
        if status == "timeout" or (status == "ok" and is_hang(r)):
            suspects.append((case, status))
        else:
            yield case, status, r
    for case, status in suspects:
        inner = factor * float(case.get("timeout", inner_default))
        bound = inner + 240
        if ctx is not None and ctx.time_left() < bound:
            raise Inconclusive(f"case {name(case)} hit its {'worker' if status == 'timeout' else 'own'} time-out under load and the remaining "
                               f"budget ({ctx.time_left():.0f}s) does not allow the confirmation run ({bound:.0f}s)")
        t0 = time.time()
        (_, st2, r2), = list(pmap(fn, [dict(case, timeout=inner)], timeout=bound, workers=1))
        if st2 == "ok" and not is_hang(r2):
            if ctx is not None:
                ctx.count("slow-under-load")
                ctx.notes.append(f"slow under load: {name(case)} hit its time-out in the pool and completed in {time.time() - t0:.0f}s when re-run alone")
            yield case, st2, r2
        elif st2 == "timeout":
            yield case, "timeout", f"no result within {timeout}s in the pool and none within {bound:.0f}s when re-run alone (confirmed)"
        else:
            if isinstance(r2, dict):
                r2 = dict(r2, confirmed=True)
            yield case, st2, r2


def run_cases(cases: list, timeout: float = 300, workers: int = 6, ctx=None):
    """recovery cases through `run_confirmed`"""
    yield from run_confirmed(ctx, run_case, cases, timeout=timeout, workers=workers, inner_default=180)
