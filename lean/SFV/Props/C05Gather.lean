import SFV.Lemmas.NetGather
/-! # C05 (gather / scatter) — the gather node of the network model IS C01's operational gather machine

Property theorems only. The denotational nodes are `gatherOut` / `scatterOut` / `scatterSize` of
`SFV/Model/Net.lean`; the operational model is C01's state machine `Gather.run` of `SFV/Model/Gather.lean`
(`GatherStep.run`, guards regenerated from `streamflow/workflow/step.py`), whose any-arrival-order theorems
(`Gather.gather_groups`, `C01.gather_any_order`) are imported here instead of an abstract node equation.
Development: `SFV/Lemmas/NetGather.lean`.

An *arrival order* is any list `es` of machine events that is a permutation of the contents of the element port
(`elemEvents inp`) and of the size port (`sizeEvents size`): ANY interleaving of the two ports, ANY order on each port;
it is followed by the two termination tokens (either order, any status).

Hypothesis `GatherExact inp size d` (the known-size case, which is what a scatter upstream produces, see
`scatter_output_gatherExact`): tags distinct on each port, every element tag deeper than `d`, every size token
carries exactly the number of elements of its key, every element's key has a size token. The forced gathering of
incomplete keys at termination is C01's `gather_forced` and is not restated here. -/
namespace SFV.C05
open SFV.Net

/-! ## A. the two tag orders are the same order -/

/-- **`tagLe` = `compare_tags ≤ 0`.** The order the node model sorts by (length first, then numeric lexicographic)
is the translated `compare_tags` of C33 / C01. -/
theorem tagLe_iff_compareTags (a b : Tag) : tagLe a b = true ↔ compareTags a b ≤ 0 :=
  Net.tagLe_iff_compareTags a b

/-- strict version: between different tags `tagLe` is `compare_tags < 0` -/
theorem tagLe_strict_iff_compareTags (a b : Tag) : (tagLe a b = true ∧ a ≠ b) ↔ compareTags a b < 0 :=
  Net.tagLe_ne_iff_compareTags a b

/-- `0.9` before `0.10` (numeric), `1` before `0.0` (depth first), in both orders -/
example : tagLe [0, 9] [0, 10] = true ∧ compareTags [0, 9] [0, 10] < 0 ∧
    tagLe [1] [0, 0] = true ∧ compareTags [1] [0, 0] < 0 := by decide

/-- **The node's sort produces what the machine calls a strictly sorted group.** Sorting tokens with pairwise
distinct tags by `tagLe` gives a list strictly increasing for `compare_tags` — the hypothesis `hsorted` of C01's
`gather_groups`. -/
theorem netSort_strictSorted (l : List Tok) (hd : DistinctTags l) :
    Gather.StrictSorted ((l.mergeSort (fun a b => tagLe a.tag b.tag)).map toG) :=
  Net.netSort_strictSorted hd

/-! ## B. operational = denotational -/

/-- **The machine computes `gatherOut`, any arrival order.** C01's gather machine, fed with any interleaving of
the two input ports' contents and then the two termination tokens, puts on its output port exactly the list tokens
of the node's denotation `gatherOut` (up to the order between the list tokens, which is the only thing the
interleaving decides). -/
theorem gather_machine_eq_gatherOut (inp size : List Tok) (d : Nat) (h : GatherExact inp size d)
    (es : List (Gather.Ev Val)) (hperm : es.Perm (elemEvents inp ++ sizeEvents size))
    (pa pb : Gather.PortId) (hab : pa ≠ pb) (sa sb : Status) :
    ((Gather.run d (es ++ [.term pa sa, .term pb sb])).out.map ofGroup).Perm (gatherOut inp size d) :=
  machine_eq_gatherOut h es hperm pa pb hab sa sb

/-- the same for the gather node of the network model: the machine run on the logs of the node's two input ports
emits what `nodeOut` says -/
theorem gather_node_machine_eq_nodeOut (e : Env) (inp size out d : Nat) (h : GatherExact (e.get inp) (e.get size) d)
    (es : List (Gather.Ev Val)) (hperm : es.Perm (elemEvents (e.get inp) ++ sizeEvents (e.get size)))
    (pa pb : Gather.PortId) (hab : pa ≠ pb) (sa sb : Status) :
    ((Gather.run d (es ++ [.term pa sa, .term pb sb])).out.map ofGroup).Perm
      ((nodeOut e (.gather inp size out d))[0]?.getD []) :=
  machine_eq_gatherOut h es hperm pa pb hab sa sb

/-- after the list tokens the machine puts the termination token (status reduced over the two ports; `skipped`
handling by `getStatus` when nothing was gathered) -/
theorem gather_node_machine_terminates (inp size : List Tok) (d : Nat) (h : GatherExact inp size d)
    (es : List (Gather.Ev Val)) (hperm : es.Perm (elemEvents inp ++ sizeEvents size))
    (pa pb : Gather.PortId) (hab : pa ≠ pb) (sa sb : Status) :
    (Gather.run d (es ++ [.term pa sa, .term pb sb])).terminated =
      some (getStatus (reduce2 (reduce2 .skipped sa) sb) size.isEmpty) :=
  machine_terminated h es hperm pa pb hab sa sb

/-- non-vacuity: the concrete instance (two keys, arrival order ≠ tag order, index 10) satisfies the hypothesis -/
example : GatherExact exInp exSize 1 := exGatherExact

/-- the denotation of the instance, evaluated: numeric order `0.0, 0.2, 0.10` -/
example : gatherOut exInp exSize 1 = [⟨[0], .list [.int 5, .int 7, .int 9]⟩, ⟨[1], .list [.int 4]⟩] := by
  simp [gatherOut, exInp, exSize, gatherKey, dedup, List.mergeSort, tagLe, lexLe]

/-- the machine on one interleaving of the instance, evaluated step by step: key `1` completes first -/
example : (Gather.run 1 (exEvents ++ [.term .elem .completed, .term .size .completed])).out.map ofGroup =
    [⟨[1], .list [.int 4]⟩, ⟨[0], .list [.int 5, .int 7, .int 9]⟩] := by
  simp [Gather.run, Gather.step, exEvents, Gather.keyOf, Gen.gatherDrop, Gather.addKey, Gather.setKey,
    Gather.elemEmits, Gen.gatherElemEmitsNone, Gen.gatherElemEmitsSome, Gen.gatherSizeEmits, Gather.emit,
    Gather.sortToks, Gen.gatherCmp, compareTags, cmpComps, Gen.cmpLenTest, Gen.cmpLen, Gen.cmpElemTest, Gen.cmpElem,
    List.mergeSort, Gather.finish, Gen.gatherForce, Gather.forceLoop, ofGroup, reduce2]

/-- and through the theorem -/
example : ((Gather.run 1 (exEvents ++ [.term .elem .completed, .term .size .completed])).out.map ofGroup).Perm
    (gatherOut exInp exSize 1) :=
  gather_machine_eq_gatherOut exInp exSize 1 exGatherExact exEvents exEvents_perm .elem .size (by decide) _ _

/-! ## C. scatter, and the round trip -/

/-- **The scatter node is C01's `scatter`.** On a list token `(p, vs)` the node's element port holds the tokens of
`Gather.scatter p vs` (element `i` retagged `p.i`) and its size port the token `(p, length)`. -/
theorem scatter_node_matches_c01 (p : Tag) (vs : List Val) :
    scatterOut [⟨p, .list vs⟩] = (Gather.scatter p vs).1.map (fun t => ⟨t.tag, t.val⟩) ∧
    scatterSize [⟨p, .list vs⟩] = [⟨p, .int vs.length⟩] ∧
    (Gather.scatter p vs).2 = (p, vs.length) :=
  ⟨scatterOut_single p vs, scatterSize_single p vs, scatter_snd p vs⟩

/-- what a scatter node emits on its two ports is a known-size input of the (depth 1) gather node -/
theorem scatter_output_gatherExact (p : Tag) (hp : p ≠ []) (vs : List Val) :
    GatherExact (scatterOut [⟨p, .list vs⟩]) (scatterSize [⟨p, .list vs⟩]) 1 :=
  scatter_gatherExact p hp vs

/-- **Round trip through the machine.** Scatter a list token with the scatter node, feed the outputs of its two
ports in ANY arrival order to C01's gather machine: the machine emits the original list token (any length,
including 0 and ≥ 10; by C01's `gather_any_order`). -/
theorem scatter_gather_roundtrip_node (p : Tag) (vs : List Val) (es : List (Gather.Ev Val))
    (hperm : es.Perm (elemEvents (scatterOut [⟨p, .list vs⟩]) ++ sizeEvents (scatterSize [⟨p, .list vs⟩])))
    (pa pb : Gather.PortId) (hab : pa ≠ pb) (sa sb : Status) :
    (Gather.run 1 (es ++ [.term pa sa, .term pb sb])).out.map ofGroup = [⟨p, .list vs⟩] :=
  scatter_machine_roundtrip p vs es hperm pa pb hab sa sb

/-- the node-level round trip `gatherOut ∘ scatterOut = id`, obtained from the machine-level one and
`gather_machine_eq_gatherOut` -/
theorem gather_scatter_nodes_roundtrip (p : Tag) (hp : p ≠ []) (vs : List Val) :
    gatherOut (scatterOut [⟨p, .list vs⟩]) (scatterSize [⟨p, .list vs⟩]) 1 = [⟨p, .list vs⟩] :=
  gatherOut_scatterOut p hp vs

/-- a concrete scatter: indices are appended to the tag, the size token carries the length -/
example : scatterOut [⟨[0], .list [.int 5, .int 7]⟩] = [⟨[0, 0], .int 5⟩, ⟨[0, 1], .int 7⟩] ∧
    scatterSize [⟨[0], .list [.int 5, .int 7]⟩] = [⟨[0], .int 2⟩] := ⟨rfl, rfl⟩

end SFV.C05
