import SFV.Model.Sh
/-! Lemmas about `shlex.quote` and the sh lexer: quoting is read back verbatim in every unquoted context. -/
namespace SFV.Sh

/-! ### safe characters are plain for the lexer -/

theorem safe_ne (c : Char) (hc : isSafe c = true) (m : Char) (hm : isSafe m = false) : c ≠ m := by
  intro e; subst e; rw [hc] at hm; exact absurd hm (by decide)

theorem stepUnq_safe (st : LexSt) (c : Char) (hc : isSafe c = true) : stepUnq st c = st.push c := by
  have k := safe_ne c hc
  have h1 : c ≠ '\'' := k _ (by decide)
  have h2 : c ≠ '"' := k _ (by decide)
  have h3 : c ≠ '\\' := k _ (by decide)
  have h4 : c ≠ '$' := k _ (by decide)
  have h5 : c ≠ '`' := k _ (by decide)
  have h6 : c ≠ ' ' := k _ (by decide)
  have h7 : c ≠ '\t' := k _ (by decide)
  have h8 : c ≠ '\n' := k _ (by decide)
  have h9 : c ≠ '(' := k _ (by decide)
  have h10 : c ≠ ')' := k _ (by decide)
  have h11 : c ≠ '|' := k _ (by decide)
  have h12 : c ≠ '&' := k _ (by decide)
  have h13 : c ≠ ';' := k _ (by decide)
  have h14 : c ≠ '<' := k _ (by decide)
  have h15 : c ≠ '>' := k _ (by decide)
  have h16 : c ≠ '#' := k _ (by decide)
  have h17 : c ≠ '*' := k _ (by decide)
  have h18 : c ≠ '?' := k _ (by decide)
  have h19 : c ≠ '[' := k _ (by decide)
  have h20 : c ≠ '~' := k _ (by decide)
  have h21 : c ≠ '{' := k _ (by decide)
  have h22 : c ≠ '}' := k _ (by decide)
  have h23 : c ≠ '!' := k _ (by decide)
  simp [stepUnq, isBlank, isOpChar, isPattern, *]

theorem push_eq_pushLit (st : LexSt) (c : Char) : st.push c = st.pushLit [c] := by
  simp only [LexSt.push, LexSt.pushLit]

theorem pushLit_pushLit (st : LexSt) (a b : List Char) : (st.pushLit a).pushLit b = st.pushLit (a ++ b) := by
  cases h : st.cur <;> simp [LexSt.pushLit, h]

@[simp] theorem pushLit_mode (st : LexSt) (a : List Char) : (st.pushLit a).mode = st.mode := rfl
@[simp] theorem push_mode (st : LexSt) (c : Char) : (st.push c).mode = st.mode := rfl

theorem feed_safe_aux (s : List Char) (h : s.all isSafe = true) :
    ∀ (st : LexSt) (c : Char), st.mode = .unq → isSafe c = true → feed st (c :: s) = st.pushLit (c :: s) := by
  induction s with
  | nil =>
    intro st c hm hc
    simp only [feed, List.foldl_cons, List.foldl_nil, step, hm]
    rw [stepUnq_safe _ _ hc, push_eq_pushLit]
  | cons d s ih =>
    intro st c hm hc
    simp only [List.all_cons, Bool.and_eq_true] at h
    rw [feed_cons]
    have : step st c = st.pushLit [c] := by
      simp only [step, hm]; rw [stepUnq_safe _ _ hc, push_eq_pushLit]
    rw [this, ih h.2 _ d (by simp [hm]) h.1, pushLit_pushLit]
    rfl

/-- a non-empty string of safe characters, read in unquoted mode, is appended verbatim to the current word -/
theorem feed_safe (st : LexSt) (s : List Char) (hne : s ≠ []) (h : s.all isSafe = true) (hm : st.mode = .unq) :
    feed st s = st.pushLit s := by
  cases s with
  | nil => exact absurd rfl hne
  | cons c s =>
    simp only [List.all_cons, Bool.and_eq_true] at h
    exact feed_safe_aux s h.2 st c hm h.1

/-! ### the single-quote escape -/

/-- inside single quotes (a word is open), the escaped text is appended verbatim and the mode is unchanged -/
theorem feed_escSq (s : List Char) : ∀ (st : LexSt) (w : Word), st.mode = .sq → st.cur = some w →
    feed st (escSq s) = st.pushLit s := by
  induction s with
  | nil =>
    intro st w hm hc
    simp only [escSq, feed, List.foldl_nil, LexSt.pushLit, hc, List.append_nil]
    cases st; simp_all
  | cons c s ih =>
    intro st w hm hc
    by_cases h : c = '\''
    · subst h
      simp only [escSq, if_true]
      -- ' closes, " opens, ' is literal, " closes, ' reopens
      have e : feed st ['\'', '"', '\'', '"', '\''] = st.pushLit ['\''] := by
        simp [feed, step, stepUnq, stepDq, hm, hc, LexSt.quoteMark, LexSt.pushLit, LexSt.push]
      have : feed st ('\'' :: '"' :: '\'' :: '"' :: '\'' :: escSq s)
          = feed (feed st ['\'', '"', '\'', '"', '\'']) (escSq s) := by
        rw [← feed_append]; rfl
      rw [this, e, ih _ { w with cs := w.cs ++ ['\''] } (by simp [hm]) (by simp [LexSt.pushLit, hc]),
        pushLit_pushLit]
      rfl
    · simp only [escSq, h, if_false]
      rw [feed_cons]
      have : step st c = st.pushLit [c] := by
        simp only [step, hm, h, if_false]; exact push_eq_pushLit _ _
      rw [this, ih _ { w with cs := w.cs ++ [c] } (by simp [hm]) (by simp [LexSt.pushLit, hc]),
        pushLit_pushLit]
      rfl

/-- **`shlex.quote(s)` read in unquoted mode appends exactly `s` to the current word** — for every string, in
    every lexer state whose mode is unquoted (start of a word or in the middle of one) -/
theorem feed_shlexQuote (st : LexSt) (s : List Char) (hm : st.mode = .unq) :
    feed st (shlexQuote s) = st.pushLit s := by
  unfold shlexQuote
  split
  · rename_i h
    have : s = [] := by simpa using h
    subst this
    cases hc : st.cur <;>
      simp [feed, step, stepUnq, hm, LexSt.quoteMark, LexSt.pushLit, hc] <;>
      (cases st; simp_all)
  · rename_i hne
    split
    · rename_i hs
      exact feed_safe st s (by simpa using hne) hs hm
    · rw [feed_cons, feed_append]
      have h1 : step st '\'' = { st.quoteMark with mode := .sq } := by
        simp [step, stepUnq, hm]
      rw [h1]
      cases hc : st.cur with
      | none =>
        rw [feed_escSq s _ { cs := [] } rfl (by simp [LexSt.quoteMark, LexSt.pushLit, hc])]
        simp [feed, step, LexSt.quoteMark, LexSt.pushLit, hc]
        cases st; simp_all
      | some w =>
        rw [feed_escSq s _ w rfl (by simp [LexSt.quoteMark, LexSt.pushLit, hc])]
        simp [feed, step, LexSt.quoteMark, LexSt.pushLit, hc]
        cases st; simp_all

/-- the first character of `shlex.quote(s)` is a quote or a safe character -/
theorem shlexQuote_head (s : List Char) : ∃ c r, shlexQuote s = c :: r ∧ (c = '\'' ∨ isSafe c = true) := by
  unfold shlexQuote
  split
  · exact ⟨_, _, rfl, Or.inl rfl⟩
  · split
    · rename_i hne hs
      cases s with
      | nil => simp at hne
      | cons c r =>
        simp only [List.all_cons, Bool.and_eq_true] at hs
        exact ⟨c, r, rfl, Or.inr hs.1⟩
    · exact ⟨_, _, rfl, Or.inl rfl⟩

theorem not_op2_of_quote_or_safe (a c : Char) (h : c = '\'' ∨ isSafe c = true) : isOp2 a c = false := by
  have k : ∀ m : Char, (m = '\'' ∨ isSafe m = true) = False → c ≠ m := by
    intro m hm e; subst e; rw [hm] at h; exact h
  have h1 : c ≠ '&' := k _ (by decide)
  have h2 : c ≠ '|' := k _ (by decide)
  have h3 : c ≠ ';' := k _ (by decide)
  have h4 : c ≠ '>' := k _ (by decide)
  have h5 : c ≠ '<' := k _ (by decide)
  simp [isOp2, *]

/-- a text that starts with a quote or a safe character completes a pending operator first -/
theorem feed_closeOp (st : LexSt) (c : Char) (r : List Char) (h : c = '\'' ∨ isSafe c = true) :
    feed st (c :: r) = feed st.closeOp (c :: r) := by
  unfold LexSt.closeOp
  split
  · rename_i a hm
    rw [feed_cons, feed_cons]
    congr 1
    simp [step, hm, not_op2_of_quote_or_safe a c h]
  · rfl

theorem closeOp_mode (st : LexSt) (h : st.mode = .unq ∨ ∃ a, st.mode = .opc a) : st.closeOp.mode = .unq := by
  unfold LexSt.closeOp
  rcases h with h | ⟨a, h⟩ <;> simp [h]

/-- `shlex.quote(s)` read in unquoted mode or right after an operator character: `s` is inserted verbatim -/
theorem feed_shlexQuote_insert (st : LexSt) (s : List Char) (hm : st.mode = .unq ∨ ∃ a, st.mode = .opc a) :
    feed st (shlexQuote s) = st.insert s := by
  obtain ⟨c, r, e, hc⟩ := shlexQuote_head s
  rw [e, feed_closeOp st c r hc, ← e, feed_shlexQuote _ _ (closeOp_mode st hm)]
  rfl

theorem feed_safe_insert (st : LexSt) (s : List Char) (hne : s ≠ []) (h : s.all isSafe = true)
    (hm : st.mode = .unq ∨ ∃ a, st.mode = .opc a) : feed st s = st.insert s := by
  cases s with
  | nil => exact absurd rfl hne
  | cons c r =>
    have hc : isSafe c = true := by simp only [List.all_cons, Bool.and_eq_true] at h; exact h.1
    rw [feed_closeOp st c r (Or.inr hc), feed_safe _ _ hne h (closeOp_mode st hm)]
    rfl

/-- `shlex.quote(s)` alone is the single word `s`, nothing interpreted -/
theorem lexLine_shlexQuote (s : List Char) : lexLine (shlexQuote s) = .ok [.word { cs := s }] := by
  unfold lexLine
  rw [feed_shlexQuote init s rfl]
  simp [finish, init, LexSt.pushLit, LexSt.flush]

/-! ### shapes: the part of the lexer state that decides how the next character is read -/

/-- mode and "no word is open": their evolution does not depend on the text of the words -/
structure Shape where
  mode : Mode
  noWord : Bool
deriving DecidableEq, Repr

def shape (st : LexSt) : Shape := ⟨st.mode, st.cur.isNone⟩

def shapeUnq (noWord : Bool) (c : Char) : Shape :=
  if c = '\'' then ⟨.sq, false⟩
  else if c = '"' then ⟨.dq, false⟩
  else if c = '\\' then ⟨.bsU, noWord⟩
  else if c = '$' then ⟨.dolU, noWord⟩
  else if c = '`' then ⟨.unq, noWord⟩
  else if isBlank c then ⟨.unq, true⟩
  else if c = '\n' then ⟨.unq, true⟩
  else if c = '(' || c = ')' then ⟨.unq, true⟩
  else if isOpChar c then ⟨.opc c, true⟩
  else if c = '#' && noWord then ⟨.cmt, noWord⟩
  else ⟨.unq, false⟩

def shapeDq (noWord : Bool) (c : Char) : Shape :=
  if c = '"' then ⟨.unq, noWord⟩
  else if c = '\\' then ⟨.bsD, noWord⟩
  else if c = '$' then ⟨.dolD, noWord⟩
  else if c = '`' then ⟨.dq, noWord⟩
  else ⟨.dq, false⟩

def shapeStep (s : Shape) (c : Char) : Shape :=
  match s.mode with
  | .unq => shapeUnq s.noWord c
  | .sq => if c = '\'' then ⟨.unq, s.noWord⟩ else ⟨.sq, false⟩
  | .dq => shapeDq s.noWord c
  | .bsU => if c = '\n' then ⟨.unq, s.noWord⟩ else ⟨.unq, false⟩
  | .bsD => if c = '\n' then ⟨.dq, s.noWord⟩ else ⟨.dq, false⟩
  | .dolU =>
      if c = '(' || c = '{' then ⟨.unq, s.noWord⟩
      else if isParamStart c then ⟨.unq, false⟩
      else shapeUnq false c
  | .dolD =>
      if c = '(' || c = '{' then ⟨.dq, s.noWord⟩
      else if isParamStart c then ⟨.dq, false⟩
      else shapeDq false c
  | .opc a => if isOp2 a c then ⟨.unq, s.noWord⟩ else shapeUnq s.noWord c
  | .cmt => if c = '\n' then ⟨.unq, s.noWord⟩ else ⟨.cmt, s.noWord⟩

theorem shape_stepUnq (st : LexSt) (c : Char) (hm : st.mode = .unq) :
    shape (stepUnq st c) = shapeUnq st.cur.isNone c := by
  unfold stepUnq shapeUnq
  simp only [apply_ite shape]
  cases hc : st.cur <;>
    simp [shape, LexSt.quoteMark, LexSt.pushLit, LexSt.flush, LexSt.emit, LexSt.push, LexSt.markExp, hc, hm]

theorem shape_stepDq (st : LexSt) (c : Char) (hm : st.mode = .dq) :
    shape (stepDq st c) = shapeDq st.cur.isNone c := by
  unfold stepDq shapeDq
  simp only [apply_ite shape]
  cases hc : st.cur <;> simp [shape, LexSt.push, hc, hm]

theorem shape_step (st : LexSt) (c : Char) : shape (step st c) = shapeStep (shape st) c := by
  unfold step shapeStep
  cases hm : st.mode with
  | unq => simp only [shape, hm]; exact shape_stepUnq st c hm
  | dq => simp only [shape, hm]; exact shape_stepDq st c hm
  | dolU =>
    simp only [shape, hm]
    split
    · simp
    · split
      · cases hc : st.cur <;> simp [LexSt.push, LexSt.markExp, hc]
      · have := shape_stepUnq { (st.push '$') with mode := .unq } c rfl
        simpa [shape, LexSt.push] using this
  | dolD =>
    simp only [shape, hm]
    split
    · simp
    · split
      · cases hc : st.cur <;> simp [LexSt.push, LexSt.markExp, hc]
      · have := shape_stepDq { (st.push '$') with mode := .dq } c rfl
        simpa [shape, LexSt.push] using this
  | opc a =>
    simp only [shape, hm]
    split
    · simp [LexSt.emit]
    · have := shape_stepUnq { (st.emit (.op [a])) with mode := .unq } c rfl
      simpa [shape, LexSt.emit] using this
  | sq | bsU | bsD | cmt =>
    simp only [shape, hm]
    cases hc : st.cur <;> (repeat' split) <;> simp_all [LexSt.push, LexSt.pushLit, LexSt.emit]

def shapeFeed (s : Shape) (cs : List Char) : Shape := cs.foldl shapeStep s

theorem shape_feed (st : LexSt) (cs : List Char) : shape (feed st cs) = shapeFeed (shape st) cs := by
  induction cs generalizing st with
  | nil => rfl
  | cons c cs ih => rw [feed_cons, ih, shape_step]; rfl

theorem shape_pushLit (st : LexSt) (s : List Char) : shape (st.pushLit s) = ⟨st.mode, false⟩ := by
  simp [shape, LexSt.pushLit]

/-- mode in which an argument may be inserted: unquoted, or right after an operator character -/
def Mode.wordStart : Mode → Bool
  | .unq => true
  | .opc _ => true
  | _ => false

def Mode.closeOp : Mode → Mode
  | .opc _ => .unq
  | m => m

theorem wordStart_iff (m : Mode) : m.wordStart = true ↔ (m = .unq ∨ ∃ a, m = .opc a) := by
  cases m <;> simp [Mode.wordStart]

theorem shape_insert (st : LexSt) (s : List Char) : shape (st.insert s) = ⟨st.mode.closeOp, false⟩ := by
  unfold LexSt.insert
  rw [shape_pushLit]
  unfold LexSt.closeOp Mode.closeOp
  cases hm : st.mode <;> simp [hm]

/-- every `shlex.quote`d argument of the template is met in unquoted mode (decidable on the template alone) -/
def placed : Shape → Template → Bool
  | _, [] => true
  | s, .lit l :: t => placed (shapeFeed s l) t
  | s, .shq _ :: t => s.mode.wordStart && placed ⟨s.mode.closeOp, false⟩ t
  | s, .raw _ :: t => placed ⟨s.mode.closeOp, false⟩ t
  | s, .dq _ :: t => placed ⟨s.mode.closeOp, false⟩ t
  | s, .safe _ :: t => s.mode.wordStart && placed ⟨s.mode.closeOp, false⟩ t

/-- **Templates whose arguments all go through `shlex.quote` are verbatim**: for every argument list the
    rendered text is read by the shell exactly as the template with the argument values inserted verbatim. -/
theorem feed_render_quoted (t : Template) : ∀ (st : LexSt) (args : List (List Char)),
    allShQuoted t = true → placed (shape st) t = true → safeArgsOk t args = true →
    feed st (render t args) = specFeed st args t := by
  induction t with
  | nil => intro st args _ _ _; rfl
  | cons p t ih =>
    intro st args hq hp hs
    simp only [safeArgsOk, List.all_cons, Bool.and_eq_true] at hs
    have hs' : safeArgsOk t args = true := hs.2
    simp only [allShQuoted, List.all_cons, Bool.and_eq_true] at hq
    have hq' : allShQuoted t = true := hq.2
    have hr : render (p :: t) args = renderPiece args p ++ render t args := by simp [render]
    rw [hr, feed_append]
    cases p with
    | lit l =>
      simp only [renderPiece, specFeed]
      exact ih _ args hq' (by simpa [placed, shape_feed] using hp) hs'
    | shq i =>
      simp only [placed, Bool.and_eq_true] at hp
      have hm := (wordStart_iff _).mp hp.1
      simp only [renderPiece, specFeed]
      rw [feed_shlexQuote_insert st _ hm]
      exact ih _ args hq' (by rw [shape_insert]; exact hp.2) hs'
    | safe i =>
      simp only [placed, Bool.and_eq_true] at hp
      have hm := (wordStart_iff _).mp hp.1
      simp only [renderPiece, specFeed]
      have h1 := hs.1
      simp only [Bool.and_eq_true, Bool.not_eq_true', List.isEmpty_eq_false_iff] at h1
      rw [feed_safe_insert st _ h1.1 h1.2 hm]
      exact ih _ args hq' (by rw [shape_insert]; exact hp.2) hs'
    | raw i => simp [Piece.isShQuoted] at hq
    | dq i => simp [Piece.isShQuoted] at hq

end SFV.Sh
