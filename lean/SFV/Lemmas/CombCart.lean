import SFV.Lemmas.CombSim
/-! Cartesian product: algebra of `cartConfigs` (the `itertools.product` of the cell) up to permutation. -/
namespace SFV.Comb
open SFV

abbrev Cfg := List (Nat × Elem)

/-! ### list algebra up to `Perm` -/

theorem flatMap_perm_pointwise {α β : Type} {f g : α → List β} {l : List α} (h : ∀ a ∈ l, (f a).Perm (g a)) :
    (l.flatMap f).Perm (l.flatMap g) := by
  induction l with
  | nil => exact List.Perm.refl _
  | cons a l ih =>
    simp only [List.flatMap_cons]
    exact (h a (by simp)).append (ih (fun b hb => h b (List.mem_cons_of_mem _ hb)))

theorem flatMap_append_perm' {α β : Type} (l : List α) (f g : α → List β) :
    (l.flatMap (fun x => f x ++ g x)).Perm (l.flatMap f ++ l.flatMap g) := by
  induction l with
  | nil => exact List.Perm.refl _
  | cons a l ih =>
    simp only [List.flatMap_cons, List.append_assoc]
    refine (List.perm_append_left_iff _).mpr ?_
    refine ((List.perm_append_left_iff _).mpr ih).trans ?_
    exact List.perm_append_comm_assoc _ _ _

theorem flatMap_comm_perm {α β γ : Type} (l : List α) (m : List β) (g : α → β → List γ) :
    (l.flatMap (fun a => m.flatMap (g a))).Perm (m.flatMap (fun b => l.flatMap (fun a => g a b))) := by
  induction l with
  | nil => simp
  | cons a l ih =>
    simp only [List.flatMap_cons]
    refine (List.Perm.append (List.Perm.refl _) ih).trans ?_
    exact (flatMap_append_perm' m (g a) (fun b => l.flatMap (fun a => g a b))).symm

/-! ### rendered configurations -/

/-- the configurations of a cell, rendered by `F` (configurations `F` rejects are dropped) -/
def rcfgs {β : Type} (F : Cfg → Option β) (l : List (Nat × List Elem)) : List β := (cartConfigs l).filterMap F

theorem rcfgs_cons {β : Type} (F : Cfg → Option β) (k : Nat) (vs : List Elem) (l : List (Nat × List Elem)) :
    rcfgs F ((k, vs) :: l) = vs.flatMap (fun v => rcfgs (fun cfg => F ((k, v) :: cfg)) l) := by
  simp only [rcfgs, cartConfigs, List.filterMap_flatMap, List.filterMap_map, Function.comp_def]

/-- renderers that do not look at the order of a configuration -/
def PInv {β : Type} (F : Cfg → Option β) : Prop := ∀ a b : Cfg, a.Perm b → F a = F b

theorem PInv.cons {β : Type} {F : Cfg → Option β} (h : PInv F) (x : Nat × Elem) :
    PInv (fun cfg => F (x :: cfg)) := fun a b hab => h _ _ (hab.cons x)

/-- the order of the deques in the cell (dict order) does not matter for the multiset of rendered configurations -/
theorem rcfgs_perm {β : Type} {l l' : List (Nat × List Elem)} (hp : l.Perm l') :
    ∀ (F : Cfg → Option β), PInv F → (rcfgs F l).Perm (rcfgs F l') := by
  induction hp with
  | nil => intro F _; exact List.Perm.refl _
  | cons x _ ih =>
    intro F hF
    obtain ⟨k, vs⟩ := x
    rw [rcfgs_cons, rcfgs_cons]
    exact flatMap_perm_pointwise (fun v _ => ih _ (hF.cons (k, v)))
  | swap x y l =>
    intro F hF
    obtain ⟨kx, vx⟩ := x
    obtain ⟨ky, vy⟩ := y
    simp only [rcfgs_cons]
    have : ∀ a b, rcfgs (fun cfg => F ((kx, a) :: (ky, b) :: cfg)) l
        = rcfgs (fun cfg => F ((ky, b) :: (kx, a) :: cfg)) l := by
      intro a b
      have : (fun cfg => F ((kx, a) :: (ky, b) :: cfg)) = (fun cfg => F ((ky, b) :: (kx, a) :: cfg)) := by
        funext cfg
        exact hF _ _ (List.Perm.swap _ _ _)
      rw [this]
    simp only [this]
    exact flatMap_comm_perm vy vx (fun b a => rcfgs (fun cfg => F ((ky, b) :: (kx, a) :: cfg)) l)
  | trans _ _ ih1 ih2 => intro F hF; exact (ih1 F hF).trans (ih2 F hF)

/-- nor does the order inside a deque -/
theorem rcfgs_factor_perm {β : Type} (l : List (Nat × List Elem)) (g : Nat → List Elem)
    (h : ∀ x ∈ l, x.2.Perm (g x.1)) :
    ∀ (F : Cfg → Option β), (rcfgs F l).Perm (rcfgs F (l.map (fun x => (x.1, g x.1)))) := by
  induction l with
  | nil => intro F; exact List.Perm.refl _
  | cons x r ih =>
    intro F
    obtain ⟨k, vs⟩ := x
    simp only [List.map_cons]
    rw [rcfgs_cons, rcfgs_cons]
    have hv : vs.Perm (g k) := h (k, vs) (by simp)
    exact (hv.flatMap_right _).trans
      (flatMap_perm_pointwise (fun v _ => ih (fun y hy => h y (List.mem_cons_of_mem _ hy)) _))

/-- `[token] if k == port_name else v` leaves a cell without that port alone -/
theorem cartArgs_of_not_mem {c : Cell} {p : Nat} (h : p ∉ ckeys c) (e : Elem) : cartArgs c p e = c := by
  unfold cartArgs
  induction c with
  | nil => rfl
  | cons x r ih =>
    simp only [ckeys, List.map_cons, List.mem_cons, not_or] at h
    simp only [List.map_cons]
    rw [if_neg (fun e => h.1 e.symm)]
    congr 1
    exact ih h.2

/-- **one arrival on a port that already has a deque**: the configurations of the new cell are those of the
    old cell plus those through the new element -/
theorem rcfgs_addToPort_mem {β : Type} {c : Cell} (hnd : (ckeys c).Nodup) {p : Nat} (hp : p ∈ ckeys c)
    (e : Elem) : ∀ (F : Cfg → Option β),
    (rcfgs F (addToPort c p e)).Perm (rcfgs F c ++ rcfgs F (cartArgs (addToPort c p e) p e)) := by
  induction c with
  | nil => simp [ckeys] at hp
  | cons x r ih =>
    intro F
    obtain ⟨q, d⟩ := x
    simp only [ckeys, List.map_cons, List.nodup_cons] at hnd
    simp only [addToPort]
    by_cases hq : q = p
    · subst hq
      have hr : cartArgs r q e = r := cartArgs_of_not_mem hnd.1 e
      have : cartArgs ((q, d ++ [e]) :: r) q e = (q, [e]) :: r := by
        simp only [cartArgs, List.map_cons, if_true] at hr ⊢
        rw [hr]
      simp only [if_true, this, rcfgs_cons, List.flatMap_append]
      exact List.Perm.refl _
    · have hp' : p ∈ ckeys r := by
        simp only [ckeys, List.map_cons, List.mem_cons] at hp
        rcases hp with h | h
        · exact absurd h.symm hq
        · exact h
      have : cartArgs ((q, d) :: addToPort r p e) p e = (q, d) :: cartArgs (addToPort r p e) p e := by
        simp only [cartArgs, List.map_cons, hq, if_false]
      simp only [hq, if_false, this, rcfgs_cons]
      refine (flatMap_perm_pointwise (fun v _ => ih hnd.2 hp' _)).trans ?_
      exact flatMap_append_perm' d _ _

theorem addToPort_of_not_mem {c : Cell} {p : Nat} (h : p ∉ ckeys c) (e : Elem) :
    addToPort c p e = c ++ [(p, [e])] := by
  induction c with
  | nil => rfl
  | cons x r ih =>
    obtain ⟨q, d⟩ := x
    simp only [ckeys, List.map_cons, List.mem_cons, not_or] at h
    simp only [addToPort]
    rw [if_neg (fun e => h.1 e.symm), ih h.2]
    rfl

theorem keys_of_mem_cartConfigs {l : List (Nat × List Elem)} {cfg : Cfg} (h : cfg ∈ cartConfigs l) :
    cfg.map (·.1) = l.map (·.1) := by
  induction l generalizing cfg with
  | nil => simp [cartConfigs] at h; subst h; rfl
  | cons x r ih =>
    obtain ⟨k, vs⟩ := x
    simp only [cartConfigs, List.mem_flatMap, List.mem_map] at h
    obtain ⟨v, _, cfg', hc', rfl⟩ := h
    simp [ih hc']

theorem elems_of_mem_cartConfigs {l : List (Nat × List Elem)} {cfg : Cfg} (h : cfg ∈ cartConfigs l) :
    ∀ y ∈ cfg, ∃ x ∈ l, x.1 = y.1 ∧ y.2 ∈ x.2 := by
  induction l generalizing cfg with
  | nil => simp [cartConfigs] at h; subst h; simp
  | cons x r ih =>
    obtain ⟨k, vs⟩ := x
    simp only [cartConfigs, List.mem_flatMap, List.mem_map] at h
    obtain ⟨v, hv, cfg', hc', rfl⟩ := h
    intro y hy
    rcases List.mem_cons.mp hy with rfl | hy
    · exact ⟨(k, vs), by simp, rfl, hv⟩
    · obtain ⟨x, hx, h1, h2⟩ := ih hc' y hy
      exact ⟨x, List.mem_cons_of_mem _ hx, h1, h2⟩

/-! ### the loop-faithful `combine` of the cartesian product -/

theorem isParentTag_same_len {k tag : Tag} (hl : k.length = tag.length) (hne : tag ≠ k) :
    isParentTag k tag = false := by
  unfold isParentTag
  by_cases ht : tag = []
  · subst ht
    have : k = [] := List.eq_nil_of_length_eq_zero (by simpa using hl)
    exact absurd this.symm hne
  · simp only [ht, if_false, Gen.isParentComps]
    rw [← hl, List.take_length]
    simpa using fun e => hne e.symm

theorem addLoop_same_len (ap : Cell → Nat → Elem → Cell) (tag : Tag) (item : Nat) (e : Elem) :
    ∀ (ks : List Tag) (tv : TV), (∀ k ∈ ks, k.length = tag.length) → addLoop ap tag item e ks tv = tv := by
  intro ks
  induction ks with
  | nil => intro tv _; rfl
  | cons k ks ih =>
    intro tv h
    simp only [addLoop]
    by_cases hk : tag = k
    · subst hk
      simp only [if_true]
      exact ih tv (fun k' hk' => h k' (List.mem_cons_of_mem _ hk'))
    · have h1 := isParentTag_same_len (h k (by simp)) hk
      have h2 := isParentTag_same_len (h k (by simp)).symm (fun e => hk e.symm)
      simp only [hk, if_false, h1, h2, Bool.false_eq_true]
      exact ih tv (fun k' hk' => h k' (List.mem_cons_of_mem _ hk'))

theorem addToPortDedup_eq (c : Cell) (p : Nat) (e : Elem) (h : ∀ t ∈ cget c p, t.tag ≠ e.tag) :
    addToPortDedup c p e = addToPort c p e := by
  induction c with
  | nil => rfl
  | cons x r ih =>
    obtain ⟨q, d⟩ := x
    simp only [addToPortDedup, addToPort]
    by_cases hq : q = p
    · subst hq
      have hd : d.any (fun t => decide (t.tag = e.tag)) = false := by
        rw [List.any_eq_false]
        intro t ht
        have := h t (by rw [cget_cons, if_pos rfl]; exact ht)
        simpa using this
      simp [hd]
    · simp only [hq, if_false]
      rw [ih (fun t ht => h t (by rw [cget_cons, if_neg (fun e => hq e.symm)]; exact ht))]

theorem tvUpd_congr {f g : Cell → Cell} (tv : TV) (k : Tag) (h : f (tcell tv k) = g (tcell tv k)) :
    tvUpd f tv k = tvUpd g tv k := by
  induction tv with
  | nil => simpa [tvUpd, tcell] using h
  | cons x r ih =>
    obtain ⟨k', c⟩ := x
    simp only [tvUpd]
    by_cases hk : k' = k
    · subst hk
      simp only [if_true]
      have : tcell ((k', c) :: r) k' = c := by simp [tcell, List.lookup]
      rw [this] at h
      rw [h]
    · simp only [hk, if_false]
      have hb : (k == k') = false := by simpa using (fun e => hk e.symm)
      have : tcell ((k', c) :: r) k = tcell r k := by simp [tcell, List.lookup, hb]
      rw [this] at h
      rw [ih h]

theorem mapM_isSome {α β : Type} (f : α → Option β) (l : List α) (h : ∀ a ∈ l, (f a).isSome) :
    (l.mapM f).isSome := by
  induction l with
  | nil => simp
  | cons a l ih =>
    rw [List.mapM_cons]
    have h1 := h a (by simp)
    have h2 := ih (fun b hb => h b (List.mem_cons_of_mem _ hb))
    cases hf : f a with
    | none => rw [hf] at h1; cases h1
    | some b =>
      cases hm : l.mapM f with
      | none => rw [hm] at h2; cases h2
      | some bs => simp

theorem mapM_none_of_mem {α β : Type} (f : α → Option β) (l : List α) {a : α} (ha : a ∈ l) (h : f a = none) :
    l.mapM f = none := by
  induction l with
  | nil => cases ha
  | cons b l ih =>
    rw [List.mapM_cons]
    rcases List.mem_cons.mp ha with rfl | ha'
    · simp [h]
    · cases hf : f b with
      | none => simp
      | some c => simp [ih ha']

theorem lookup_none_of_not_mem {β : Type} {l : List (Nat × β)} {k : Nat} (h : k ∉ l.map (·.1)) :
    l.lookup k = none := by
  induction l with
  | nil => rfl
  | cons x r ih =>
    obtain ⟨q, v⟩ := x
    simp only [List.map_cons, List.mem_cons, not_or] at h
    have hb : (k == q) = false := by simpa using h.1
    simp only [List.lookup, hb]
    exact ih h.2

theorem lookup_some_of_mem {β : Type} {l : List (Nat × β)} {k : Nat} (h : k ∈ l.map (·.1)) :
    ∃ v, l.lookup k = some v ∧ (k, v) ∈ l := by
  induction l with
  | nil => simp at h
  | cons x r ih =>
    obtain ⟨q, v⟩ := x
    by_cases hk : k = q
    · subst hk; exact ⟨v, by simp [List.lookup], by simp⟩
    · have hb : (k == q) = false := by simpa using hk
      simp only [List.map_cons, List.mem_cons, hk, false_or] at h
      obtain ⟨w, h1, h2⟩ := ih h
      exact ⟨w, by simp [List.lookup, hb, h1], List.mem_cons_of_mem _ h2⟩

/-- a configuration lacking one of the items renders to nothing -/
theorem cartSchema_none_of_missing {items : List Nat} {cfg : Cfg} {q : Nat} (hq : q ∈ items)
    (h : q ∉ cfg.map (·.1)) : cartSchema items cfg = none := by
  unfold cartSchema
  apply mapM_none_of_mem _ _ hq
  rw [lookup_none_of_not_mem h]
  rfl

theorem rcfgs_nil_of_missing {items : List Nat} {l : List (Nat × List Elem)} {q : Nat} (hq : q ∈ items)
    (h : q ∉ l.map (·.1)) : rcfgs (cartSchema items) l = [] := by
  unfold rcfgs
  apply List.filterMap_eq_nil_iff.mpr
  intro cfg hcfg
  exact cartSchema_none_of_missing hq (by rw [keys_of_mem_cartConfigs hcfg]; exact h)

theorem cartEmits_ok (items : List Nat) : ∀ (cfgs : List Cfg) (out : List Emit),
    (∀ cfg ∈ cfgs, (cartSchema items cfg).isSome) →
    cartEmits items cfgs out = ⟨[], out ++ (cfgs.filterMap (cartSchema items)).map cartEmit, none⟩ := by
  intro cfgs
  induction cfgs with
  | nil => intro out _; simp [cartEmits]
  | cons cfg r ih =>
    intro out h
    have h1 := h cfg (by simp)
    cases hs : cartSchema items cfg with
    | none => rw [hs] at h1; cases h1
    | some s =>
      simp only [cartEmits, hs, List.filterMap_cons]
      rw [ih _ (fun c hc => h c (List.mem_cons_of_mem _ hc))]
      simp

/-- every element of every deque is a token sitting on its own port -/
def FlatTV (tv : TV) : Prop := ∀ x ∈ tv, ∀ y ∈ x.2, ∀ el ∈ y.2, ∃ t, el = Elem.ofTok y.1 t

def FlatCell (c : Cell) : Prop := ∀ y ∈ c, ∀ el ∈ y.2, ∃ t, el = Elem.ofTok y.1 t

theorem flat_tcell {P : Nat} {tv : TV} (hv : Valid P tv) (hf : FlatTV tv) (κ : Tag) : FlatCell (tcell tv κ) := by
  unfold tcell
  cases hl : tv.lookup κ with
  | none => intro y hy; cases hy
  | some c => exact hf (κ, c) ((mem_tv_iff hv.1).mpr hl)

theorem flat_addToPort {c : Cell} (h : FlatCell c) (p : Nat) (t : Tok) : FlatCell (addToPort c p (Elem.ofTok p t)) := by
  induction c with
  | nil =>
    intro y hy el hel
    simp only [addToPort, List.mem_singleton] at hy
    subst hy
    simp only [List.mem_singleton] at hel
    exact ⟨t, hel⟩
  | cons x r ih =>
    obtain ⟨q, d⟩ := x
    simp only [addToPort]
    by_cases hq : q = p
    · subst hq
      simp only [if_true]
      intro y hy el hel
      rcases List.mem_cons.mp hy with rfl | hy
      · rcases List.mem_append.mp hel with h1 | h1
        · exact h (q, d) (by simp) el h1
        · simp only [List.mem_singleton] at h1; exact ⟨t, h1⟩
      · exact h y (List.mem_cons_of_mem _ hy) el hel
    · simp only [hq, if_false]
      intro y hy el hel
      rcases List.mem_cons.mp hy with rfl | hy
      · exact h (q, d) (by simp) el hel
      · exact ih (fun z hz => h z (List.mem_cons_of_mem _ hz)) y hy el hel

theorem flat_cartArgs {c : Cell} (h : FlatCell c) (p : Nat) (t : Tok) : FlatCell (cartArgs c p (Elem.ofTok p t)) := by
  intro y hy el hel
  simp only [cartArgs, List.mem_map] at hy
  obtain ⟨x, hx, rfl⟩ := hy
  by_cases hxp : x.1 = p
  · simp only [hxp, if_true, List.mem_singleton] at hel ⊢
    exact ⟨t, hel⟩
  · simp only [hxp, if_false] at hel ⊢
    exact h x hx el hel

theorem ckeys_cartArgs (c : Cell) (p : Nat) (e : Elem) : ckeys (cartArgs c p e) = ckeys c := by
  simp only [ckeys, cartArgs, List.map_map]
  apply List.map_congr_left
  intro x _
  simp only [Function.comp]
  split <;> rfl

/-- with every item present and flat elements, every configuration renders -/
theorem cartSchema_isSome {P : Nat} {l : List (Nat × List Elem)} (hfl : FlatCell l)
    (hall : ∀ q, q < P → q ∈ l.map (·.1)) {cfg : Cfg} (hcfg : cfg ∈ cartConfigs l) :
    (cartSchema (List.range P) cfg).isSome := by
  unfold cartSchema
  apply mapM_isSome
  intro k hk
  have hk' : k ∈ cfg.map (·.1) := by
    rw [keys_of_mem_cartConfigs hcfg]; exact hall k (List.mem_range.mp hk)
  obtain ⟨v, h1, h2⟩ := lookup_some_of_mem hk'
  obtain ⟨x, hx, hx1, hx2⟩ := elems_of_mem_cartConfigs hcfg (k, v) h2
  obtain ⟨t, ht⟩ := hfl x hx v hx2
  rw [h1, ht]
  rfl

/-- **`CartesianProductCombinator.combine`** on a state whose keys all have the length of the new key, whose
    port does not yet hold the new tag: no propagation, no de-duplication; the emitted schemas are the
    configurations through the new token -/
theorem cartAdd_spec {P depth : Nat} {tv : TV} (hv : Valid P tv) (hfl : FlatTV tv) (p : Nat) (hp : p < P)
    (t : Tok) (hkl : ∀ κ ∈ tkeys tv, κ.length = (cartKey depth t.tag).length)
    (hnew : ∀ x ∈ sem tv (cartKey depth t.tag) p, x.tag ≠ t.tag) :
    cartAdd depth (List.range P) tv p (Elem.ofTok p t) =
      ⟨tvUpd (fun c => addToPort c p (Elem.ofTok p t)) tv (cartKey depth t.tag),
       (rcfgs (cartSchema (List.range P))
          (cartArgs (addToPort (tcell tv (cartKey depth t.tag)) p (Elem.ofTok p t)) p (Elem.ofTok p t))).map cartEmit,
       none⟩ := by
  have htag : (Elem.ofTok p t).tag = t.tag := rfl
  unfold cartAdd
  simp only [htag]
  have hlist : addToList addToPortDedup tv (cartKey depth t.tag) p (Elem.ofTok p t) =
      tvUpd (fun c => addToPort c p (Elem.ofTok p t)) tv (cartKey depth t.tag) := by
    have h0 : addToList addToPortDedup tv (cartKey depth t.tag) p (Elem.ofTok p t) =
        tvUpd (fun c => addToPortDedup c p (Elem.ofTok p t))
          (addLoop addToPortDedup (cartKey depth t.tag) p (Elem.ofTok p t) (tkeys tv) tv) (cartKey depth t.tag) := rfl
    rw [h0, addLoop_same_len _ _ _ _ _ _ hkl]
    apply tvUpd_congr
    exact addToPortDedup_eq _ _ _ hnew
  rw [hlist]
  have hget : tvGet (tvUpd (fun c => addToPort c p (Elem.ofTok p t)) tv (cartKey depth t.tag)) (cartKey depth t.tag)
      = some (addToPort (tcell tv (cartKey depth t.tag)) p (Elem.ofTok p t)) := by
    unfold tvGet; rw [lookup_tvUpd, if_pos rfl]
  simp only [hget, Gen.cartEmitGuard, beq_iff_eq, Int.natCast_inj, List.length_range]
  have hcok : CellOK P (addToPort (tcell tv (cartKey depth t.tag)) p (Elem.ofTok p t)) :=
    cellOK_addToPort (valid_tcell hv _) hp _
  have hflc : FlatCell (cartArgs (addToPort (tcell tv (cartKey depth t.tag)) p (Elem.ofTok p t)) p (Elem.ofTok p t)) :=
    flat_cartArgs (flat_addToPort (flat_tcell hv hfl _) p t) p t
  generalize addToPort (tcell tv (cartKey depth t.tag)) p (Elem.ofTok p t) = c at hcok hflc ⊢
  by_cases hlen : c.length = P
  · rw [if_pos hlen]
    have hall : ∀ q, q < P → q ∈ (cartArgs c p (Elem.ofTok p t)).map (·.1) := by
      intro q hq
      have : ckeys (cartArgs c p (Elem.ofTok p t)) = ckeys c := ckeys_cartArgs _ _ _
      unfold ckeys at this
      rw [this]
      apply Decidable.by_contra
      intro hn
      have hnd : (q :: ckeys c).Nodup := List.nodup_cons.mpr ⟨hn, hcok.1⟩
      have hsub : q :: ckeys c ⊆ List.range P := by
        intro y hy
        rcases List.mem_cons.mp hy with h | h
        · exact List.mem_range.mpr (h ▸ hq)
        · exact List.mem_range.mpr (hcok.2 y h)
      have := hnd.length_le_of_subset hsub
      simp [ckeys, hlen] at this
      omega
    rw [cartEmits_ok _ _ _ (fun cfg hcfg => cartSchema_isSome hflc hall hcfg)]
    simp [rcfgs]
  · rw [if_neg hlen]
    -- some port is missing: nothing renders
    have hmiss : ∃ q, q < P ∧ q ∉ ckeys c := by
      apply Decidable.by_contra
      intro hn
      have hall : ∀ q, q < P → q ∈ ckeys c := fun q hq =>
        Decidable.by_contra (fun h => hn ⟨q, hq, h⟩)
      have hperm : (ckeys c).Perm (List.range P) :=
        (List.perm_ext_iff_of_nodup hcok.1 List.nodup_range).mpr (fun q =>
          ⟨fun h => List.mem_range.mpr (hcok.2 q h), fun h => hall q (List.mem_range.mp h)⟩)
      have := hperm.length_eq
      simp [ckeys] at this
      exact hlen this
    obtain ⟨q, hq, hqn⟩ := hmiss
    have : rcfgs (cartSchema (List.range P)) (cartArgs c p (Elem.ofTok p t)) = [] := by
      apply rcfgs_nil_of_missing (List.mem_range.mpr hq)
      have := ckeys_cartArgs c p (Elem.ofTok p t)
      unfold ckeys at this
      rw [this]; exact hqn
    rw [this]
    rfl

end SFV.Comb
