"""C05 — workflow results do not depend on the interleaving."""
from __future__ import annotations

import json
import shutil
import tempfile

from sfv.framework import Ctx, Property
from sfv.rt import wfcheck, wfgen
from sfv.rt.shrink import ddmin


def first_diff(a: str, b: str) -> str:
    pa, pb = a.split(" | "), b.split(" | ")
    for x, y in zip(pa, pb):
        if x != y:
            return f"port {x.split('=')[0]}: {x.partition('=')[2]!r} vs {y.partition('=')[2]!r}"
    return f"{len(pa)} vs {len(pb)} ports"


def compare_runs(spec: dict, runs: list[dict]):
    """the property's own oracle: all runs of one workflow agree. Yields (key, detail, seeds)"""
    good = [r for r in runs if r["outcome"]["kind"] == "return"]
    kinds = sorted({r["outcome"]["kind"] for r in runs if r["outcome"]["kind"] != "harness-error"})
    if len(kinds) > 1:
        yield "executor-outcome-differs-between-schedules", f"outcomes {[(r['seed'], r['outcome']['kind']) for r in runs]}", [r["seed"] for r in runs]
    rendered = [(r, wfcheck.render_ports(r["ports"], spec["nports"])) for r in good]
    for r, txt in rendered[1:]:
        if txt != rendered[0][1]:
            yield ("port-contents-differ-between-schedules",
                   f"schedule {rendered[0][0]['seed']} (shuffle={rendered[0][0]['shuffle']}) vs {r['seed']}: {first_diff(rendered[0][1], txt)}",
                   [rendered[0][0]["seed"], r["seed"]])
            break
    for r in good:
        if r.get("duplicate_tags"):
            yield "two-values-bound-to-one-tag", f"schedule {r['seed']}: ports with a repeated tag {r['duplicate_tags']}", [r["seed"]]
            break
    # executor return value: for output ports holding one data token the value is determined
    rets = []
    for r in good:
        single = {k: v for k, v in r["outcome"].get("ret", {}).items()
                  if len(r["ports"].get(k[3:], {})) == 1}
        rets.append((r, single))
    for r, s in rets[1:]:
        if s != rets[0][1]:
            yield "executor-return-value-differs-between-schedules", f"{rets[0][1]} vs {s}", [rets[0][0]["seed"], r["seed"]]
            break


class C05(Property):
    pid = "C05"
    title = "Workflow results do not depend on the interleaving"
    lean_targets = ["SFV.Model.Exec", "SFV.Model.LoopComb", "SFV.Model.LoopNet", "SFV.Gen.StepGuards", "SFV.Props.C05", "SFV.Props.C05Steps", "SFV.Props.C05Op", "SFV.Props.C05Gather"]
    props_files = ["SFV/Props/C05.lean", "SFV/Props/C05Steps.lean", "SFV/Props/C05Op.lean", "SFV/Props/C05Gather.lean"]
    drivers = ["Drivers/Net.lean"]
    translators = []
    rule = ("random well-formed DAG workflows (sfv.rt.wfgen; transformers with 1..3 inputs / 1..2 outputs, scatter, gather with known and "
            "unknown size and depth 2, dot products incl. parent-tag broadcast, cartesian products, conditional steps dropping or "
            "defaulting, job pipelines) run on the real StreamFlowExecutor under the default asyncio order and 3 (quick) / 8 (thorough) "
            "PRNG interleavings each (job completion order included; corpus: combinators with one scattered and two plain inputs under all "
            "6 clock-controlled arrival orders and one data-forced order; a third of the random workflows with slow transformers). Every run's per-port {tag: value} map read from token_list must "
            "equal the Lean denotation `den` of the workflow (driver), whose executable well-formedness hypotheses (wfStruct, wfDyn) must "
            "hold; all runs of a workflow must agree with each other (oracle). Non-trivial = workflow with >= 3 nodes and >= 5 data "
            "tokens in total.")
    trusted_base = [
        "hand-written denotational model lean/SFV/Model/Net.lean (per step class what it emits as a function of its inputs) compared "
        "with the real engine on every generated workflow and schedule",
        "operational model lean/SFV/Model/TfMachine.lean of the Transformer / ConditionalStep / ScheduleStep grouping loop (read from the source)",
        "the notion `Consistent`: the theorem covers every family of port logs in which each node's outputs are, up to order, its semantic "
        "function of its input logs; that every real run induces such a family rests on C03 (FIFO ports), on the per-step theorems (C01, "
        "C02, transformer_machine_eq_den) and on K; asyncio scheduling, DB awaits and job execution are outside the model",
        "generator harness/sfv/rt/wfgen.py and its Python reference py_den (used only to keep generated workflows well-formed)",
    ]
    technique = "Lean 4: executable denotation `den`, confluence of every consistent log family by induction over the topological order from per-node permutation invariance; operational=denotational theorem for the grouping steps; differential runs of the real engine under controlled interleavings"
    level_text = ("grade B (partial): every consistent log family of a well-formed DAG equals den on every port up to order (hence any two "
                  "schedules agree), per-node permutation invariance for all generated step classes, the Transformer/Conditional/Schedule loop "
                  "proved equal to its denotation for every arrival order and composed with the network (operationally consistent families "
                  "equal den); for scatter/gather/combinators the link 'real run = consistent family' is sampled (K), not proved")
    level_note = "Lean kernel, axioms within {propext, Classical.choice, Quot.sound}; den compared with the real engine on every run"
    assumptions = [
        "well-formed workflows as generated (checked by wfStruct / wfDyn in the driver on every case): DAG, one producer per port, equal tag "
        "sets on the inputs of grouping steps, distinct tags per port, prefix-antichain inputs for dot products",
        "no failures, no recovery, no loops in the generated workflows",
    ]
    quick_budget_s = 600
    thorough_budget_s = 2400
    min_nontrivial = 10

    def _plan(self, ctx: Ctx):
        n, k = (250, 8) if ctx.tier == "thorough" else (36, 3)
        if ctx.mode == "search":
            n, k = n, 16
        return n, k


    CHUNK = 8

    def _runs_for(self, ctx, pre, items, i, job_of, **kw):
        """runs of item i; the items of a chunk run in parallel worker processes (wfcheck.run_many)"""
        if i not in pre:
            chunk = items[i:i + self.CHUNK]
            outs = wfcheck.run_many([job_of(it) for it in chunk], ctx.scratch, **kw)
            pre.update({i + j: o for j, o in enumerate(outs)})
        return pre.pop(i)

    def explore(self, ctx: Ctx) -> None:
        rng = ctx.rng
        n, k = self._plan(ctx)
        CORP = wfgen.CORPUS + wfgen.ARRIVAL_CORPUS      # boundary workflows + combinators under controlled arrival orders
        lines, metas = [], []
        tfm_lines, tfm_metas = [], []
        items, pre = [], {}
        for i in range(n):
            if i < len(CORP):
                spec = json.loads(json.dumps(CORP[i]))
            feats = {"exec": 7, "scatter": 5} if rng.random() < 0.45 else ({"cart": 4, "gather": 6} if rng.random() < 0.25 else ({"loop": 3} if rng.random() < 0.25 else None))
            if i >= len(CORP):
                spec = wfgen.gen_spec(rng, size=rng.randint(2, 12), features=feats)
            seeds = [rng.randrange(1 << 30) for _ in range(k)]
            if i < len(CORP):
                seeds = [2 + j for j in range(k)]      # corpus: fixed schedules, the first one with reverse job completion order
            items.append((spec, seeds))
        for i, (spec, seeds) in enumerate(items):
            if ctx.out_of_time():
                ctx.extra["incomplete"] = True
                break
            if ctx.mode == "check" and ((i >= 20 and ctx.tier == "quick" and ctx.time_left() < 0.5 * self.quick_budget_s) or
                                        (i >= 60 and ctx.tier == "thorough" and ctx.time_left() < 0.5 * self.thorough_budget_s)):
                # heavily loaded machine: the plan is "up to n workflows", at least 20 (quick) / 60 (thorough), corpus included
                ctx.notes.append(f"soft time limit: stopped after {i} of {n} planned workflows")
                break
            if i < len(CORP):
                ctx.corpus_replayed += 1
            runs = self._runs_for(ctx, pre, items, i, lambda it: {"spec": it[0], "seeds": it[1]}, timeout=30.0, stop_on_hang=True)
            den = wfgen.py_den(spec)
            ntok = sum(len(v) for v in den.values())
            key = ("wf", json.dumps(spec, sort_keys=True)) if len(spec["nodes"]) >= 3 and ntok >= 5 else None
            ctx.case({"spec": spec, "schedules": len(runs), "tokens": ntok}, key, wfcheck.spec_bucket(spec))
            ctx.count("runs", len(runs))
            for fkey, detail, seeds_ in compare_runs(spec, runs):
                ctx.fail(fkey, detail, self._shrunk(ctx, spec, seeds_, fkey))
            for r in runs:
                if r["outcome"]["kind"] == "harness-error":
                    ctx.notes.append(f"harness error: {r['outcome']['detail'][:1500]}")
            lines.append(f"den {wfcheck.spec_words(spec)}")
            metas.append((spec, runs))
            # operational model of the grouping loop: real arrival orders in, real emission order out
            for r in runs:
                if r["outcome"]["kind"] != "return":
                    continue
                for nd in spec["nodes"]:
                    if nd["kind"] not in ("tf", "cond"):
                        continue
                    arrival = [r["order"][str(p)] for p in nd["ins"]]
                    emitted = r["order"][str(nd["outs"][0])]
                    tfm_lines.append("tfm " + " ".join(",".join(a) or "-" for a in arrival))
                    tfm_metas.append((spec, nd, r, arrival, emitted))
                    if len(arrival) > 1 and any(a != arrival[0] for a in arrival[1:]):
                        ctx.count("grouping-step-with-differently-ordered-ports")
        got = ctx.lean("Drivers/Net.lean", lines)
        for g, (spec, nd, r, arrival, emitted) in zip(ctx.lean("Drivers/Net.lean", tfm_lines), tfm_metas):
            fired = [] if g.split(";")[0] == "out=-" else g.split(";")[0][4:].split(",")
            keep = set(emitted)
            if [t for t in fired if t in keep] != emitted or not g.endswith(";left=0"):
                ctx.disagree("grouping loop (TfMachine) vs real emission order",
                             f"node {nd['id']} ({nd['kind']}): arrival {arrival}, real emission {emitted}, model {g}",
                             {"spec": spec, "seeds": [r["seed"]]})
        for g, (spec, runs) in zip(got, metas):
            head, rest = wfcheck.split_den_answer(g)
            if head != "wf=11":
                ctx.disagree("generated workflow violates the theorem's well-formedness hypotheses",
                             f"driver says {head} (wfStruct, wfDyn)", {"spec": spec})
                continue
            for r in runs:
                if r["outcome"]["kind"] != "return":
                    if r["outcome"]["kind"] != "harness-error":
                        ctx.disagree("den vs real: run did not return", f"schedule {r['seed']}: outcome {r['outcome']}",
                                     {"spec": spec, "seeds": [r["seed"]]})
                    break
                real = wfcheck.render_ports(r["ports"], spec["nports"])
                if real != rest:
                    ctx.disagree("den vs real port contents", f"schedule {r['seed']} (shuffle={r['shuffle']}): {first_diff(rest, real)} (model vs real)",
                                 {"spec": spec, "seeds": [r["seed"]]})
                    break

    def _shrunk(self, ctx, spec, seeds, fkey):
        """drop nodes while the same failure is still seen with the same schedules"""
        def fails(nodes):
            sp = dict(spec, nodes=[dict(n, id=i) for i, n in enumerate(nodes)])
            try:
                wfgen.py_den(sp)
            except Exception:  # noqa: BLE001
                return False
            produced = {p for n in sp["nodes"] for p in n["outs"]} | {s["port"] for s in sp["sources"]} | set(sp.get("closed", []))
            if any(p not in produced for n in sp["nodes"] for p in n["ins"]):
                return False
            runs = wfcheck.run_schedules(sp, [s for s in seeds if s], ctx.scratch, timeout=20.0)
            return any(k == fkey for k, _, _ in compare_runs(sp, runs))
        try:
            nodes = ddmin(spec["nodes"], fails, budget_s=20, max_tests=40)
            if nodes and len(nodes) < len(spec["nodes"]):
                spec = dict(spec, nodes=[dict(n, id=i) for i, n in enumerate(nodes)])
        except Exception:  # noqa: BLE001
            pass
        return {"spec": spec, "seeds": seeds}

    def replay(self, ctx: Ctx, data) -> None:
        r = data.get("replay") or data.get("case") or (data.get("no_longer_checks") or [{}])[0].get("case")
        if not r or "spec" not in r:
            return super().replay(ctx, data)
        spec = r["spec"]
        seeds = [s for s in r.get("seeds", [1, 2, 3]) if s] or [1, 2, 3]
        runs = wfcheck.run_schedules(spec, seeds, ctx.scratch, timeout=30.0, stop_on_hang=True)
        g = ctx.lean("Drivers/Net.lean", [f"den {wfcheck.spec_words(spec)}"])[0]
        head, rest = wfcheck.split_den_answer(g)
        print("spec :", json.dumps(spec))
        print("model:", head, rest)
        for run in runs:
            print(f"real seed={run['seed']} shuffle={run['shuffle']} outcome={run['outcome']['kind']}:",
                  wfcheck.render_ports(run.get("ports", {}), spec["nports"]))
            if run["outcome"]["kind"] == "return" and wfcheck.render_ports(run["ports"], spec["nports"]) != rest:
                ctx.disagree("den vs real", first_diff(rest, wfcheck.render_ports(run["ports"], spec["nports"])), r)
        for k, d, s in compare_runs(spec, runs):
            ctx.fail(k, d, r)


PROPERTY = C05()
