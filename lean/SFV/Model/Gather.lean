import SFV.Model.Tag
import SFV.Model.StepBase
import SFV.Gen.GatherGuards
/-! `ScatterStep._scatter` and `GatherStep.run` / `_gather` (`streamflow/workflow/step.py`).

The gather step is a deterministic state machine over the tokens it takes from its two input ports
(`__size__` and the element port). Which token it takes next is decided by the event loop
(`asyncio.wait(FIRST_COMPLETED)` over one `get` per port): that is the *arrival order*, an arbitrary
interleaving of the two FIFO ports — the list of events fed to `run`.

Dictionaries: `token_map` is observable in insertion order (forced gathering iterates over it), so it is
a key list (insertion order) plus a total function; `size_map` and `keys_completed` are only looked up.
The guards (`==` emission tests, key slice, sort comparator, forced-gather guard, scatter tag/size) come
from `SFV/Gen/GatherGuards.lean`, regenerated from the source on every run. -/
namespace SFV.Gather

structure Tok (V : Type) where
  tag : Tag
  val : V
deriving DecidableEq, Repr

/-! ### scatter -/

/-- the `for i, t in enumerate(token.value)` loop of `_scatter`, starting at index `i` -/
def scatterFrom {V} (tag : Tag) : Nat → List V → List (Tok V)
  | _, [] => []
  | i, x :: xs => ⟨tag ++ [(Gen.scatterIdx i).toNat], x⟩ :: scatterFrom tag (i + 1) xs

/-- `_scatter(token)`: the retagged elements (in emission order) and the size token `(tag, n)` -/
def scatter {V} (tag : Tag) (xs : List V) : List (Tok V) × (Tag × Nat) :=
  (scatterFrom tag 0 xs, (tag, (Gen.scatterSize xs.length).toNat))

/-! ### gather -/

inductive PortId | size | elem
deriving DecidableEq, Repr

/-- one token taken from an input port -/
inductive Ev (V : Type) where
  | elem (t : Tok V)                     -- a token from the element port
  | size (k : Tag) (n : Nat)             -- a token from `__size__`: tag `k`, value `n`
  | term (p : PortId) (st : Status)      -- the port's `TerminationToken`
deriving Repr

structure St (V : Type) where
  keys : List Tag := []                      -- keys of `token_map`, insertion order
  toks : Tag → List (Tok V) := fun _ => []   -- `token_map`
  sizes : Tag → Option Nat := fun _ => none  -- `size_map` (the values of the size tokens)
  completed : List Tag := []                 -- `keys_completed`
  status : Status := .skipped
  openSize : Bool := true                    -- a `get` task on `__size__` is (re)created
  openElem : Bool := true
  out : List (Tag × List (Tok V)) := []      -- list tokens put on the output port, in order
  terminated : Option Status := none         -- status of the termination token put at the end

/-- `".".join(token.tag.split(".")[: -self.depth])` -/
def keyOf (depth : Nat) (tag : Tag) : Tag := tag.take (tag.length - Gen.gatherDrop depth)

/-- `sorted(self.token_map[key], key=cmp_to_key(lambda x, y: compare_tags(x.tag, y.tag)))` (stable) -/
def sortToks {V} (l : List (Tok V)) : List (Tok V) :=
  l.mergeSort (fun a b => decide (Gen.gatherCmp a.tag b.tag ≤ 0))

def setKey {α} (m : Tag → α) (k : Tag) (v : α) : Tag → α := fun k' => if k' = k then v else m k'

/-- `token_map.setdefault(k, [])` on the key list -/
def addKey (keys : List Tag) (k : Tag) : List Tag := if k ∈ keys then keys else keys ++ [k]

/-- `await self._gather(key)`; `keys_completed.add(key)` -/
def emit {V} (s : St V) (k : Tag) : St V :=
  { s with out := s.out ++ [(k, sortToks (s.toks k))], completed := k :: s.completed }

/-- emission test of the element branch (`size_value` may be `None`) -/
def elemEmits (count : Nat) : Option Nat → Bool
  | some n => Gen.gatherElemEmitsSome count n
  | none => Gen.gatherElemEmitsNone

/-- the forced gathering loop `for key in (k for k in token_map if k not in keys_completed)` -/
def forceLoop {V} (s : St V) : List Tag → St V
  | [] => s
  | k :: ks =>
      if k ∈ s.completed then forceLoop s ks
      else
        -- size_map[key] = Token(len(token_map[key])) ; _gather(key)   (keys_completed is not updated)
        let s' := { s with sizes := setKey s.sizes k (some (s.toks k).length),
                           out := s.out ++ [(k, sortToks (s.toks k))] }
        forceLoop s' ks

/-- what follows the `while tasks` loop: forced gathering, then `terminate(_get_status(status))` -/
def finish {V} (s : St V) : St V :=
  let s1 := if Gen.gatherForce s.status then forceLoop s s.keys else s
  { s1 with terminated := some (getStatus s1.status s1.out.isEmpty) }

/-- one iteration of the `for task in finished` body -/
def step {V} (depth : Nat) (s : St V) : Ev V → St V
  | .elem t =>
      if !s.openElem then s else
      let key := keyOf depth t.tag
      let s1 := { s with keys := addKey s.keys key, toks := setKey s.toks key (s.toks key ++ [t]) }
      if elemEmits (s1.toks key).length (s1.sizes key) then emit s1 key else s1
  | .size k n =>
      if !s.openSize then s else
      let s1 := { s with sizes := setKey s.sizes k (some n), keys := addKey s.keys k }
      if Gen.gatherSizeEmits (s1.toks k).length n then emit s1 k else s1
  | .term p st =>
      if (p = .size ∧ !s.openSize) ∨ (p = .elem ∧ !s.openElem) then s else
      let s1 := { s with status := reduce2 s.status st,
                         openSize := s.openSize && p != .size, openElem := s.openElem && p != .elem }
      if !s1.openSize && !s1.openElem then finish s1 else s1

def run {V} (depth : Nat) (es : List (Ev V)) : St V := es.foldl (step depth) {}

end SFV.Gather

namespace SFV.Gather

/-! ### `ScatterStep.run` (and `ScatterStep.restore` with its `FilterTokenPort`) -/

/-- what the scatter step takes from its input port / is told by the recovery machinery -/
inductive SIn (V : Type) where
  | list (tag : Tag) (xs : List V)       -- a `ListToken`
  | other (tag : Tag)                    -- any other token: `_scatter` raises WorkflowDefinitionException
  | term (st : Status)                   -- the port's `TerminationToken`
  | restore (valid : List Tag)           -- `restore(on_tokens)`: the output port becomes a `FilterTokenPort` for these tags
deriving Repr

structure SSt (V : Type) where
  elems : List (Tok V) := []             -- log of the element output port
  sizes : List (Tag × Nat) := []         -- log of the `__size__` port
  filter : Option (List Tag) := none     -- `valid_tags` of the FilterTokenPort installed by `restore`
  terminated : Option Status := none     -- termination token put on both output ports
  raised : Bool := false                 -- `run` ended with an exception (nothing is terminated)

/-- `FilterTokenPort.put` for a data token -/
def passes {V} (filter : Option (List Tag)) (t : Tok V) : Bool :=
  match filter with
  | none => true
  | some valid => decide (t.tag ∈ valid)

def sstep {V} (s : SSt V) : SIn V → SSt V
  | .restore valid =>
      -- the tokens already on the old port are re-put through the filter of the new one
      { s with filter := some valid, elems := s.elems.filter (passes (some valid)) }
  | e =>
      if s.terminated.isSome || s.raised then s else
      match e with
      | .list tag xs =>
          { s with elems := s.elems ++ ((scatter tag xs).1.filter (passes s.filter)), sizes := s.sizes ++ [(scatter tag xs).2] }
      | .other _ => { s with raised := true }
      | .term st => { s with terminated := some (getStatus st (s.elems.isEmpty || s.sizes.isEmpty)) }   -- status = token.value
      | .restore _ => s

def srun {V} (es : List (SIn V)) : SSt V := es.foldl sstep {}

end SFV.Gather

namespace SFV.Gather

/-! ### provenance recorded by `_gather` (`input_token_ids = [size_map[key], *token_map[key]]`) -/

/-- the tokens a gathered list is declared to depend on: the size token of its key (`true` = it is the size token received,
    `false` = the one synthesised by the forced gathering) and the element tokens of the key in arrival order -/
structure Prov (V : Type) where
  key : Tag
  sizeReceived : Bool
  elems : List (Tok V)

/-- provenance of the list tokens emitted by one more event: `_gather(key)` reads `token_map[key]` and `size_map[key]` as they
    are at that moment; neither changes for `key` within the same event -/
def provOfStep {V} (depth : Nat) (s : St V) (e : Ev V) : List (Prov V) :=
  let s' := step depth s e
  let forced := match e with | .term _ _ => true | _ => false
  (s'.out.drop s.out.length).map (fun o => ⟨o.1, !forced, s'.toks o.1⟩)

def runProv {V} (depth : Nat) : St V → List (Ev V) → List (Prov V)
  | _, [] => []
  | s, e :: es => provOfStep depth s e ++ runProv depth (step depth s e) es

end SFV.Gather

namespace SFV.Gather

/-- provenance recorded by `_scatter` (`input_token_ids = get_entity_ids([token])`): every element and the size token emitted while
    the `k`-th event is processed depend on that event's list token. Returns (tag of the emitted token, is it the size token, k). -/
def srunProv {V} : Nat → SSt V → List (SIn V) → List (Tag × Bool × Nat)
  | _, _, [] => []
  | k, s, e :: es =>
      let s' := sstep s e
      let isRestore := match e with | .restore _ => true | _ => false
      (if isRestore then [] else
        ((s'.elems.drop s.elems.length).map (fun t => (t.tag, false, k)) ++ (s'.sizes.drop s.sizes.length).map (fun z => (z.1, true, k))))
      ++ srunProv (k + 1) s' es

end SFV.Gather
