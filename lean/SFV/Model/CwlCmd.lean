import SFV.Model.CwlCmdSh
import SFV.Gen.CwlCmdTpl
/-! # CwlCmd — command-line binding: StreamFlow's algorithm next to the CWL standard's

Modelled fragment: inputs of scalar type (string / int / float / enum / File path — all already rendered as text by
`_get_value_repr` / the path), booleans, nulls, arrays of scalars with an outer `inputBinding` (optionally
`itemSeparator`, optionally a binding on the items), inputs without binding, `arguments` (literal or already
evaluated `valueFrom`), `position`, `prefix`, `separate`, `shellQuote` under `ShellCommandRequirement`.
`valueFrom` is an already evaluated value. Records, nested arrays and arrays of booleans are outside (K only). -/
namespace SFV.CwlCmd

inductive Val where
  | null
  | bool (b : Bool)
  | str (s : String)
  | arr (items : List String)
deriving Repr, DecidableEq

structure Bind where
  position : Int := 0
  prefix_ : Option String := none
  separate : Bool := true
  itemSeparator : Option String := none
  shellQuote : Bool := true
deriving Repr, DecidableEq

/-- one `inputs` entry or one `arguments` entry -/
structure Param where
  name : Option String        -- `none`: an entry of `arguments`
  index : Nat                 -- position in the `arguments` array (0 for inputs)
  bind : Option Bind          -- `none`: no inputBinding (not on the command line)
  itemBind : Option Bind      -- binding on the array's items
  value : Val
deriving Repr, DecidableEq

/-- an element of the command line with its quoting flag -/
structure Elem where
  text : String
  quoted : Bool
deriving Repr, DecidableEq

/-! ## The standard (cwltool's `bind_input` / `generate_arg` on the fragment) -/

/-- sort key `[position, tie]`: arguments tie on their index, inputs on their name; an integer sorts before a string -/
def specLe (a b : Param) : Bool :=
  let pa := (a.bind.map (·.position)).getD 0
  let pb := (b.bind.map (·.position)).getD 0
  if pa < pb then true else if pb < pa then false else
  match a.name, b.name with
  | none, none => a.index ≤ b.index
  | none, some _ => true
  | some _, none => false
  | some x, some y => x ≤ y

def withPrefix (b : Bind) (s : String) : List String :=
  match b.prefix_ with
  | none => [s]
  | some p => if b.separate then [p, s] else [p ++ s]

/-- `generate_arg` -/
def specArgs (p : Param) : List String :=
  match p.bind with
  | none => []
  | some b =>
    match p.value with
    | .null => []
    | .bool v => if v then (match b.prefix_ with | some pf => [pf] | none => []) else []
    | .str s => withPrefix b s
    | .arr items =>
      if items.isEmpty then [] else
      match b.itemSeparator with
      | some sep => withPrefix b (sep.intercalate items)
      | none =>
        (match b.prefix_ with | some pf => [pf] | none => []) ++
        (match p.itemBind with
         | none => items
         | some ib => items.flatMap (fun it => withPrefix ib it))

def specQuoted (shell : Bool) (p : Param) : Bool :=
  !shell || (p.bind.map (·.shellQuote)).getD true

/-! ## StreamFlow (`CWLCommandTokenProcessor.bind`, `_merge_tokens`, `_get_executable_command`) -/

/-- how `create_command` renders the value of an environment variable (quoting style regenerated from the source) -/
def envRender (v : List Char) : List Char :=
  match Gen.CwlCmdTpl.envQuote with
  | .dq => dqRender v
  | .shlex => shlexQuote v
  | .raw => v

/-- sort key `[t.position, t.name] if t.name is not None else [t.position]` (Python list comparison; the shape of the
key is checked by the extractor: `Gen.CwlCmdTpl.sortKeyPositionThenName`) -/
def sfLe (a b : Param) : Bool :=
  let pa := (a.bind.map (·.position)).getD 0
  let pb := (b.bind.map (·.position)).getD 0
  if pa < pb then true else if pb < pa then false else
  match a.name, b.name with
  | none, _ => true
  | some _, none => false
  | some x, some y => x ≤ y

/-- the value after `_get_value_for_command` -/
inductive CmdVal where
  | none_
  | bool (b : Bool)
  | one (s : String)
  | many (l : List String)

def valueForCommand (v : Val) (itemSeparator : Option String) (inner : List String → List String) : CmdVal :=
  match v with
  | .null => .none_
  | .bool b => .bool b
  | .str s => .one s
  | .arr items =>
    let vals := inner items
    if vals.isEmpty then .none_ else
    match itemSeparator with
    | some sep => .one (sep.intercalate vals)
    | none => .many vals

/-- prefix handling of `bind` -/
def applyPrefix (b : Bind) : CmdVal → Option (List String)
  | .none_ => none
  | .bool v =>
      (match b.prefix_ with
       | some pf => if v then some [pf] else none
       | none => none)
  | .one s =>
      (match b.prefix_ with
       | some pf => if b.separate then some [pf, s] else some [pf ++ s]
       | none => some [s])
  | .many l =>
      (match b.prefix_ with
       | some pf => some (pf :: l)       -- both for `separate` and for `not separate`: `[self.prefix, *value]`
       | none => some l)

/-- the inner `CWLMapCommandTokenProcessor`: items through their own processor (binding or forward) -/
def sfItems (itemBind : Option Bind) (items : List String) : List String :=
  match itemBind with
  | none => items
  | some ib => items.flatMap (fun it => (applyPrefix ib (.one it)).getD [])

def sfArgs (p : Param) : List String :=
  match p.bind with
  | none => []
  | some b => (applyPrefix b (valueForCommand p.value b.itemSeparator (sfItems p.itemBind))).getD []

/-- `if not self.is_shell_command or self.shell_quote: escape` -/
def sfQuoted (shell : Bool) (p : Param) : Bool :=
  !shell || (p.bind.map (·.shellQuote)).getD true

/-- Python's stable `sorted` with a total preorder: insertion from the right -/
def insertBy (le : Param → Param → Bool) (x : Param) : List Param → List Param
  | [] => [x]
  | y :: r => if le x y then x :: y :: r else y :: insertBy le x r

def sortBy (le : Param → Param → Bool) : List Param → List Param
  | [] => []
  | x :: r => insertBy le x (sortBy le r)

def elemsOf (args : Param → List String) (quoted : Param → Bool) (ps : List Param) : List Elem :=
  ps.flatMap (fun p => (args p).map (fun s => { text := s, quoted := quoted p }))

/-- command line elements after the base command -/
def sfElems (shell : Bool) (ps : List Param) : List Elem := elemsOf sfArgs (sfQuoted shell) (sortBy sfLe ps)
def specElems (shell : Bool) (ps : List Param) : List Elem := elemsOf specArgs (specQuoted shell) (sortBy specLe ps)

/-- the command string handed to the shell -/
def renderElems (es : List Elem) : List Char :=
  joinSp (es.map (fun e => if e.quoted then shlexQuote e.text.toList else e.text.toList))

/-! ## Stream redirections (`CWLCommand.execute` + `create_command`)

`none` stands for `asyncio.subprocess.STDOUT` ("not redirected"). -/

/-- where the tool's standard error ends up -/
inductive ErrTarget where
  | inherit                 -- the runner's own stderr / log
  | toStdout                -- merged into the tool's standard output (`2>&1`)
  | file (f : List Char)
deriving Repr, DecidableEq

structure Streams where
  stdin : Option (List Char)
  stdout : Option (List Char)
  stderr : ErrTarget
deriving Repr, DecidableEq

/-- the standard: `stdin` / `stdout` / `stderr` of the tool description, each redirected only when declared -/
def specStreams (i o e : Option (List Char)) : Streams :=
  { stdin := i, stdout := o, stderr := match e with | some f => .file f | none => .inherit }

/-- tokens of the command suffix `create_command` appends -/
inductive RTok where
  | lt | gt | errTo | errDup
  | word (w : List Char)
deriving Repr, DecidableEq

/-- `CWLCommand.execute`: `stderr = eval(self.stderr) if self.stderr is not None else stdout`; then `create_command`:
`{stdin}{stdout}{stderr}` with `" 2>&1"` when `stderr == stdout` -/
def sfSuffix (i o e : Option (List Char)) : List RTok :=
  let err := match e with | some f => some f | none => (if Gen.CwlCmdTpl.stderrDefaultsToStdout then o else none)
  (match i with | some f => [.lt, .word (shlexQuote f)] | none => []) ++
  (match o with | some f => [.gt, .word (shlexQuote f)] | none => []) ++
  (if err = o then [.errDup] else match err with | some f => [.errTo, .word (shlexQuote f)] | none => [])

def renderSuffix : List RTok → List Char
  | [] => []
  | .lt :: .word w :: r => " < ".toList ++ w ++ renderSuffix r
  | .gt :: .word w :: r => " > ".toList ++ w ++ renderSuffix r
  | .errTo :: .word w :: r => " 2>".toList ++ w ++ renderSuffix r
  | .errDup :: r => " 2>&1".toList ++ renderSuffix r
  | _ :: r => renderSuffix r

def wordOf (w : List Char) : Option (List Char) :=
  match parseCmd .unq w [] [] with
  | some [x] => some x
  | _ => none

/-- what `/bin/sh` does with the suffix, left to right -/
def interpSuffix : List RTok → Streams → Option Streams
  | [], s => some s
  | .lt :: .word w :: r, s => match wordOf w with
      | some f => interpSuffix r { s with stdin := some f }
      | none => none
  | .gt :: .word w :: r, s => match wordOf w with
      | some f => interpSuffix r { s with stdout := some f }
      | none => none
  | .errTo :: .word w :: r, s => match wordOf w with
      | some f => interpSuffix r { s with stderr := .file f }
      | none => none
  | .errDup :: r, s => interpSuffix r { s with stderr := .toStdout }
  | _, _ => none

def noStreams : Streams := { stdin := none, stdout := none, stderr := .inherit }

end SFV.CwlCmd
