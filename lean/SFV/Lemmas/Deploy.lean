import SFV.Model.Deploy
/-! Inductive invariants of the single-name deployment protocol (`SFV/Model/Deploy.lean`). -/
namespace SFV.Deploy

/-! projections of the state-update helpers -/
@[simp, grind =] theorem setPc_lazy (s : St) (p : Nat) (c : Pc) : (setPc s p c).lazy = s.lazy := rfl
@[simp, grind =] theorem setPc_config (s : St) (p : Nat) (c : Pc) : (setPc s p c).config = s.config := rfl
@[simp, grind =] theorem setPc_depmap (s : St) (p : Nat) (c : Pc) : (setPc s p c).depmap = s.depmap := rfl
@[simp, grind =] theorem setPc_evmap (s : St) (p : Nat) (c : Pc) : (setPc s p c).evmap = s.evmap := rfl
@[simp, grind =] theorem setPc_evs (s : St) (p : Nat) (c : Pc) (k0 : Nat) : (setPc s p c).evs k0 = (s.evs k0) := rfl
@[simp, grind =] theorem setPc_nEv (s : St) (p : Nat) (c : Pc) : (setPc s p c).nEv = s.nEv := rfl
@[simp, grind =] theorem setPc_dg (s : St) (p : Nat) (c : Pc) : (setPc s p c).dg = s.dg := rfl
@[simp, grind =] theorem setPc_objs (s : St) (p : Nat) (c : Pc) (k0 : Nat) : (setPc s p c).objs k0 = (s.objs k0) := rfl
@[simp, grind =] theorem setPc_nObj (s : St) (p : Nat) (c : Pc) : (setPc s p c).nObj = s.nObj := rfl
@[simp, grind =] theorem setPc_futs (s : St) (p : Nat) (c : Pc) (k0 : Nat) : (setPc s p c).futs k0 = (s.futs k0) := rfl
@[simp, grind =] theorem setPc_nFut (s : St) (p : Nat) (c : Pc) : (setPc s p c).nFut = s.nFut := rfl
@[simp, grind =] theorem setPc_pc (s : St) (p : Nat) (c : Pc) (q0 : Nat) : (setPc s p c).pc q0 = (if q0 = p then c else s.pc q0) := rfl
@[simp, grind =] theorem setPc_bad (s : St) (p : Nat) (c : Pc) : (setPc s p c).bad = s.bad := rfl
@[simp, grind =] theorem setObj_lazy (s : St) (o : Nat) (v : Obj) : (setObj s o v).lazy = s.lazy := rfl
@[simp, grind =] theorem setObj_config (s : St) (o : Nat) (v : Obj) : (setObj s o v).config = s.config := rfl
@[simp, grind =] theorem setObj_depmap (s : St) (o : Nat) (v : Obj) : (setObj s o v).depmap = s.depmap := rfl
@[simp, grind =] theorem setObj_evmap (s : St) (o : Nat) (v : Obj) : (setObj s o v).evmap = s.evmap := rfl
@[simp, grind =] theorem setObj_evs (s : St) (o : Nat) (v : Obj) (k0 : Nat) : (setObj s o v).evs k0 = (s.evs k0) := rfl
@[simp, grind =] theorem setObj_nEv (s : St) (o : Nat) (v : Obj) : (setObj s o v).nEv = s.nEv := rfl
@[simp, grind =] theorem setObj_dg (s : St) (o : Nat) (v : Obj) : (setObj s o v).dg = s.dg := rfl
@[simp, grind =] theorem setObj_objs (s : St) (o : Nat) (v : Obj) (k0 : Nat) : (setObj s o v).objs k0 = (if k0 = o then v else s.objs k0) := rfl
@[simp, grind =] theorem setObj_nObj (s : St) (o : Nat) (v : Obj) : (setObj s o v).nObj = s.nObj := rfl
@[simp, grind =] theorem setObj_futs (s : St) (o : Nat) (v : Obj) (k0 : Nat) : (setObj s o v).futs k0 = (s.futs k0) := rfl
@[simp, grind =] theorem setObj_nFut (s : St) (o : Nat) (v : Obj) : (setObj s o v).nFut = s.nFut := rfl
@[simp, grind =] theorem setObj_pc (s : St) (o : Nat) (v : Obj) (q0 : Nat) : (setObj s o v).pc q0 = (s.pc q0) := rfl
@[simp, grind =] theorem setObj_bad (s : St) (o : Nat) (v : Obj) : (setObj s o v).bad = s.bad := rfl
@[simp, grind =] theorem setFut_lazy (s : St) (f : Nat) (v : Fut) : (setFut s f v).lazy = s.lazy := rfl
@[simp, grind =] theorem setFut_config (s : St) (f : Nat) (v : Fut) : (setFut s f v).config = s.config := rfl
@[simp, grind =] theorem setFut_depmap (s : St) (f : Nat) (v : Fut) : (setFut s f v).depmap = s.depmap := rfl
@[simp, grind =] theorem setFut_evmap (s : St) (f : Nat) (v : Fut) : (setFut s f v).evmap = s.evmap := rfl
@[simp, grind =] theorem setFut_evs (s : St) (f : Nat) (v : Fut) (k0 : Nat) : (setFut s f v).evs k0 = (s.evs k0) := rfl
@[simp, grind =] theorem setFut_nEv (s : St) (f : Nat) (v : Fut) : (setFut s f v).nEv = s.nEv := rfl
@[simp, grind =] theorem setFut_dg (s : St) (f : Nat) (v : Fut) : (setFut s f v).dg = s.dg := rfl
@[simp, grind =] theorem setFut_objs (s : St) (f : Nat) (v : Fut) (k0 : Nat) : (setFut s f v).objs k0 = (s.objs k0) := rfl
@[simp, grind =] theorem setFut_nObj (s : St) (f : Nat) (v : Fut) : (setFut s f v).nObj = s.nObj := rfl
@[simp, grind =] theorem setFut_futs (s : St) (f : Nat) (v : Fut) (k0 : Nat) : (setFut s f v).futs k0 = (if k0 = f then v else s.futs k0) := rfl
@[simp, grind =] theorem setFut_nFut (s : St) (f : Nat) (v : Fut) : (setFut s f v).nFut = s.nFut := rfl
@[simp, grind =] theorem setFut_pc (s : St) (f : Nat) (v : Fut) (q0 : Nat) : (setFut s f v).pc q0 = (s.pc q0) := rfl
@[simp, grind =] theorem setFut_bad (s : St) (f : Nat) (v : Fut) : (setFut s f v).bad = s.bad := rfl
@[simp, grind =] theorem setEvent_lazy (s : St) (e : Nat) : (setEvent s e).lazy = s.lazy := rfl
@[simp, grind =] theorem setEvent_config (s : St) (e : Nat) : (setEvent s e).config = s.config := rfl
@[simp, grind =] theorem setEvent_depmap (s : St) (e : Nat) : (setEvent s e).depmap = s.depmap := rfl
@[simp, grind =] theorem setEvent_evmap (s : St) (e : Nat) : (setEvent s e).evmap = s.evmap := rfl
@[simp, grind =] theorem setEvent_evs (s : St) (e : Nat) (k0 : Nat) : (setEvent s e).evs k0 = (if k0 = e then true else s.evs k0) := rfl
@[simp, grind =] theorem setEvent_nEv (s : St) (e : Nat) : (setEvent s e).nEv = s.nEv := rfl
@[simp, grind =] theorem setEvent_dg (s : St) (e : Nat) : (setEvent s e).dg = s.dg := rfl
@[simp, grind =] theorem setEvent_objs (s : St) (e : Nat) (k0 : Nat) : (setEvent s e).objs k0 = (s.objs k0) := rfl
@[simp, grind =] theorem setEvent_nObj (s : St) (e : Nat) : (setEvent s e).nObj = s.nObj := rfl
@[simp, grind =] theorem setEvent_futs (s : St) (e : Nat) (k0 : Nat) : (setEvent s e).futs k0 = (s.futs k0) := rfl
@[simp, grind =] theorem setEvent_nFut (s : St) (e : Nat) : (setEvent s e).nFut = s.nFut := rfl
@[simp, grind =] theorem setEvent_bad (s : St) (e : Nat) : (setEvent s e).bad = s.bad := rfl
@[simp, grind =] theorem wakeFut_lazy (s : St) (f : Nat) : (wakeFut s f).lazy = s.lazy := rfl
@[simp, grind =] theorem wakeFut_config (s : St) (f : Nat) : (wakeFut s f).config = s.config := rfl
@[simp, grind =] theorem wakeFut_depmap (s : St) (f : Nat) : (wakeFut s f).depmap = s.depmap := rfl
@[simp, grind =] theorem wakeFut_evmap (s : St) (f : Nat) : (wakeFut s f).evmap = s.evmap := rfl
@[simp, grind =] theorem wakeFut_evs (s : St) (f : Nat) (k0 : Nat) : (wakeFut s f).evs k0 = (s.evs k0) := rfl
@[simp, grind =] theorem wakeFut_nEv (s : St) (f : Nat) : (wakeFut s f).nEv = s.nEv := rfl
@[simp, grind =] theorem wakeFut_dg (s : St) (f : Nat) : (wakeFut s f).dg = s.dg := rfl
@[simp, grind =] theorem wakeFut_objs (s : St) (f : Nat) (k0 : Nat) : (wakeFut s f).objs k0 = (s.objs k0) := rfl
@[simp, grind =] theorem wakeFut_nObj (s : St) (f : Nat) : (wakeFut s f).nObj = s.nObj := rfl
@[simp, grind =] theorem wakeFut_futs (s : St) (f : Nat) (k0 : Nat) : (wakeFut s f).futs k0 = (s.futs k0) := rfl
@[simp, grind =] theorem wakeFut_nFut (s : St) (f : Nat) : (wakeFut s f).nFut = s.nFut := rfl
@[simp, grind =] theorem wakeFut_bad (s : St) (f : Nat) : (wakeFut s f).bad = s.bad := rfl
@[simp, grind =] theorem setEvent_pc (s : St) (e q : Nat) : (setEvent s e).pc q =
    (match s.pc q with
     | .dWait e' => if e' = e then .dWoken else .dWait e'
     | .uWait e' => if e' = e then .uWoken else .uWait e'
     | c => c) := rfl
@[simp, grind =] theorem wakeFut_pc (s : St) (f q : Nat) : (wakeFut s f).pc q =
    (match s.pc q with
     | .fWait f' => if f' = f then .fWoken f else .fWait f'
     | .uFWait f' e => if f' = f then .uFWoken f e else .uFWait f' e
     | c => c) := rfl

attribute [local grind] Obj.active Obj.live Obj.absent Fut.absent

/-- normalise the projections of the update helpers, then `grind` -/
macro "sg" : tactic => `(tactic| first | (simp; done) | (simp; grind) | grind)

/-- bookkeeping of eager deployments: the connector in `deployments_map` is the only one that is deploying/live -/
def InvE (s : St) : Prop :=
  (∀ o, s.depmap = some (.eager o) → s.lazy = false) ∧ (∀ f, s.depmap = some (.future f) → s.lazy = true) ∧
  (∀ o, s.lazy = false → (s.objs o).fut = none) ∧
  (∀ o, s.lazy = true → (s.objs o).active = true → (s.objs o).fut ≠ none) ∧
  ((∀ o o', (s.objs o).fut = none → (s.objs o').fut = none → (s.objs o).active = true → (s.objs o').active = true → o = o') ∧
   (∀ o, (s.objs o).fut = none → (s.objs o).active = true → s.config = true)) ∧
  (∀ d, s.depmap = some d → s.config = true) ∧
  (∀ o, s.depmap = some (.eager o) → (s.objs o).active = true) ∧
  (∀ k, s.nObj ≤ k → s.objs k = Obj.absent) ∧
  (∀ o, Bad.doubleUndeploy o ∈ s.bad → s.lazy = true) ∧
  (∀ f, s.lazy = false → s.futs f = Fut.absent) ∧
  (∀ p o, s.pc p = .dConn o → (s.objs o).dep = .deploying ∧ (s.objs o).fut = none ∧ o < s.nObj) ∧
  (∀ p q o, s.pc p = .dConn o → s.pc q = .dConn o → p = q) ∧
  (∀ p o e, s.pc p = .uConn o e → (s.objs o).und ≠ .none ∧ o < s.nObj) ∧
  (∀ p f o, s.pc p = .fConn f o → (s.objs o).fut = some f ∧ o < s.nObj ∧ s.lazy = true) ∧
  (∀ f o, (s.futs f).conn = some o → (s.objs o).fut = some f ∧ o < s.nObj)

theorem invE_init (lazy kinds) : InvE (init lazy kinds) := by
  simp [InvE, init, Obj.absent, Obj.active, Fut.absent]
  refine ⟨?_, ?_, ?_, ?_⟩ <;> intro p <;> intros <;> split at * <;> simp_all

theorem invE_finishDeploy {s : St} {p} (h : InvE s) : InvE (finishDeploy s p) := by
  obtain ⟨h1, h2, h3, h3', ⟨h4, h4b⟩, h5, h6, h7, h8, h9, h10, h11, h12, h13, h14⟩ := h
  unfold finishDeploy
  split <;> (refine ⟨?_, ?_, ?_, ?_, ⟨?_, ?_⟩, ?_, ?_, ?_, ?_, ?_, ?_, ?_, ?_, ?_, ?_⟩ <;> sg)

theorem invE_setEvent {s : St} {e} (h : InvE s) : InvE (setEvent s e) := by
  obtain ⟨h1, h2, h3, h3', ⟨h4, h4b⟩, h5, h6, h7, h8, h9, h10, h11, h12, h13, h14⟩ := h
  refine ⟨?_, ?_, ?_, ?_, ⟨?_, ?_⟩, ?_, ?_, ?_, ?_, ?_, ?_, ?_, ?_, ?_, ?_⟩ <;> sg

theorem invE_setPc {s : St} {p c} (h : InvE s) (hc : ∀ o, c ≠ Pc.dConn o := by intros; simp) (hc2 : ∀ o e, c ≠ Pc.uConn o e := by intros; simp)
    (hc3 : ∀ f o, c ≠ Pc.fConn f o := by intros; simp) : InvE (setPc s p c) := by
  obtain ⟨h1, h2, h3, h3', ⟨h4, h4b⟩, h5, h6, h7, h8, h9, h10, h11, h12, h13, h14⟩ := h
  refine ⟨?_, ?_, ?_, ?_, ⟨?_, ?_⟩, ?_, ?_, ?_, ?_, ?_, ?_, ?_, ?_, ?_, ?_⟩ <;> sg

theorem invE_wakeFut {s : St} {f} (h : InvE s) : InvE (wakeFut s f) := by
  obtain ⟨h1, h2, h3, h3', ⟨h4, h4b⟩, h5, h6, h7, h8, h9, h10, h11, h12, h13, h14⟩ := h
  refine ⟨?_, ?_, ?_, ?_, ⟨?_, ?_⟩, ?_, ?_, ?_, ?_, ?_, ?_, ?_, ?_, ?_, ?_⟩ <;> sg

theorem invE_register {s : St} {p} (h : InvE s) (hc : s.config = false) : InvE (register s p) := by
  obtain ⟨h1, h2, h3, h3', ⟨h4, h4b⟩, h5, h6, h7, h8, h9, h10, h11, h12, h13, h14⟩ := h
  unfold register
  split
  · apply invE_finishDeploy
    apply invE_setEvent
    refine ⟨?_, ?_, ?_, ?_, ⟨?_, ?_⟩, ?_, ?_, ?_, ?_, ?_, ?_, ?_, ?_, ?_, ?_⟩ <;> sg
  · refine ⟨?_, ?_, ?_, ?_, ⟨?_, ?_⟩, ?_, ?_, ?_, ?_, ?_, ?_, ?_, ?_, ?_, ?_⟩ <;> sg

theorem invE_afterWait {s : St} {p} (h : InvE s) : InvE (afterWait s p) := by
  unfold afterWait
  split
  · exact invE_setPc h
  · split
    · exact invE_finishDeploy h
    · exact invE_register h (by simp_all)

theorem invE_loopHead {s : St} {p} (h : InvE s) : InvE (loopHead s p) := by
  unfold loopHead
  split
  · exact invE_register h (by simp_all)
  · split
    · exact invE_setPc h
    · split
      · exact invE_afterWait h
      · exact invE_setPc h

theorem invE_uBody {cfg : Cfg} {s : St} {p} (h : InvE s) : InvE (uBody cfg s p) := by
  have h' := h
  obtain ⟨h1, h2, h3, h3', ⟨h4, h4b⟩, h5, h6, h7, h8, h9, h10, h11, h12, h13, h14⟩ := h
  unfold uBody
  split
  · rename_i x dm e hdg hdm hev
    split
    · rename_i o
      have hu := h6 o hdm
      have hlt : o < s.nObj := by
        rcases Nat.lt_or_ge o s.nObj with h | h
        · exact h
        · have := h7 o h; simp_all [Obj.absent, Obj.active]
      unfold callUndeploy
      refine ⟨?_, ?_, ?_, ?_, ⟨?_, ?_⟩, ?_, ?_, ?_, ?_, ?_, ?_, ?_, ?_, ?_, ?_⟩ <;> sg
    · rename_i f
      have hl := h2 f hdm
      split
      · unfold callUndeploy
        refine ⟨?_, ?_, ?_, ?_, ⟨?_, ?_⟩, ?_, ?_, ?_, ?_, ?_, ?_, ?_, ?_, ?_, ?_⟩ <;> sg
      · split <;> (refine ⟨?_, ?_, ?_, ?_, ⟨?_, ?_⟩, ?_, ?_, ?_, ?_, ?_, ?_, ?_, ?_, ?_, ?_⟩ <;> sg)
  · refine invE_setPc ?_
    refine ⟨?_, ?_, ?_, ?_, ⟨?_, ?_⟩, ?_, ?_, ?_, ?_, ?_, ?_, ?_, ?_, ?_, ?_⟩ <;> sg
  · exact invE_setPc h'

theorem invE_callUndeploy_lazy {s : St} {p o e} (h : InvE s) (hl : s.lazy = true) (ho : o < s.nObj) : InvE (callUndeploy s p o e) := by
  obtain ⟨h1, h2, h3, h3', ⟨h4, h4b⟩, h5, h6, h7, h8, h9, h10, h11, h12, h13, h14⟩ := h
  unfold callUndeploy
  refine ⟨?_, ?_, ?_, ?_, ⟨?_, ?_⟩, ?_, ?_, ?_, ?_, ?_, ?_, ?_, ?_, ?_, ?_⟩ <;> sg

theorem invE_useStart {s : St} {p} (h : InvE s) : InvE (useStart s p) := by
  have h' := h
  obtain ⟨h1, h2, h3, h3', ⟨h4, h4b⟩, h5, h6, h7, h8, h9, h10, h11, h12, h13, h14⟩ := h
  unfold useStart
  split
  · exact invE_setPc h'
  · exact invE_setPc h'
  · rename_i f hdm
    have hl := h2 f hdm
    simp only []
    split
    · exact invE_setPc h'
    · split
      · refine ⟨?_, ?_, ?_, ?_, ⟨?_, ?_⟩, ?_, ?_, ?_, ?_, ?_, ?_, ?_, ?_, ?_, ?_⟩ <;> sg
      · split <;> exact invE_setPc h'

theorem invE_connFail_stale {s : St} {p o} (h : InvE s) (hpc : s.pc p = .dConn o) (hd : s.depmap = none) :
    InvE (setPc (setObj s o { s.objs o with dep := .failed }) p .failed) := by
  obtain ⟨h1, h2, h3, h3', ⟨h4, h4b⟩, h5, h6, h7, h8, h9, h10, h11, h12, h13, h14⟩ := h
  have hp := h10 p o hpc
  refine ⟨?_, ?_, ?_, ?_, ⟨?_, ?_⟩, ?_, ?_, ?_, ?_, ?_, ?_, ?_, ?_, ?_, ?_⟩ <;> sg

theorem invE_connFail_own {s : St} {p o e} (h : InvE s) (hpc : s.pc p = .dConn o) :
    InvE (setPc (setEvent (setObj { s with depmap := none } o { s.objs o with dep := .failed }) e) p .failed) := by
  obtain ⟨h1, h2, h3, h3', ⟨h4, h4b⟩, h5, h6, h7, h8, h9, h10, h11, h12, h13, h14⟩ := h
  have hp := h10 p o hpc
  refine ⟨?_, ?_, ?_, ?_, ⟨?_, ?_⟩, ?_, ?_, ?_, ?_, ?_, ?_, ?_, ?_, ?_, ?_⟩ <;> sg

theorem invE_step {cfg : Cfg} {s a s'} (h : InvE s) (hs : step cfg s a = some s') : InvE s' := by
  have h' := h
  obtain ⟨h1, h2, h3, h3', ⟨h4, h4b⟩, h5, h6, h7, h8, h9, h10, h11, h12, h13, h14⟩ := h
  cases a with
  | start p =>
    simp only [step] at hs
    (repeat' split at hs) <;> first
      | (cases hs; done)
      | (cases hs; first | exact invE_loopHead h' | exact invE_uBody h' | exact invE_setPc h' | exact invE_useStart h')
  | wake p =>
    simp only [step] at hs
    (repeat' split at hs) <;> first
      | (cases hs; done)
      | (cases hs; first
          | exact invE_afterWait h'
          | exact invE_uBody h'
          | exact invE_setPc h'
          | exact invE_setPc (invE_setEvent h')
          | (apply invE_callUndeploy_lazy h' <;> grind))
  | connOk p =>
    simp only [step] at hs
    split at hs
    · rename_i o hpc
      have hp := h10 p o hpc
      split at hs
      · cases hs
        unfold finishDeploy
        split <;> refine ⟨?_, ?_, ?_, ?_, ⟨?_, ?_⟩, ?_, ?_, ?_, ?_, ?_, ?_, ?_, ?_, ?_, ?_⟩ <;> sg
      · cases hs
    · rename_i o own hpc
      have hp := h12 p o own hpc
      split at hs
      · cases hs
        refine ⟨?_, ?_, ?_, ?_, ⟨?_, ?_⟩, ?_, ?_, ?_, ?_, ?_, ?_, ?_, ?_, ?_, ?_⟩ <;> sg
      · cases hs
    · rename_i f o hpc
      have hp := h13 p f o hpc
      cases hs
      refine invE_setPc (invE_wakeFut ?_)
      refine ⟨?_, ?_, ?_, ?_, ⟨?_, ?_⟩, ?_, ?_, ?_, ?_, ?_, ?_, ?_, ?_, ?_, ?_⟩ <;> sg
    · cases hs
  | connFail p =>
    simp only [step] at hs
    split at hs
    · rename_i o hpc
      have hp := h10 p o hpc
      split at hs
      · split at hs
        · rename_i hnone
          have hd : s.depmap = none := by
            cases hx : s.depmap with
            | none => rfl
            | some d => rw [hx] at hnone; simp at hnone
          cases hs
          exact invE_connFail_stale h' hpc hd
        · cases hs
          exact invE_connFail_own h' hpc
      · cases hs
    · rename_i f o hpc
      have hp := h13 p f o hpc
      cases hs
      refine invE_setPc (invE_wakeFut ?_)
      refine ⟨?_, ?_, ?_, ?_, ⟨?_, ?_⟩, ?_, ?_, ?_, ?_, ?_, ?_, ?_, ?_, ?_, ?_⟩ <;> sg
    · cases hs

theorem invE_reachable {cfg lazy kinds s} (h : Reachable cfg lazy kinds s) : InvE s := by
  induction h with
  | init => exact invE_init lazy kinds
  | step _ hs ih => exact invE_step ih hs

end SFV.Deploy
